(* GoStr/Proofs.v — the round-trip theorem of C06 and its corollaries.

   Main statement ([gtop_roundtrip]): for every type whose struct fields are all exported
   and every well-typed value with finite floats, the expression printed by the generated
   GoString function evaluates (under the type-directed semantics of Geval.v) to a value
   that is structurally equal ([spec_eq], C02) to the original: same nil-ness at every
   pointer, slice and map, same lengths, key sets, leaves and pointer targets. *)
From Coq Require Import String Lia.
From Verif Require Import Go.Ty Go.Val Go.Equal Go.EqualProofs Go.CompareSpec Go.Canon
  GoStr.Model GoStr.Geval GoStr.Match.
Open Scope Z_scope.

(* the evaluator and the model are functions: one text, one value *)
Lemma geval_deterministic e t g n r1 r2 : geval e t g n = r1 -> geval e t g n = r2 -> r1 = r2.
Proof. intros <- <-. reflexivity. Qed.

(* ---------- unfoldings ---------- *)
Lemma finite_unfold e t v :
  finite e t v =
  match resolve e t with
  | None => false
  | Some r =>
      let e' := r_env r in
      match r_node r, v with
      | TB k, _ => fin_ok k v
      | TP t', VPtr _ v' => finite e' t' v'
      | TSl t', VSl _ es _ => forallb (finite e' t') es
      | TAr _ t', VArr es => forallb (finite e' t') es
      | TM tk tv, VMap _ kvs => forallb (fun kv => finite e' tk (fst kv) && finite e' tv (snd kv))%bool kvs
      | TSt fs, VSt vs => fields_ok (finite e') fs vs
      | _, _ => true
      end
  end.
Proof. destruct v; reflexivity. Qed.

(* ---------- leaves ---------- *)
Lemma feq_nz n m : feq n m (nz n m) m = true.
Proof.
  unfold feq, nz. destruct (N.eqb m 0) eqn:E; cbn; [reflexivity|].
  rewrite N.eqb_refl. destruct n; reflexivity.
Qed.

Lemma bytes_eqb_refl s : bytes_eqb s s = true.
Proof. induction s as [|b s IH]; cbn; [reflexivity|]. rewrite N.eqb_refl. exact IH. Qed.

Lemma leaf_eq_norm0 k v : basic_ok k v = true -> leaf_eq k v (norm0 v) = Some true.
Proof.
  destruct k, v; cbn; intros H; try discriminate;
    try (rewrite feq_nz; reflexivity); try (rewrite !feq_nz; reflexivity).
  - destruct b; reflexivity.
  - rewrite Z.eqb_refl. reflexivity.
  - rewrite bytes_eqb_refl. reflexivity.
Qed.

Lemma scalar_eval_ok k v : basic_ok k v = true -> fin_ok k v = true -> scalar_eval k v = Some (norm0 v).
Proof. intros B F. unfold scalar_eval. rewrite B, F. reflexivity. Qed.

(* Go's == does not see the sign of a zero *)
Lemma feq_nz_l n m n' m' : feq (nz n m) m n' m' = feq n m n' m'.
Proof. unfold feq, nz. destruct (N.eqb m 0) eqn:E; [|reflexivity]. cbn. destruct (N.eqb m' 0) eqn:E2; [reflexivity|].
  apply N.eqb_eq in E. subst. rewrite N.eqb_sym, E2, !andb_false_r. reflexivity. Qed.
Lemma feq_nz_r n m n' m' : feq n m (nz n' m') m' = feq n m n' m'.
Proof. unfold feq, nz. destruct (N.eqb m' 0) eqn:E; [|reflexivity].
  destruct (N.eqb m 0) eqn:E2; cbn; [reflexivity|].
  apply N.eqb_eq in E. subst. rewrite E2. rewrite !andb_false_r. reflexivity. Qed.

Lemma go_eqeq_norm0_l : forall a b, go_eqeq (norm0 a) b = go_eqeq a b.
Proof.
  induction a using val_ind'; intros y; try reflexivity.
  - destruct y; cbn; try reflexivity. apply feq_nz_l.
  - destruct y; cbn; try reflexivity. rewrite !feq_nz_l. reflexivity.
  - destruct y as [| | | | | | | | | | |ys|]; try reflexivity. cbn [norm0]. rewrite !go_eqeq_unfold.
    revert ys. induction H as [|x es Hx Hes IH]; intros [|y ys]; cbn; try reflexivity.
    rewrite Hx, IH. reflexivity.
  - destruct y as [| | | | | | | | | | | |ys]; try reflexivity. cbn [norm0]. rewrite !go_eqeq_unfold.
    revert ys. induction H as [|x es Hx Hes IH]; intros [|y ys]; cbn; try reflexivity.
    rewrite Hx, IH. reflexivity.
Qed.

Lemma go_eqeq_norm0_r : forall a b, go_eqeq a (norm0 b) = go_eqeq a b.
Proof.
  induction a using val_ind'; intros y; destruct y; try reflexivity.
  - cbn. apply feq_nz_r.
  - cbn. rewrite !feq_nz_r. reflexivity.
  - cbn [norm0]. rewrite !go_eqeq_unfold.
    revert es0. induction H as [|x es Hx Hes IH]; intros [|y ys]; cbn; try reflexivity.
    rewrite Hx, IH. reflexivity.
  - cbn [norm0]. rewrite !go_eqeq_unfold.
    revert fs0. induction H as [|x es Hx Hes IH]; intros [|y ys]; cbn; try reflexivity.
    rewrite Hx, IH. reflexivity.
Qed.

(* ---------- environments of exported-only declarations ---------- *)
Definition env_exp (e : tenv) : Prop := Forall (fun d => exp_only (snd (snd d)) = true) e.

Lemma tlookup_exp e id x u : env_exp e -> tlookup id e = Some (x, u) -> exp_only u = true.
Proof.
  induction 1 as [|[i d] e Hd He IH]; cbn; [discriminate|].
  destruct (Nat.eqb i id); [|exact IH]. intros E; inversion E; subst. exact Hd.
Qed.

Lemma resolve_exp e t r : env_exp e -> exp_only t = true -> resolve e t = Some r ->
  env_exp (r_env r) /\ exp_only (r_node r) = true.
Proof.
  intros He Hx R. destruct t; cbn in R; try (inversion R; subst; split; assumption).
  - destruct (is_namedish t); [discriminate|]. inversion R; subst. cbn in *. split; [|exact Hx].
    constructor; [exact Hx|exact He].
  - destruct (tlookup id e) as [[x u]|] eqn:L; [|discriminate].
    destruct (is_namedish u || can_equal u)%bool; [discriminate|]. inversion R; subst. cbn.
    split; [exact He|]. exact (tlookup_exp _ _ _ _ He L).
Qed.

(* the relation between a value and its round trip *)
Definition RT (e : tenv) (t : ty) (v v' : val) : Prop :=
  spec_eq e t v v' = Some true /\ (can_equal t = true -> v' = norm0 v).

(* a node seen through [resolve] again *)
Lemma resolve_node e t r : resolve e t = Some r ->
  resolve (r_env r) (r_node r) = Some {| r_named := None; r_env := r_env r; r_node := r_node r |}.
Proof. intros R. apply resolve_plain. exact (resolve_node_plain _ _ _ R). Qed.

Lemma RT_node e t r v v' : resolve e t = Some r -> RT (r_env r) (r_node r) v v' -> RT e t v v'.
Proof.
  intros R [S C]. split.
  - rewrite spec_eq_unfold in S. rewrite (resolve_node _ _ _ R) in S. cbn [r_env r_node] in S.
    rewrite spec_eq_unfold, R. exact S.
  - rewrite (can_equal_resolve _ _ _ R). exact C.
Qed.

Lemma geval_node e t r g n : resolve e t = Some r -> geval (r_env r) (r_node r) g n = geval e t g n.
Proof.
  intros R. destruct g; try reflexivity. cbn [geval]. rewrite (resolve_node _ _ _ R), R. reflexivity.
Qed.

(* ---------- basic components ---------- *)
Lemma has_type_basic e k x : has_type e (TB k) x = basic_ok k x.
Proof. rewrite has_type_unfold. reflexivity. Qed.
Lemma finite_basic e k x : finite e (TB k) x = fin_ok k x.
Proof. rewrite finite_unfold. reflexivity. Qed.
Lemma spec_eq_basic e k x y : spec_eq e (TB k) x y = leaf_eq k x y.
Proof. rewrite spec_eq_unfold. reflexivity. Qed.

Lemma RT_basic e k x : basic_ok k x = true -> RT e (TB k) x (norm0 x).
Proof. intros B. split; [rewrite spec_eq_basic; apply leaf_eq_norm0; exact B | reflexivity]. Qed.

Lemma lit_seq_vals e k es :
  forallb (has_type e (TB k)) es = true -> forallb (finite e (TB k)) es = true ->
  forallb (basic_ok k) es = true /\
  map_opt (scalar_eval k) es = Some (map norm0 es) /\
  all2o (fun a b => spec_eq e (TB k) a b) es (map norm0 es) = Some true.
Proof.
  induction es as [|x es IH]; cbn; intros H F; [repeat split; reflexivity|].
  apply andb_prop in H as [Hx H]. apply andb_prop in F as [Fx F].
  rewrite has_type_basic in Hx. rewrite finite_basic in Fx.
  destruct (IH H F) as (B & M & A). rewrite Hx, B. split; [reflexivity|].
  rewrite (scalar_eval_ok _ _ Hx Fx), M. split; [reflexivity|].
  rewrite spec_eq_basic, (leaf_eq_norm0 _ _ Hx), A. reflexivity.
Qed.

(* ---------- maps: entries rebuilt one by one ---------- *)
Definition entry_RT (e : tenv) (vt : ty) (kv kv' : val * val) : Prop :=
  fst kv' = norm0 (fst kv) /\ RT e vt (snd kv) (snd kv').

Lemma existsb_norm0 k ks : existsb (go_eqeq (norm0 k)) (map norm0 ks) = existsb (go_eqeq k) ks.
Proof.
  induction ks as [|k' ks IH]; cbn; [reflexivity|].
  rewrite go_eqeq_norm0_l, go_eqeq_norm0_r, IH. reflexivity.
Qed.

Lemma keys_distinct_norm0 ks : keys_distinct (map norm0 ks) = keys_distinct ks.
Proof.
  induction ks as [|k ks IH]; cbn; [reflexivity|]. rewrite IH, existsb_norm0. reflexivity.
Qed.

Lemma existsb_false_In {A} (f : A -> bool) l : existsb f l = false -> forall x, In x l -> f x = false.
Proof.
  induction l as [|a l IH]; cbn; intros H x []; apply orb_false_elim in H as [H1 H2]; [subst; exact H1|].
  apply IH; assumption.
Qed.

Lemma map_get_F2 e vt xm ym :
  Forall2 (entry_RT e vt) xm ym ->
  keys_distinct (map fst xm) = true ->
  Forall (fun kv => go_eqeq (fst kv) (fst kv) = true) xm ->
  forall kv, In kv xm -> exists v', map_get (fst kv) ym = Some v' /\ spec_eq e vt (snd kv) v' = Some true.
Proof.
  induction 1 as [|a b xm ym [Ek [Ev _]] F IH]; cbn; intros D Rf kv Hin; [destruct Hin|].
  apply andb_prop in D as [D1 D2]. inversion Rf as [|? ? Ra Rf']; subst.
  destruct b as [kb vb]. cbn in Ek, Ev. subst kb. cbn.
  destruct Hin as [<-|Hin].
  - rewrite go_eqeq_norm0_l, Ra. exists vb. split; [reflexivity|exact Ev].
  - rewrite go_eqeq_norm0_l.
    apply negb_true_iff in D1.
    rewrite (existsb_false_In _ _ D1 (fst kv) (in_map fst _ _ Hin)).
    apply IH; assumption.
Qed.

Lemma F2_length {A B} (R : A -> B -> Prop) l l' : Forall2 R l l' -> List.length l = List.length l'.
Proof. induction 1; cbn; congruence. Qed.

Lemma map_entries_RT e vt xm ym :
  Forall2 (entry_RT e vt) xm ym ->
  keys_distinct (map fst xm) = true ->
  Forall (fun kv => go_eqeq (fst kv) (fst kv) = true) xm ->
  (if Nat.eqb (List.length xm) (List.length ym)
   then entries_o (fun a b => spec_eq e vt a b) xm ym else Some false) = Some true.
Proof.
  intros F D Rf. rewrite (F2_length _ _ _ F), Nat.eqb_refl.
  apply entries_o_true. intros kv Hin. exact (map_get_F2 _ _ _ _ F D Rf kv Hin).
Qed.

Lemma map_set_fresh k v acc :
  Forall (fun kv' => go_eqeq (fst kv') k = false) acc -> map_set k v acc = (acc ++ [(k, v)])%list.
Proof.
  induction 1 as [|a acc Ha F IH]; cbn; [reflexivity|]. rewrite Ha, IH. reflexivity.
Qed.

Lemma keys_distinct_mid (pr : list (val * val)) kv rest :
  keys_distinct (map fst (pr ++ kv :: rest)) = true ->
  Forall (fun p => go_eqeq (fst p) (fst kv) = false) pr.
Proof.
  induction pr as [|p pr IH]; cbn; intros D; [constructor|].
  apply andb_prop in D as [D1 D2]. apply negb_true_iff in D1. constructor; [|apply IH; exact D2].
  apply (existsb_false_In _ _ D1). rewrite map_app. apply in_or_app. right. left. reflexivity.
Qed.

Lemma acc_fresh e vt pr acc k :
  Forall2 (entry_RT e vt) pr acc ->
  Forall (fun p => go_eqeq (fst p) k = false) pr ->
  Forall (fun kv' => go_eqeq (fst kv') (norm0 k) = false) acc.
Proof.
  induction 1 as [|a b pr acc [Ek _] F IH]; intros D; [constructor|].
  inversion D; subst. constructor; [|apply IH; assumption].
  rewrite Ek, go_eqeq_norm0_l, go_eqeq_norm0_r. assumption.
Qed.

Lemma go_eqeq_refl_typed e t k : can_equal t = true -> has_type e t k = true -> go_eqeq k k = true.
Proof.
  intros C H. pose proof (go_eqeq_spec t C e k k H H) as S. rewrite (spec_eq_refl e t k H) in S.
  inversion S. reflexivity.
Qed.

Lemma lit_map_vals e kk vk kvs :
  forallb (fun kv => has_type e (TB kk) (fst kv) && has_type e (TB vk) (snd kv))%bool kvs = true ->
  forallb (fun kv => finite e (TB kk) (fst kv) && finite e (TB vk) (snd kv))%bool kvs = true ->
  let kvs' := map (fun kv => (norm0 (fst kv), norm0 (snd kv))) kvs in
  forallb (fun kv => basic_ok kk (fst kv) && basic_ok vk (snd kv))%bool kvs = true /\
  map_opt (fun kv => match scalar_eval kk (fst kv), scalar_eval vk (snd kv) with
                     | Some k', Some v' => Some (k', v') | _, _ => None end) kvs = Some kvs' /\
  Forall2 (entry_RT e (TB vk)) kvs kvs' /\
  Forall (fun kv => go_eqeq (fst kv) (fst kv) = true) kvs.
Proof.
  induction kvs as [|[k v] kvs IH]; cbn; intros H F; [repeat split; constructor|].
  apply andb_prop in H as [Hx H]. apply andb_prop in F as [Fx F].
  apply andb_prop in Hx as [Hk Hv]. apply andb_prop in Fx as [Fk Fv].
  destruct (IH H F) as (B & M & A & Rf).
  pose proof (go_eqeq_refl_typed e (TB kk) k eq_refl Hk) as Rk.
  rewrite has_type_basic in Hk, Hv. rewrite finite_basic in Fk, Fv.
  rewrite Hk, Hv, B. split; [reflexivity|].
  rewrite (scalar_eval_ok _ _ Hk Fk), (scalar_eval_ok _ _ Hv Fv), M. split; [reflexivity|].
  split; constructor; try assumption.
  split; [reflexivity|]. apply RT_basic. exact Hv.
Qed.

(* ---------- the induction predicate ---------- *)
Notation gtopf := (fun e t x => gtop e t x).
Notation gev := (fun e t g n => geval e t g n).

Definition P (v : val) : Prop := forall e t n,
  env_exp e -> exp_only t = true -> has_type e t v = true -> finite e t v = true ->
  exists g v' n', gtop e t v = Ok g /\ geval e t g n = Some (v', n') /\ RT e t v v'.

(* genField *)
Definition fld_ok (e : tenv) (ft : ty) (x : val) (n : N) : Prop :=
  exists o v' n', gfld gtopf e ft x = Ok o /\
    match o with
    | Some g => geval e ft g n = Some (v', n')
    | None => nil_of e ft = Some v' /\ n' = n
    end /\ RT e ft x v'.

Lemma lit_basic_some t k : lit_basic t = Some k -> t = TB k.
Proof. destruct t; cbn; intros H; inversion H; reflexivity. Qed.

Lemma forallb_eq {A} (f g : A -> bool) l : (forall x, f x = g x) -> forallb f l = forallb g l.
Proof. intros E. induction l as [|a l IH]; cbn; [reflexivity|]. rewrite E, IH. reflexivity. Qed.

Lemma gfld_ok x : P x -> forall e ft n,
  env_exp e -> exp_only ft = true -> has_type e ft x = true -> finite e ft x = true -> fld_ok e ft x n.
Proof.
  intros Px e ft n He Hx Ht Hf. unfold fld_ok, gfld.
  pose proof Ht as Ht0. pose proof Hf as Hf0.
  rewrite has_type_unfold in Ht. rewrite finite_unfold in Hf.
  destruct (resolve e ft) as [r|] eqn:R; [|discriminate].
  destruct (resolve_exp _ _ _ He Hx R) as [He' Hx'].
  cbn zeta in *.
  destruct (r_node r) as [k| | |el|el|len el|kt vt|fs] eqn:N.
  - (* basic *)
    rewrite Ht. exists (Some (GLit (LScalar k x))), (norm0 x), n. split; [reflexivity|].
    split; [cbn; rewrite (scalar_eval_ok _ _ Ht Hf); reflexivity|].
    apply (RT_node _ _ _ _ _ R). rewrite N. apply RT_basic. exact Ht.
  - destruct x; discriminate.
  - destruct x; discriminate.
  - (* pointer *)
    destruct x as [| | | | | |l x'| | | | | |]; try discriminate.
    + exists None, VNilP, n. split; [reflexivity|]. split; [unfold nil_of; rewrite R, N; split; reflexivity|].
      apply (RT_node _ _ _ _ _ R). rewrite N. split; [rewrite spec_eq_unfold; reflexivity|discriminate].
    + destruct (lit_basic el) as [k|] eqn:LB.
      * apply lit_basic_some in LB. subst el. rewrite has_type_basic in Ht. rewrite finite_basic in Hf.
        rewrite Ht. exists (Some (GPtrLit k x')), (VPtr n (norm0 x')), (n + 1)%N. split; [reflexivity|].
        split; [cbn; rewrite (scalar_eval_ok _ _ Ht Hf); reflexivity|].
        apply (RT_node _ _ _ _ _ R). rewrite N. split; [|discriminate].
        rewrite spec_eq_unfold. cbn. rewrite spec_eq_basic. apply leaf_eq_norm0. exact Ht.
      * destruct (Px e ft n He Hx Ht0 Hf0) as (g & v' & n' & G & E & Rt).
        rewrite G. exists (Some g), v', n'. repeat split; try assumption; apply Rt.
  - (* slice *)
    destruct x as [| | | | | | | |l es sp| | | |]; try discriminate.
    + exists None, VNilS, n. split; [reflexivity|]. split; [unfold nil_of; rewrite R, N; split; reflexivity|].
      apply (RT_node _ _ _ _ _ R). rewrite N. split; [rewrite spec_eq_unfold; reflexivity|discriminate].
    + destruct (lit_basic el) as [k|] eqn:LB.
      * apply lit_basic_some in LB. subst el. apply andb_prop in Ht as [Ht _].
        destruct (lit_seq_vals _ _ _ Ht Hf) as (B & M & A). rewrite B.
        exists (Some (GLit (LSeq false (strip ft) k es))), (VSl n (map norm0 es) []), (n + 1)%N.
        split; [reflexivity|]. split; [cbn; rewrite M; reflexivity|].
        apply (RT_node _ _ _ _ _ R). rewrite N. split; [|discriminate].
        rewrite spec_eq_unfold. cbn. exact A.
      * destruct (Px e ft n He Hx Ht0 Hf0) as (g & v' & n' & G & E & Rt).
        rewrite G. exists (Some g), v', n'. repeat split; try assumption; apply Rt.
  - (* array *)
    destruct x as [| | | | | | | | | | |es|]; try discriminate.
    destruct (lit_basic el) as [k|] eqn:LB.
    + apply lit_basic_some in LB. subst el. apply andb_prop in Ht as [Hl Ht].
      destruct (lit_seq_vals _ _ _ Ht Hf) as (B & M & A). rewrite Hl, B.
      exists (Some (GLit (LSeq true (strip ft) k es))), (VArr (map norm0 es)), n.
      split; [reflexivity|]. split; [cbn; rewrite M; reflexivity|].
      apply (RT_node _ _ _ _ _ R). rewrite N. split; [|reflexivity].
      rewrite spec_eq_unfold. cbn. exact A.
    + destruct (Px e ft n He Hx Ht0 Hf0) as (g & v' & n' & G & E & Rt).
      rewrite G. exists (Some g), v', n'. repeat split; try assumption; apply Rt.
  - (* map *)
    destruct x as [| | | | | | | | | |l kvs| |]; try discriminate.
    + exists None, VNilM, n. split; [reflexivity|]. split; [unfold nil_of; rewrite R, N; split; reflexivity|].
      apply (RT_node _ _ _ _ _ R). rewrite N. split; [rewrite spec_eq_unfold; reflexivity|discriminate].
    + assert (Hhelper : exists o v' n', (rdo g <- gtop e ft (VMap l kvs); Ok (Some g)) = Ok o /\
               match o with Some g => geval e ft g n = Some (v', n') | None => nil_of e ft = Some v' /\ n' = n end /\
               RT e ft (VMap l kvs) v').
      { destruct (Px e ft n He Hx Ht0 Hf0) as (g & v' & n' & G & E & Rt).
        rewrite G. exists (Some g), v', n'. repeat split; try assumption; apply Rt. }
      destruct (lit_basic kt) as [kk|] eqn:LK; [|exact Hhelper].
      destruct (lit_basic vt) as [vk|] eqn:LV; [|exact Hhelper].
      apply lit_basic_some in LK. apply lit_basic_some in LV. subst kt vt. clear Hhelper.
      apply andb_prop in Ht as [Ht Ht2]. apply andb_prop in Ht as [_ Hd].
      destruct (lit_map_vals _ _ _ _ Ht2 Hf) as (B & M & A & Rf). rewrite B.
      eexists (Some (GLit (LMap (strip ft) kk vk kvs))), (VMap n _ ), (n + 1)%N.
      split; [reflexivity|]. split.
      * cbn. rewrite M. rewrite map_map. cbn [fst].
        rewrite <- (map_map fst norm0), keys_distinct_norm0, Hd. reflexivity.
      * apply (RT_node _ _ _ _ _ R). rewrite N. split; [|discriminate].
        rewrite spec_eq_unfold. cbn. apply map_entries_RT; assumption.
  - (* struct *)
    destruct x; try discriminate.
    destruct (Px e ft n He Hx Ht0 Hf0) as (g & v' & n' & G & E & Rt).
    rewrite G. exists (Some g), v', n'. repeat split; try assumption; apply Rt.
Qed.

Local Open Scope list_scope.
(* ---------- list plumbing ---------- *)
Lemma nth_error_mid {A} (pre : list A) a rest : nth_error (pre ++ a :: rest) (List.length pre) = Some a.
Proof. induction pre as [|p pre IH]; cbn; [reflexivity|exact IH]. Qed.

Lemma upd_mid {A} (dv : list A) a b rest : upd (dv ++ a :: rest) (List.length dv) b = Some (dv ++ b :: rest).
Proof. induction dv as [|d dv IH]; cbn; [reflexivity|]. rewrite IH. reflexivity. Qed.

Lemma snoc_app {A} (l : list A) a r : ((l ++ [a]) ++ r = l ++ a :: r)%list.
Proof. rewrite <- app_assoc. reflexivity. Qed.

Lemma snoc_length {A} (l : list A) a : List.length (l ++ [a]) = S (List.length l).
Proof. rewrite app_length. cbn. lia. Qed.

(* ---------- struct fields ---------- *)
Inductive fields_rt (e : tenv) : list (bool * ty) -> list val -> list val -> Prop :=
| frt_nil : fields_rt e [] [] []
| frt_cons fd fs x xs v vs : RT e (snd fd) x v -> fields_rt e fs xs vs ->
    fields_rt e (fd :: fs) (x :: xs) (v :: vs).

Lemma fields_rt_spec e fs xs vs : fields_rt e fs xs vs ->
  fields_o (fun ft a b => spec_eq e ft a b) fs xs vs = Some true.
Proof. induction 1 as [|fd fs x xs v vs [S _] F IH]; cbn; [reflexivity|]. rewrite S, IH. reflexivity. Qed.

Lemma fields_rt_norm e fs xs vs : fields_rt e fs xs vs -> can_equal (TSt fs) = true -> vs = map norm0 xs.
Proof.
  induction 1 as [|fd fs x xs v vs [_ C] F IH]; cbn; intros H; [reflexivity|].
  apply andb_prop in H as [H1 H2]. rewrite (C H1), (IH H2). reflexivity.
Qed.

Lemma run_fields l ce extp : forall fs xs pre dv keys n,
  Forall P xs -> env_exp ce -> exp_only (TSt fs) = true ->
  fields_ok (has_type ce) fs xs = true -> fields_ok (finite ce) fs xs = true ->
  List.length dv = List.length pre ->
  exists body ov vs' n',
    gfields gtopf extp ce fs xs (List.length pre) = Ok body /\
    run gev body (CStruct l ce (pre ++ fs) (dv ++ repeat None (List.length fs))) keys n
      = Some (CStruct l ce (pre ++ fs) (dv ++ ov), keys, n') /\
    fin_fields ce fs ov = Some vs' /\ fields_rt ce fs xs vs'.
Proof.
  induction fs as [|[b ft] fs IH]; intros [|x xs] pre dv keys n HP He Hx Ht Hf Hl; cbn in Ht; try discriminate.
  - exists [], [], [], n. cbn. repeat split; constructor.
  - cbn in Hx. apply andb_prop in Hx as [Hx Hxs]. apply andb_prop in Hx as [Hb Hxt].
    destruct b; [discriminate|]. cbn [fst snd] in *.
    apply andb_prop in Ht as [Htx Ht]. cbn in Hf. apply andb_prop in Hf as [Hfx Hf].
    inversion HP as [|? ? Px HP']; subst.
    destruct (gfld_ok x Px ce ft n He Hxt Htx Hfx) as (o & v' & n1 & G & E & Rt).
    cbn [gfields fst snd andb]. rewrite G. cbn [rbind].
    destruct o as [g|].
    + destruct (IH xs (pre ++ [(false, ft)])%list (dv ++ [Some v'])%list keys n1 HP' He Hxs Ht Hf) as (body & ov & vs' & n' & GB & RB & FF & FR).
      { rewrite !snoc_length. congruence. }
      rewrite snoc_length in GB. rewrite GB. cbn [rbind assign app].
      exists ((TgField (List.length pre), g) :: body), (Some v' :: ov), (v' :: vs'), n'.
      split; [reflexivity|]. split.
      * cbn [run fst snd step]. rewrite nth_error_mid. rewrite E. cbn [repeat List.length].
        rewrite <- Hl, upd_mid. cbn [option_map].
        rewrite !snoc_app in RB. exact RB.
      * split; [cbn; rewrite FF; reflexivity|]. constructor; assumption.
    + destruct E as [E ->].
      destruct (IH xs (pre ++ [(false, ft)])%list (dv ++ [None])%list keys n HP' He Hxs Ht Hf) as (body & ov & vs' & n' & GB & RB & FF & FR).
      { rewrite !snoc_length. congruence. }
      rewrite snoc_length in GB. rewrite GB. cbn [rbind assign app].
      exists body, (None :: ov), (v' :: vs'), n'.
      split; [reflexivity|]. split.
      * cbn [repeat List.length]. rewrite !snoc_app in RB. exact RB.
      * split; [cbn; rewrite E, FF; reflexivity|]. constructor; assumption.
Qed.

(* ---------- slice and array elements ---------- *)
Lemma fin_somes e t vs : map_opt (fin1 e t) (map Some vs) = Some vs.
Proof. induction vs as [|v vs IH]; cbn; [reflexivity|]. rewrite IH. reflexivity. Qed.

Lemma F2_spec e t xs vs : Forall2 (RT e t) xs vs -> all2o (fun a b => spec_eq e t a b) xs vs = Some true.
Proof. induction 1 as [|x v xs vs [S _] F IH]; cbn; [reflexivity|]. rewrite S, IH. reflexivity. Qed.

Lemma F2_norm e t xs vs : Forall2 (RT e t) xs vs -> can_equal t = true -> vs = map norm0 xs.
Proof. induction 1 as [|x v xs vs [_ C] F IH]; cbn; intros H; [reflexivity|]. rewrite (C H), (IH H). reflexivity. Qed.

Lemma run_elems arr l ce et : forall xs dv keys n,
  Forall P xs -> env_exp ce -> exp_only et = true ->
  forallb (has_type ce et) xs = true -> forallb (finite ce et) xs = true ->
  exists body vs' n',
    gelems gtopf ce et xs (List.length dv) = Ok body /\
    run gev body (CSeq arr l ce et (dv ++ repeat None (List.length xs))) keys n
      = Some (CSeq arr l ce et (dv ++ map Some vs'), keys, n') /\
    Forall2 (RT ce et) xs vs'.
Proof.
  induction xs as [|x xs IH]; intros dv keys n HP He Hx Ht Hf.
  - exists [], [], n. cbn. repeat split; constructor.
  - cbn in Ht, Hf. apply andb_prop in Ht as [Htx Ht]. apply andb_prop in Hf as [Hfx Hf].
    inversion HP as [|? ? Px HP']; subst.
    destruct (Px ce et n He Hx Htx Hfx) as (g & v' & n1 & G & E & Rt).
    destruct (IH (dv ++ [Some v'])%list keys n1 HP' He Hx Ht Hf) as (body & vs' & n' & GB & RB & FR).
    rewrite snoc_length in GB. cbn [gelems]. rewrite G. cbn [rbind]. rewrite GB. cbn [rbind].
    exists ((TgIdx (List.length dv), g) :: body), (v' :: vs'), n'.
    split; [reflexivity|]. split; [|constructor; assumption].
    cbn [run fst snd step]. rewrite E. cbn [repeat List.length]. rewrite upd_mid. cbn [option_map].
    rewrite !snoc_app in RB. exact RB.
Qed.

(* ---------- map entries ---------- *)
Lemma run_entries_var l ce kt vt : forall kvs pr acc keys n i,
  Forall (fun kv => P (fst kv) /\ P (snd kv)) kvs -> env_exp ce -> exp_only kt = true -> exp_only vt = true ->
  can_equal kt = true ->
  forallb (fun kv => has_type ce kt (fst kv) && has_type ce vt (snd kv))%bool kvs = true ->
  forallb (fun kv => finite ce kt (fst kv) && finite ce vt (snd kv))%bool kvs = true ->
  keys_distinct (map fst (pr ++ kvs)) = true ->
  Forall2 (entry_RT ce vt) pr acc ->
  exists body acc' keys' n',
    gentries_var gtopf ce kt vt kvs i = Ok body /\
    run gev body (CMap l ce kt vt acc) keys n = Some (CMap l ce kt vt acc', keys', n') /\
    Forall2 (entry_RT ce vt) (pr ++ kvs) acc'.
Proof.
  induction kvs as [|[k v] kvs IH]; intros pr acc keys n i HP He Hxk Hxv Ck Ht Hf D F.
  - exists [], acc, keys, n. cbn. rewrite app_nil_r. repeat split. exact F.
  - cbn in Ht, Hf. apply andb_prop in Ht as [Htx Ht]. apply andb_prop in Hf as [Hfx Hf].
    apply andb_prop in Htx as [Htk Htv]. apply andb_prop in Hfx as [Hfk Hfv].
    inversion HP as [|? ? [Pk Pv] HP']; subst. cbn [fst snd] in *.
    destruct (Pk ce kt n He Hxk Htk Hfk) as (gk & k' & n1 & Gk & Ek & [_ Nk]).
    specialize (Nk Ck). subst k'.
    destruct (Pv ce vt n1 He Hxv Htv Hfv) as (gv & v' & n2 & Gv & Ev & Rv).
    pose proof (keys_distinct_mid _ _ _ D) as Dm. cbn [fst] in Dm.
    pose proof (acc_fresh _ _ _ _ _ F Dm) as Fr.
    destruct (IH (pr ++ [(k, v)]) (acc ++ [(norm0 k, v')]) ((i, norm0 k) :: keys) n2 (S i) HP' He Hxk Hxv Ck Ht Hf)
      as (body & acc' & keys' & n' & GB & RB & FR).
    { rewrite snoc_app. exact D. }
    { apply Forall2_app; [exact F|]. constructor; [|constructor]. split; [reflexivity|exact Rv]. }
    cbn [gentries_var fst snd]. rewrite Gk. cbn [rbind]. rewrite Gv. cbn [rbind]. rewrite GB. cbn [rbind].
    eexists _, acc', keys', n'. split; [reflexivity|]. split; [|rewrite snoc_app in FR; exact FR].
    cbn [run fst snd step]. rewrite Ek. cbn [key_get]. rewrite Nat.eqb_refl. rewrite Ev.
    rewrite (map_set_fresh _ _ _ Fr). exact RB.
Qed.

Lemma run_entries_lit l ce kk vt : forall kvs pr acc keys n,
  Forall (fun kv => P (fst kv) /\ P (snd kv)) kvs -> env_exp ce -> exp_only vt = true ->
  forallb (fun kv => has_type ce (TB kk) (fst kv) && has_type ce vt (snd kv))%bool kvs = true ->
  forallb (fun kv => finite ce (TB kk) (fst kv) && finite ce vt (snd kv))%bool kvs = true ->
  keys_distinct (map fst (pr ++ kvs)) = true ->
  Forall2 (entry_RT ce vt) pr acc ->
  exists body acc' n',
    gentries_lit gtopf ce kk vt kvs = Ok body /\
    run gev body (CMap l ce (TB kk) vt acc) keys n = Some (CMap l ce (TB kk) vt acc', keys, n') /\
    Forall2 (entry_RT ce vt) (pr ++ kvs) acc'.
Proof.
  induction kvs as [|[k v] kvs IH]; intros pr acc keys n HP He Hxv Ht Hf D F.
  - exists [], acc, n. cbn. rewrite app_nil_r. repeat split. exact F.
  - cbn in Ht, Hf. apply andb_prop in Ht as [Htx Ht]. apply andb_prop in Hf as [Hfx Hf].
    apply andb_prop in Htx as [Htk Htv]. apply andb_prop in Hfx as [Hfk Hfv].
    inversion HP as [|? ? [_ Pv] HP']; subst. cbn [fst snd] in *.
    rewrite has_type_basic in Htk. rewrite finite_basic in Hfk.
    destruct (Pv ce vt n He Hxv Htv Hfv) as (gv & v' & n2 & Gv & Ev & Rv).
    pose proof (keys_distinct_mid _ _ _ D) as Dm. cbn [fst] in Dm.
    pose proof (acc_fresh _ _ _ _ _ F Dm) as Fr.
    destruct (IH (pr ++ [(k, v)]) (acc ++ [(norm0 k, v')]) keys n2 HP' He Hxv Ht Hf)
      as (body & acc' & n' & GB & RB & FR).
    { rewrite snoc_app. exact D. }
    { apply Forall2_app; [exact F|]. constructor; [|constructor]. split; [reflexivity|exact Rv]. }
    cbn [gentries_lit fst snd]. rewrite Htk. cbn [negb]. rewrite Gv. cbn [rbind]. rewrite GB. cbn [rbind].
    eexists _, acc', n'. split; [reflexivity|]. split; [|rewrite snoc_app in FR; exact FR].
    cbn [run fst snd step]. rewrite (scalar_eval_ok _ _ Htk Hfk). rewrite Ev.
    rewrite (map_set_fresh _ _ _ Fr). exact RB.
Qed.

(* ---------- the generated function ---------- *)
Lemma gtop_unfold e t v :
  gtop e t v =
  match resolve e t with
  | None => Stuck
  | Some r =>
      let e' := r_env r in
      let rt := strip t in
      match r_node r, v with
      | TB k, _ => if basic_ok k v then Ok (GClo rt HNone [] (RLit (LScalar k v))) else Stuck
      | TP reft, VNilP =>
          match resolve e' reft with Some _ => Ok (GClo rt HNone [] RNil) | None => Stuck end
      | TP reft, VPtr _ x =>
          match resolve e' reft with
          | None => Stuck
          | Some rr =>
              match r_node rr, x with
              | TSt [], VSt [] => Ok (GClo rt HNone [] (RAddr0 (strip reft)))
              | TSt fs, VSt xs =>
                  rdo body <- gfields gtopf (is_named rr && is_ext rr)%bool (r_env rr) fs xs 0;
                  Ok (GClo rt (HAddr (strip reft)) body RThis)
              | TSt _, _ => Stuck
              | _, _ =>
                  rdo a <- gfld gtopf e' reft x;
                  Ok (GClo rt (HNew (strip reft)) (assign TgDeref a) RThis)
              end
          end
      | TSt fs, VSt xs =>
          rdo body <- gfields gtopf false e' fs xs 0;
          Ok (GClo rt (HAddr rt) body RDeref)
      | TSl _, VNilS => Ok (GClo rt HNone [] RNil)
      | TSl et, VSl _ es _ =>
          match lit_basic et with
          | Some k => if forallb (basic_ok k) es then Ok (GClo rt HNone [] (RLit (LSeq false rt k es))) else Stuck
          | None =>
              rdo body <- gelems gtopf e' et es 0;
              Ok (GClo rt (HMakeSl (TSl (strip et)) (List.length es)) body RThis)
          end
      | TAr n et, VArr es =>
          if negb (Nat.eqb (List.length es) n) then Stuck else
          match lit_basic et with
          | Some k => if forallb (basic_ok k) es then Ok (GClo rt HNone [] (RLit (LSeq true rt k es))) else Stuck
          | None =>
              rdo body <- gelems gtopf e' et es 0;
              Ok (GClo rt (HArr rt) body RThis)
          end
      | TM _ _, VNilM => Ok (GClo rt HNone [] RNil)
      | TM kt vt, VMap _ kvs =>
          match lit_basic kt, lit_basic vt with
          | Some kk, Some vk =>
              if forallb (fun kv => basic_ok kk (fst kv) && basic_ok vk (snd kv))%bool kvs
              then Ok (GClo rt HNone [] (RLit (LMap rt kk vk kvs))) else Stuck
          | Some kk, None =>
              rdo body <- gentries_lit gtopf e' kk vt kvs;
              Ok (GClo rt (HMakeMap rt) body RThis)
          | None, _ =>
              rdo body <- gentries_var gtopf e' kt vt kvs 0;
              Ok (GClo rt (HMakeMap rt) body RThis)
          end
      | _, _ => Stuck
      end
  end.
Proof. destruct v; reflexivity. Qed.

Lemma geval_clo e t r rt hd body ret n c0 n0 c keys n1 :
  resolve e t = Some r -> init_cell (r_env r) (r_node r) hd n = Some (c0, n0) ->
  run gev body c0 [] n0 = Some (c, keys, n1) ->
  geval e t (GClo rt hd body ret) n = finish (r_env r) (r_node r) c ret n1.
Proof. intros R I Rn. cbn [geval]. rewrite R, I, Rn. reflexivity. Qed.

Lemma top_basic e t r k v n : resolve e t = Some r -> r_node r = TB k ->
  basic_ok k v = true -> fin_ok k v = true ->
  exists g v' n',
    (if basic_ok k v then Ok (GClo (strip t) HNone [] (RLit (LScalar k v))) else Stuck) = Ok g /\
    geval e t g n = Some (v', n') /\ RT e t v v'.
Proof.
  intros R N B F. rewrite B. eexists _, (norm0 v), n. split; [reflexivity|]. split.
  - erewrite geval_clo; [|exact R|rewrite N; reflexivity|reflexivity]. rewrite N. cbn.
    rewrite (scalar_eval_ok _ _ B F). reflexivity.
  - apply (RT_node _ _ _ _ _ R). rewrite N. apply RT_basic. exact B.
Qed.

Lemma spec_eq_ptr e reft l x n y : spec_eq e (TP reft) (VPtr l x) (VPtr n y) = spec_eq e reft x y.
Proof. rewrite spec_eq_unfold. reflexivity. Qed.

Definition sub_ok (v : val) : Prop := match v with VSt xs => Forall P xs | _ => True end.
Definition Q (v : val) : Prop := P v /\ sub_ok v.

Lemma Forall_Q_P l : Forall Q l -> Forall P l.
Proof. induction 1 as [|x l [Hx _] F IH]; constructor; assumption. Qed.

Ltac start R N He' Hx' :=
  intros e t n He Hx Ht Hf; pose proof Ht as Ht0; pose proof Hf as Hf0;
  rewrite has_type_unfold in Ht; rewrite finite_unfold in Hf; rewrite gtop_unfold;
  destruct (resolve e t) as [r|] eqn:R; [|discriminate];
  destruct (resolve_exp _ _ _ He Hx R) as [He' Hx'];
  cbn zeta in *;
  destruct (r_node r) as [k| | |reft|et|len et|kt vt|fs] eqn:N; try discriminate;
  [apply (top_basic _ _ _ _ _ _ R N Ht Hf)|..].

Lemma P_leaf v : (forall e t, has_type e t v = true -> exists r k, resolve e t = Some r /\ r_node r = TB k) -> P v.
Proof.
  intros L e t n He Hx Ht Hf. destruct (L e t Ht) as (r & k & R & N).
  rewrite has_type_unfold, R in Ht. rewrite finite_unfold, R in Hf. cbn zeta in *. rewrite N in Ht, Hf.
  rewrite gtop_unfold, R. cbn zeta. rewrite N. apply (top_basic _ _ _ _ _ _ R N Ht Hf).
Qed.

Ltac leaf := split; [|exact I]; apply P_leaf; intros e t Ht; rewrite has_type_unfold in Ht;
  destruct (resolve e t) as [r|]; [|discriminate]; cbn zeta in Ht;
  destruct (r_node r) as [k| | | | | | |] eqn:N; try discriminate; exists r, k; split; [reflexivity|exact N].

Ltac ptr_fld v Pv r reft n HR HN He' Hx' Ht Hf :=
  cbv beta iota;
  let o := fresh "o" in let v' := fresh "v'" in let n1 := fresh "n1" in
  let G := fresh "G" in let E := fresh "E" in let Rt := fresh "Rt" in let g := fresh "g" in
  destruct (gfld_ok v Pv (r_env r) reft (n + 1)%N He' Hx' Ht Hf) as (o & v' & n1 & G & E & Rt);
  rewrite G; cbn [rbind];
  eexists _, (VPtr n v'), n1; split; [reflexivity|]; split;
  [ destruct o as [g|];
    [ erewrite geval_clo; [|exact HR|rewrite HN; reflexivity|cbn [assign run fst snd step]; rewrite E; reflexivity];
      rewrite HN; reflexivity
    | destruct E as [E ->]; erewrite geval_clo; [|exact HR|rewrite HN; reflexivity|reflexivity];
      rewrite HN; cbn; rewrite E; reflexivity ]
  | apply (RT_node _ _ _ _ _ HR); rewrite HN; split; [rewrite spec_eq_unfold; cbn; apply Rt|discriminate] ].

Theorem Q_all : forall v, Q v.
Proof.
  induction v using val_ind'.
  - leaf.
  - leaf.
  - leaf.
  - leaf.
  - leaf.
  - (* nil pointer *)
    split; [|exact I]. start HR HN He' Hx'.
    destruct (resolve (r_env r) reft) as [rr|] eqn:RR; [|discriminate].
    eexists _, VNilP, n. split; [reflexivity|]. split.
    + erewrite geval_clo; [|exact HR|rewrite HN; reflexivity|reflexivity]. rewrite HN. reflexivity.
    + apply (RT_node _ _ _ _ _ HR). rewrite HN. split; [rewrite spec_eq_unfold; reflexivity|discriminate].
  - (* pointer *)
    destruct IHv as [Pv Sv]. split; [|exact I]. start HR HN He' Hx'.
    pose proof Ht as Htx. rewrite has_type_unfold in Htx.
    pose proof Hf as Hfx. rewrite finite_unfold in Hfx.
    destruct (resolve (r_env r) reft) as [rr|] eqn:RR; [|discriminate].
    destruct (resolve_exp (r_env r) reft rr He' (Hx' : exp_only reft = true) RR) as [He2 Hx2].
    cbn zeta in Htx, Hfx.
    destruct (r_node rr) as [k2| | |t2|t2|l2 t2|k2 v2|fs] eqn:NN.
    + ptr_fld v Pv r reft n HR HN He' Hx' Ht Hf.
    + ptr_fld v Pv r reft n HR HN He' Hx' Ht Hf.
    + ptr_fld v Pv r reft n HR HN He' Hx' Ht Hf.
    + ptr_fld v Pv r reft n HR HN He' Hx' Ht Hf.
    + ptr_fld v Pv r reft n HR HN He' Hx' Ht Hf.
    + ptr_fld v Pv r reft n HR HN He' Hx' Ht Hf.
    + ptr_fld v Pv r reft n HR HN He' Hx' Ht Hf.
    + (* pointer to struct: the field loop is inlined *)
      destruct v as [| | | | | | | | | | | |xs]; try discriminate. cbn in Sv.
      destruct fs as [|fd fs].
      * destruct xs; [|discriminate].
        eexists _, (VPtr n (VSt [])), (n + 1)%N. split; [reflexivity|]. split.
        -- erewrite geval_clo; [|exact HR|rewrite HN; reflexivity|reflexivity]. rewrite HN. cbn.
           rewrite RR, NN. reflexivity.
        -- apply (RT_node _ _ _ _ _ HR). rewrite HN. split; [|discriminate].
           rewrite spec_eq_ptr, spec_eq_unfold, RR. cbv zeta. rewrite NN. reflexivity.
      * destruct xs as [|x xs]; [discriminate|].
        destruct (run_fields n (r_env rr) (is_named rr && is_ext rr)%bool (fd :: fs) (x :: xs) [] [] [] (n + 1)%N
                    Sv He2 Hx2 Htx Hfx eq_refl) as (body & ov & vs' & n' & GB & RB & FF & FR).
        cbn [List.length app] in GB, RB. cbv beta iota. rewrite GB. cbn [rbind].
        eexists _, (VPtr n (VSt vs')), n'. split; [reflexivity|]. split.
        -- erewrite geval_clo; [|exact HR|rewrite HN; cbn; rewrite RR, NN; reflexivity|exact RB].
           rewrite HN. cbn [finish]. rewrite FF. reflexivity.
        -- apply (RT_node _ _ _ _ _ HR). rewrite HN. split; [|discriminate].
           rewrite spec_eq_ptr, spec_eq_unfold, RR. cbv zeta. rewrite NN. cbv beta iota.
           apply fields_rt_spec. exact FR.
  - (* nil slice *)
    split; [|exact I]. start HR HN He' Hx'.
    eexists _, VNilS, n. split; [reflexivity|]. split.
    + erewrite geval_clo; [|exact HR|rewrite HN; reflexivity|reflexivity]. rewrite HN. reflexivity.
    + apply (RT_node _ _ _ _ _ HR). rewrite HN. split; [rewrite spec_eq_unfold; reflexivity|discriminate].
  - (* slice *)
    pose proof (Forall_Q_P _ H) as HP. split; [|exact I]. start HR HN He' Hx'.
    apply andb_prop in Ht as [Ht _].
    destruct (lit_basic et) as [k|] eqn:LB.
    + apply lit_basic_some in LB. subst et.
      destruct (lit_seq_vals _ _ _ Ht Hf) as (B & M & A). rewrite B.
      eexists _, (VSl n (map norm0 es) []), (n + 1)%N. split; [reflexivity|]. split.
      * erewrite geval_clo; [|exact HR|rewrite HN; reflexivity|reflexivity]. rewrite HN. cbn. rewrite M. reflexivity.
      * apply (RT_node _ _ _ _ _ HR). rewrite HN. split; [rewrite spec_eq_unfold; cbn; exact A|discriminate].
    + destruct (run_elems false n (r_env r) et es [] [] (n + 1)%N HP He' Hx' Ht Hf) as (body & vs' & n' & GB & RB & FR).
      cbn [List.length app] in GB, RB. rewrite GB. cbn [rbind].
      eexists _, (VSl n vs' []), n'. split; [reflexivity|]. split.
      * erewrite geval_clo; [|exact HR|rewrite HN; reflexivity|exact RB]. rewrite HN. cbn. rewrite fin_somes. reflexivity.
      * apply (RT_node _ _ _ _ _ HR). rewrite HN. split; [|discriminate].
        rewrite spec_eq_unfold. cbn. apply F2_spec. exact FR.
  - (* nil map *)
    split; [|exact I]. start HR HN He' Hx'.
    eexists _, VNilM, n. split; [reflexivity|]. split.
    + erewrite geval_clo; [|exact HR|rewrite HN; reflexivity|reflexivity]. rewrite HN. reflexivity.
    + apply (RT_node _ _ _ _ _ HR). rewrite HN. split; [rewrite spec_eq_unfold; reflexivity|discriminate].
  - (* map *)
    assert (HP : Forall (fun kv => P (fst kv) /\ P (snd kv)) kvs).
    { induction H as [|kv kvs' [[Pk _] [Pv _]] F IH]; constructor; [split; assumption|exact IH]. }
    split; [|exact I]. start HR HN He' Hx'.
    apply andb_prop in Ht as [Ht Ht2]. apply andb_prop in Ht as [Ck Hd].
    cbn in Hx'. apply andb_prop in Hx' as [Hxk Hxv].
    assert (Rf : Forall (fun kv => go_eqeq (fst kv) (fst kv) = true) kvs).
    { clear - Ck Ht2. induction kvs as [|kv kvs IH]; constructor.
      - cbn in Ht2. apply andb_prop in Ht2 as [Hk _]. apply andb_prop in Hk as [Hk _].
        exact (go_eqeq_refl_typed _ _ _ Ck Hk).
      - apply IH. cbn in Ht2. apply andb_prop in Ht2 as [_ Ht2]. exact Ht2. }
    destruct (lit_basic kt) as [kk|] eqn:LK.
    + apply lit_basic_some in LK. subst kt.
      destruct (lit_basic vt) as [vk|] eqn:LV.
      * apply lit_basic_some in LV. subst vt.
        destruct (lit_map_vals _ _ _ _ Ht2 Hf) as (B & M & A & _). rewrite B.
        eexists _, (VMap n _), (n + 1)%N. split; [reflexivity|]. split.
        -- erewrite geval_clo; [|exact HR|rewrite HN; reflexivity|reflexivity]. rewrite HN. cbn.
           rewrite M. rewrite map_map. cbn [fst].
           rewrite <- (map_map fst norm0), keys_distinct_norm0, Hd. reflexivity.
        -- apply (RT_node _ _ _ _ _ HR). rewrite HN. split; [|discriminate].
           rewrite spec_eq_unfold. cbn. apply map_entries_RT; assumption.
      * destruct (run_entries_lit n (r_env r) kk vt kvs [] [] [] (n + 1)%N HP He' Hxv Ht2 Hf Hd (Forall2_nil _))
          as (body & acc' & n' & GB & RB & FR).
        cbn [app] in FR. rewrite GB. cbn [rbind].
        eexists _, (VMap n acc'), n'. split; [reflexivity|]. split.
        -- erewrite geval_clo; [|exact HR|rewrite HN; reflexivity|exact RB]. rewrite HN. reflexivity.
        -- apply (RT_node _ _ _ _ _ HR). rewrite HN. split; [|discriminate].
           rewrite spec_eq_unfold. cbn. apply map_entries_RT; assumption.
    + destruct (run_entries_var n (r_env r) kt vt kvs [] [] [] (n + 1)%N 0 HP He' Hxk Hxv Ck Ht2 Hf Hd (Forall2_nil _))
        as (body & acc' & keys' & n' & GB & RB & FR).
      cbn [app] in FR. rewrite GB. cbn [rbind].
      eexists _, (VMap n acc'), n'. split; [reflexivity|]. split.
      * erewrite geval_clo; [|exact HR|rewrite HN; reflexivity|exact RB]. rewrite HN. reflexivity.
      * apply (RT_node _ _ _ _ _ HR). rewrite HN. split; [|discriminate].
        rewrite spec_eq_unfold. cbn. apply map_entries_RT; assumption.
  - (* array *)
    pose proof (Forall_Q_P _ H) as HP. split; [|exact I]. start HR HN He' Hx'.
    apply andb_prop in Ht as [Hl Ht]. rewrite Hl. cbn [negb].
    apply Nat.eqb_eq in Hl. subst len.
    destruct (lit_basic et) as [k|] eqn:LB.
    + apply lit_basic_some in LB. subst et.
      destruct (lit_seq_vals _ _ _ Ht Hf) as (B & M & A). rewrite B.
      eexists _, (VArr (map norm0 es)), n. split; [reflexivity|]. split.
      * erewrite geval_clo; [|exact HR|rewrite HN; reflexivity|reflexivity]. rewrite HN. cbn. rewrite M. reflexivity.
      * apply (RT_node _ _ _ _ _ HR). rewrite HN. split; [rewrite spec_eq_unfold; cbn; exact A|reflexivity].
    + destruct (run_elems true n (r_env r) et es [] [] n HP He' Hx' Ht Hf) as (body & vs' & n' & GB & RB & FR).
      cbn [List.length app] in GB, RB. rewrite GB. cbn [rbind].
      eexists _, (VArr vs'), n'. split; [reflexivity|]. split.
      * erewrite geval_clo; [|exact HR|rewrite HN; reflexivity|exact RB]. rewrite HN. cbn. rewrite fin_somes. reflexivity.
      * apply (RT_node _ _ _ _ _ HR). rewrite HN. split.
        -- rewrite spec_eq_unfold. cbn. apply F2_spec. exact FR.
        -- intros C. cbn in C. rewrite (F2_norm _ _ _ _ FR C). reflexivity.
  - (* struct *)
    pose proof (Forall_Q_P _ H) as HP. split; [|exact HP]. rename fs into xs. start HR HN He' Hx'.
    destruct (run_fields n (r_env r) false fs xs [] [] [] (n + 1)%N HP He' Hx' Ht Hf eq_refl)
      as (body & ov & vs' & n' & GB & RB & FF & FR).
    cbn [List.length app] in GB, RB. rewrite GB. cbn [rbind].
    eexists _, (VSt vs'), n'. split; [reflexivity|]. split.
    + erewrite geval_clo; [|exact HR|rewrite HN; reflexivity|exact RB]. rewrite HN. cbn. rewrite FF. reflexivity.
    + apply (RT_node _ _ _ _ _ HR). rewrite HN. split.
      * rewrite spec_eq_unfold. cbn. apply fields_rt_spec. exact FR.
      * intros C. cbn [norm0]. f_equal. exact (fields_rt_norm _ _ _ _ FR C).
Qed.

(* ---------- the theorems of C06 ---------- *)
Theorem gtop_roundtrip : forall v e t n,
  env_exp e -> exp_only t = true -> has_type e t v = true -> finite e t v = true ->
  exists g v' n', gtop e t v = Ok g /\ geval e t g n = Some (v', n') /\ spec_eq e t v v' = Some true.
Proof.
  intros v e t n He Hx Ht Hf. destruct (Q_all v) as [Pv _].
  destruct (Pv e t n He Hx Ht Hf) as (g & v' & n' & G & E & [S _]). exists g, v', n'. repeat split; assumption.
Qed.

Theorem gostring_roundtrip : forall t v,
  exp_only t = true -> has_type [] t v = true -> finite [] t v = true ->
  exists g v', gostring_model t v = Ok g /\ gostring_eval t g = Some v' /\ spec_eq [] t v v' = Some true.
Proof.
  intros t v Hx Ht Hf.
  destruct (gtop_roundtrip v [] t 1000000%N (Forall_nil _) Hx Ht Hf) as (g & v' & n' & G & E & S).
  exists g, v'. unfold gostring_model, gostring_eval. rewrite E. repeat split; assumption.
Qed.

(* values of comparable (pointer-free) types come back bit for bit, except that -0 reads as +0 *)
Theorem gostring_roundtrip_comparable : forall t v,
  exp_only t = true -> has_type [] t v = true -> finite [] t v = true -> can_equal t = true ->
  exists g, gostring_model t v = Ok g /\ gostring_eval t g = Some (norm0 v).
Proof.
  intros t v Hx Ht Hf C. destruct (Q_all v) as [Pv _].
  destruct (Pv [] t 1000000%N (Forall_nil _) Hx Ht Hf) as (g & v' & n' & G & E & [_ N]).
  exists g. unfold gostring_model, gostring_eval. rewrite E, (N C). split; [assumption|reflexivity].
Qed.

(* nil versus empty: structural equality keeps them apart, at the root and (by its
   recursion) at every component *)
Definition shape (v : val) : nat :=
  match v with
  | VNilP => 0 | VNilS => 1 | VNilM => 2
  | VSl _ [] _ => 3 | VMap _ [] => 4
  | VPtr _ _ => 5 | VSl _ _ _ => 6 | VMap _ _ => 7
  | _ => 8
  end%nat.

Lemma spec_eq_shape e t v v' : spec_eq e t v v' = Some true -> shape v = shape v'.
Proof.
  rewrite spec_eq_unfold. destruct (resolve e t) as [r|]; [|discriminate]. cbn zeta.
  destruct (r_node r) as [k| | | | | | |].
  - destruct k, v; cbn; try discriminate; destruct v'; cbn; try discriminate; reflexivity.
  - destruct v; discriminate.
  - destruct v; discriminate.
  - destruct v; try discriminate; destruct v'; try discriminate; reflexivity.
  - destruct v as [| | | | | | | |l es sp| | | |]; try discriminate;
      destruct v' as [| | | | | | | |l' es' sp'| | | |]; try discriminate; try reflexivity.
    destruct es, es'; cbn; try discriminate; try reflexivity.
  - destruct v; try discriminate; destruct v'; try discriminate; reflexivity.
  - destruct v as [| | | | | | | | | |l m| |]; try discriminate;
      destruct v' as [| | | | | | | | | |l' m'| |]; try discriminate; try reflexivity.
    destruct m, m'; cbn; try discriminate; reflexivity.
  - destruct v; try discriminate; destruct v'; try discriminate; reflexivity.
Qed.

Theorem gostring_nil_vs_empty : forall t v,
  exp_only t = true -> has_type [] t v = true -> finite [] t v = true ->
  exists g v', gostring_model t v = Ok g /\ gostring_eval t g = Some v' /\ shape v = shape v'.
Proof.
  intros t v Hx Ht Hf. destruct (gostring_roundtrip t v Hx Ht Hf) as (g & v' & G & E & S).
  exists g, v'. repeat split; try assumption. exact (spec_eq_shape _ _ _ _ S).
Qed.

(* ---------- the guards are satisfiable, and needed ---------- *)
Definition ex_int : ty := TB (KInt 64 true).
Definition ex_rec : ty :=
  TN 12 false (TSt [(false, ex_int); (false, TP (TRef 12)); (false, TSl (TRef 12));
                    (false, TM (TB KStr) (TP (TB KF64)))]).
Definition ex_val : val :=
  VSt [VInt 1; VPtr 5 (VSt [VInt (-2); VNilP; VNilS; VNilM]);
       VSl 6 [VSt [VInt 3; VNilP; VSl 7 [] []; VMap 8 []]] [];
       VMap 9 [(VStr [34%N; 255%N], VPtr 10 (VF true 0)); (VStr [], VNilP)]].

Example gostring_roundtrip_example :
  exp_only (TP ex_rec) = true /\ has_type [] (TP ex_rec) (VPtr 1 ex_val) = true /\
  finite [] (TP ex_rec) (VPtr 1 ex_val) = true /\
  match gostring_model (TP ex_rec) (VPtr 1 ex_val) with
  | Ok g => match gostring_eval (TP ex_rec) g with
            | Some v' => spec_eq [] (TP ex_rec) (VPtr 1 ex_val) v' = Some true
            | None => False
            end
  | _ => False
  end.
Proof. vm_compute. repeat split; reflexivity. Qed.

(* outside the guard: %#v prints +Inf, which is not a Go expression *)
Theorem gostring_infinite_refuted :
  has_type [] (TB KF64) (VF false f64_inf) = true /\
  match gostring_model (TB KF64) (VF false f64_inf) with
  | Ok g => gostring_eval (TB KF64) g = None
  | _ => False
  end.
Proof. vm_compute. split; reflexivity. Qed.

(* outside the guard: an unexported field cannot be assigned from another package *)
Theorem gostring_unexported_refuted :
  let t := TN 50 false (TSt [(true, ex_int)]) in
  has_type [] t (VSt [VInt 1]) = true /\ finite [] t (VSt [VInt 1]) = true /\
  match gostring_model t (VSt [VInt 1]) with
  | Ok g => gostring_eval t g = None
  | _ => False
  end.
Proof. vm_compute. repeat split; reflexivity. Qed.
