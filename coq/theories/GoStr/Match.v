(* GoStr/Match.v — (S) correspondence: the text returned by the real deriveGoString, parsed by
   the harness with go/parser into an s-expression, against the model's expression.

     expr := (clo ATY HEAD (STMT ...) RET) | (ptrlit ATY LIT) | LIT
     HEAD := none | (addr ATY) | (new ATY) | (mksl ATY N) | (mkmap ATY) | (arr ATY)
     STMT := (setf I expr) | (setd expr) | (seti I expr) | (setkl LIT expr) | (key J expr) | (setkv J expr)
     RET  := nil | this | deref | (addr0 ATY) | (lit LIT)
     LIT  := (num NEG ISINT ABS F64MAG F32MAG) | (str BYTE ...) | (bool 0|1) | (cplx NUM NUM)
           | (seq ATY LIT ...) | (mapl ATY (LIT LIT) ...)
     ATY  := the interchange format of types; a named type is (ref ID)

   The comparison is exact except that the statements filling a map are compared as a
   multiset of entries (Go's iteration order) and key variables are paired by name.
   Guard of the property (exported fields only, finite floats) is defined here too. *)
From Coq Require Import String.
From Verif Require Export GoStr.Geval.
Open Scope string_scope.

Definition bkind_eqb (a b : bkind) : bool :=
  match a, b with
  | KBool, KBool | KF32, KF32 | KF64, KF64 | KC64, KC64 | KC128, KC128 | KStr, KStr => true
  | KInt w s, KInt w' s' => (N.eqb w w' && Bool.eqb s s')%bool
  | _, _ => false
  end.

Fixpoint ty_eqb (a b : ty) {struct a} : bool :=
  match a, b with
  | TB k, TB k' => bkind_eqb k k'
  | TN i x u, TN i' x' u' => (Nat.eqb i i' && Bool.eqb x x' && ty_eqb u u')%bool
  | TRef i, TRef i' => Nat.eqb i i'
  | TP t, TP t' => ty_eqb t t'
  | TSl t, TSl t' => ty_eqb t t'
  | TAr n t, TAr n' t' => (Nat.eqb n n' && ty_eqb t t')%bool
  | TM k v, TM k' v' => (ty_eqb k k' && ty_eqb v v')%bool
  | TSt fs, TSt fs' =>
      (fix go (l l' : list (bool * ty)) {struct l} : bool :=
         match l, l' with
         | [], [] => true
         | f :: r, f' :: r' => (Bool.eqb (fst f) (fst f') && ty_eqb (snd f) (snd f') && go r r')%bool
         | _, _ => false
         end) fs fs'
  | _, _ => false
  end.

(* The helper that prints a component is looked up by ASSIGNABILITY (derive/typesmap.go: nameOf
   ranges over a Go map; C08): where a package also has a function for a named type with the
   identical underlying type (type NPS *S0 beside a component *S0, type S0 struct{..} beside a
   component struct{..}), either may be called, so the declared result type / the T of T{} and
   make(T) may be the named or the unnamed spelling.  Both compile (stage 2 checks that). *)
Definition is_composite (t : ty) : bool :=
  match t with TP _ | TSl _ | TAr _ _ | TM _ _ | TSt _ => true | _ => false end.
Definition aty_match (a b : ty) : bool :=
  (ty_eqb a b || match a, b with
                 | TRef _, _ => is_composite b
                 | _, TRef _ => is_composite a
                 | _, _ => false
                 end)%bool.

Definition ty_is (t : ty) (s : sexp) : bool :=
  match parse_ty s with Some t' => aty_match t t' | None => false end.

(* ---------- literals ---------- *)
Definition num_parts (s : sexp) : option (bool * bool * Z * N * N) :=
  match s with
  | L [Sym h; Num ng; Num ii; Num a; Num f64; Num f32] =>
      if String.eqb h "num" then Some (Z.eqb ng 1, Z.eqb ii 1, a, Z.to_N f64, Z.to_N f32) else None
  | _ => None
  end.

(* (inf NEG): %#v of an infinite float prints +Inf / -Inf *)
Definition float_match (w32 n : bool) (m : N) (s : sexp) : bool :=
  match num_parts s with
  | Some (ng, _, _, f64, f32) => (Bool.eqb ng n && N.eqb (if w32 then f32 else f64) m)%bool
  | None =>
      match s with
      | L [Sym h; Num ng] =>
          (String.eqb h "inf" && Bool.eqb (Z.eqb ng 1) n && N.eqb m (if w32 then f32_inf else f64_inf))%bool
      | _ => false
      end
  end.

Fixpoint ns_eqb (a b : list N) : bool :=
  match a, b with
  | [], [] => true
  | x :: a', y :: b' => (N.eqb x y && ns_eqb a' b')%bool
  | _, _ => false
  end.

Definition scalar_match (k : bkind) (v : val) (s : sexp) : bool :=
  match k, v with
  | KBool, VBool b =>
      match s with
      | L [Sym h; Num z] => (String.eqb h "bool" && Bool.eqb b (Z.eqb z 1))%bool
      | _ => false
      end
  | KInt _ _, VInt z =>
      match num_parts s with
      | Some (ng, true, a, _, _) => (Z.eqb z (if ng then - a else a) && Bool.eqb ng (z <? 0)%Z)%bool
      | _ => false
      end
  | KF32, VF n m => float_match true n m s
  | KF64, VF n m => float_match false n m s
  | KC64, VC a b c d =>
      match s with
      | L [Sym h; re; im] => (String.eqb h "cplx" && float_match true a b re && float_match true c d im)%bool
      | _ => false
      end
  | KC128, VC a b c d =>
      match s with
      | L [Sym h; re; im] => (String.eqb h "cplx" && float_match false a b re && float_match false c d im)%bool
      | _ => false
      end
  | KStr, VStr bs =>
      match s with
      | L (Sym h :: l) =>
          (String.eqb h "str" && match get_bytes l with Some bs' => ns_eqb bs bs' | None => false end)%bool
      | _ => false
      end
  | _, _ => false
  end.

Fixpoint all2s {A} (f : A -> sexp -> bool) (xs : list A) (ss : list sexp) : bool :=
  match xs, ss with
  | [], [] => true
  | x :: xs', s :: ss' => (f x s && all2s f xs' ss')%bool
  | _, _ => false
  end.

Definition lit_match (l : glit) (s : sexp) : bool :=
  match l with
  | LScalar k v => scalar_match k v s
  | LSeq _ a k es =>
      match s with
      | L (Sym h :: at_ :: ss) => (String.eqb h "seq" && ty_is a at_ && all2s (scalar_match k) es ss)%bool
      | _ => false
      end
  | LMap a kk vk kvs =>
      match s with
      | L (Sym h :: at_ :: ss) =>
          (String.eqb h "mapl" && ty_is a at_ && Nat.eqb (List.length kvs) (List.length ss)
           && forallb (fun kv =>
                existsb (fun p => match p with
                                  | L [pk; pv] => (scalar_match kk (fst kv) pk && scalar_match vk (snd kv) pv)%bool
                                  | _ => false
                                  end) ss) kvs)%bool
      | _ => false
      end
  end.

Definition nat_is (n : nat) (s : sexp) : bool :=
  match s with Num z => (Z.eqb z (Z.of_nat n) && (0 <=? z)%Z)%bool | _ => false end.

Definition head_match (h : ghead) (s : sexp) : bool :=
  match h, s with
  | HNone, Sym x => String.eqb x "none"
  | HAddr a, L [Sym x; t] => (String.eqb x "addr" && ty_is a t)%bool
  | HNew a, L [Sym x; t] => (String.eqb x "new" && ty_is a t)%bool
  | HMakeSl a n, L [Sym x; t; c] => (String.eqb x "mksl" && ty_is a t && nat_is n c)%bool
  | HMakeMap a, L [Sym x; t] => (String.eqb x "mkmap" && ty_is a t)%bool
  | HArr a, L [Sym x; t] => (String.eqb x "arr" && ty_is a t)%bool
  | _, _ => false
  end.

Definition ret_match (r : gret) (s : sexp) : bool :=
  match r, s with
  | RNil, Sym x => String.eqb x "nil"
  | RThis, Sym x => String.eqb x "this"
  | RDeref, Sym x => String.eqb x "deref"
  | RAddr0 a, L [Sym x; t] => (String.eqb x "addr0" && ty_is a t)%bool
  | RLit l, L [Sym x; p] => (String.eqb x "lit" && lit_match l p)%bool
  | _, _ => false
  end.

Definition is_map_head (h : ghead) : bool := match h with HMakeMap _ => true | _ => false end.

(* the statements of a map-filling body, as entries (key part, value expression) *)
Fixpoint text_entries (ss : list sexp) : option (list (sexp * sexp)) :=
  match ss with
  | [] => Some []
  | L [Sym h; Num j; ek] :: L [Sym h'; Num j'; ev] :: ss' =>
      if (String.eqb h "key" && String.eqb h' "setkv" && Z.eqb j j')%bool
      then option_map (cons (L [Sym "var"; ek], ev)) (text_entries ss') else None
  | L [Sym h; l; ev] :: ss' =>
      if String.eqb h "setkl" then option_map (cons (L [Sym "lit"; l], ev)) (text_entries ss') else None
  | _ => None
  end.

(* first element satisfying p, removed *)
Fixpoint find_remove {A} (p : A -> bool) (l : list A) : option (list A) :=
  match l with
  | [] => None
  | x :: l' => if p x then Some l' else option_map (cons x) (find_remove p l')
  end.

Fixpoint gmatch (g : gexpr) (s : sexp) {struct g} : bool :=
  match g with
  | GLit l => lit_match l s
  | GPtrLit k v =>
      match s with
      | L [Sym h; a; l] => (String.eqb h "ptrlit" && ty_is (TB k) a && scalar_match k v l)%bool
      | _ => false
      end
  | GClo rt hd body ret =>
      match s with
      | L [Sym h; a; hs; L stmts; rs] =>
          (String.eqb h "clo" && ty_is rt a && head_match hd hs && ret_match ret rs &&
           if is_map_head hd then
             match text_entries stmts with
             | None => false
             | Some tes =>
                 (fix pm (b : list (gtarget * gexpr)) (tes : list (sexp * sexp)) {struct b} : bool :=
                    match b with
                    | [] => match tes with [] => true | _ => false end
                    | (TgKeyLit k v, gv) :: b' =>
                        match find_remove (fun te =>
                                match fst te with
                                | L [Sym x; l] => (String.eqb x "lit" && scalar_match k v l && gmatch gv (snd te))%bool
                                | _ => false
                                end) tes with
                        | Some tes' => pm b' tes'
                        | None => false
                        end
                    | (TgDeclKey j, gk) :: (TgKeyVar j', gv) :: b' =>
                        if Nat.eqb j j' then
                          match find_remove (fun te =>
                                  match fst te with
                                  | L [Sym x; ek] => (String.eqb x "var" && gmatch gk ek && gmatch gv (snd te))%bool
                                  | _ => false
                                  end) tes with
                          | Some tes' => pm b' tes'
                          | None => false
                          end
                        else false
                    | _ => false
                    end) body tes
             end
           else
             (fix sm (b : list (gtarget * gexpr)) (ss : list sexp) {struct b} : bool :=
                match b, ss with
                | [], [] => true
                | (tg, ge) :: b', st :: ss' =>
                    (match tg, st with
                     | TgField i, L [Sym x; n; e] => (String.eqb x "setf" && nat_is i n && gmatch ge e)%bool
                     | TgDeref, L [Sym x; e] => (String.eqb x "setd" && gmatch ge e)%bool
                     | TgIdx i, L [Sym x; n; e] => (String.eqb x "seti" && nat_is i n && gmatch ge e)%bool
                     | _, _ => false
                     end && sm b' ss')%bool
                | _, _ => false
                end) body stmts)%bool
      | _ => false
      end
  end.

(* ---------- the guard of C06 ---------- *)
(* every struct field reachable in the type is exported *)
Fixpoint exp_only (t : ty) : bool :=
  match t with
  | TB _ | TRef _ => true
  | TN _ _ u => exp_only u
  | TP t' | TSl t' | TAr _ t' => exp_only t'
  | TM k v => (exp_only k && exp_only v)%bool
  | TSt fs => (fix go (l : list (bool * ty)) : bool :=
                 match l with [] => true | f :: l' => (negb (fst f) && exp_only (snd f) && go l')%bool end) fs
  end.

(* every float in the value (as far as the generated function looks at it) is finite *)
Fixpoint finite (e : tenv) (t : ty) (v : val) {struct v} : bool :=
  match resolve e t with
  | None => false
  | Some r =>
      let e' := r_env r in
      match r_node r, v with
      | TB k, _ => fin_ok k v
      | TP t', VPtr _ v' => finite e' t' v'
      | TSl t', VSl _ es _ => forallb (finite e' t') es
      | TAr _ t', VArr es => forallb (finite e' t') es
      | TM tk tv, VMap _ kvs => forallb (fun kv => finite e' tk (fst kv) && finite e' tv (snd kv))%bool kvs
      | TSt fs, VSt vs => fields_ok (finite e') fs vs
      | _, _ => true
      end
  end.
