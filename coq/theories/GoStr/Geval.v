(* GoStr/Geval.v — meaning of the printed expressions: a type-directed evaluator for the
   statement language of GoStr/Model.v, i.e. the fragment of Go that derived GoString emits.

   [geval e t g n] evaluates g where a value of type t is expected (Go type-checks the text
   against the declared result type; untyped constants take their type from the context);
   n is the next fresh address label.  [None] = the text does not compile / is outside the
   fragment:
     - a float constant that is not finite (%#v prints +Inf, NaN: not Go expressions),
     - an assignment to an unexported field (the text is compiled in ANOTHER package),
     - a statement that does not fit the declared variable, an index out of range,
     - a component left unassigned whose zero value is not nil (the evaluator knows only
       the zero values nil pointer / nil slice / nil map; this under-approximates Go, which
       has a zero value for every type: whenever [geval] answers, Go computes that answer).
   Go constant semantics: the literal -0 is the integer constant 0, so a negative zero is
   read back as +0 (Go's == and the structural equality of C02 do not distinguish them). *)
From Coq Require Import String.
From Verif Require Export GoStr.Model.
Open Scope Z_scope.

Definition f32_inf : N := 2139095040.
Definition f64_inf : N := 9218868437227405312.

(* finite floats (the quantifier of C06) *)
Definition fin_ok (k : bkind) (v : val) : bool :=
  match k, v with
  | KF32, VF _ m => (m <? f32_inf)%N
  | KF64, VF _ m => (m <? f64_inf)%N
  | KC64, VC _ a _ b => ((a <? f32_inf) && (b <? f32_inf))%N%bool
  | KC128, VC _ a _ b => ((a <? f64_inf) && (b <? f64_inf))%N%bool
  | _, _ => true
  end.

Definition nz (n : bool) (m : N) : bool := if N.eqb m 0 then false else n.

(* -0 ↦ +0 at every float; addresses untouched *)
Fixpoint norm0 (v : val) : val :=
  match v with
  | VF n m => VF (nz n m) m
  | VC a b c d => VC (nz a b) b (nz c d) d
  | VArr es => VArr (map norm0 es)
  | VSt fs => VSt (map norm0 fs)
  | _ => v
  end.

Definition scalar_eval (k : bkind) (v : val) : option val :=
  if (basic_ok k v && fin_ok k v)%bool then Some (norm0 v) else None.

Definition lit_eval (l : glit) (n : N) : option (val * N) :=
  match l with
  | LScalar k v => option_map (fun v' => (v', n)) (scalar_eval k v)
  | LSeq arr _ k es =>
      match map_opt (scalar_eval k) es with
      | Some es' => Some (if arr then (VArr es', n) else (VSl n es' [], n + 1)%N)
      | None => None
      end
  | LMap _ kk vk kvs =>
      match map_opt (fun kv => match scalar_eval kk (fst kv), scalar_eval vk (snd kv) with
                               | Some k', Some v' => Some (k', v') | _, _ => None end) kvs with
      | Some kvs' =>
          (* duplicate constant keys in a map literal are a compile error *)
          if keys_distinct (map fst kvs') then Some (VMap n kvs', n + 1)%N else None
      | None => None
      end
  end.

(* the variable declared by the first statement, with what has been assigned so far *)
Inductive cell : Type :=
| CNone
| CStruct (l : N) (e : tenv) (fs : list (bool * ty)) (vs : list (option val))
| CNew (l : N) (e : tenv) (t : ty) (o : option val)
| CSeq (arr : bool) (l : N) (e : tenv) (t : ty) (vs : list (option val))
| CMap (l : N) (e : tenv) (kt vt : ty) (kvs : list (val * val)).

Definition nil_of (e : tenv) (t : ty) : option val :=
  match resolve e t with
  | Some r => match r_node r with
              | TP _ => Some VNilP | TSl _ => Some VNilS | TM _ _ => Some VNilM | _ => None
              end
  | None => None
  end.

Definition fin1 (e : tenv) (t : ty) (o : option val) : option val :=
  match o with Some v => Some v | None => nil_of e t end.

Fixpoint fin_fields (e : tenv) (fs : list (bool * ty)) (vs : list (option val)) : option (list val) :=
  match fs, vs with
  | [], [] => Some []
  | fd :: fs', o :: vs' =>
      match fin1 e (snd fd) o, fin_fields e fs' vs' with
      | Some v, Some r => Some (v :: r)
      | _, _ => None
      end
  | _, _ => None
  end.

Fixpoint upd {A} (l : list A) (i : nat) (a : A) : option (list A) :=
  match l, i with
  | [], _ => None
  | _ :: t, O => Some (a :: t)
  | h :: t, S i' => option_map (cons h) (upd t i' a)
  end.

(* m[k] = v *)
Fixpoint map_set (k v : val) (m : list (val * val)) : list (val * val) :=
  match m with
  | [] => [(k, v)]
  | kv :: m' => if go_eqeq (fst kv) k then (k, v) :: m' else kv :: map_set k v m'
  end.

Fixpoint key_get (j : nat) (keys : list (nat * val)) : option val :=
  match keys with
  | [] => None
  | (j', v) :: keys' => if Nat.eqb j' j then Some v else key_get j keys'
  end.

Definition init_cell (e' : tenv) (node : ty) (hd : ghead) (n : N) : option (cell * N) :=
  match hd, node with
  | HNone, _ => Some (CNone, n)
  | HAddr _, TP reft =>
      match resolve e' reft with
      | Some rr => match r_node rr with
                   | TSt fs => Some (CStruct n (r_env rr) fs (repeat None (List.length fs)), n + 1)%N
                   | _ => None
                   end
      | None => None
      end
  | HAddr _, TSt fs => Some (CStruct n e' fs (repeat None (List.length fs)), n + 1)%N
  | HNew _, TP reft => Some (CNew n e' reft None, n + 1)%N
  | HMakeSl _ len, TSl et => Some (CSeq false n e' et (repeat None len), n + 1)%N
  | HArr _, TAr len et => Some (CSeq true n e' et (repeat None len), n)
  | HMakeMap _, TM kt vt => Some (CMap n e' kt vt [], n + 1)%N
  | _, _ => None
  end.

Definition finish (e' : tenv) (node : ty) (c : cell) (ret : gret) (n : N) : option (val * N) :=
  match ret, c, node with
  | RNil, CNone, TP _ => Some (VNilP, n)
  | RNil, CNone, TSl _ => Some (VNilS, n)
  | RNil, CNone, TM _ _ => Some (VNilM, n)
  | RThis, CStruct l ce fs vs, TP _ => option_map (fun vs' => (VPtr l (VSt vs'), n)) (fin_fields ce fs vs)
  | RThis, CNew l ce ct o, TP _ => option_map (fun v => (VPtr l v, n)) (fin1 ce ct o)
  | RThis, CSeq false l ce et vs, TSl _ => option_map (fun vs' => (VSl l vs' [], n)) (map_opt (fin1 ce et) vs)
  | RThis, CSeq true _ ce et vs, TAr _ _ => option_map (fun vs' => (VArr vs', n)) (map_opt (fin1 ce et) vs)
  | RThis, CMap l _ _ _ kvs, TM _ _ => Some (VMap l kvs, n)
  | RDeref, CStruct _ ce fs vs, TSt _ => option_map (fun vs' => (VSt vs', n)) (fin_fields ce fs vs)
  | RAddr0 _, CNone, TP reft =>
      match resolve e' reft with
      | Some rr => match r_node rr with TSt [] => Some (VPtr n (VSt []), n + 1)%N | _ => None end
      | None => None
      end
  | RLit l, CNone, _ => lit_eval l n
  | _, _, _ => None
  end.

Section Run.
Variable ev : tenv -> ty -> gexpr -> N -> option (val * N).

(* one statement *)
Definition step (tg : gtarget) (ge : gexpr) (c : cell) (keys : list (nat * val)) (n : N)
  : option (cell * list (nat * val) * N) :=
  match tg, c with
  | TgField i, CStruct l ce fs vs =>
      match nth_error fs i with
      | Some (false, ft) =>
          match ev ce ft ge n with
          | Some (v, n') => option_map (fun vs' => (CStruct l ce fs vs', keys, n')) (upd vs i (Some v))
          | None => None
          end
      | _ => None      (* no such field, or unexported: not assignable from another package *)
      end
  | TgDeref, CNew l ce ct _ =>
      match ev ce ct ge n with
      | Some (v, n') => Some (CNew l ce ct (Some v), keys, n')
      | None => None
      end
  | TgIdx i, CSeq arr l ce et vs =>
      match ev ce et ge n with
      | Some (v, n') => option_map (fun vs' => (CSeq arr l ce et vs', keys, n')) (upd vs i (Some v))
      | None => None
      end
  | TgKeyLit k kv, CMap l ce kt vt kvs =>
      match scalar_eval k kv with
      | Some k' =>
          match ev ce vt ge n with
          | Some (v, n') => Some (CMap l ce kt vt (map_set k' v kvs), keys, n')
          | None => None
          end
      | None => None
      end
  | TgDeclKey j, CMap l ce kt vt kvs =>
      match ev ce kt ge n with
      | Some (v, n') => Some (c, (j, v) :: keys, n')
      | None => None
      end
  | TgKeyVar j, CMap l ce kt vt kvs =>
      match key_get j keys with
      | Some k' =>
          match ev ce vt ge n with
          | Some (v, n') => Some (CMap l ce kt vt (map_set k' v kvs), keys, n')
          | None => None
          end
      | None => None
      end
  | _, _ => None
  end.

Fixpoint run (b : list (gtarget * gexpr)) (c : cell) (keys : list (nat * val)) (n : N) {struct b}
  : option (cell * list (nat * val) * N) :=
  match b with
  | [] => Some (c, keys, n)
  | s :: b' =>
      match step (fst s) (snd s) c keys n with
      | Some (c', keys', n') => run b' c' keys' n'
      | None => None
      end
  end.
End Run.

Fixpoint geval (e : tenv) (t : ty) (g : gexpr) (n : N) {struct g} : option (val * N) :=
  match g with
  | GLit l => lit_eval l n
  | GPtrLit k v => option_map (fun v' => (VPtr n v', n + 1)%N) (scalar_eval k v)
  | GClo _ hd body ret =>
      match resolve e t with
      | None => None
      | Some r =>
          match init_cell (r_env r) (r_node r) hd n with
          | None => None
          | Some (c0, n0) =>
              match run (fun e t g n => geval e t g n) body c0 [] n0 with
              | Some (c, _, n1) => finish (r_env r) (r_node r) c ret n1
              | None => None
              end
          end
      end
  end.

(* the value the text denotes when compiled where a T is expected *)
Definition gostring_eval (t : ty) (g : gexpr) : option val := option_map fst (geval [] t g 1000000%N).
