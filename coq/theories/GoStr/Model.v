(* GoStr/Model.v — model of the code emitted by plugin/gostring (C06).

   [gtop e t v] is the Go expression that the generated function deriveGoString(T) prints for
   the value v (genFunc + genStatement); [gfld] is genField (what is assigned to a component).
   The printed text is always a closure literal

        func() T { [head]; assignment*; return ... }()

   whose statements come from a tiny language; leaves are the texts that fmt's %#v prints
   for basic values and for slices/arrays/maps of unnamed basic types ([glit]).

   Type annotations inside the expression (the result type of the closure, the T of
   &T{} / new(T) / make(T, n) / T{}) are what derive.TypeStringBypass prints: a named type is
   printed as pkg.Name — represented here by [TRef id] ([strip]). *)
From Coq Require Import String.
From Verif Require Export Go.Val.
Open Scope Z_scope.

(* %#v leaves *)
Inductive glit : Type :=
| LScalar (k : bkind) (v : val)                        (* 5  0x5  "a\n"  true  1.5  (1+2i) *)
| LSeq (arr : bool) (a : ty) (k : bkind) (es : list val) (* []int{1, 2}   [2]string{"a", "b"}   pkg.NSl{1} *)
| LMap (a : ty) (kk vk : bkind) (kvs : list (val * val)). (* map[string]int{"a":1}   pkg.NMap{...} *)

Inductive ghead : Type :=
| HNone                          (* no local variable *)
| HAddr (a : ty)                 (* this := &T{} *)
| HNew (a : ty)                  (* this := new(T) *)
| HMakeSl (a : ty) (n : nat)     (* this := make(T, n) *)
| HMakeMap (a : ty)              (* this := make(T) *)
| HArr (a : ty).                 (* this := T{} *)

Inductive gtarget : Type :=
| TgField (i : nat)              (* this.F<i> = e *)
| TgDeref                        (* *this = e *)
| TgIdx (i : nat)                (* this[i] = e *)
| TgKeyLit (k : bkind) (v : val) (* this[<%#v of the key>] = e *)
| TgDeclKey (j : nat)            (* key<j> := e *)
| TgKeyVar (j : nat).            (* this[key<j>] = e *)

Inductive gret : Type :=
| RNil                           (* return nil *)
| RThis                          (* return this *)
| RDeref                         (* return *this *)
| RAddr0 (a : ty)                (* return &T{} *)
| RLit (l : glit).               (* return <%#v> *)

Inductive gexpr : Type :=
| GLit (l : glit)
| GPtrLit (k : bkind) (v : val)  (* func (v B) *B { return &v }(<%#v>) *)
| GClo (rt : ty) (hd : ghead) (body : list (gtarget * gexpr)) (ret : gret).

(* derive.TypeStringBypass: named types by name, everything else structurally *)
Fixpoint strip (t : ty) : ty :=
  match t with
  | TB k => TB k
  | TN id _ _ => TRef id
  | TRef id => TRef id
  | TP t' => TP (strip t')
  | TSl t' => TSl (strip t')
  | TAr n t' => TAr n (strip t')
  | TM k v => TM (strip k) (strip v)
  | TSt fs => TSt (map (fun f => (fst f, strip (snd f))) fs)
  end.

(* elmTyp is a types.Basic: an unnamed basic type *)
Definition lit_basic (t : ty) : option bkind := match t with TB k => Some k | _ => None end.

Definition assign (tg : gtarget) (o : option gexpr) : list (gtarget * gexpr) :=
  match o with Some g => [(tg, g)] | None => [] end.

Section Fld.
(* the generated helper for a component type: the same construction on that component *)
Variable top : tenv -> ty -> val -> res gexpr.

(* genField: the expression assigned to a component of type ft holding x (None: no statement) *)
Definition gfld (e : tenv) (ft : ty) (x : val) : res (option gexpr) :=
  match resolve e ft with
  | None => Stuck
  | Some r =>
      let e' := r_env r in
      match r_node r, x with
      | TB k, _ => if basic_ok k x then Ok (Some (GLit (LScalar k x))) else Stuck
      | TP _, VNilP => Ok None
      | TP el, VPtr _ x' =>
          match lit_basic el with
          | Some k => if basic_ok k x' then Ok (Some (GPtrLit k x')) else Stuck
          (* g.GetFuncName(fieldType): the helper of the component's OWN type, like slices, arrays and
             maps (since the fix "a component of a named pointer, slice, array or map type is handed to the
             function of its own type"; before, the helper of the underlying pointer type: top e' (TP el) x) *)
          | None => rdo g <- top e ft x; Ok (Some g)
          end
      | TSl _, VNilS => Ok None
      | TSl el, VSl _ es _ =>
          match lit_basic el with
          | Some k => if forallb (basic_ok k) es then Ok (Some (GLit (LSeq false (strip ft) k es))) else Stuck
          | None => rdo g <- top e ft x; Ok (Some g)
          end
      | TAr n el, VArr es =>
          match lit_basic el with
          | Some k => if (Nat.eqb (List.length es) n && forallb (basic_ok k) es)%bool
                      then Ok (Some (GLit (LSeq true (strip ft) k es))) else Stuck
          | None => rdo g <- top e ft x; Ok (Some g)
          end
      | TM _ _, VNilM => Ok None
      | TM kt vt, VMap _ kvs =>
          match lit_basic kt, lit_basic vt with
          | Some kk, Some vk =>
              if forallb (fun kv => basic_ok kk (fst kv) && basic_ok vk (snd kv))%bool kvs
              then Ok (Some (GLit (LMap (strip ft) kk vk kvs))) else Stuck
          | _, _ => rdo g <- top e ft x; Ok (Some g)
          end
      | TSt _, VSt _ => rdo g <- top e ft x; Ok (Some g)
      | _, _ => Stuck
      end
  end.

(* the field loop: this.F<i> = ... for every field, in declaration order.
   [extp] = the struct is declared in another package and the function was generated for a
   pointer to it: an unexported field is then a generator error. *)
Fixpoint gfields (extp : bool) (e : tenv) (fs : list (bool * ty)) (xs : list val) (i : nat) {struct xs}
  : res (list (gtarget * gexpr)) :=
  match fs, xs with
  | [], [] => Ok []
  | fd :: fs', x :: xs' =>
      if (fst fd && extp)%bool then Unsup else
      rdo a <- gfld e (snd fd) x;
      rdo rest <- gfields extp e fs' xs' (S i);
      Ok (assign (TgField i) a ++ rest)%list
  | _, _ => Stuck
  end.

(* for i := range this { this[i] = helper(this[i]) } *)
Fixpoint gelems (e : tenv) (et : ty) (xs : list val) (i : nat) {struct xs} : res (list (gtarget * gexpr)) :=
  match xs with
  | [] => Ok []
  | x :: xs' =>
      rdo g <- top e et x;
      rdo rest <- gelems e et xs' (S i);
      Ok ((TgIdx i, g) :: rest)
  end.

(* for k, v := range this { this[%#v k] = helper(v) }   (basic key) *)
Fixpoint gentries_lit (e : tenv) (kk : bkind) (vt : ty) (kvs : list (val * val)) {struct kvs}
  : res (list (gtarget * gexpr)) :=
  match kvs with
  | [] => Ok []
  | kv :: kvs' =>
      if negb (basic_ok kk (fst kv)) then Stuck else
      rdo g <- top e vt (snd kv);
      rdo rest <- gentries_lit e kk vt kvs';
      Ok ((TgKeyLit kk (fst kv), g) :: rest)
  end.

(* i := 0; for k, v := range this { key<i> := helper(k); this[key<i>] = helper(v); i++ } *)
Fixpoint gentries_var (e : tenv) (kt vt : ty) (kvs : list (val * val)) (i : nat) {struct kvs}
  : res (list (gtarget * gexpr)) :=
  match kvs with
  | [] => Ok []
  | kv :: kvs' =>
      rdo gk <- top e kt (fst kv);
      rdo gv <- top e vt (snd kv);
      rdo rest <- gentries_var e kt vt kvs' (S i);
      Ok ((TgDeclKey i, gk) :: (TgKeyVar i, gv) :: rest)
  end.
End Fld.

(* genFunc + genStatement.  Map entries are visited in the order of the value's entry list
   (Go's iteration order is arbitrary: the theorems hold for every order). *)
Fixpoint gtop (e : tenv) (t : ty) (v : val) {struct v} : res gexpr :=
  match resolve e t with
  | None => Stuck
  | Some r =>
      let e' := r_env r in
      let rt := strip t in
      match r_node r, v with
      | TB k, _ => if basic_ok k v then Ok (GClo rt HNone [] (RLit (LScalar k v))) else Stuck
      | TP reft, VNilP =>
          match resolve e' reft with Some _ => Ok (GClo rt HNone [] RNil) | None => Stuck end
      | TP reft, VPtr _ x =>
          match resolve e' reft with
          | None => Stuck
          | Some rr =>
              match r_node rr, x with
              | TSt [], VSt [] => Ok (GClo rt HNone [] (RAddr0 (strip reft)))
              | TSt fs, VSt xs =>
                  rdo body <- gfields (fun e t x => gtop e t x) (is_named rr && is_ext rr)%bool (r_env rr) fs xs 0;
                  Ok (GClo rt (HAddr (strip reft)) body RThis)
              | TSt _, _ => Stuck
              | _, _ =>
                  rdo a <- gfld (fun e t x => gtop e t x) e' reft x;
                  Ok (GClo rt (HNew (strip reft)) (assign TgDeref a) RThis)
              end
          end
      | TSt fs, VSt xs =>
          rdo body <- gfields (fun e t x => gtop e t x) false e' fs xs 0;
          Ok (GClo rt (HAddr rt) body RDeref)
      | TSl _, VNilS => Ok (GClo rt HNone [] RNil)
      | TSl et, VSl _ es _ =>
          match lit_basic et with
          | Some k => if forallb (basic_ok k) es then Ok (GClo rt HNone [] (RLit (LSeq false rt k es))) else Stuck
          | None =>
              rdo body <- gelems (fun e t x => gtop e t x) e' et es 0;
              (* g.TypeString(ttyp): the underlying slice type *)
              Ok (GClo rt (HMakeSl (TSl (strip et)) (List.length es)) body RThis)
          end
      | TAr n et, VArr es =>
          if negb (Nat.eqb (List.length es) n) then Stuck else
          match lit_basic et with
          | Some k => if forallb (basic_ok k) es then Ok (GClo rt HNone [] (RLit (LSeq true rt k es))) else Stuck
          | None =>
              rdo body <- gelems (fun e t x => gtop e t x) e' et es 0;
              Ok (GClo rt (HArr rt) body RThis)
          end
      | TM _ _, VNilM => Ok (GClo rt HNone [] RNil)
      | TM kt vt, VMap _ kvs =>
          match lit_basic kt, lit_basic vt with
          | Some kk, Some vk =>
              if forallb (fun kv => basic_ok kk (fst kv) && basic_ok vk (snd kv))%bool kvs
              then Ok (GClo rt HNone [] (RLit (LMap rt kk vk kvs))) else Stuck
          | Some kk, None =>
              rdo body <- gentries_lit (fun e t x => gtop e t x) e' kk vt kvs;
              Ok (GClo rt (HMakeMap rt) body RThis)
          | None, _ =>
              rdo body <- gentries_var (fun e t x => gtop e t x) e' kt vt kvs 0;
              Ok (GClo rt (HMakeMap rt) body RThis)
          end
      | _, _ => Stuck
      end
  end.

Definition gostring_model (t : ty) (v : val) : res gexpr := gtop [] t v.
