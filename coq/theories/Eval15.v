(* Eval15.v — evaluation of C15 observations (stub: replaced when C15 is built). *)
From Verif Require Import Base Sexp.
Open Scope string_scope.

Definition eval15 (e : sexp) : verdict := bad_line.
