(* Eval15.v — evaluation of C15 observations: real vs model (Plumb/Model.v), real vs specification.

   Observation lines (harness/internal/c15):
     (wf   PLUGIN SIG REAL)         REAL = 1 if the derived function type-checks and has the type of
                                    the wrapper the property speaks of (same parameters as the original
                                    function, redistributed; the original's results), else 0
     (call PLUGIN SIG ARGS REAL)    REAL = (ret (EVENT ...) (RESULT ...)), EVENT = (LEVEL (ARG ...)),
                                    or the symbol panic (never equal to a prediction)
   PLUGIN = curry | flip | apply | uncurry | rt (Uncurry of Curry) | tuple
   SIG    = (sig (PARAM ...) (RESULT ...) VARIADIC)          PARAM/RESULT = (NAME TYPE) | (TYPE)
          | (csig (PARAM ...) (PARAM ...) (RESULT ...) VARIADIC)    uncurry: outer, inner
          | (tuple N)
   ARGS   = argument ids, in the order in which the caller of the derived function supplies them
            (apply: the arguments of the returned function followed by the pre-bound value).

     (site PLUGIN (FLAG ...) (SIG ...) J ARGS REAL)
        one derived function reached from several call sites (harness/internal/c15/sites.go):
        SIG ... are the signatures of the functions passed at the call sites that goderive serves
        with one generated function, in source order (identical types, other names); FLAG ... the
        flags goderive ran with (dedup, autoname: the call sites may have been renamed in the
        user's file); J the call site the driver went through.  The model evaluates the closure
        nest printed for the FIRST signature (the one that registers the function,
        derive/typesmap.go) applied to an original function of the J-th signature
        (Plumb/Shared.v); the specification is the property for the J-th signature. *)
From Coq Require Import String List ZArith Bool Arith.
From Verif Require Import Base Sexp Plumb.Model Plumb.Shared.
Import ListNotations.
Open Scope string_scope.

(* the instrumented original function of the harness: its j-th result carries the id
   1000*(j+1) + sum over all arguments (flattened over levels) of (position+1)*id *)
Definition val_id (v : val) : Z := match v with VBase z => z | _ => (-1)%Z end.

Fixpoint weighted (i : Z) (l : list val) : Z :=
  match l with
  | [] => 0%Z
  | v :: r => (i * val_id v + weighted (i + 1) r)%Z
  end.

Definition res15 (j : nat) (acc : list (list val)) : val :=
  VBase (1000 * (Z.of_nat j + 1) + weighted 1 (concat acc))%Z.

(* ---------- parsing ---------- *)
Definition get_sym (e : sexp) : option string := match e with Sym s => Some s | _ => None end.

Definition param_of (e : sexp) : option (name * ty) :=
  match e with
  | L [Sym n; Sym t] => Some (n, TBase t)
  | L [Sym t] => Some ("", TBase t)
  | _ => None
  end.

Definition params_of (e : sexp) : option (list (name * ty)) :=
  match e with L l => map_opt param_of l | _ => None end.

Definition bool_of (e : sexp) : option bool :=
  match e with Num 0%Z => Some false | Num 1%Z => Some true | _ => None end.

Inductive shape : Type :=
| ShSig (s : sig)
| ShCsig (c : csig)
| ShTuple (n : nat).

Definition shape_of (e : sexp) : option shape :=
  match e with
  | L [Sym k; ps; rs; v] =>
      if String.eqb k "sig" then
        match params_of ps, params_of rs, bool_of v with
        | Some p, Some r, Some b => Some (ShSig (mkSig p r b))
        | _, _, _ => None
        end
      else None
  | L [Sym k; po; pi; rs; v] =>
      if String.eqb k "csig" then
        match params_of po, params_of pi, params_of rs, bool_of v with
        | Some o, Some i, Some r, Some b => Some (ShCsig (mkCsig o "" i r b))
        | _, _, _, _ => None
        end
      else None
  | L [Sym k; Num n] => if String.eqb k "tuple" then Some (ShTuple (Z.to_nat n)) else None
  | _ => None
  end.

Definition args_of (e : sexp) : option (list val) := option_map (map VBase) (get_zs e).

(* ---------- printing ---------- *)
Definition val_sexp (v : val) : sexp := match v with VBase z => Num z | _ => Sym "fn" end.
Definition event_sexp (ev : event) : sexp := L [of_nat (fst ev); L (map val_sexp (snd ev))].
Definition ret_sexp (out : list val) (log : list event) : sexp :=
  L [Sym "ret"; L (map event_sexp log); L (map val_sexp out)].
Definition run_sexp (r : run_result) : sexp :=
  match r with
  | ROk out log => ret_sexp out log
  | RIll => Sym "ill"
  | RGenErr => Sym "generr"
  | RFuel => Sym "fuel"
  end.

(* ---------- the model's answer and the specification's answer ---------- *)
Definition swap2 {A} (l : list A) : list A :=
  match l with a :: b :: r => b :: a :: r | _ => l end.

Definition model_run (plugin : string) (sh : shape) (args : list val) : option run_result :=
  match sh with
  | ShSig s =>
      if String.eqb plugin "curry" then Some (run_curry res15 hygienic FUEL s (prim_flat s) args)
      else if String.eqb plugin "flip" then Some (run_flip res15 hygienic FUEL s (prim_flat s) args)
      else if String.eqb plugin "apply" then Some (run_apply res15 hygienic FUEL s (prim_flat s) args)
      else if String.eqb plugin "rt" then Some (run_roundtrip res15 hygienic FUEL s (prim_flat s) args)
      else None
  | ShCsig c =>
      if String.eqb plugin "uncurry" then Some (run_uncurry res15 hygienic FUEL c (prim_curried c) args)
      else None
  | ShTuple n =>
      if String.eqb plugin "tuple" then
        if Nat.eqb n (List.length args) then Some (run_tuple res15 FUEL args) else None
      else None
  end.

(* the function generated for [gen] handed an original function of signature [site] *)
Definition shared_run (plugin : string) (gen site : shape) (args : list val) : option run_result :=
  match gen, site with
  | ShSig s, ShSig t =>
      if String.eqb plugin "curry" then Some (run_curry res15 hygienic FUEL s (prim_flat t) args)
      else if String.eqb plugin "flip" then Some (run_flip res15 hygienic FUEL s (prim_flat t) args)
      else if String.eqb plugin "apply" then Some (run_apply res15 hygienic FUEL s (prim_flat t) args)
      else if String.eqb plugin "rt" then Some (run_roundtrip res15 hygienic FUEL s (prim_flat t) args)
      else None
  | ShCsig c, ShCsig d =>
      if String.eqb plugin "uncurry" then Some (run_uncurry res15 hygienic FUEL c (prim_curried d) args)
      else None
  | ShTuple n, ShTuple m =>
      if String.eqb plugin "tuple" then
        if Nat.eqb n m && Nat.eqb n (List.length args) then Some (run_tuple res15 FUEL args) else None
      else None
  | _, _ => None
  end.

(* the hypothesis [same_sig_types] of Plumb/Shared.v *)
Definition same_shape_types (a b : shape) : bool :=
  match a, b with
  | ShSig s, ShSig t => same_sig_typesb s t
  | ShCsig c, ShCsig d => same_csig_typesb c d
  | ShTuple n, ShTuple m => Nat.eqb n m
  | _, _ => false
  end.

(* the property, stated directly: one call of the original function with the arguments in
   position, its results returned unchanged *)
Definition spec_run (plugin : string) (sh : shape) (args : list val) : option sexp :=
  match sh with
  | ShSig s =>
      let n := List.length (s_results s) in
      let one (a : list val) := ret_sexp (prim_results res15 n [a]) [(0, a)] in
      if String.eqb plugin "flip" then Some (one (swap2 args))
      else if String.eqb plugin "curry" || String.eqb plugin "apply" || String.eqb plugin "rt"
      then Some (one args)
      else None
  | ShCsig c =>
      let k := List.length (c_outer c) in
      let a := firstn k args in
      let b := skipn k args in
      Some (ret_sexp (prim_results res15 (List.length (c_results c)) [a; b]) [(0, a); (1, b)])
  | ShTuple _ => Some (ret_sexp args [])
  end.

Definition variadic_of (sh : shape) : bool :=
  match sh with ShSig s => s_variadic s | ShCsig c => c_variadic c | ShTuple _ => false end.

Definition arity_ok (plugin : string) (sh : shape) : bool :=
  match sh with
  | ShSig s => Nat.leb (if String.eqb plugin "apply" then 1 else 2)%nat (List.length (s_params s))
  | ShCsig c => Nat.eqb (List.length (c_outer c)) 1
  | ShTuple n => Nat.leb 1 n
  end.

(* inside the hypotheses of plumb_correct_* / tuple_spec / uncurry_curry_id: a signature Go accepts
   (the names are looked at as the user wrote them: no name is excluded any more), not variadic,
   of an arity the plugin takes *)
Definition in_guard (plugin : string) (sh : shape) : bool :=
  match sh with
  | ShTuple n => Nat.leb 1 n
  | ShSig s => src_ok (names (s_params s)) (names (s_results s))
               && negb (variadic_of sh) && arity_ok plugin sh
  | ShCsig c => nodupb (filter bindable (names (c_outer c)))
                && src_ok (names (c_inner c)) (names (c_results c))
                && negb (variadic_of sh) && arity_ok plugin sh
  end.

(* shapes for which the model predicts output that does not compile are all outside the property *)
Definition ill_class (plugin : string) (sh : shape) : string :=
  if variadic_of sh then "variadic" else "ill-other".

(* ---------- tags: plugin / naming class / arity / results ---------- *)
Definition src_names (sh : shape) : list name :=
  match sh with
  | ShSig s => names (s_params s)
  | ShCsig c => (names (c_outer c) ++ names (c_inner c))%list
  | ShTuple _ => []
  end.

Definition res_names (sh : shape) : list name :=
  match sh with
  | ShSig s => names (s_results s)
  | ShCsig c => names (c_results c)
  | ShTuple _ => []
  end.

(* a clash the generator has to resolve: a name of the outer level of uncurry that is also a name of
   the inner level or of a result *)
Definition level_clash (sh : shape) : bool :=
  match sh with
  | ShCsig c => existsb (fun n => memb n (names (c_inner c) ++ names (c_results c))%list)
                        (filter bindable (names (c_outer c)))
  | _ => false
  end.

Definition has_pre (n : name) : bool := prefix "param_" n || prefix "innerParam_" n.

Definition naming_class (sh : shape) : string :=
  let ns := src_names sh in
  let rs := res_names sh in
  (if existsb (fun n => String.eqb n "") ns then "unnamed" else "named") ++
  (if existsb (fun n => String.eqb n "_") ns then "+blank" else "") ++
  (if existsb has_pre ns then "+prefix" else "") ++
  (if existsb (fun n => String.eqb n "f") ns then "+f" else "") ++
  (if existsb (fun n => prefix "f_" n) (ns ++ rs)%list then "+f_" else "") ++
  (if existsb (fun n => String.eqb n "f") rs then "+rf" else "") ++
  (if existsb has_pre rs then "+rprefix" else "") ++
  (if level_clash sh then "+dup" else "").

(* higher-order signatures: a result / a parameter of the original function is itself a function (the
   harness carries the argument id in a closure; type symbols fnN, fnU, ... and the named function
   type HF).  The model is untyped and the theorems quantify over every result function [res], so a
   function-valued result is a value like any other: it is returned, never applied. *)
Definition ty_is_fn (t : ty) : bool :=
  match t with
  | TBase n => prefix "fn" n || String.eqb n "HF"
  | TFunc _ _ _ => true
  end.

Definition any_fn (l : list (name * ty)) : bool := existsb (fun p => ty_is_fn (snd p)) l.

Definition hof_class (sh : shape) : string :=
  match sh with
  | ShSig s => (if any_fn (s_params s) then "+fnparam" else "") ++
               (if any_fn (s_results s) then "+fnresult" else "")
  | ShCsig c => (if any_fn (c_outer c ++ c_inner c)%list then "+fnparam" else "") ++
                (if any_fn (c_results c) then "+fnresult" else "")
  | ShTuple _ => ""
  end.

Definition nparams (sh : shape) : nat :=
  match sh with ShSig s => List.length (s_params s)
              | ShCsig c => (List.length (c_outer c) + List.length (c_inner c))%nat
              | ShTuple n => n end.
Definition nresults (sh : shape) : nat :=
  match sh with ShSig s => List.length (s_results s)
              | ShCsig c => List.length (c_results c)
              | ShTuple n => n end.

Definition tag_of (plugin : string) (sh : shape) : string :=
  plugin ++ "/" ++ naming_class sh ++ hof_class sh ++ "/n" ++ itoa (nparams sh) ++ "/r" ++ itoa (nresults sh).

Definition flags_tag (l : list sexp) : string :=
  match l with
  | [] => "noflags"
  | _ => String.concat "+" (map (fun e => match e with Sym s => s | _ => "?" end) l)
  end.

Definition is_ok (r : run_result) : bool := match r with ROk _ _ => true | _ => false end.

Definition verdict_of (tag : string) (model_ok spec_ok guard : bool) (m : sexp) : verdict :=
  {| v_known := true; v_model_ok := model_ok; v_spec_ok := spec_ok; v_guard := guard;
     v_model := m; v_tag := tag |}.

Definition eval15 (e : sexp) : verdict :=
  match e with
  | L [Sym k; Sym plugin; shs; Num real] =>
      if String.eqb k "wf" then
        match shape_of shs with
        | None => bad_line
        | Some sh =>
            let dummy := map (fun i => VBase (Z.of_nat (S i))) (seq 0 (nparams sh)) in
            match model_run plugin sh dummy with
            | None => bad_line
            | Some m =>
                let real_ok := Z.eqb real 1 in
                let tag := tag_of plugin sh in
                if is_ok m then
                  verdict_of tag real_ok real_ok (in_guard plugin sh) (Sym "wellformed")
                else
                  (* outside the property: variadic (the model has no types, and `b ...interface{}`
                     happens to compile: no prediction) or a shape the harness does not build *)
                  verdict_of (ill_class plugin sh ++ "/" ++ tag) (variadic_of sh || negb real_ok) true false (run_sexp m)
            end
        end
      else bad_line
  | L [Sym k; Sym plugin; shs; argse; real] =>
      if String.eqb k "call" then
        match shape_of shs, args_of argse with
        | Some sh, Some args =>
            match model_run plugin sh args, spec_run plugin sh args with
            | Some m, Some sp =>
                let tag := "call/" ++ tag_of plugin sh in
                if is_ok m then
                  verdict_of tag (sexp_eqb (run_sexp m) real) (sexp_eqb sp real) (in_guard plugin sh) (run_sexp m)
                else
                  verdict_of tag false (sexp_eqb sp real) false (run_sexp m)
            | _, _ => bad_line
            end
        | _, _ => bad_line
        end
      else bad_line
  | L [Sym k; Sym plugin; L flags; L sigs; Num j; argse; real] =>
      if String.eqb k "site" then
        match map_opt shape_of sigs, args_of argse with
        | Some (gen :: others), Some args =>
            match nth_error (gen :: others) (Z.to_nat j) with
            | Some site =>
                match shared_run plugin gen site args, spec_run plugin site args with
                | Some m, Some sp =>
                    let tag := "site/" ++ flags_tag flags ++ "/of" ++ itoa (List.length (gen :: others))
                               ++ (if Z.eqb j 0 then "/first/" else "/later/") ++ tag_of plugin site in
                    let guard := in_guard plugin gen && in_guard plugin site
                                 && forallb (same_shape_types gen) others in
                    if is_ok m then
                      verdict_of tag (sexp_eqb (run_sexp m) real) (sexp_eqb sp real) guard (run_sexp m)
                    else
                      verdict_of tag false (sexp_eqb sp real) false (run_sexp m)
                | _, _ => bad_line
                end
            | None => bad_line
            end
        | _, _ => bad_line
        end
      else bad_line
  | _ => bad_line
  end.
