(* Eval05.v — evaluation of C05 observations (stub: replaced when C05 is built). *)
From Verif Require Import Base Sexp.
Open Scope string_scope.

Definition eval05 (e : sexp) : verdict := bad_line.
