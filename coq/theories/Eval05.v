(* Eval05.v — evaluation of C05 observations: generated deriveDeepCopy / deriveClone vs the
   model (Copy/Model.v) and the specification (structurally equal to the source, nil-ness
   reproduced, no memory in common with the source, source unchanged, writes invisible).

   Labels in observed results (harness/internal/c05/drv_c05.go.txt):
     0          zero-size object: no memory, never compared, never counted as aliasing;
     L < FB     the address the input label L (of SRC or of the prior DST) was built at;
     L >= FB    an address that does not occur in the inputs: allocated by the call.
   The model runs with allocation counter FB, so its fresh labels are >= FB too; label
   CLASSES are compared (the numbers of fresh labels are not). *)
From Coq Require Import String.
From Verif Require Import Base Sexp Go.Ty Go.Val Go.Equal Copy.Model Eval03.
Open Scope string_scope.

Definition FB : N := 1000000000.

Definition lab_ok (rl ml : N) : bool :=
  (N.eqb rl 0 || if N.leb FB rl then N.leb FB ml else N.eqb rl ml)%bool.

(* observed value vs predicted value: same shape, same leaves bit for bit, same nil-ness,
   same spare capacity, labels of the same class (input labels: the same label) *)
Fixpoint match_val (r m : val) {struct r} : bool :=
  let all2 := all2b (fun a b => match_val a b) in
  match r, m with
  | VBool a, VBool b => Bool.eqb a b
  | VInt a, VInt b => Z.eqb a b
  | VF n1 m1, VF n2 m2 => (Bool.eqb n1 n2 && N.eqb m1 m2)%bool
  | VC a b c d, VC a' b' c' d' => (Bool.eqb a a' && N.eqb b b' && Bool.eqb c c' && N.eqb d d')%bool
  | VStr a, VStr b => bytes_eqb a b
  | VNilP, VNilP => true
  | VNilS, VNilS => true
  | VNilM, VNilM => true
  | VPtr l v, VPtr l' v' => (lab_ok l l' && match_val v v')%bool
  | VSl l es sp, VSl l' es' sp' => (lab_ok l l' && all2 es es' && all2 sp sp')%bool
  | VMap l kvs, VMap l' kvs' =>
      (lab_ok l l' && Nat.eqb (List.length kvs) (List.length kvs')
       && forallb (fun kv => existsb (fun kv' => match_val (fst kv) (fst kv') && match_val (snd kv) (snd kv')) kvs') kvs)%bool
  | VArr a, VArr b => all2 a b
  | VSt a, VSt b => all2 a b
  | _, _ => false
  end.

Definition memN (l : N) (ls : list N) : bool := existsb (N.eqb l) ls.
Fixpoint nodupN (ls : list N) : bool :=
  match ls with [] => true | l :: t => (negb (memN l t) && nodupN t)%bool end.
Definition disjointN (a b : list N) : bool := forallb (fun l => negb (memN l b)) a.

(* every allocation of the emitted code is a distinct object (zero-size ones excepted) *)
Definition fresh_distinct (r : val) : bool :=
  nodupN (filter (fun l => N.leb FB l) (labels r)).

(* no pointer target, backing array or map of the result is one of the source *)
Definition no_src_memory (src r : val) : bool :=
  forallb (fun l => (N.eqb l 0 || negb (memN l (labels src)))%bool) (labels r).

Definition all_fresh (r : val) : bool :=
  forallb (fun l => (N.eqb l 0 || N.leb FB l)%bool) (labels r).

Definition input_labels_ok (src dst : list N) : bool :=
  (forallb (fun l => (N.ltb 0 l && N.ltb l FB)%bool) (src ++ dst)
   && disjointN src dst && nodupN dst)%bool.

Fixpoint val_sexp (v : val) : sexp :=
  match v with
  | VBool b => L [Sym "b"; of_bool b]
  | VInt z => L [Sym "i"; Num z]
  | VF n m => L [Sym "f"; of_bool n; Num (Z.of_N m)]
  | VC a b c d => L [Sym "c"; of_bool a; Num (Z.of_N b); of_bool c; Num (Z.of_N d)]
  | VStr s => L (Sym "s" :: map (fun b => Num (Z.of_N b)) s)
  | VNilP => Sym "nilp" | VNilS => Sym "nils" | VNilM => Sym "nilm"
  | VPtr l v' => L [Sym "p"; Num (Z.of_N l); val_sexp v']
  | VSl l es sp => L [Sym "sl"; Num (Z.of_N l); L (map val_sexp es); L (map val_sexp sp)]
  | VMap l kvs => L [Sym "m"; Num (Z.of_N l); L (map (fun kv => L [val_sexp (fst kv); val_sexp (snd kv)]) kvs)]
  | VArr es => L (Sym "a" :: map val_sexp es)
  | VSt es => L (Sym "st" :: map val_sexp es)
  end.

Definition res_sexp (r : res (val * N)) : sexp :=
  match r with
  | Ok (v, _) => L [Sym "ret"; val_sexp v]
  | Pan => Sym "panic" | Unsup => Sym "unsupported" | Stuck => Sym "stuck"
  end.

Inductive real5 := RPanic | RRet (v : val) (same indep1 indep2 : bool) | RBad.
Definition parse_real (e : sexp) : real5 :=
  match e with
  | Sym s => if String.eqb s "panic" then RPanic else RBad
  | L [Sym _; v; L [Sym _; Num a; Num b; Num c]] =>
      match parse_val v with
      | Some v' => RRet v' (Z.eqb a 1) (Z.eqb b 1) (Z.eqb c 1)
      | None => RBad
      end
  | _ => RBad
  end.

(* how the prior destination relates to the source at the root (coverage tag) *)
Definition rel_tag (s d : val) : string :=
  match s, d with
  | VNilP, VNilP => "nilp<-nilp" | VNilP, VPtr _ _ => "nilp<-ptr"
  | VPtr _ _, VNilP => "ptr<-nilp" | VPtr _ _, VPtr _ _ => "ptr<-ptr"
  | VNilS, VNilS => "nils<-nils" | VNilS, VSl _ _ _ => "nils<-slice"
  | VSl _ _ _, VNilS => "slice<-nils:make"
  | VSl _ a _, VSl _ b sp =>
      if Nat.ltb (List.length b) (List.length a) then
        if Nat.leb (List.length a) (List.length b + List.length sp) then "slice-grow:reuse-spare" else "slice-grow:make"
      else if Nat.ltb (List.length a) (List.length b) then "slice-shrink:reslice"
      else "slice-same-length"
  | VNilM, VNilM => "nilm<-nilm" | VNilM, VMap _ _ => "nilm<-map"
  | VMap _ _, VNilM => "map<-nilm"
  | VMap _ _, VMap _ [] => "map<-empty" | VMap _ _, VMap _ _ => "map<-populated"
  | VArr _, _ => "array" | VSt _, _ => "struct"
  | _, _ => "leaf"
  end.

Definition uses_label_of (ls : list N) (v : val) : bool := existsb (fun l => memN l ls) (labels v).
Definition has_spare (v : val) : bool :=
  (fix go (fuel : nat) (v : val) : bool :=
     match fuel with O => false | S f =>
       match v with
       | VPtr _ v' => go f v'
       | VSl _ es sp => (negb (match sp with [] => true | _ => false end) || existsb (go f) es)%bool
       | VMap _ kvs => existsb (fun kv => go f (snd kv)) kvs
       | VArr es => existsb (go f) es
       | VSt es => existsb (go f) es
       | _ => false
       end
     end) 8%nat v.

Definition out_tag (m : res (val * N)) (dstl : list N) : string :=
  match m with
  | Ok (v, _) =>
      (if negb (all_fresh v) then "keeps-dst-memory" else "all-fresh")
      ++ (if uses_label_of dstl (match v with VPtr _ v' => v' | _ => VArr (match v with VSl _ es sp => es ++ sp | VMap _ kvs => map snd kvs | _ => [] end) end)
          then "+inner-reuse" else "")
      ++ (if has_spare v then "+spare" else "")
  | Pan => "panic" | Unsup => "unsupported" | Stuck => "stuck"
  end.

Definition deref (v : val) : val := match v with VPtr _ v' => v' | _ => v end.

(* which types the generator accepts for the three calls of the harness:
     deriveDeepCopy(dst, src *T),  deriveDeepCopy(dst, src T) when T is a reference,  deriveClone(T).
   [body] = the type is the referent of a helper deriveDeepCopy( *t ) (genStatement, pointer case);
   [named] = the node sits directly under a type name. An unnamed struct that is not
   assignable (and any unnamed struct as referent) is "unsupported". *)
Fixpoint dc_sup_aux (body named : bool) (t : ty) {struct t} : bool :=
  let all := fix all (l : list (bool * ty)) : bool :=
               match l with [] => true | f :: l' => (dc_sup_aux false false (snd f) && all l')%bool end in
  match t with
  | TRef _ => true
  | TN _ _ u => dc_sup_aux body true u
  | TSt fs => if body then (named && all fs)%bool
              else (can_copy t || (named && all fs))%bool
  | TB _ => true
  | TP rt => (can_copy rt || dc_sup_aux true false rt)%bool
  | TSl et => (can_copy et || dc_sup_aux false false et)%bool
  | TAr _ et => (can_copy t || dc_sup_aux false false et)%bool
  | TM _ vt => dc_sup_aux false false vt
  end.
(* deriveDeepCopy( *T ) always; deriveDeepCopy(T) / deriveClone(T) go through genStatement(T) when T
   is itself a pointer (its referent is then a helper body) *)
Definition dc_sup (t : ty) : bool :=
  (dc_sup_aux true false t
   && match (match t with TN _ _ u => u | _ => t end) with
      | TP rt => dc_sup_aux true false rt
      | _ => true
      end)%bool.

Definition eval05 (e : sexp) : verdict :=
  match e with
  | L [Sym k; tys; xs; ys; real] =>
      if (String.eqb k "dcp" || String.eqb k "dcd")%bool then
        match parse_ty tys, parse_val xs, parse_val ys, parse_real real with
        | Some t0, Some src, Some dst, (RPanic | RRet _ _ _ _) as rl =>
            let t := if String.eqb k "dcp" then TP t0 else t0 in
            let typed := (has_type [] t src && has_type [] t dst)%bool in
            let m := deepcopy_top [] t dst src FB in
            let inguard := (typed && input_labels_ok (labels src) (labels dst) && top_guard src dst)%bool in
            {| v_known := typed;
               v_model_ok := match m, rl with
                             | Ok (mv, _), RRet rv _ _ _ => (match_val rv mv && fresh_distinct rv)%bool
                             | Pan, RPanic => true
                             | _, _ => false
                             end;
               v_spec_ok := match rl with
                            | RRet rv a b c =>
                                (match spec_eq [] t src rv with Some true => true | _ => false end
                                 && no_src_memory src rv && a && b && c)%bool
                            | _ => false
                            end;
               v_guard := inguard; v_model := res_sexp m;
               v_tag := k ++ "/" ++ node_tag t0 ++ "/"
                        ++ (if String.eqb k "dcp" then rel_tag (deref src) (deref dst) else rel_tag src dst)
                        ++ "/" ++ out_tag m (labels dst) |}
        | _, _, _, _ => bad_line
        end
      else bad_line
  | L [Sym k; tys; xs; real] =>
      if String.eqb k "clone" then
        match parse_ty tys, parse_val xs, parse_real real with
        | Some t, Some src, (RPanic | RRet _ _ _ _) as rl =>
            let typed := has_type [] t src in
            let m := clone_model [] t src FB in
            let inguard := (typed && input_labels_ok (labels src) [])%bool in
            {| v_known := typed;
               v_model_ok := match m, rl with
                             | Ok (mv, _), RRet rv _ _ _ => (match_val rv mv && fresh_distinct rv)%bool
                             | Pan, RPanic => true
                             | _, _ => false
                             end;
               v_spec_ok := match rl with
                            | RRet rv a b c =>
                                (match spec_eq [] t src rv with Some true => true | _ => false end
                                 && no_src_memory src rv && all_fresh rv && a && b && c)%bool
                            | _ => false
                            end;
               v_guard := inguard; v_model := res_sexp m;
               v_tag := "clone/" ++ node_tag t ++ "/" ++ (if is_nilv src then "nil" else "non-nil") ++ "/" ++ out_tag m [] |}
        | _, _, _ => bad_line
        end
      else bad_line
  | L [Sym k; tys; Sym cls] =>
      if String.eqb k "sup-dc" then
        match parse_ty tys with
        | Some t =>
            let sup := dc_sup t in
            let real_ok := String.eqb cls "ok" in
            let real_err := String.eqb cls "generator-error" in
            (* a crash or hang of the generator is C09's subject: not judged here *)
            let crash := (String.eqb cls "panic" || String.eqb cls "timeout")%bool in
            let ok := (crash || if sup then real_ok else real_err)%bool in
            {| v_known := true; v_model_ok := ok; v_spec_ok := ok; v_guard := true;
               v_model := Sym (if sup then "ok" else "generator-error");
               v_tag := "support/" ++ (if crash then "generator-crash-see-C09"
                                       else if sup then "supported" else "unsupported") |}
        | None => bad_line
        end
      else bad_line
  | _ => bad_line
  end.
