(* Eval.v — dispatch of observation lines to the per-property evaluators. *)
From Verif Require Import Base Sexp Eval17.
Open Scope string_scope.

Definition eval_obs (prop : string) (e : sexp) : verdict :=
  if String.eqb prop "C17" then eval17 e
  else bad_line.
