(* Eval.v — dispatch of observation lines to the per-property evaluators.
   One evaluator per property, in EvalNN.v; this file is only the table. *)
From Verif Require Import Base Sexp Eval01 Eval02 Eval03 Eval04 Eval05 Eval06 Eval07 Eval08 Eval09 Eval10 Eval11 Eval12 Eval13 Eval14 Eval15 Eval16 Eval17 Eval18 Eval19 Eval20.
Open Scope string_scope.

Definition eval_obs (prop : string) (e : sexp) : verdict :=
  if String.eqb prop "C01" then eval01 e else
  if String.eqb prop "C02" then eval02 e else
  if String.eqb prop "C03" then eval03 e else
  if String.eqb prop "C04" then eval04 e else
  if String.eqb prop "C05" then eval05 e else
  if String.eqb prop "C06" then eval06 e else
  if String.eqb prop "C07" then eval07 e else
  if String.eqb prop "C08" then eval08 e else
  if String.eqb prop "C09" then eval09 e else
  if String.eqb prop "C10" then eval10 e else
  if String.eqb prop "C11" then eval11 e else
  if String.eqb prop "C12" then eval12 e else
  if String.eqb prop "C13" then eval13 e else
  if String.eqb prop "C14" then eval14 e else
  if String.eqb prop "C15" then eval15 e else
  if String.eqb prop "C16" then eval16 e else
  if String.eqb prop "C17" then eval17 e else
  if String.eqb prop "C18" then eval18 e else
  if String.eqb prop "C19" then eval19 e else
  if String.eqb prop "C20" then eval20 e else
  bad_line.
