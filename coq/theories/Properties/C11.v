(* Properties/C11.v — Name conflicts and duplicates are detected exactly and resolved soundly.
   Only statements, each closed by `exact`, with Print Assumptions beneath.
   Model: Gen/TypesMap.v (SetFuncName, GetFuncName, newName, nameOf of derive/typesmap.go);
   [add_all] is newPackage's loop over the derive calls of one plugin, [add_pkg] over several
   plugins.  Argument type lists are an abstract alphabet with decidable equality (the
   property's quantifier fixes pairwise non-assignable types); the theorems hold for every
   iteration order [order] of the Go map that is a permutation, every prefix, every reserved
   set and every call list. *)
From Coq Require Import List String Bool Permutation.
From Verif Require Import Base Gen.TypesMap Gen.NewName Gen.Names.
Import ListNotations.

Section C11.
Variable tys : Type.
Variable tys_eqb : tys -> tys -> bool.
Hypothesis tys_eqb_spec : forall a b, reflect (a = b) (tys_eqb a b).
Variable hint : tys -> string.
Variable order : list (name * tys) -> list (name * tys).
Hypothesis order_perm : forall t, Permutation (order t) t.

Notation run a d pre res calls := (add_all tys tys_eqb hint order (init pre res a d) calls).

Theorem C11_noflag_exact : forall pre res calls,
  aerr tys (run false false pre res calls) = true <-> has_conflict calls \/ has_dup calls.
Proof. exact (noflag_exact tys tys_eqb tys_eqb_spec hint order order_perm). Qed.

Theorem C11_autoname_only_dups_fail : forall pre res (a : bool) calls,
  ~ has_conflict calls ->
  (aerr tys (run a false pre res calls) = true <-> has_dup calls).
Proof. exact (autoname_only_dups_fail tys tys_eqb tys_eqb_spec hint order order_perm). Qed.

Theorem C11_dedup_only_conflicts_fail : forall pre res (d : bool) calls,
  ~ has_dup calls ->
  (aerr tys (run false d pre res calls) = true <-> has_conflict calls).
Proof. exact (dedup_only_conflicts_fail tys tys_eqb tys_eqb_spec hint order order_perm). Qed.

Theorem C11_both_flags_accept : forall pre res calls,
  exists sf ms, run true true pre res calls = AOk sf ms.
Proof. exact (both_flags_accept tys tys_eqb tys_eqb_spec hint order order_perm). Qed.

Theorem C11_rename_sound : forall pre res (a d : bool) calls sf ms,
  run a d pre res calls = AOk sf ms ->
  Bij (tbl sf) /\ List.length ms = List.length calls /\
  forall c m, In (c, m) (combine calls ms) -> lookup (tbl sf) m = Some (snd c).
Proof. exact (rename_sound tys tys_eqb tys_eqb_spec hint order order_perm). Qed.

Theorem C11_rename_avoids_reserved : forall pre res (a d : bool) calls sf ms,
  Forall (fun c => ~ In (fst c) res) calls ->
  run a d pre res calls = AOk sf ms ->
  incl res (reserved sf) /\
  (forall m, In m (map fst (tbl sf)) -> ~ In m res) /\
  (forall m, In m ms -> ~ In m res).
Proof. exact (rename_avoids_reserved tys tys_eqb tys_eqb_spec hint order order_perm). Qed.

Theorem C11_dedup_one_per_class : forall pre res (a d : bool) calls sf ms,
  run a d pre res calls = AOk sf ms ->
  NoDup (map snd (tbl sf)) /\
  forall c1 m1 c2 m2, In (c1, m1) (combine calls ms) -> In (c2, m2) (combine calls ms) ->
    snd c1 = snd c2 -> m1 = m2.
Proof. exact (dedup_one_per_class tys tys_eqb tys_eqb_spec hint order order_perm). Qed.

Theorem C11_rename_needs_flag : forall pre res calls sf ms,
  run false false pre res calls = AOk sf ms -> ms = map fst calls.
Proof. exact (rename_needs_flag tys tys_eqb tys_eqb_spec hint order order_perm). Qed.

Theorem C11_add_all_no_fuel : forall pre res (a d : bool) calls i,
  run a d pre res calls <> AErr i SFuel.
Proof. exact (add_all_no_fuel tys tys_eqb tys_eqb_spec hint order order_perm). Qed.

(* the fresh-name search of newName: result neither registered nor reserved; always found
   within (registered + reserved + 1) candidates *)
Theorem C11_new_name_fresh : forall (s : tm tys) q n,
  new_name tys hint s q = Some n -> ~ In n (map fst (tbl s)) /\ ~ In n (reserved s).
Proof. exact (new_name_fresh tys hint). Qed.

Theorem C11_new_name_terminates : forall (s : tm tys) q, exists n, new_name tys hint s q = Some n.
Proof. exact (new_name_terminates tys hint). Qed.

(* ---- the whole package: one typesMap per plugin, calls dispatched by plugin, ONE reserved
   set shared by all of them (every registration is recorded in it) ---- *)
Notation prun a d pre res calls := (add_pkg tys tys_eqb hint order (pinit tys pre res a d) calls).

Theorem C11_pkg_noflag_exact : forall pre res calls,
  perr tys (prun false false pre res calls) = true <->
  pkg_conflict tys calls \/ pkg_dup tys calls.
Proof. exact (pkg_noflag_exact tys tys_eqb tys_eqb_spec hint order order_perm). Qed.

Theorem C11_pkg_autoname_only_dups_fail : forall pre res (a : bool) calls,
  ~ pkg_conflict tys calls ->
  (perr tys (prun a false pre res calls) = true <-> pkg_dup tys calls).
Proof. exact (pkg_autoname_only_dups_fail tys tys_eqb tys_eqb_spec hint order order_perm). Qed.

Theorem C11_pkg_dedup_only_conflicts_fail : forall pre res (d : bool) calls,
  ~ pkg_dup tys calls ->
  (perr tys (prun false d pre res calls) = true <-> pkg_conflict tys calls).
Proof. exact (pkg_dedup_only_conflicts_fail tys tys_eqb tys_eqb_spec hint order order_perm). Qed.

Theorem C11_pkg_both_flags_accept : forall pre res calls,
  exists sf ms, prun true true pre res calls = POk sf ms.
Proof. exact (pkg_both_flags_accept tys tys_eqb tys_eqb_spec hint order order_perm). Qed.

Theorem C11_pkg_rename_sound : forall pre res (a d : bool) calls sf ms,
  prun a d pre res calls = POk sf ms ->
  (forall p, Bij (tbl (sf p))) /\ List.length ms = List.length calls /\
  (forall c m, In (c, m) (combine calls ms) -> lookup (tbl (sf (fst c))) m = Some (snd (snd c))) /\
  ((forall c, In c calls -> ~ In (fst (snd c)) res) ->
   forall p m, In m (map fst (tbl (sf p))) -> ~ In m res).
Proof. exact (pkg_rename_sound tys tys_eqb tys_eqb_spec hint order order_perm). Qed.

Theorem C11_pkg_no_fuel : forall pre res (a d : bool) calls i,
  prun a d pre res calls <> PErr i SFuel.
Proof. exact (pkg_no_fuel tys tys_eqb tys_eqb_spec hint order order_perm). Qed.
End C11.

Print Assumptions C11_noflag_exact.
Print Assumptions C11_autoname_only_dups_fail.
Print Assumptions C11_dedup_only_conflicts_fail.
Print Assumptions C11_both_flags_accept.
Print Assumptions C11_rename_sound.
Print Assumptions C11_rename_avoids_reserved.
Print Assumptions C11_dedup_one_per_class.
Print Assumptions C11_rename_needs_flag.
Print Assumptions C11_add_all_no_fuel.
Print Assumptions C11_new_name_fresh.
Print Assumptions C11_new_name_terminates.
Print Assumptions C11_pkg_noflag_exact.
Print Assumptions C11_pkg_autoname_only_dups_fail.
Print Assumptions C11_pkg_dedup_only_conflicts_fail.
Print Assumptions C11_pkg_both_flags_accept.
Print Assumptions C11_pkg_rename_sound.
Print Assumptions C11_pkg_no_fuel.
