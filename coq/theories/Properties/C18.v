(* Properties/C18.v — derived Mem is observationally the original function, evaluated once per
   class of Equal argument tuples.  Statements only; proofs are in Mem/Proofs.v (generic) and
   Mem/Inst.v (instantiated with the models of Go's ==, derived Equal and derived Hash).

   [mem_run_with hashr ps f h] runs the closure emitted by plugin/mem for a signature with
   parameter types [ps] (any number, any supported types: the generator's choice among the
   zero-argument, map[T]V, map[input]V and map[uint64][]mem forms is [form_of ps]) over the call
   history [h], with [hashr] in the place of derived Hash ([mem_run]: the model of derived Hash;
   [mem_run_consthash c]: a constant, i.e. every argument in one bucket).  f is any function from
   argument tuples to results-or-panic; the number and types of results are unconstrained
   (no-result functions return []).  [Ok] excludes only that the generator refuses the key
   type for Equal/Hash (Unsup). *)
From Coq Require Import Permutation.
From Verif Require Import Go.Ty Go.Val Go.Equal Go.Hash Mem.Model Mem.Proofs Mem.Inst.

(* Every call returns exactly what f returns on its arguments — on every history, for every
   signature, whatever hash function is used — provided f gives the same outcome on Equal
   argument tuples. *)
Theorem C18_mem_observational : forall ps f hashr h st outs,
  f_respects_classes ps f -> typed_history ps h ->
  mem_run_with hashr ps f h = Ok (st, outs) -> outs = map f h.
Proof. exact mem_observational. Qed.
Print Assumptions C18_mem_observational.

(* That hypothesis cannot be dropped: +0 and -0 are one key, f(x) = sign of 1/x separates them;
   f is evaluated once, so the second answer is not f's. *)
Theorem C18_mem_observational_needs_respect :
  let ps := [TB KF64] in let h := [[VF false 0]; [VF true 0]] in
  typed_history ps h
  /\ args_equal ps [VF false 0] [VF true 0] = true
  /\ recip_sign [VF false 0] <> recip_sign [VF true 0]
  /\ (exists st, mem_run ps recip_sign h = Ok (st, [Ret [VBool false]; Ret [VBool false]])
                 /\ f_calls st = [[VF false 0]])
  /\ map recip_sign h = [Ret [VBool false]; Ret [VBool true]].
Proof. exact mem_observational_needs_respect. Qed.
Print Assumptions C18_mem_observational_needs_respect.

(* The table holds exactly one entry per class of Equal argument tuples seen so far on which f
   returned (a permutation of the ideal memoiser's entries; representatives pairwise not Equal;
   every such class represented), each storing f of the first member of its class on which f
   returned; the invocations of f are exactly those of the ideal memoiser.  For every hash
   function under which Equal tuples collide — other collisions are arbitrary. *)
Theorem C18_mem_inv : forall ps f hashr h st outs,
  hash_respects ps hashr -> typed_history ps h ->
  mem_run_with hashr ps f h = Ok (st, outs) ->
  let rp := reps f (args_equal ps) h in
  Permutation (tbl_entries (tbl st)) (spec_entries ps f h)
  /\ pairwise (fun s a => args_equal ps s a = false) rp
  /\ (forall a, In a h -> returns f a = true -> exists s, In s rp /\ args_equal ps s a = true)
  /\ (forall s, In s rp -> returns f s = true /\
        exists h1 h2, h = h1 ++ s :: h2 /\ forall b, In b h1 -> args_equal ps b s = true -> returns f b = false)
  /\ f_calls st = spec_calls f (args_equal ps) h.
Proof. exact mem_inv. Qed.
Print Assumptions C18_mem_inv.

(* f is invoked exactly once for each class of Equal argument tuples that occurs in the history;
   if f panics on a class nothing is cached and it is invoked on every call of that class. *)
Theorem C18_mem_at_most_once : forall ps f hashr h st outs a,
  hash_respects ps hashr -> f_returns_by_class ps f -> typed_history ps h ->
  mem_run_with hashr ps f h = Ok (st, outs) -> In a h ->
  count_class (args_equal ps) a (f_calls st)
  = if returns f a then 1%nat else count_class (args_equal ps) a h.
Proof. exact mem_at_most_once. Qed.
Print Assumptions C18_mem_at_most_once.

Theorem C18_mem_no_spurious_calls : forall ps f hashr h st outs a,
  hash_respects ps hashr -> typed_history ps h ->
  mem_run_with hashr ps f h = Ok (st, outs) -> In a (f_calls st) -> In a h.
Proof. exact mem_no_spurious_calls. Qed.
Print Assumptions C18_mem_no_spurious_calls.

(* The memoised closure never panics and never gets stuck by itself (f's panics are f's): a run
   over a typed history ends normally unless the generator refused Equal/Hash of the key type. *)
Theorem C18_mem_progress : forall ps f hashr h,
  hash_respects ps hashr ->
  (forall b, args_typed ps b = true -> ok_or_unsup (hashr (key_val b))) -> typed_history ps h ->
  ok_or_unsup (mem_run_with hashr ps f h).
Proof. exact mem_progress. Qed.
Print Assumptions C18_mem_progress.

Theorem C18_mem_never_panics : forall ps f h,
  typed_history ps h -> ok_or_unsup (mem_run ps f h).
Proof. exact mem_never_panics. Qed.
Print Assumptions C18_mem_never_panics.

(* The emitted code's hash is derived Hash, which respects Equal (C04) ... *)
Theorem C18_derived_hash_respects : forall ps, hash_respects ps (fun k => hashm [] (key_ty ps) k).
Proof. exact derived_hash_respects. Qed.
Print Assumptions C18_derived_hash_respects.

(* ... so, for a function that never panics, exactly one evaluation per class, without assuming
   that f respects the classes. *)
Theorem C18_mem_at_most_once_total : forall ps f h st outs a,
  (forall a, returns f a = true) -> typed_history ps h -> mem_run ps f h = Ok (st, outs) -> In a h ->
  count_class (args_equal ps) a (f_calls st) = 1%nat.
Proof. exact mem_at_most_once_total. Qed.
Print Assumptions C18_mem_at_most_once_total.

(* Arguments forced into one bucket (hash replaced by a constant) change nothing. *)
Theorem C18_mem_collisions_harmless : forall c ps f h st outs a,
  f_respects_classes ps f -> typed_history ps h -> mem_run_consthash c ps f h = Ok (st, outs) ->
  outs = map f h /\ (In a h -> count_class (args_equal ps) a (f_calls st) = if returns f a then 1%nat else count_class (args_equal ps) a h).
Proof. exact mem_collisions_harmless. Qed.
Print Assumptions C18_mem_collisions_harmless.

(* The class relation is structural equality of the argument tuples: an equivalence; on the map
   forms it is Go's == on the key, on the bucket form it is what derived Equal returns. *)
Theorem C18_classes_refl : forall ps a, args_typed ps a = true -> args_equal ps a a = true.
Proof. exact args_equal_refl. Qed.
Print Assumptions C18_classes_refl.
Theorem C18_classes_sym : forall ps a b, args_typed ps a = true -> args_typed ps b = true ->
  args_equal ps a b = args_equal ps b a.
Proof. exact args_equal_sym. Qed.
Print Assumptions C18_classes_sym.
Theorem C18_classes_trans : forall ps a b c, args_typed ps a = true -> args_typed ps b = true -> args_typed ps c = true ->
  args_equal ps a b = true -> args_equal ps b c = true -> args_equal ps a c = true.
Proof. exact args_equal_trans. Qed.
Print Assumptions C18_classes_trans.
Theorem C18_map_key_is_class : forall ps, form_of ps = FMap -> forall a b, args_typed ps a = true -> args_typed ps b = true ->
  go_eqeq (key_val a) (key_val b) = args_equal ps a b.
Proof. exact map_key_eq. Qed.
Print Assumptions C18_map_key_is_class.
Theorem C18_bucket_equal_is_class : forall ps a b, args_typed ps a = true -> args_typed ps b = true ->
  Equal.eqm [] Top (key_ty ps) (key_val a) (key_val b) = Unsup
  \/ Equal.eqm [] Top (key_ty ps) (key_val a) (key_val b) = Ok (args_equal ps a b).
Proof. exact bucket_key_eq. Qed.
Print Assumptions C18_bucket_equal_is_class.

(* The zero-argument form: one evaluation, however many calls. *)
Theorem C18_mem_zero_arg : forall f h st outs rs,
  f [] = Ret rs -> typed_history [] h -> mem_run [] f h = Ok (st, outs) ->
  outs = repeat (Ret rs) (List.length h) /\ List.length (f_calls st) = Nat.min 1 (List.length h).
Proof. exact mem_zero_arg. Qed.
Print Assumptions C18_mem_zero_arg.

(* The no-result forms. *)
Theorem C18_mem_noresult : forall ps f h st outs a,
  (forall a, f a = Ret []) -> typed_history ps h -> mem_run ps f h = Ok (st, outs) ->
  outs = repeat (Ret []) (List.length h) /\ (In a h -> count_class (args_equal ps) a (f_calls st) = 1%nat).
Proof. exact mem_noresult. Qed.
Print Assumptions C18_mem_noresult.

(* Well-formedness of the emitted statement that calls f and stores the results.  Pinned tree:
   the no-result form with a non-comparable argument was ` := f(param0)` with
   `mem{param0, output{}}`, `output` undeclared (goderive exit 0, file does not parse) — and
   only there; the repaired generator is well-formed for every form and number of results. *)
Theorem C18_mem_noresult_noncomparable_old_refuted :
  form_of [TSl (TB (KInt 64 true))] = FBuck
  /\ emitted_call_old FBuck 0 = CallAssign []
  /\ emitted_store_old FBuck 0 = StoreOutput /\ output_declared 0 = false
  /\ gen_wellformed_old [TSl (TB (KInt 64 true))] 0 = false
  /\ gen_wellformed_old [TSl (TB (KInt 64 true)); TB KStr] 0 = false.
Proof. exact mem_noresult_noncomparable_old_refuted. Qed.
Print Assumptions C18_mem_noresult_noncomparable_old_refuted.

Theorem C18_gen_wellformed_old_iff : forall ps nres,
  gen_wellformed_old ps nres = negb (match form_of ps with FBuck => Nat.eqb nres 0 | _ => false end).
Proof. exact gen_wellformed_old_iff. Qed.
Print Assumptions C18_gen_wellformed_old_iff.

Theorem C18_mem_gen_wellformed : forall ps nres, gen_wellformed ps nres = true.
Proof. exact mem_gen_wellformed. Qed.
Print Assumptions C18_mem_gen_wellformed.

(* ================= re-entrant call sequences =================
   The memoised function is usually called by f itself (fib = deriveMem(func(i) { .. fib(i-1) ..
   })): the look-up of the outer call, the run of f — with inner calls of the same closure that
   look up and store into the same table — and the outer store happen on different tables.
   [rmem_run_with hashr ps inner fin n h] runs the emitted closure (Mem/Reentrant.v: rcall) over
   the outer history h for the f that, on arguments a, calls the memoised function on [inner a]
   in order and then returns [fin a <results of those calls>] (a panic of an inner call
   propagates); n is fuel.  [rfun inner fin rank] is the un-memoised recursive function these
   equations define.  [wf_reentrant]: inner arguments are well-typed and of smaller rank, Equal
   tuples have the same rank (an inner argument is never Equal to an argument whose evaluation
   is in progress — real Go recurses for ever otherwise); [enough_fuel]: n exceeds the rank of
   every outer argument.  All four emitted forms; any hash function under which Equal tuples
   collide (all other collisions arbitrary). *)
From Verif Require Import Mem.Reentrant Mem.ReProofs Mem.ReInst.

(* Every outer call returns what the un-memoised recursive function returns (so does every
   inner call: that is how the outer result comes out right). *)
Theorem C18_rmem_observational : forall ps inner fin rank hashr n h st outs,
  wf_reentrant ps inner rank -> hash_respects ps hashr -> f_respects_classes ps (rfun inner fin rank) ->
  typed_history ps h -> enough_fuel rank n h ->
  rmem_run_with hashr ps inner fin n h = ROk (st, outs) -> outs = map (rfun inner fin rank) h.
Proof. exact rmem_observational. Qed.
Print Assumptions C18_rmem_observational.

(* f is invoked at most once for each class of Equal argument tuples on which it returns —
   inner and outer invocations counted together — and exactly once for the class of every
   outer call. *)
Theorem C18_rmem_at_most_once : forall ps inner fin rank hashr n h st outs c,
  wf_reentrant ps inner rank -> hash_respects ps hashr -> f_respects_classes ps (rfun inner fin rank) ->
  typed_history ps h -> enough_fuel rank n h ->
  rmem_run_with hashr ps inner fin n h = ROk (st, outs) ->
  args_typed ps c = true -> returns (rfun inner fin rank) c = true ->
  (count_class (args_equal ps) c (f_calls st) <= 1)%nat
  /\ (In c h -> count_class (args_equal ps) c (f_calls st) = 1%nat).
Proof. exact rmem_at_most_once. Qed.
Print Assumptions C18_rmem_at_most_once.

(* ... and exactly once for the class of every inner call of an invocation that returned
   (hence, along the calls, for the whole call tree below a returning outer call). *)
Theorem C18_rmem_inner_once : forall ps inner fin rank hashr n h st outs x b,
  wf_reentrant ps inner rank -> hash_respects ps hashr -> f_respects_classes ps (rfun inner fin rank) ->
  typed_history ps h -> enough_fuel rank n h ->
  rmem_run_with hashr ps inner fin n h = ROk (st, outs) ->
  In x (f_calls st) -> returns (rfun inner fin rank) x = true -> In b (inner x) ->
  returns (rfun inner fin rank) b = true /\ count_class (args_equal ps) b (f_calls st) = 1%nat.
Proof. exact rmem_inner_once. Qed.
Print Assumptions C18_rmem_inner_once.

(* The table is the emitted form's layout ([tinv]: memoized flag and result variables / map in
   insertion order / every bucket the entries of its hash in insertion order) of the cache of an
   ideal memoiser over classes ([irun]: no table layout, no hash): one entry per class, pairwise
   not Equal, each holding f of its arguments; and f's invocation log is the ideal memoiser's. *)
Theorem C18_rmem_refines_ideal : forall ps inner fin rank hashr n h st outs,
  wf_reentrant ps inner rank -> hash_respects ps hashr -> f_respects_classes ps (rfun inner fin rank) ->
  typed_history ps h -> enough_fuel rank n h ->
  rmem_run_with hashr ps inner fin n h = ROk (st, outs) ->
  exists it, irun inner fin (args_equal ps) n h = ROk (it, outs)
    /\ tinv key_val hashr (form_of ps) (itab it) (tbl st)
    /\ f_calls st = icalls it
    /\ pairwise (fun e1 e2 => args_equal ps (fst e1) (fst e2) = false) (itab it)
    /\ (forall s rs, In (s, rs) (itab it) -> args_typed ps s = true /\ rfun inner fin rank s = Ret rs).
Proof. exact rmem_refines_ideal. Qed.
Print Assumptions C18_rmem_refines_ideal.

Theorem C18_rmem_no_spurious_calls : forall ps inner fin rank hashr n h st outs x,
  wf_reentrant ps inner rank -> hash_respects ps hashr -> typed_history ps h ->
  rmem_run_with hashr ps inner fin n h = ROk (st, outs) -> In x (f_calls st) ->
  exists a, In a h /\ desc inner a x.
Proof. exact rmem_no_spurious_calls. Qed.
Print Assumptions C18_rmem_no_spurious_calls.

(* The premise "= ROk" of the theorems above is not vacuous: with enough fuel a run over a typed
   history ends normally — the closure never panics by itself, is never stuck, never out of
   fuel — unless the generator refused Equal/Hash of the key type. *)
Theorem C18_rmem_never_panics : forall ps inner fin rank n h,
  wf_reentrant ps inner rank -> typed_history ps h -> enough_fuel rank n h ->
  rok_or_unsup (rmem_run ps inner fin n h).
Proof. exact rmem_never_panics. Qed.
Print Assumptions C18_rmem_never_panics.

(* Every argument forced into one bucket — so every inner call collides with the call in
   progress — changes nothing. *)
Theorem C18_rmem_collisions_harmless : forall k ps inner fin rank n h st outs,
  wf_reentrant ps inner rank -> f_respects_classes ps (rfun inner fin rank) ->
  typed_history ps h -> enough_fuel rank n h ->
  rmem_run_consthash k ps inner fin n h = ROk (st, outs) ->
  outs = map (rfun inner fin rank) h
  /\ (forall c, args_typed ps c = true -> returns (rfun inner fin rank) c = true ->
        (count_class (args_equal ps) c (f_calls st) <= 1)%nat
        /\ (In c h -> count_class (args_equal ps) c (f_calls st) = 1%nat)).
Proof. exact rmem_collisions_harmless. Qed.
Print Assumptions C18_rmem_collisions_harmless.

(* The flat model of the theorems further up is this model for a function without inner calls. *)
Theorem C18_rmem_flat_is_mem : forall hashr ps f n h,
  rmem_run_with hashr ps (fun _ => []) (fun a _ => f a) (S n) h = of_res (mem_run_with hashr ps f h).
Proof. exact rmem_flat. Qed.
Print Assumptions C18_rmem_flat_is_mem.

(* The decidable well-foundedness check of the evaluator (functions given by a finite table of
   rules) implies the hypothesis of the theorems. *)
Theorem C18_rules_wf_sound : forall ps rules, rules_wf ps rules = true ->
  wf_reentrant ps (rule_inner ps rules) (rule_rank ps rules).
Proof. exact rules_wf_sound. Qed.
Print Assumptions C18_rules_wf_sound.

(* The variant `m[h] = append(vs, mem{..})` of the bucket form's store, with vs the bucket
   slice read BEFORE f was called ([rmem_run_stale]: the same definition with one flag), is
   refuted: weight([]int{1,0}) = 1 + weight([]int{0,31}), both slices hash to 16368; every
   hypothesis of C18_rmem_at_most_once holds and the results are f's, but the entry stored by
   the inner call is overwritten by the outer store and the class of {0,31} is evaluated twice.
   The emitted code (m[h] re-read at store time) evaluates it once. *)
Theorem C18_rmem_stale_bucket_refuted :
  form_of w_ps = FBuck
  /\ hashm [] (key_ty w_ps) (key_val (w_a10 3%N)) = hashm [] (key_ty w_ps) (key_val (w_a31 4%N))
  /\ args_equal w_ps (w_a10 3%N) (w_a31 4%N) = false
  /\ wf_reentrant w_ps w_inner w_rank /\ f_respects_classes w_ps (rfun w_inner w_fin w_rank)
  /\ typed_history w_ps w_h /\ enough_fuel w_rank 3 w_h
  /\ returns (rfun w_inner w_fin w_rank) (w_a31 4%N) = true
  /\ (exists st, rmem_run_stale w_ps w_inner w_fin 3 w_h = ROk (st, map (rfun w_inner w_fin w_rank) w_h)
        /\ f_calls st = [w_a10 3%N; w_a31 2%N; w_a31 4%N]
        /\ count_class (args_equal w_ps) (w_a31 4%N) (f_calls st) = 2%nat)
  /\ (exists st, rmem_run w_ps w_inner w_fin 3 w_h = ROk (st, map (rfun w_inner w_fin w_rank) w_h)
        /\ f_calls st = [w_a10 3%N; w_a31 2%N]
        /\ count_class (args_equal w_ps) (w_a31 4%N) (f_calls st) = 1%nat).
Proof. exact rmem_stale_bucket_refuted. Qed.
Print Assumptions C18_rmem_stale_bucket_refuted.
