(* Properties/C08.v — Generation is deterministic and independent of invocation context.
   Only statements, each closed by `exact`, with Print Assumptions beneath.
   Model: Gen/TypesMap.v with the iteration order of `range funcToTyps` as the explicit parameter
   [order]; Gen/Determinism.v for sortPlugins and printer.WriteTo. *)
From Coq Require Import List String Bool Permutation Sorted.
From Verif Require Import Base Gen.TypesMap Gen.Determinism Gen.SortInst.
Import ListNotations.

Section C08.
Variable tys : Type.
Variable teq : tys -> tys -> bool.
Variable hint : tys -> string.

(* a look-up that at most one registered entry answers gives the same name under every
   iteration order of the map *)
Theorem C08_name_of_order_independent :
  forall (o1 o2 : list (name * tys) -> list (name * tys)) (s : tm tys) q,
  is_perm tys o1 -> is_perm tys o2 -> at_most_one_match tys teq (tbl s) q ->
  name_of tys teq o1 s q = name_of tys teq o2 s q.
Proof. exact (name_of_order_independent tys teq). Qed.

(* ... which is the case for every query when the relation is an equivalence and the
   registered entries are pairwise unrelated (an invariant of registration) *)
Theorem C08_sep_unique_match :
  (forall a b, teq a b = teq b a) ->
  (forall a b c, teq a b = true -> teq b c = true -> teq a c = true) ->
  forall t q, Sep tys teq t -> at_most_one_match tys teq t q.
Proof. exact (sep_unique_match tys teq). Qed.

(* lifted to whole runs: every answer the plugins get from a typesMap (names, errors, work
   lists, done flags), for every sequence of operations, is the same under any two orders *)
Theorem C08_generate_deterministic :
  (forall a b, teq a b = teq b a) ->
  (forall a b c, teq a b = true -> teq b c = true -> teq a c = true) ->
  forall (o1 o2 : list (name * tys) -> list (name * tys)),
  is_perm tys o1 -> is_perm tys o2 ->
  forall ops s, Sep tys teq (tbl s) -> run tys teq hint o1 s ops = run tys teq hint o2 s ops.
Proof. exact (generate_deterministic tys teq hint). Qed.
End C08.

(* sortPlugins: any two listings of the same distinct prefixes are sorted to the same list, by
   any routine that meets sort.Slice's contract *)
Theorem C08_sort_plugins_perm : forall (sorter1 sorter2 : list string -> list string) ps ps',
  sorts less sorter1 -> sorts less sorter2 ->
  NoDup ps -> Permutation ps ps' -> sorter1 ps = sorter2 ps'.
Proof. exact sort_plugins_perm. Qed.

(* printer.WriteTo: the import block depends on the set of (alias, path) pairs only, not on
   the iteration order of the imports map *)
Theorem C08_write_to_sorted : forall (sorter1 sorter2 : list string -> list string) im1 im2,
  sorts sless sorter1 -> sorts sless sorter2 ->
  NoDup (map snd im1) -> Permutation im1 im2 ->
  write_to sorter1 im1 = write_to sorter2 im2.
Proof. exact write_to_sorted. Qed.

(* the contract assumed of sort.Slice / sort.Strings is met by a concrete sorting routine for
   both orders, so the two theorems above are not vacuous (and the evaluator's sorter is one) *)
Theorem C08_sorter_instances : sorts less (isort less) /\ sorts sless (isort sless).
Proof. exact (conj (isort_sorts less less_strict_total) (isort_sorts sless sless_strict_total)). Qed.

(* the repaired nameOf (registration order): after any operations, a registered type list
   resolves to its own name, for ANY assignability relation (reflexive; not necessarily
   symmetric) — so Generating/ToGenerate/Done speak about the entry itself *)
Theorem C08_registered_resolves_to_self :
  forall (tys : Type) (teq : tys -> tys -> bool) (hint : tys -> string),
  (forall q, teq q q = true) ->
  forall ops (s : tm tys), SelfFirst tys teq (tbl s) ->
  forall n q, In (n, q) (tbl (fst (run tys teq hint in_order s ops))) ->
  name_of tys teq in_order (fst (run tys teq hint in_order s ops)) q = Some n.
Proof. exact registered_resolves_to_self. Qed.

(* the pinned nameOf without the guard: S1/S2 registered, []int queried — two orders, two
   answers (repaired by "fix: nameOf looks names up in registration order") *)
Theorem C08_name_of_order_refuted :
  exists o1 o2 : list (name * nat) -> list (name * nat),
    (forall t, Permutation (o1 t) t) /\ (forall t, Permutation (o2 t) t) /\
    name_of nat Refuted.teq o1 Refuted.s 2 = Some "deriveEqualS1"%string /\
    name_of nat Refuted.teq o2 Refuted.s 2 = Some "deriveEqualS2"%string.
Proof. exact Refuted.name_of_order_refuted. Qed.

Print Assumptions C08_name_of_order_independent.
Print Assumptions C08_sep_unique_match.
Print Assumptions C08_generate_deterministic.
Print Assumptions C08_sort_plugins_perm.
Print Assumptions C08_write_to_sorted.
Print Assumptions C08_sorter_instances.
Print Assumptions C08_registered_resolves_to_self.
Print Assumptions C08_name_of_order_refuted.
