(* Properties/C06.v — derived GoString round-trips through the Go compiler.
   Statements only; proofs are in GoStr/Proofs.v. *)
From Verif Require Import Go.Ty Go.Val Go.Equal GoStr.Model GoStr.Geval GoStr.Match GoStr.Proofs.

Theorem C06_geval_deterministic : forall e t g n r1 r2,
  geval e t g n = r1 -> geval e t g n = r2 -> r1 = r2.
Proof. exact geval_deterministic. Qed.
Print Assumptions C06_geval_deterministic.
