(* Properties/C06.v — derived GoString round-trips through the Go compiler.
   Statements only; proofs are in GoStr/Proofs.v.

   gostring_model t v  = the expression that the generated deriveGoString(T) prints for v
                         (GoStr/Model.v: transcription of plugin/gostring genFunc, genStatement, genField);
   gostring_eval t g   = the value that expression denotes when compiled where a T is expected
                         (GoStr/Geval.v; None = does not compile / outside the emitted fragment);
   spec_eq             = C02's structural equality: same nil-ness at every pointer, slice and map,
                         same lengths and key sets, equal leaves, equal pointer targets;
   exp_only t          = every struct field reachable in t is exported;
   finite [] t v       = every float the function looks at is finite. *)
From Verif Require Import Go.Ty Go.Val Go.Equal GoStr.Model GoStr.Geval GoStr.Match GoStr.Proofs GoStr.PtrKeys.

(* For EVERY type with exported fields only and EVERY well-typed value with finite floats the
   printed expression is accepted by the evaluator and denotes a value structurally equal to the
   original. *)
Theorem C06_gostring_roundtrip : forall t v,
  exp_only t = true -> has_type [] t v = true -> finite [] t v = true ->
  exists g v', gostring_model t v = Ok g /\ gostring_eval t g = Some v' /\ spec_eq [] t v v' = Some true.
Proof. exact gostring_roundtrip. Qed.
Print Assumptions C06_gostring_roundtrip.

(* the same below enclosing declarations (recursive types), at any state of the address supply *)
Theorem C06_gostring_roundtrip_env : forall v e t n,
  env_exp e -> exp_only t = true -> has_type e t v = true -> finite e t v = true ->
  exists g v' n', gtop e t v = Ok g /\ geval e t g n = Some (v', n') /\ spec_eq e t v v' = Some true.
Proof. exact gtop_roundtrip. Qed.
Print Assumptions C06_gostring_roundtrip_env.

(* nil, empty and non-empty containers and nil / non-nil pointers are kept apart *)
Theorem C06_gostring_nil_vs_empty : forall t v,
  exp_only t = true -> has_type [] t v = true -> finite [] t v = true ->
  exists g v', gostring_model t v = Ok g /\ gostring_eval t g = Some v' /\ shape v = shape v'.
Proof. exact gostring_nil_vs_empty. Qed.
Print Assumptions C06_gostring_nil_vs_empty.

Theorem C06_structural_equality_keeps_shape : forall e t v v',
  spec_eq e t v v' = Some true -> shape v = shape v'.
Proof. exact spec_eq_shape. Qed.
Print Assumptions C06_structural_equality_keeps_shape.

(* pointer-free values come back bit for bit, except that the constant -0 reads as +0 *)
Theorem C06_gostring_roundtrip_comparable : forall t v,
  exp_only t = true -> has_type [] t v = true -> finite [] t v = true -> can_equal t = true ->
  exists g, gostring_model t v = Ok g /\ gostring_eval t g = Some (norm0 v).
Proof. exact gostring_roundtrip_comparable. Qed.
Print Assumptions C06_gostring_roundtrip_comparable.

Theorem C06_geval_deterministic : forall e t g n r1 r2,
  geval e t g n = r1 -> geval e t g n = r2 -> r1 = r2.
Proof. exact geval_deterministic. Qed.
Print Assumptions C06_geval_deterministic.

(* the two guards are needed: outside them the text does not compile *)
Theorem C06_gostring_infinite_refuted :
  has_type [] (TB KF64) (VF false f64_inf) = true /\
  match gostring_model (TB KF64) (VF false f64_inf) with
  | Ok g => gostring_eval (TB KF64) g = None
  | _ => False
  end.
Proof. exact gostring_infinite_refuted. Qed.
Print Assumptions C06_gostring_infinite_refuted.

Theorem C06_gostring_unexported_refuted :
  let t := TN 50 false (TSt [(true, ex_int)]) in
  has_type [] t (VSt [VInt 1]) = true /\ finite [] t (VSt [VInt 1]) = true /\
  match gostring_model t (VSt [VInt 1]) with
  | Ok g => gostring_eval t g = None
  | _ => False
  end.
Proof. exact gostring_unexported_refuted. Qed.
Print Assumptions C06_gostring_unexported_refuted.

(* Maps whose key type owns pointers (map[*T]V, struct keys with a pointer field) are outside [has_type]
   (their keys can be equal by content and different under ==); observations on them are judged with
   [has_typek] / [spec_eqk] of GoStr/PtrKeys.v, which compares the entries of a map as a multiset, keys by
   content.  That equality holds between every typed value and itself (whatever the addresses), so a
   reported difference is a difference of contents; PtrKeys.v: twin_roundtrips / twin_merged_differs are
   the round trip and its failure on the map { {"a", &Lab{"l"}}: 1, {"a", &Lab{"l"}}: 2 }. *)
Theorem C06_ptrkey_equality_reflexive : forall v e t,
  has_typek e t v = true -> spec_eqk e t v v = Some true.
Proof. exact spec_eqk_refl. Qed.
Print Assumptions C06_ptrkey_equality_reflexive.
