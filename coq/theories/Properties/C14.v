(* Properties/C14.v — set and list helpers behave as sets/lists under derived Equal.
   Statements only; proofs are in Sets/*.v.  [Equal e t x y] is the structural equality that the
   generated Equal function computes (Properties/C02.v); [eqb e t] is its boolean form;
   [mem eq x l]: some element of l is eq to x; [keep_first eq prev l]: the elements of l that are
   eq to no earlier element of prev ++ l; a model result [Unsup] means that the generator refuses
   the element type (no code exists). *)
From Verif Require Import Go.Ty Go.Val Go.Equal Go.Hash Go.HashProofs.
From Verif Require Import Sets.Model Sets.ListSpec Sets.PredProofs Sets.EqEq Sets.SetProofs Sets.Theorems.
From Coq Require Import Permutation.
Open Scope nat_scope.
Open Scope list_scope.

Theorem C14_contains_iff_exists_equal e t lst item :
  has_type e (TSl t) lst = true -> has_type e t item = true ->
  exists es, slice_elems lst = Some es /\
    (contains_m e t lst item = Unsup \/
     exists b, contains_m e t lst item = Ok b /\ (b = true <-> exists v, In v es /\ Equal e t v item)).
Proof. exact (contains_iff_exists_equal e t lst item). Qed.
Print Assumptions C14_contains_iff_exists_equal.

Theorem C14_unique_hash_path e t fl ord l x es' sp :
  can_equal t = false -> has_type e (TSl t) (VSl l (x :: es') sp) = true ->
  let es := x :: es' in
  let R := keep_first (eqb e t) [] es in
  (unique_m e t fl ord (VSl l es sp) = Unsup \/
   unique_m e t fl ord (VSl l es sp) =
     Ok (VSl l R (skipn (length R) es ++ sp), VSl l (R ++ skipn (length R) es) sp))
  /\ pairwise_non_equal e t R
  /\ (forall a, In a es -> exists r, In r R /\ Equal e t r a)
  /\ (forall r, In r R -> In r es).
Proof. exact (unique_hash_path e t fl ord l x es' sp). Qed.
Print Assumptions C14_unique_hash_path.

Theorem C14_unique_comparable_path e t fl ord l x es' sp : can_equal t = true ->
  (forall ks, Permutation (ord ks) ks) -> has_type e (TSl t) (VSl l (x :: es') sp) = true ->
  exists r, unique_m e t fl ord (VSl l (x :: es') sp) = Ok (VSl fl r [], VSl l (x :: es') sp)
            /\ Permutation r (keep_first go_eqeq [] (x :: es'))
            /\ (forall a b, In a (x :: es') -> In b (x :: es') -> (go_eqeq a b = true <-> Equal e t a b)).
Proof. exact (unique_comparable_path e t fl ord l x es' sp). Qed.
Print Assumptions C14_unique_comparable_path.

Theorem C14_unique_of_empty e t fl ord l sp :
  unique_m e t fl ord (VSl l [] sp) = Ok (VNilS, VSl l [] sp) /\ unique_m e t fl ord VNilS = Ok (VNilS, VNilS).
Proof. exact (unique_of_empty e t fl ord l sp). Qed.
Print Assumptions C14_unique_of_empty.

Theorem C14_set_spec fl lst es : slice_elems lst = Some es -> Forall keyable es ->
  exists K, set_m fl lst = Ok (VMap fl (unit_entries K))
    /\ K = keep_first go_eqeq [] es
    /\ pw_ne go_eqeq K
    /\ (forall z, keyable z -> mem go_eqeq z K = mem go_eqeq z es)
    /\ (forall y, In y K -> In y es).
Proof. exact (set_spec fl lst es). Qed.
Print Assumptions C14_set_spec.

Theorem C14_set_keys_equal e t es : can_equal t = true -> Forall (D e t) es ->
  Forall keyable es /\ forall a b, In a es -> In b es -> (go_eqeq a b = true <-> Equal e t a b).
Proof. exact (set_keys_equal e t es). Qed.
Print Assumptions C14_set_keys_equal.

Theorem C14_union_spec e t fl this that :
  has_type e (TSl t) this = true -> has_type e (TSl t) that = true ->
  exists es1 es2, slice_elems this = Some es1 /\ slice_elems that = Some es2 /\
  (union_m e t fl this that = Unsup \/
   exists r after, union_m e t fl this that = Ok (r, after)
     /\ slice_elems r = Some (es1 ++ keep_first (eqb e t) es1 es2)
     /\ forall z, D e t z ->
          mem (eqb e t) z (es1 ++ keep_first (eqb e t) es1 es2) = mem (eqb e t) z es1 || mem (eqb e t) z es2).
Proof. exact (union_spec e t fl this that). Qed.
Print Assumptions C14_union_spec.

Theorem C14_intersect_spec e t fl this that :
  has_type e (TSl t) this = true -> has_type e (TSl t) that = true ->
  exists es1 es2, slice_elems this = Some es1 /\ slice_elems that = Some es2 /\
  (intersect_m e t fl this that = Unsup \/
   exists r, intersect_m e t fl this that = Ok r
     /\ slice_elems r = Some (filter (fun v => mem (eqb e t) v es2) es1)
     /\ forall z, D e t z ->
          mem (eqb e t) z (filter (fun v => mem (eqb e t) v es2) es1) = mem (eqb e t) z es1 && mem (eqb e t) z es2).
Proof. exact (intersect_spec e t fl this that). Qed.
Print Assumptions C14_intersect_spec.

Theorem C14_union_map_spec fl ord this that ks1 ks2 : (forall ks, Permutation (ord ks) ks) ->
  map_keys this = Some ks1 -> map_keys that = Some ks2 ->
  Forall keyable ks1 -> Forall keyable ks2 -> pw_ne go_eqeq ks1 ->
  exists K, union_map_m fl ord this that = Ok (VMap (map_label fl this) (unit_entries K))
    /\ pw_ne go_eqeq K
    /\ (forall z, keyable z -> mem go_eqeq z K = mem go_eqeq z ks1 || mem go_eqeq z ks2).
Proof. exact (union_map_spec fl ord this that ks1 ks2). Qed.
Print Assumptions C14_union_map_spec.

Theorem C14_intersect_map_spec fl ord this that ks1 ks2 : (forall ks, Permutation (ord ks) ks) ->
  map_keys this = Some ks1 -> map_keys that = Some ks2 -> Forall keyable ks1 -> Forall keyable ks2 ->
  exists K, intersect_map_m fl ord this that = Ok (VMap fl (unit_entries K))
    /\ pw_ne go_eqeq K
    /\ (forall z, keyable z -> mem go_eqeq z K = mem go_eqeq z ks1 && mem go_eqeq z ks2).
Proof. exact (intersect_map_spec fl ord this that ks1 ks2). Qed.
Print Assumptions C14_intersect_map_spec.

Theorem C14_union_map_nil_old_refuted :
  union_map_old_m 0 (fun ks => ks) VNilM (VMap 1 (unit_entries [VInt 1%Z])) = Pan
  /\ union_map_m 0 (fun ks => ks) VNilM (VMap 1 (unit_entries [VInt 1%Z])) = Ok (VMap 0 (unit_entries [VInt 1%Z])).
Proof. exact union_map_nil_old_refuted. Qed.
Print Assumptions C14_union_map_nil_old_refuted.

(* ---------- the predicate functions.  A predicate [p log x] may depend on the arguments of its
   earlier calls ([log], oldest first); [answers p [] es] are its answers when it is called on
   every element of es in order; the last component of each result is the log of the calls the
   emitted loop really makes ---------- *)
Theorem C14_filter_spec p l es sp :
  let F := filter_by es (answers p [] es) in
  filter_m p (VSl l es sp) = Ok (VSl l F (skipn (length F) es ++ sp), VSl l (F ++ skipn (length F) es) sp, es)
  /\ filter_m p VNilS = Ok (VNilS, VNilS, []).
Proof. exact (filter_m_spec p l es sp). Qed.
Print Assumptions C14_filter_spec.

Theorem C14_filter_is_List_filter q l es sp :
  filter_m (pure_pred q) (VSl l es sp) =
  Ok (VSl l (filter q es) (skipn (length (filter q es)) es ++ sp),
      VSl l (filter q es ++ skipn (length (filter q es)) es) sp, es).
Proof. exact (filter_pure q l es sp). Qed.
Print Assumptions C14_filter_is_List_filter.

Theorem C14_takewhile_spec p fl lst es : slice_elems lst = Some es ->
  takewhile_m fl p lst = Ok (VSl fl (take_while_by es (answers p [] es)) [], upto_first false es (answers p [] es)).
Proof. exact (takewhile_m_spec p fl lst es). Qed.
Print Assumptions C14_takewhile_spec.

Theorem C14_all_spec p lst es : slice_elems lst = Some es ->
  all_m p lst = Ok (forallb (fun b => b) (answers p [] es), upto_first false es (answers p [] es)).
Proof. exact (all_m_spec p lst es). Qed.
Print Assumptions C14_all_spec.

Theorem C14_any_spec p lst es : slice_elems lst = Some es ->
  any_m p lst = Ok (existsb (fun b => b) (answers p [] es), upto_first true es (answers p [] es)).
Proof. exact (any_m_spec p lst es). Qed.
Print Assumptions C14_any_spec.

(* for a predicate without state: takewhile, forallb, existsb *)
Theorem C14_takewhile_all_any_pure q fl lst es : slice_elems lst = Some es ->
  (exists log, takewhile_m fl (pure_pred q) lst = Ok (VSl fl (takewhile q es) [], log))
  /\ (exists log, all_m (pure_pred q) lst = Ok (forallb q es, log))
  /\ (exists log, any_m (pure_pred q) lst = Ok (existsb q es, log)).
Proof. exact (fun E => conj (takewhile_pure fl q lst es E) (conj (all_pure q lst es E) (any_pure q lst es E))). Qed.
Print Assumptions C14_takewhile_all_any_pure.

(* the theorem Unique's hash path rests on (C04), closed *)
Theorem C14_hash_respects_equal : forall e t x y, has_type e t x = true -> has_type e t y = true ->
  spec_eq e t x y = Some true -> hashm e t x = hashm e t y.
Proof. exact Go.HashProofs.hash_respects_equal. Qed.
Print Assumptions C14_hash_respects_equal.
