(* Properties/C05.v — placeholder while the proofs are being written. *)
From Verif Require Import Go.Ty Go.Val Go.Equal Copy.Model Copy.Examples.
Theorem C05_example_result :
  match deepcopy_top [] (TP exT) ex_dst ex_src 100 with
  | Ok (r, _) => spec_eq [] (TP exT) ex_src r = Some true
  | _ => False
  end.
Proof. exact ex_equal. Qed.
Print Assumptions C05_example_result.
