(* Properties/C05.v — DeepCopy and Clone produce an equal, fully independent copy.
   Statements only; proofs are in Copy/{Erase,Proofs,Main,Top,Theorems}.v.

   Model (Copy/Model.v): [deepcopy_top e t dst src n] is the destination after
   deriveDeepCopy(dst, src) for the three top-level forms (t a pointer, slice or map type),
   [clone_model e t src n] the value returned by deriveClone(src), [dcf e t src p n] one
   component copied by genField into a location with prior contents p (None = new memory).
   [n] is the allocation counter: the call allocates exactly the labels n <= l < n'.
   [top_guard src dst]: dst is a non-nil pointer (src non-nil), a slice of the same length, or an
   empty map (and nil iff src is nil: the reference itself is passed by value).
   The source is an argument of the model and is not written by construction; on the real code
   "source unchanged" and "writes are not visible through the other value" are observed by the
   harness for every call (snapshots before/after, overwrite of every reachable location).
   "Never visible through the other" follows from label disjointness under the frame reading of
   labels; Copy/Frame.v states the reading ([upd]: a write changes the object with one label) and
   the theorems *_writes_invisible_partial are its consequence; that labels ARE addresses remains
   the modelling assumption — partial. *)
From Verif Require Import Go.Ty Go.Val Go.Equal Copy.Model Copy.Erase Copy.Proofs Copy.Frame Copy.Theorems.

(* the emitted code neither panics nor leaves the modelled fragment: it returns, or the
   generator has refused the type (Unsup) *)
Theorem C05_copy_total : forall e t src dst n,
  has_type e t src = true -> has_type e t dst = true -> top_guard src dst = true ->
  deepcopy_top e t dst src n <> Pan /\ deepcopy_top e t dst src n <> Stuck.
Proof. exact copy_total. Qed.
Print Assumptions C05_copy_total.

(* the result is the source up to address labels and spare capacity: nil-ness of every pointer,
   slice and map, lengths, keys and leaves (bit for bit) are reproduced *)
Theorem C05_copy_same_shape : forall e t src dst n,
  has_type e t src = true -> has_type e t dst = true -> top_guard src dst = true ->
  forall r n', deepcopy_top e t dst src n = Ok (r, n') -> erase r = erase src.
Proof. exact copy_same_shape. Qed.
Print Assumptions C05_copy_same_shape.

Theorem C05_copy_equal : forall e t src dst n,
  has_type e t src = true -> has_type e t dst = true -> top_guard src dst = true ->
  forall r n', deepcopy_top e t dst src n = Ok (r, n') -> spec_eq e t src r = Some true.
Proof. exact copy_equal. Qed.
Print Assumptions C05_copy_equal.

Theorem C05_copy_nilness : forall e t src dst n,
  has_type e t src = true -> has_type e t dst = true -> top_guard src dst = true ->
  forall r n', deepcopy_top e t dst src n = Ok (r, n') -> is_nilv r = is_nilv src.
Proof. exact copy_nilness. Qed.
Print Assumptions C05_copy_nilness.

Theorem C05_copy_well_typed : forall e t src dst n,
  has_type e t src = true -> has_type e t dst = true -> top_guard src dst = true ->
  forall r n', deepcopy_top e t dst src n = Ok (r, n') -> has_type e t r = true.
Proof. exact copy_well_typed. Qed.
Print Assumptions C05_copy_well_typed.

(* every pointer target, backing array and map of the result was allocated by the call or
   belonged to the prior destination *)
Theorem C05_copy_labels : forall e t src dst n,
  has_type e t src = true -> has_type e t dst = true -> top_guard src dst = true ->
  forall r n', deepcopy_top e t dst src n = Ok (r, n') ->
  forall l, In l (labels r) -> (n <= l < n')%N \/ In l (labels dst).
Proof. exact copy_labels. Qed.
Print Assumptions C05_copy_labels.

(* so, for a prior destination that shares no memory with the source (and an allocator that
   returns unused addresses), nothing reachable from the result is reachable from the source *)
Theorem C05_copy_src_label_disjoint : forall e t src dst n,
  has_type e t src = true -> has_type e t dst = true -> top_guard src dst = true ->
  forall r n', deepcopy_top e t dst src n = Ok (r, n') ->
  (forall l, In l (labels src) -> (l < n)%N) ->
  (forall l, In l (labels src) -> ~ In l (labels dst)) ->
  forall l, In l (labels r) -> ~ In l (labels src).
Proof. exact copy_src_label_disjoint. Qed.
Print Assumptions C05_copy_src_label_disjoint.

(* "a later write through either is never visible through the other", with a write modelled as an
   arbitrary change [f] of the object labelled l ([upd], Copy/Frame.v).  PARTIAL: that equal labels
   are the same object and different labels different objects is the modelling assumption. *)
Theorem C05_copy_writes_invisible_partial : forall e t src dst n,
  has_type e t src = true -> has_type e t dst = true -> top_guard src dst = true ->
  forall r n', deepcopy_top e t dst src n = Ok (r, n') ->
  (forall l, In l (labels src) -> (l < n)%N) ->
  (forall l, In l (labels src) -> ~ In l (labels dst)) ->
  (forall l f, In l (labels r) -> upd l f src = src) /\ (forall l f, In l (labels src) -> upd l f r = r).
Proof. exact copy_writes_invisible. Qed.
Print Assumptions C05_copy_writes_invisible_partial.

(* one component, any prior contents of the destination location (shorter/longer slices with
   spare capacity, non-nil where the source is nil and vice versa, ...) *)
Theorem C05_field_copy_total : forall e t src p n,
  has_type e t src = true -> prior_ok e t p ->
  dcf e t src p n <> Pan /\ dcf e t src p n <> Stuck.
Proof. exact field_copy_total. Qed.
Print Assumptions C05_field_copy_total.

Theorem C05_field_copy_equal : forall e t src p n,
  has_type e t src = true -> prior_ok e t p ->
  forall r n', dcf e t src p n = Ok (r, n') -> spec_eq e t src r = Some true.
Proof. exact field_copy_equal. Qed.
Print Assumptions C05_field_copy_equal.

Theorem C05_field_copy_labels : forall e t src p n,
  has_type e t src = true -> prior_ok e t p ->
  forall r n', dcf e t src p n = Ok (r, n') ->
  forall l, In l (labels r) -> (n <= l < n')%N \/ In l (olabels p).
Proof. exact field_copy_labels. Qed.
Print Assumptions C05_field_copy_labels.

(* deriveClone *)
Theorem C05_clone_total : forall e t src n, has_type e t src = true ->
  clone_model e t src n <> Pan /\ clone_model e t src n <> Stuck.
Proof. exact clone_total. Qed.
Print Assumptions C05_clone_total.

Theorem C05_clone_same_shape : forall e t src n, has_type e t src = true ->
  forall r n', clone_model e t src n = Ok (r, n') -> erase r = erase src.
Proof. exact clone_same_shape. Qed.
Print Assumptions C05_clone_same_shape.

Theorem C05_clone_equal : forall e t src n, has_type e t src = true ->
  forall r n', clone_model e t src n = Ok (r, n') -> spec_eq e t src r = Some true.
Proof. exact clone_equal. Qed.
Print Assumptions C05_clone_equal.

Theorem C05_clone_nilness : forall e t src n, has_type e t src = true ->
  forall r n', clone_model e t src n = Ok (r, n') -> is_nilv r = is_nilv src.
Proof. exact clone_nilness. Qed.
Print Assumptions C05_clone_nilness.

(* every object of a clone was allocated by the call *)
Theorem C05_clone_fresh : forall e t src n, has_type e t src = true ->
  forall r n', clone_model e t src n = Ok (r, n') ->
  forall l, In l (labels r) -> (n <= l < n')%N.
Proof. exact clone_fresh. Qed.
Print Assumptions C05_clone_fresh.

Theorem C05_clone_src_label_disjoint : forall e t src n, has_type e t src = true ->
  forall r n', clone_model e t src n = Ok (r, n') ->
  (forall l, In l (labels src) -> (l < n)%N) ->
  forall l, In l (labels r) -> ~ In l (labels src).
Proof. exact clone_src_label_disjoint. Qed.
Print Assumptions C05_clone_src_label_disjoint.

Theorem C05_clone_writes_invisible_partial : forall e t src n, has_type e t src = true ->
  forall r n', clone_model e t src n = Ok (r, n') ->
  (forall l, In l (labels src) -> (l < n)%N) ->
  (forall l f, In l (labels r) -> upd l f src = src) /\ (forall l f, In l (labels src) -> upd l f r = r).
Proof. exact clone_writes_invisible. Qed.
Print Assumptions C05_clone_writes_invisible_partial.

(* structural equality ignores exactly what [erase] forgets; assignable values carry no label *)
Theorem C05_equal_ignores_labels_and_spare : forall x e t y,
  spec_eq e t x y = spec_eq e t (erase x) (erase y).
Proof. exact spec_eq_erase. Qed.
Print Assumptions C05_equal_ignores_labels_and_spare.

Theorem C05_assignable_values_have_no_labels : forall v e t,
  can_copy t = true -> has_type e t v = true -> labels v = [].
Proof. exact can_copy_no_labels. Qed.
Print Assumptions C05_assignable_values_have_no_labels.
