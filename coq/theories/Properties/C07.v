(* Properties/C07.v — Regeneration depends only on current sources, not on the old derived file.
   Only statements, each closed by `exact`, with Print Assumptions beneath.
   [fixed] is the model of /repo with repo-patches/C07-fix-*.patch applied, [legacy] the pinned code. *)
From Coq Require Import List NArith Bool Arith.
Import ListNotations.
From Verif Require Import Regen.Model Regen.Proofs.

(* The property at full strength: for every package whose calls are well typed and whose function
   names are consistent, and for EVERY previous state of derived.gen.go (absent, any table of
   stale / invalid / cut-off signatures, unparsable, cut off inside the header), one run ends
   successfully with exactly the from-scratch file, after at most max(1, nesting depth) passes. *)
Theorem C07_regen_any_old : forall p old, wf p = true ->
  exists n, regen fixed p old = ROk (scratch_spec p) n /\ n <= Nat.max 1 (max_depth p).
Proof. exact regen_any_old. Qed.
Print Assumptions C07_regen_any_old.

(* ... and for every package at all (also those goderive rejects) the outcome of a run is the
   outcome of the run from scratch *)
Theorem C07_regen_old_independent : forall p old, regen fixed p old = regen fixed p Absent.
Proof. exact regen_old_independent. Qed.
Print Assumptions C07_regen_old_independent.

(* without nested derive calls the result never depended on a loadable old file, provided calls are
   processed in source order; one pass suffices *)
Theorem C07_regen_scratch_equal : forall cfg p old s,
  src_order cfg = true -> flat p = true -> load old = Some s ->
  regen cfg p old = regen cfg p Absent /\ (forall f n, regen cfg p old = ROk f n -> n = 1).
Proof. exact regen_scratch_equal. Qed.
Print Assumptions C07_regen_scratch_equal.

(* from an absent file nested calls converge to the one-shot result (induction on nesting depth) *)
Theorem C07_regen_nested_fresh : forall cfg p, src_order cfg = true -> wf p = true ->
  exists n, regen cfg p Absent = ROk (scratch_spec p) n /\ n <= Nat.max 1 (max_depth p).
Proof. exact regen_nested_fresh_gen. Qed.
Print Assumptions C07_regen_nested_fresh.

(* the file is removed exactly when no derive call remains *)
Theorem C07_regen_deletes_when_empty : forall p old, wf p = true ->
  ((exists n, regen fixed p old = ROk None n) <-> calls p = []).
Proof. exact regen_deletes_when_empty. Qed.
Print Assumptions C07_regen_deletes_when_empty.

(* ---- the pinned code (before the fixes): the property is false of it; witnesses ---- *)
Theorem C07_regen_stale_refuted :
  regen legacy pkg_sortkeys old_sortkeys
    = ROk (Some [mkEntry KSort 1 (TSlice t_string); mkEntry KKeys 0 (TMap t_int t_int)]) 1
  /\ regen legacy pkg_sortkeys Absent
    = ROk (Some [mkEntry KSort 1 (TSlice t_int); mkEntry KKeys 0 (TMap t_int t_int)]) 2.
Proof. exact regen_stale_refuted. Qed.
Print Assumptions C07_regen_stale_refuted.

Theorem C07_regen_truncated_refuted : regen legacy pkg_sortkeys NoPackageClause = RErr ELoad.
Proof. exact regen_truncated_refuted. Qed.
Print Assumptions C07_regen_truncated_refuted.

Theorem C07_regen_truncated_void_refuted :
  regen legacy pkg_sortkeys (File [(1%N, Some (TSlice t_int)); (0%N, Some TVoid)]) = RErr EGen.
Proof. exact regen_truncated_void_refuted. Qed.
Print Assumptions C07_regen_truncated_void_refuted.

Theorem C07_regen_order_refuted :
  regen legacy pkg_two (File [(0%N, Some (TSlice t_string))])
    = ROk (Some [mkEntry KKeys 2 (TMap t_int t_bool); mkEntry KKeys 0 (TMap t_string t_int)]) 1
  /\ regen legacy pkg_two Absent
    = ROk (Some [mkEntry KKeys 0 (TMap t_string t_int); mkEntry KKeys 2 (TMap t_int t_bool)]) 1.
Proof. exact regen_order_refuted. Qed.
Print Assumptions C07_regen_order_refuted.
