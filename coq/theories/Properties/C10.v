(* Properties/C10.v — User source files are left intact.
   Only statements, each closed by `exact`, with Print Assumptions beneath.
   Model: Rewrite/Files.v (bytes, open modes, file system), Rewrite/Tokens.v (token-level
   renaming), Rewrite/Names.v (SetFuncName/newName/nameOf), Rewrite/Effects.v (file effects of
   newPackage/generatePackage over all loader answers). *)
From Coq Require Import Permutation.
From Verif Require Import Base.
From Verif.Rewrite Require Import Files Tokens Names Effects Invocation.

(* both flags off: whatever the loader reports, on every outcome (success, Add error,
   generator error, load/reload error, cannot generate), every file operation of the run is
   on derived.gen.go *)
Theorem C10_touched_without_flags :
  forall (pg : bool) (wm : wmode) (fmt : list token -> bytes) (gen : list tmap -> bytes) (views : list pkg) (p : path),
  In p (touched (fst (run pg wm fmt gen {| autoname := false; dedup := false |} views))) -> p = Derived.
Proof. exact touched_without_flags. Qed.
Print Assumptions C10_touched_without_flags.

(* ... and every path that is not touched keeps its contents (or its absence) *)
Theorem C10_frame : forall (ops : list op) (s : fs) (q : path),
  ~ In q (touched ops) -> apply_ops ops s q = s q.
Proof. exact frame. Qed.
Print Assumptions C10_frame.

(* SetFuncName returns a name different from the call's only when a flag is set *)
Theorem C10_rename_needs_flag : forall fl reserved tm fname ty base n tm',
  set_func_name fl reserved tm fname ty base = SOk n tm' -> n <> fname ->
  autoname fl = true \/ dedup fl = true.
Proof. exact rename_needs_flag. Qed.
Print Assumptions C10_rename_needs_flag.

(* hence newPackage's panic("unreachable: function names cannot be changed ...") is unreachable *)
Theorem C10_no_unreachable_panic :
  forall (pg : bool) (wm : wmode) (fmt : list token -> bytes) (gen : list tmap -> bytes) fl views,
  snd (run pg wm fmt gen fl views) <> Crash.
Proof. exact no_unreachable_panic. Qed.
Print Assumptions C10_no_unreachable_panic.

(* with flags, one pass: a file operation happens iff it is the rewrite of a completely
   processed file in which the naming pass renamed a call, to the formatting of its renamed
   tokens; the substitution holds only calls of that file whose name did change *)
Theorem C10_touched_with_flags :
  forall (pg : bool) (wm : wmode) (fmt : list token -> bytes) fl v,
  (forall o, In o (fst (new_package pg wm fmt fl v)) <->
     exists f sg, In (f, sg) (fst (names_pass pg fl v)) /\ sg <> [] /\
                  o = OWrite wm (f_path f) (fmt (rename sg (f_toks f)))) /\
  (forall f sg, In (f, sg) (fst (names_pass pg fl v)) ->
     In f (p_files v) /\ Forall (renamed_entry fl (f_calls f)) sg).
Proof. exact touched_with_flags. Qed.
Print Assumptions C10_touched_with_flags.

(* the whole run, over every sequence of loader answers: each operation is on derived.gen.go
   or such a rewrite in one of the views; the rewrites of the first pass always happen *)
Theorem C10_run_touched_with_flags :
  forall (pg : bool) (wm : wmode) (fmt : list token -> bytes) (gen : list tmap -> bytes) fl views,
  (forall o, In o (fst (run pg wm fmt gen fl views)) -> allowed_op pg wm fmt fl views o) /\
  (forall v rest f sg, views = v :: rest -> p_loads v = true ->
     In (f, sg) (fst (names_pass pg fl v)) -> sg <> [] ->
     In (OWrite wm (f_path f) (fmt (rename sg (f_toks f)))) (fst (run pg wm fmt gen fl views))).
Proof. exact run_touched_with_flags. Qed.
Print Assumptions C10_run_touched_with_flags.

(* a load error leaves the tree alone *)
Theorem C10_load_error_touches_nothing :
  forall (pg : bool) (wm : wmode) (fmt : list token -> bytes) (gen : list tmap -> bytes) fl v rest,
  p_loads v = false -> run pg wm fmt gen fl (v :: rest) = ([], LoadError).
Proof. exact load_error_touches_nothing. Qed.
Print Assumptions C10_load_error_touches_nothing.

(* O_TRUNC: for every old and new text (new shorter, equal or longer) exactly the new text is left *)
Theorem C10_rewrite_exact : forall old new : bytes, open_write Trunc old new = new.
Proof. exact rewrite_exact. Qed.
Print Assumptions C10_rewrite_exact.

(* through the file system, one pass of the repaired code: renamed-in files hold exactly the
   formatting of their renamed tokens, everything else is unchanged *)
Theorem C10_rewrite_exact_fs :
  forall (pg : bool) (fmt : list token -> bytes) (gen : list tmap -> bytes) fl v (s : fs),
  NoDup (map f_path (p_files v)) ->
  let s' := apply_ops (fst (new_package pg Trunc fmt fl v)) s in
  (forall f sg old, In (f, sg) (fst (names_pass pg fl v)) -> sg <> [] -> s (f_path f) = Some old ->
                    s' (f_path f) = Some (fmt (rename sg (f_toks f)))) /\
  (forall q, (forall f sg, In (f, sg) (fst (names_pass pg fl v)) -> sg <> [] -> f_path f <> q) ->
             s' q = s q) /\
  snd (run pg Trunc fmt gen fl [v]) <> Crash.
Proof. exact rewrite_exact_fs. Qed.
Print Assumptions C10_rewrite_exact_fs.

(* the repaired code never writes a file whose source does not parse (the loader tolerates
   syntax errors; formatting the error-recovered AST would lose user code) *)
Theorem C10_unparsable_never_written :
  forall (wm : wmode) (fmt : list token -> bytes) fl v o,
  In o (fst (new_package true wm fmt fl v)) ->
  exists f sg, In f (p_files v) /\ f_parses f = true /\
               o = OWrite wm (f_path f) (fmt (rename sg (f_toks f))).
Proof. exact unparsable_never_written. Qed.
Print Assumptions C10_unparsable_never_written.

(* before that repair: the unparsable file of ex_broken is rewritten *)
Theorem C10_unparsable_rewritten_refuted :
  touched (fst (run false Trunc toy_fmt toy_gen (fl_of true true) [ex_broken])) = [User 0; Derived].
Proof. exact unparsable_rewritten_refuted. Qed.
Print Assumptions C10_unparsable_rewritten_refuted.

(* the pinned tree before b3117f9 (O_WRONLY without O_TRUNC): the old tail survives,
   exactly when the new text is strictly shorter *)
Theorem C10_write_keeps_tail_refuted :
  open_write NoTrunc w_old w_new = (w_new ++ [41; 10])%N /\ open_write NoTrunc w_old w_new <> w_new.
Proof. exact write_keeps_tail_refuted. Qed.
Print Assumptions C10_write_keeps_tail_refuted.

Theorem C10_notrunc_exact_iff : forall old new : bytes,
  open_write NoTrunc old new = new <-> length old <= length new.
Proof. exact notrunc_exact_iff. Qed.
Print Assumptions C10_notrunc_exact_iff.

(* the token-level renaming changes the renamed identifiers and nothing else *)
Theorem C10_rename_preserves_other_tokens : forall (sg : subst) (f : list token),
  length (rename sg f) = length f /\
  map kind (rename sg f) = map kind f /\
  (forall i t, nth_error f i = Some t -> is_ident t = false \/ lookup i sg = None ->
               nth_error (rename sg f) i = Some t) /\
  (forall i old n, nth_error f i = Some (TIdent old) -> lookup i sg = Some n ->
               nth_error (rename sg f) i = Some (TIdent n)) /\
  filter is_comment (rename sg f) = filter is_comment f /\
  filter (fun t => negb (is_ident t)) (rename sg f) = filter (fun t => negb (is_ident t)) f.
Proof. exact rename_preserves_other_tokens. Qed.
Print Assumptions C10_rename_preserves_other_tokens.

(* faithfulness of keeping funcToTyps (a Go map) as a list: SetFuncName maintains "one name
   per type class, one class per name", under which nameOf does not depend on iteration order *)
Theorem C10_set_func_name_wf : forall fl reserved tm fname ty base n tm',
  tm_wf tm -> set_func_name fl reserved tm fname ty base = SOk n tm' -> tm_wf tm'.
Proof. exact set_func_name_wf. Qed.
Print Assumptions C10_set_func_name_wf.

Theorem C10_name_of_order_irrelevant : forall l l' ty,
  NoDup (map snd l) -> Permutation l l' -> name_of_list l ty = name_of_list l' ty.
Proof. exact name_of_perm. Qed.
Print Assumptions C10_name_of_order_irrelevant.

(* ---- a whole invocation: where the operations land (Rewrite/Invocation.v) ---- *)

(* a package the loader reports without source files (a directory with only an external test
   package, only excluded files, no Go file) causes no file operation, wherever goderive was
   started and whatever the flags: it has no directory, so no derived.gen.go is "its" *)
Theorem C10_sourceless_package_no_operation :
  forall pg wm fmt gen cwd fl dir v rest,
  p_files v = [] -> located pg wm fmt gen true cwd fl (dir, v :: rest) = [].
Proof. exact sourceless_package_no_operation. Qed.
Print Assumptions C10_sourceless_package_no_operation.

(* every operation of an invocation (packages in order, stop at the first error) lands in the
   directory of one of its packages that has source files, and is an operation of that package's run *)
Theorem C10_invocation_stays_in_named_directories :
  forall pg wm fmt gen cwd fl pkgs d o,
  In (d, o) (inv_run pg wm fmt gen true cwd fl pkgs) ->
  exists e, In e pkgs /\ pkg_dir (fst e) (snd e) = Some d /\
            In o (fst (run pg wm fmt gen fl (snd e))).
Proof. exact invocation_stays_in_named_directories. Qed.
Print Assumptions C10_invocation_stays_in_named_directories.

(* without flags: derived.gen.go of such a directory, nothing else, on every outcome *)
Theorem C10_invocation_without_flags :
  forall pg wm fmt gen cwd pkgs d o,
  In (d, o) (inv_run pg wm fmt gen true cwd {| autoname := false; dedup := false |} pkgs) ->
  op_path o = Derived /\ exists e, In e pkgs /\ pkg_dir (fst e) (snd e) = Some d.
Proof. exact invocation_without_flags. Qed.
Print Assumptions C10_invocation_without_flags.

(* without the `fullpath == ""` guard of pkg.Delete (the tree before 67fe608) the working
   directory's derived.gen.go is removed although no package of the invocation lives there *)
Theorem C10_unguarded_delete_hits_working_directory_refuted :
  exists cwd pkgs,
    In (cwd, ORemove Derived)
       (inv_run true Trunc toy_fmt10 toy_gen10 false cwd {| autoname := false; dedup := false |} pkgs) /\
    forall e, In e pkgs -> fst e <> cwd.
Proof. exact unguarded_delete_hits_working_directory_refuted. Qed.
Print Assumptions C10_unguarded_delete_hits_working_directory_refuted.
