(* Properties/C03.v — derived Compare is a total order consistent with Equal.
   Statements only; proofs in Go/CompareProofs.v, Go/Canon.v, Go/CompareThms.v. *)
From Verif Require Import Go.Ty Go.Val Go.Equal Go.Compare Go.CompareSpec Go.ListOrder
  Go.CompareProofs Go.Canon Go.CompareThms.
Open Scope Z_scope.

(* For every type and all well-typed (NaN-free) values the generated comparison is either
   refused by the generator (Unsup: unnamed struct reached) or is the lexicographic order of
   the canonical encodings, which are total and pairwise aligned. *)
Theorem C03_compare_is_lex : forall x e t y,
  has_type e t x = true -> has_type e t y = true ->
  exists a b, enc e t x = Some a /\ enc e t y = Some b /\ AL a b /\
              (cmpm e t x y = Unsup \/ cmpm e t x y = Ok (lexcmp a b)).
Proof. exact cmpm_enc. Qed.
Print Assumptions C03_compare_is_lex.

Theorem C03_compare_range : forall e t x y c,
  has_type e t x = true -> has_type e t y = true -> cmpm e t x y = Ok c -> c = -1 \/ c = 0 \/ c = 1.
Proof. exact compare_range. Qed.
Print Assumptions C03_compare_range.

Theorem C03_compare_antisym : forall e t x y c c',
  has_type e t x = true -> has_type e t y = true ->
  cmpm e t x y = Ok c -> cmpm e t y x = Ok c' -> c' = - c.
Proof. exact compare_antisym. Qed.
Print Assumptions C03_compare_antisym.

Theorem C03_compare_trans : forall e t x y z c1 c2 c3,
  has_type e t x = true -> has_type e t y = true -> has_type e t z = true ->
  cmpm e t x y = Ok c1 -> cmpm e t y z = Ok c2 -> cmpm e t x z = Ok c3 ->
  c1 <= 0 -> c2 <= 0 -> c3 <= 0.
Proof. exact compare_trans. Qed.
Print Assumptions C03_compare_trans.

Theorem C03_compare_trans_strict : forall e t x y z c1 c2 c3,
  has_type e t x = true -> has_type e t y = true -> has_type e t z = true ->
  cmpm e t x y = Ok c1 -> cmpm e t y z = Ok c2 -> cmpm e t x z = Ok c3 ->
  c1 < 0 -> c2 <= 0 -> c3 < 0.
Proof. exact compare_trans_strict. Qed.
Print Assumptions C03_compare_trans_strict.

(* 0 exactly when structurally equal, and exactly when the generated Equal says so *)
Theorem C03_compare_zero_iff_equal : forall e t x y c,
  has_type e t x = true -> has_type e t y = true -> cmpm e t x y = Ok c ->
  (c = 0 <-> spec_eq e t x y = Some true).
Proof. exact compare_zero_iff_equal. Qed.
Print Assumptions C03_compare_zero_iff_equal.

Theorem C03_compare_zero_iff_derived_equal : forall e t x y c b,
  has_type e t x = true -> has_type e t y = true ->
  cmpm e t x y = Ok c -> Equal.eqm e Top t x y = Ok b -> (c = 0 <-> b = true).
Proof. exact compare_zero_iff_derived_equal. Qed.
Print Assumptions C03_compare_zero_iff_derived_equal.

Theorem C03_compare_curried : forall t x y, compare_curried_model t x y = compare_model t x y.
Proof. exact compare_curried. Qed.
Print Assumptions C03_compare_curried.

(* the order used for the sorted key lists is the one the generated Compare computes on
   comparable types, it is 0 exactly on == keys *)
Theorem C03_key_order : forall t, can_equal t = true -> forall e x y,
  has_type e t x = true -> has_type e t y = true ->
  exists a b, enc e t x = Some a /\ enc e t y = Some b /\
              AL a b /\ cmp_val x y = lexcmp a b /\ (go_eqeq x y = true <-> a = b).
Proof.
  intros t Hc e x y Hx Hy. destruct (KeyOrder.key_pair t Hc e x y Hx Hy) as (a & b & Ea & Eb & [K1 K2 K3]).
  exists a, b. auto.
Qed.
Print Assumptions C03_key_order.
