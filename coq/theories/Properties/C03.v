(* Properties/C03.v — placeholder until CompareProofs is in place *)
From Verif Require Import Go.Ty Go.Val Go.Compare Go.CompareSpec.
Theorem C03_nonvacuous : compare_model (TSl (TB KStr)) (VSl 1 [VStr [97%N]] []) (VSl 2 [VStr [98%N]] []) = Ok (-1)%Z.
Proof. vm_compute. reflexivity. Qed.
Print Assumptions C03_nonvacuous.
