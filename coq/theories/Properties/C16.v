(* Properties/C16.v — error-propagating helpers stop at, and return, the first error.
   Only statements, each closed by `exact`, with Print Assumptions beneath.
   Model: Chain/Chain.v (emitted code), Chain/Zero.v (derive.Zero / derive.ZeroValue);
   specification and proofs: Chain/ChainProofs.v. *)
From Coq Require Import String.
From Verif Require Import Base Fmap.
From Verif.Chain Require Import Chain ChainProofs Zero Emit ComposeIR.
From Verif.Chain Require ToErrorText.
Open Scope list_scope.

(* Compose, any number of stages: if stage k is the first to fail (with e) when every earlier
   stage's results are passed on unchanged, the call log is stages 0..k with exactly those
   argument vectors, the error is e itself and every other result is the zero value. *)
Theorem C16_chain_stops_at_first_error :
  forall (V E : Type) (zero : V) (fs : list (@stage V E)) (nfinal : nat) (args : list V) (k : nat) (e : E),
  (forall j, j < k -> stage_err fs args j = None) ->
  stage_err fs args k = Some e ->
  compose zero fs nfinal args =
    mk_cout (repeat zero nfinal) (Some e)
            (combine (seq 0 (S k)) (firstn (S k) (inputs fs args))).
Proof. exact @chain_stops_at_first_error. Qed.
Print Assumptions C16_chain_stops_at_first_error.

Theorem C16_chain_calls_each_once :
  forall (V E : Type) (zero : V) (fs : list (@stage V E)) (nfinal : nat) (args : list V) (k : nat) (e : E),
  (forall j, j < k -> stage_err fs args j = None) ->
  stage_err fs args k = Some e ->
  map fst (c_log (compose zero fs nfinal args)) = seq 0 (S k).
Proof. exact @chain_calls_each_once. Qed.
Print Assumptions C16_chain_calls_each_once.

(* no failure: the hand-written sequential composition, a nil error, every stage once in order *)
Theorem C16_chain_success_is_composition :
  forall (V E : Type) (zero : V) (fs : list (@stage V E)) (nfinal : nat) (args : list V),
  (forall j, j < length fs -> stage_err fs args j = None) ->
  compose zero fs nfinal args =
    mk_cout (seq_compose fs args) None (combine (seq 0 (length fs)) (inputs fs args)).
Proof. exact @chain_success_is_composition. Qed.
Print Assumptions C16_chain_success_is_composition.

(* the two theorems above cover every chain *)
Theorem C16_chain_cases_exhaustive :
  forall (V E : Type) (fs : list (@stage V E)) (a : list V),
  (forall j, j < length fs -> stage_err fs a j = None) \/
  (exists k e, (forall j, j < k -> stage_err fs a j = None) /\ stage_err fs a k = Some e).
Proof. exact @first_error_dec. Qed.
Print Assumptions C16_chain_cases_exhaustive.

Theorem C16_fmap_err_spec :
  forall (V E : Type) (zero : V) (g : @stage V E),
  (forall e, snd (g []) = Some e ->
     (forall f, fmap0 f g = mk_cout [] (Some e) [(0, [])]) /\
     (forall f, fmap1 zero f g = mk_cout [zero] (Some e) [(0, [])]) /\
     (forall R (f : list V -> R), fmapN f g = (ThNil, Some e, [(0, [])]))) /\
  (snd (g []) = None ->
     (forall f, fmap0 f g = mk_cout [] None [(0, []); (1, fst (g []))]) /\
     (forall f, fmap1 zero f g = mk_cout [f (fst (g []))] None [(0, []); (1, fst (g []))]) /\
     (forall R (f : list V -> R),
        exists th, fmapN f g = (th, None, [(0, []); (1, fst (g []))]) /\
                   thunk_call th = Ret (f (fst (g []))))).
Proof. exact @fmap_err_spec. Qed.
Print Assumptions C16_fmap_err_spec.

Theorem C16_join_err_spec :
  forall (V E : Type) (zero : V) (nres : nat) (f : @stage V E),
  (forall e, join zero nres f (Some e) = mk_cout (repeat zero nres) (Some e) []) /\
  (join zero nres f None = mk_cout (fst (f [])) (snd (f [])) [(0, [])]) /\
  (forall e, f [] = (repeat zero nres, Some e) ->
     join zero nres f None = mk_cout (repeat zero nres) (Some e) [(0, [])]).
Proof. exact @join_err_spec. Qed.
Print Assumptions C16_join_err_spec.

(* deriveJoin(deriveFmap(f, g)) is the two-stage chain g ; f and never calls a nil func *)
Theorem C16_bind_is_chain :
  forall (V E : Type) (zero : V) (nres : nat) (f g : @stage V E),
  (forall e, snd (g []) = Some e ->
     bind zero nres f g = Ret (mk_cout (repeat zero nres) (Some e) [(0, [])])) /\
  (snd (g []) = None ->
     bind zero nres f g =
       Ret (mk_cout (fst (f (fst (g [])))) (snd (f (fst (g [])))) [(0, []); (1, fst (g []))])).
Proof. exact @bind_is_chain. Qed.
Print Assumptions C16_bind_is_chain.

(* Traverse: lists of every length, the failure at every index *)
Theorem C16_traverse_spec :
  forall (V E : Type) (zero : V) (f : V -> V * option E),
  (forall l, (forall x, In x l -> snd (f x) = None) ->
     traverse zero f l = Ret (SList (map (fun x => fst (f x)) l), None, l)) /\
  (forall pre a post e, (forall x, In x pre -> snd (f x) = None) -> snd (f a) = Some e ->
     traverse zero f (pre ++ a :: post) = Ret (SNil, Some e, pre ++ [a])).
Proof. exact @traverse_spec. Qed.
Print Assumptions C16_traverse_spec.

Theorem C16_traverse_cases_exhaustive :
  forall (V E : Type) (f : V -> V * option E) (l : list V),
  (forall x, In x l -> snd (f x) = None) \/
  (exists pre a post e, l = pre ++ a :: post /\ (forall x, In x pre -> snd (f x) = None) /\ snd (f a) = Some e).
Proof. exact @first_failure_dec. Qed.
Print Assumptions C16_traverse_cases_exhaustive.

Theorem C16_toerror_spec :
  forall (V E : Type) (err : option E) (f : list V -> list V * bool) (args : list V),
  let '(outs, e, lg) := toerror err f args in
  outs = fst (f args) /\ lg = [args] /\
  (snd (f args) = true -> e = None) /\ (snd (f args) = false -> e = err).
Proof. exact @toerror_spec. Qed.
Print Assumptions C16_toerror_spec.

(* ToError, the printed text: the closure carries the parameter names of the user's f; with the
   names the generator chooses for itself (UnusedName of err, f, success, out<i> against those
   parameters) every identifier resolves to what it was printed for, whatever the distinct parameter
   names are (err, f, success, out0, err_ ... included): the text means toerror. *)
Theorem C16_toerror_text_correct :
  forall (D E : Type) (ft : nat -> list (@ToErrorText.val D E) -> list (@ToErrorText.val D E) * bool)
         (ps : list string) (nout : nat) (err : option E) (kf : nat) (args : list (@ToErrorText.val D E)),
  NoDup ps -> length ps = length args -> length (fst (ft kf args)) = nout ->
  ToErrorText.run ft (ToErrorText.gen ps nout) err kf args = Some (toerror err (ft kf) args).
Proof. exact @ToErrorText.gen_correct. Qed.
Print Assumptions C16_toerror_text_correct.

(* zero values "whatever those types are": the repaired generator (derive.ZeroValue) *)
Theorem C16_zero_ok : forall t : rty, lit_ok (zero_literal t) t = true.
Proof. exact zero_ok. Qed.
Print Assumptions C16_zero_ok.

(* the pinned generator (derive.Zero on typ.(type)): well-typed exactly for unnamed basic types
   and nillable types ... *)
Theorem C16_zero_ok_iff : forall t : rty, lit_ok (zero_literal_pinned t) t = pinned_good t.
Proof. exact zero_ok_iff. Qed.
Print Assumptions C16_zero_ok_iff.

(* ... and wrong for struct, array and named basic results (the finding repaired by
   repo-patches/C16-fix-zero-value.patch) *)
Theorem C16_zero_struct_refuted :
  lit_ok (zero_literal_pinned ty_struct) ty_struct = false
  /\ lit_ok (zero_literal_pinned ty_unnamed_struct) ty_unnamed_struct = false.
Proof. exact zero_struct_refuted. Qed.
Print Assumptions C16_zero_struct_refuted.

Theorem C16_zero_array_refuted : lit_ok (zero_literal_pinned ty_array) ty_array = false.
Proof. exact zero_array_refuted. Qed.
Print Assumptions C16_zero_array_refuted.

Theorem C16_zero_named_basic_refuted :
  lit_ok (zero_literal_pinned ty_named_int) ty_named_int = false
  /\ lit_ok (zero_literal_pinned ty_named_string) ty_named_string = false.
Proof. exact zero_named_basic_refuted. Qed.
Print Assumptions C16_zero_named_basic_refuted.

(* the comma lists compose prints (variables / zero values / results, then the error): the
   repaired printer is right for every number of values, 0 included *)
Theorem C16_emit_list_spec : forall (ss : list string) (last : string),
  list_fixed ss last = String.concat ", " (ss ++ [last]).
Proof. exact emit_list_spec. Qed.
Print Assumptions C16_emit_list_spec.

(* the pinned printer started the list with a comma for a stage that only returns an error
   (the finding repaired by repo-patches/C16-fix-compose-no-results.patch) *)
Theorem C16_compose_no_results_refuted :
  list_pinned [] "err0" = ", err0"%string
  /\ list_pinned [] "err0" <> String.concat ", " ([] ++ ["err0"%string]).
Proof. exact compose_no_results_refuted. Qed.
Print Assumptions C16_compose_no_results_refuted.

(* the statement list compose.genError prints (variables v_i_j, err_i), interpreted with an
   environment, IS the functional model above — every chain length, every arity vector
   (0 values included), every stage oracle that returns as many values as the next stage takes *)
Theorem C16_compose_body_correct :
  forall (V E : Type) (zero : V) (fs : list (@stage V E)) (ar : list nat) (args : list V),
  arity_ok fs ar ->
  hd 0 ar = length args ->
  exec zero fs (compose_body ar) (combine (vrow 0 (length args)) args) [] [] =
    Some (compose zero fs (last ar 0) args).
Proof. exact @compose_body_correct. Qed.
Print Assumptions C16_compose_body_correct.
