(* Properties/C12.v — Prefix customisation only renames.
   Only statements, each closed by `exact`, with Print Assumptions beneath. *)
From Coq Require Import String.
From Coq Require Import List Permutation Sorted.
From Verif Require Import Base Prefix.Str Prefix.Dispatch Prefix.Names Prefix.TableFacts.
Import ListNotations.

(* a call is handled by the plugin with the longest matching prefix, whatever the registration order *)
Theorem C12_dispatch_longest : forall ps ps' name,
  distinct_prefixes ps -> Permutation ps' ps ->
  match dispatch (sort_plugins ps') name with
  | Some p => In p ps /\ is_prefix (pprefix p) name = true /\
              forall q, In q ps -> is_prefix (pprefix q) name = true -> length (pprefix q) <= length (pprefix p)
  | None => forall q, In q ps -> is_prefix (pprefix q) name = false
  end.
Proof. exact dispatch_longest. Qed.
Print Assumptions C12_dispatch_longest.

Theorem C12_longest_match_unique : forall ps name p q,
  distinct_prefixes ps -> is_longest_match ps name p -> is_longest_match ps name q -> p = q.
Proof. exact longest_match_unique. Qed.
Print Assumptions C12_longest_match_unique.

Theorem C12_dispatch_is_spec : forall ps ps' name,
  distinct_prefixes ps -> Permutation ps' ps ->
  dispatch (sort_plugins ps') name = spec_dispatch ps name.
Proof. exact dispatch_is_spec. Qed.
Print Assumptions C12_dispatch_is_spec.

Theorem C12_dispatch_perm_invariant : forall ps ps' name,
  distinct_prefixes ps -> Permutation ps ps' ->
  dispatch (sort_plugins ps) name = dispatch (sort_plugins ps') name.
Proof. exact dispatch_perm_invariant. Qed.
Print Assumptions C12_dispatch_perm_invariant.

(* sort.Slice is only specified by its contract: every sorted permutation is the model's list *)
Theorem C12_any_sorter_agrees : forall ps out,
  distinct_prefixes ps -> Permutation out ps ->
  StronglySorted (fun a b => before a b = true) out -> out = sort_plugins ps.
Proof. exact any_sorter_agrees. Qed.
Print Assumptions C12_any_sorter_agrees.

(* a global -prefix keeps the plugin order (hence the order of everything that is emitted) *)
Theorem C12_global_prefix_order : forall h p ps,
  forallb (has_head h) ps = true ->
  sort_plugins (map (rehead h p) ps) = map (rehead h p) (sort_plugins ps).
Proof. exact global_prefix_order. Qed.
Print Assumptions C12_global_prefix_order.

Theorem C12_global_flag_order : forall global ps,
  forallb (has_head derive_head) ps = true ->
  sort_plugins (map (effective global []) ps) = map (effective global []) (sort_plugins ps).
Proof. exact global_flag_order. Qed.
Print Assumptions C12_global_flag_order.

Theorem C12_global_prefix_dispatch : forall h p l x,
  forallb (has_head h) l = true ->
  dispatch (map (rehead h p) l) (p ++ x) = option_map (rehead h p) (dispatch l (h ++ x)).
Proof. exact global_prefix_dispatch. Qed.
Print Assumptions C12_global_prefix_dispatch.

(* helper names are minted from the current prefix: same suffix on the new prefix *)
Theorem C12_new_name_equivariant : forall fuel p p' name taken taken',
  (forall x, taken' (p' ++ x) = taken (p ++ x)) ->
  new_name fuel p' name taken' = option_map (fun r => p' ++ skipn (length p) r) (new_name fuel p name taken).
Proof. exact new_name_equivariant. Qed.
Print Assumptions C12_new_name_equivariant.

Theorem C12_new_name_has_prefix : forall fuel prefix name taken r,
  new_name fuel prefix name taken = Some r -> is_prefix prefix r = true /\ taken r = false.
Proof. intros fuel prefix name taken r H. exact (conj (new_name_has_prefix _ _ _ _ _ H) (new_name_fresh _ _ _ _ _ H)). Qed.
Print Assumptions C12_new_name_has_prefix.

(* boundaries, each with a computed witness *)
Theorem C12_dispatch_unsorted_refuted :
  dispatch [ex_sort; ex_sorted] (s "deriveSortedInts"%string) <> dispatch [ex_sorted; ex_sort] (s "deriveSortedInts"%string).
Proof. exact dispatch_unsorted_refuted. Qed.
Print Assumptions C12_dispatch_unsorted_refuted.

Theorem C12_dispatch_duplicate_prefix_refuted :
  let a := mkP (s "sort"%string) (s "deriveS"%string) in
  let b := mkP (s "set"%string) (s "deriveS"%string) in
  dispatch (sort_plugins [a; b]) (s "deriveSX"%string) <> dispatch (sort_plugins [b; a]) (s "deriveSX"%string).
Proof. exact dispatch_duplicate_prefix_refuted. Qed.
Print Assumptions C12_dispatch_duplicate_prefix_refuted.

Theorem C12_plugin_prefix_order_refuted :
  let ps := [mkP (s "keys"%string) (s "deriveKeys"%string); mkP (s "set"%string) (s "deriveSet"%string)] in
  let ov := [(s "set"%string, s "deriveSetOf"%string)] in
  map pname (sort_plugins (map (effective derive_head ov) ps)) <> map pname (sort_plugins ps).
Proof. exact plugin_prefix_order_refuted. Qed.
Print Assumptions C12_plugin_prefix_order_refuted.

(* the theorems instantiated on any table that passes the decidable side conditions; the check
   re-establishes [table_ok table = true] by vm_compute on the table translated from the sources *)
Theorem C12_table_theorems : forall T, table_ok T = true ->
  distinct_prefixes T /\
  (no_nesting_b T = true -> forall name p q, In p T -> In q T -> matches name p -> matches name q -> p = q) /\
  (forall ps' name, Permutation T ps' -> dispatch (sort_plugins T) name = dispatch (sort_plugins ps') name) /\
  (forall global, sort_plugins (map (effective global []) T) = map (effective global []) (sort_plugins T)) /\
  (forall global, distinct_prefixes (map (effective global []) T)) /\
  map (effective derive_head []) T = T.
Proof.
  intros T H.
  exact (conj (table_default_unambiguous T H) (conj (fun Hn name p q => table_single_candidate T H name p q Hn)
        (conj (table_registration_order_irrelevant T H) (conj (table_global_order T H)
        (conj (table_global_distinct T H) (table_default_flag_identity T H)))))).
Qed.
Print Assumptions C12_table_theorems.
