(* Properties/C12.v — Prefix customisation only renames.
   Only statements, each closed by `exact`, with Print Assumptions beneath. *)
From Coq Require Import String.
From Coq Require Import List Permutation Sorted.
From Verif Require Import Base Prefix.Str Prefix.Dispatch Prefix.Names Prefix.TableFacts Prefix.Gen Prefix.GenOrder.
From Verif Require Import Prefix.GenClosure Prefix.GenCanon Prefix.GenTotal Prefix.GenFull.
Import ListNotations.

(* a call is handled by the plugin with the longest matching prefix, whatever the registration order *)
Theorem C12_dispatch_longest : forall ps ps' name,
  distinct_prefixes ps -> Permutation ps' ps ->
  match dispatch (sort_plugins ps') name with
  | Some p => In p ps /\ is_prefix (pprefix p) name = true /\
              forall q, In q ps -> is_prefix (pprefix q) name = true -> length (pprefix q) <= length (pprefix p)
  | None => forall q, In q ps -> is_prefix (pprefix q) name = false
  end.
Proof. exact dispatch_longest. Qed.
Print Assumptions C12_dispatch_longest.

Theorem C12_longest_match_unique : forall ps name p q,
  distinct_prefixes ps -> is_longest_match ps name p -> is_longest_match ps name q -> p = q.
Proof. exact longest_match_unique. Qed.
Print Assumptions C12_longest_match_unique.

Theorem C12_dispatch_is_spec : forall ps ps' name,
  distinct_prefixes ps -> Permutation ps' ps ->
  dispatch (sort_plugins ps') name = spec_dispatch ps name.
Proof. exact dispatch_is_spec. Qed.
Print Assumptions C12_dispatch_is_spec.

Theorem C12_dispatch_perm_invariant : forall ps ps' name,
  distinct_prefixes ps -> Permutation ps ps' ->
  dispatch (sort_plugins ps) name = dispatch (sort_plugins ps') name.
Proof. exact dispatch_perm_invariant. Qed.
Print Assumptions C12_dispatch_perm_invariant.

(* sort.Slice is only specified by its contract: every sorted permutation is the model's list *)
Theorem C12_any_sorter_agrees : forall ps out,
  distinct_prefixes ps -> Permutation out ps ->
  StronglySorted (fun a b => before a b = true) out -> out = sort_plugins ps.
Proof. exact any_sorter_agrees. Qed.
Print Assumptions C12_any_sorter_agrees.

(* a global -prefix keeps the plugin order (hence the order of everything that is emitted) *)
Theorem C12_global_prefix_order : forall h p ps,
  forallb (has_head h) ps = true ->
  sort_plugins (map (rehead h p) ps) = map (rehead h p) (sort_plugins ps).
Proof. exact global_prefix_order. Qed.
Print Assumptions C12_global_prefix_order.

Theorem C12_global_flag_order : forall global ps,
  forallb (has_head derive_head) ps = true ->
  sort_plugins (map (effective global []) ps) = map (effective global []) (sort_plugins ps).
Proof. exact global_flag_order. Qed.
Print Assumptions C12_global_flag_order.

Theorem C12_global_prefix_dispatch : forall h p l x,
  forallb (has_head h) l = true ->
  dispatch (map (rehead h p) l) (p ++ x) = option_map (rehead h p) (dispatch l (h ++ x)).
Proof. exact global_prefix_dispatch. Qed.
Print Assumptions C12_global_prefix_dispatch.

(* helper names are minted from the current prefix: same suffix on the new prefix *)
Theorem C12_new_name_equivariant : forall fuel p p' name taken taken',
  (forall x, taken' (p' ++ x) = taken (p ++ x)) ->
  new_name fuel p' name taken' = option_map (fun r => p' ++ skipn (length p) r) (new_name fuel p name taken).
Proof. exact new_name_equivariant. Qed.
Print Assumptions C12_new_name_equivariant.

Theorem C12_new_name_has_prefix : forall fuel prefix name taken r,
  new_name fuel prefix name taken = Some r -> is_prefix prefix r = true /\ taken r = false.
Proof. intros fuel prefix name taken r H. exact (conj (new_name_has_prefix _ _ _ _ _ H) (new_name_fresh _ _ _ _ _ H)). Qed.
Print Assumptions C12_new_name_has_prefix.

(* Generation (typesMap + the generate loop, abstract in the plugins' templates and helper requests).
   SAME plugin order, any two prefix maps whose reserved names agree suffix by suffix: the emission
   SEQUENCE (plugin, class, name, helper names) under the second map is the first one renamed plugin by
   plugin — the helper names too are the old suffixes on the new prefixes, and one run fails iff the other
   does.  (Per-plugin overrides may change the order, C12_plugin_prefix_order_refuted: that case is
   C12_plugin_prefix_equivariant below.) *)
Theorem C12_plugin_prefix_equivariant_same_order :
  forall (T : Type) (T_eqb : T -> T -> bool) (tyname : T -> str) (requests : nat -> T -> list (nat * T)) (nfuel : nat)
         (pfx pfx' : nat -> str) (res res' : str -> bool),
  (forall k x, res' (pfx' k ++ x) = res (pfx k ++ x)) ->
  forall fuel ord calls,
  (forall k n t, In (k, n, t) calls -> is_prefix (pfx k) n = true) ->
  run T T_eqb tyname requests nfuel pfx' res' fuel ord (map (rn_call T pfx pfx') calls)
  = option_map (map (rn_e T pfx pfx')) (run T T_eqb tyname requests nfuel pfx res fuel ord calls).
Proof. exact run_equivariant. Qed.
Print Assumptions C12_plugin_prefix_equivariant_same_order.

(* The generation model refines the generate-until-done work list of C01 (Gen/Worklist.v,
   C01_loop_complete): for EVERY request relation, plugin order (containing the plugins the closure
   mentions), prefix map and reserved set, a run that returns has emitted exactly the closure of the
   user's calls under the request relation, each (plugin, class) exactly once. *)
Theorem C12_generated_set_is_closure :
  forall (T : Type) (T_eqb : T -> T -> bool), (forall a b, reflect (a = b) (T_eqb a b)) ->
  forall (tyname : T -> str) (requests : nat -> T -> list (nat * T)) (nfuel : nat)
         (calls : list (nat * str * T)) (pfx : nat -> str) (res : str -> bool) (ord : list nat) (fuel : nat) out,
  (forall q, closure T requests calls q -> In (fst q) ord) ->
  run T T_eqb tyname requests nfuel pfx res fuel ord calls = Some out ->
  (forall q, In q (map (ekey T) out) <-> closure T requests calls q) /\ NoDup (map (ekey T) out).
Proof. exact run_generates_closure. Qed.
Print Assumptions C12_generated_set_is_closure.

(* hence the SET of emitted (plugin, class) is independent of the order, the prefixes, the reserved names
   and the names of the calls *)
Theorem C12_generated_set_order_independent :
  forall (T : Type) (T_eqb : T -> T -> bool), (forall a b, reflect (a = b) (T_eqb a b)) ->
  forall (tyname : T -> str) (requests : nat -> T -> list (nat * T)) (nfuel : nat)
         (pfx : nat -> str) (res : str -> bool) (pfx' : nat -> str) (res' : str -> bool) fuel fuel' ord ord'
         (calls calls' : list (nat * str * T)) out out',
  map (ckey T) calls = map (ckey T) calls' ->
  (forall q, closure T requests calls q -> In (fst q) ord) ->
  (forall q, closure T requests calls q -> In (fst q) ord') ->
  run T T_eqb tyname requests nfuel pfx res fuel ord calls = Some out ->
  run T T_eqb tyname requests nfuel pfx' res' fuel' ord' calls' = Some out' ->
  Permutation (map (ekey T) out) (map (ekey T) out').
Proof. exact run_order_independent. Qed.
Print Assumptions C12_generated_set_order_independent.

(* "the body generated for each": the output is determined by its keys and ONE naming function N (the
   final typesMaps).  Every record is [render N key]: its name is N key, the helper names in its body
   are N of the keys it requests (all named); N is the user's name on the user's calls, injective on
   every plugin, and every name carries its plugin's prefix. *)
Theorem C12_output_canonical :
  forall (T : Type) (T_eqb : T -> T -> bool), (forall a b, reflect (a = b) (T_eqb a b)) ->
  forall (tyname : T -> str) (requests : nat -> T -> list (nat * T)) (nfuel : nat)
         (pfx : nat -> str) (res : str -> bool) fuel ord (calls : list (nat * str * T)) out,
  (forall k n t, In (k, n, t) calls -> is_prefix (pfx k) n = true) ->
  run T T_eqb tyname requests nfuel pfx res fuel ord calls = Some out ->
  exists N : key T -> option str,
    (forall e, In e out -> e = render T requests N (ekey T e)) /\
    (forall e, In e out -> N (ekey T e) = Some (e_name T e)) /\
    (forall e q, In e out -> In q (kreq T requests (ekey T e)) -> N q <> None) /\
    (forall k n t, In (k, n, t) calls -> N (k, t) = Some n) /\
    (forall k t t' n, N (k, t) = Some n -> N (k, t') = Some n -> t = t') /\
    (forall k t n, N (k, t) = Some n -> is_prefix (pfx k) n = true).
Proof. exact run_canonical. Qed.
Print Assumptions C12_output_canonical.

(* Two runs that return — ANY two plugin orders containing the closure's plugins (not even permutations of
   each other), any two prefix maps, any reserved sets, any fuels; the second on the renamed calls —
   emit the same functions up to order and a per-plugin renaming sigma: sigma is the prefix renaming on the
   names the user called, injective on each plugin's names, and lands in the new prefix. *)
Theorem C12_plugin_prefix_two_runs :
  forall (T : Type) (T_eqb : T -> T -> bool), (forall a b, reflect (a = b) (T_eqb a b)) ->
  forall (tyname : T -> str) (requests : nat -> T -> list (nat * T)) (nfuel : nat)
         (pfx pfx' : nat -> str) (res res' : str -> bool) fuel fuel' ord ord' (calls : list (nat * str * T)) out out',
  (forall q, closure T requests calls q -> In (fst q) ord) ->
  (forall q, closure T requests calls q -> In (fst q) ord') ->
  (forall k n t, In (k, n, t) calls -> is_prefix (pfx k) n = true) ->
  run T T_eqb tyname requests nfuel pfx res fuel ord calls = Some out ->
  run T T_eqb tyname requests nfuel pfx' res' fuel' ord' (map (rn_call T pfx pfx') calls) = Some out' ->
  exists sigma : nat -> str -> str,
    Permutation out' (map (ren T sigma) out) /\
    (forall k n t, In (k, n, t) calls -> sigma k n = rn pfx pfx' k n) /\
    (forall e1 e2, In e1 out -> In e2 out -> e_plugin T e1 = e_plugin T e2 ->
       sigma (e_plugin T e1) (e_name T e1) = sigma (e_plugin T e2) (e_name T e2) -> e_name T e1 = e_name T e2) /\
    (forall e, In e out -> is_prefix (pfx' (e_plugin T e)) (sigma (e_plugin T e) (e_name T e)) = true) /\
    (forall q, In q (map (ekey T) out) <-> closure T requests calls q) /\ NoDup (map (ekey T) out).
Proof. exact plugin_prefix_equivariant. Qed.
Print Assumptions C12_plugin_prefix_two_runs.

(* Nothing but fuel makes the model fail, in any order: finite universe for the closure, finite reserved
   set, newName fuel above |universe| + |reserved| (pigeonhole on the pairwise distinct candidates), loop
   fuel above |universe| + 1 (C01_loop_terminates), no conflicting user calls => the run returns. *)
Theorem C12_run_succeeds :
  forall (T : Type) (T_eqb : T -> T -> bool), (forall a b, reflect (a = b) (T_eqb a b)) ->
  forall (tyname : T -> str) (requests : nat -> T -> list (nat * T)) (nfuel : nat)
         (calls : list (nat * str * T)) (univ : list (key T)),
  (forall q, closure T requests calls q -> In q univ) ->
  forall (pfx : nat -> str) (res : str -> bool) (L : list str),
  (forall c, res c = true -> In c L) -> length univ + length L < nfuel ->
  forall ord fuel,
  (forall q, closure T requests calls q -> In (fst q) ord) ->
  S (length univ) < fuel ->
  add_calls T T_eqb calls (init T) <> None ->
  exists out, run T T_eqb tyname requests nfuel pfx res fuel ord calls = Some out.
Proof. exact run_succeeds. Qed.
Print Assumptions C12_run_succeeds.

(* THE per-plugin statement.  If the default run returns [out], then for ANY prefix map pfx', ANY plugin
   order ord' that is a permutation of the default one (sortPlugins of the overridden table: see
   C12_table_plugin_prefix_equivariant), any finite reserved set and enough fuel (both loops are
   unbounded in the Go code), the customised run on the renamed calls returns some [out'], and [out'] is
   [out] up to the order of the functions, the prefix renaming of the called names and a one-to-one
   renaming of the helper names inside each plugin's prefix; the emitted (plugin, class) are the closure
   of the calls under the request relation, each exactly once, in both runs. *)
Theorem C12_plugin_prefix_equivariant :
  forall (T : Type) (T_eqb : T -> T -> bool), (forall a b, reflect (a = b) (T_eqb a b)) ->
  forall (tyname : T -> str) (requests : nat -> T -> list (nat * T)) (nfuel : nat)
         (pfx pfx' : nat -> str) (res res' : str -> bool) (L' : list str) fuel fuel' ord ord'
         (calls : list (nat * str * T)) out,
  Permutation ord ord' ->
  (forall q, closure T requests calls q -> In (fst q) ord) ->
  (forall k n t, In (k, n, t) calls -> is_prefix (pfx k) n = true) ->
  (forall c, res' c = true -> In c L') -> length out + length L' < nfuel -> S (length out) < fuel' ->
  run T T_eqb tyname requests nfuel pfx res fuel ord calls = Some out ->
  exists out',
    run T T_eqb tyname requests nfuel pfx' res' fuel' ord' (map (rn_call T pfx pfx') calls) = Some out' /\
    (exists sigma : nat -> str -> str,
       Permutation out' (map (ren T sigma) out) /\
       (forall k n t, In (k, n, t) calls -> sigma k n = rn pfx pfx' k n) /\
       (forall e1 e2, In e1 out -> In e2 out -> e_plugin T e1 = e_plugin T e2 ->
          sigma (e_plugin T e1) (e_name T e1) = sigma (e_plugin T e2) (e_name T e2) -> e_name T e1 = e_name T e2) /\
       (forall e, In e out -> is_prefix (pfx' (e_plugin T e)) (sigma (e_plugin T e) (e_name T e)) = true)) /\
    (forall q, In q (map (ekey T) out) <-> closure T requests calls q) /\ NoDup (map (ekey T) out) /\
    Permutation (map (ekey T) out') (map (ekey T) out).
Proof. exact plugin_prefix_equivariant_full. Qed.
Print Assumptions C12_plugin_prefix_equivariant.

(* ... with the orders and prefixes induced by a plugin table [ps] (distinct plugin names) and by ANY
   transformation of it that keeps the plugin names — in particular [effective global overrides] for every
   -prefix and -pluginprefix: the plugin order is sortPlugins of the transformed table. *)
Theorem C12_table_plugin_prefix_equivariant :
  forall (T : Type) (T_eqb : T -> T -> bool), (forall a b, reflect (a = b) (T_eqb a b)) ->
  forall (tyname : T -> str) (requests : nat -> T -> list (nat * T)) (nfuel : nat)
         (ps : list plugin) (f : plugin -> plugin) (res res' : str -> bool) (L' : list str) fuel fuel'
         (calls : list (nat * str * T)) out,
  (forall a, pname (f a) = pname a) ->
  NoDup (map pname ps) ->
  (forall q, closure T requests calls q -> fst q < length ps) ->
  (forall k n t, In (k, n, t) calls -> is_prefix (pfx_of ps k) n = true) ->
  (forall c, res' c = true -> In c L') -> length out + length L' < nfuel -> S (length out) < fuel' ->
  run T T_eqb tyname requests nfuel (pfx_of ps) res fuel (order ps) calls = Some out ->
  exists out',
    run T T_eqb tyname requests nfuel (pfx_of (map f ps)) res' fuel' (order (map f ps))
        (map (rn_call T (pfx_of ps) (pfx_of (map f ps))) calls) = Some out' /\
    renamed_output T (pfx_of ps) (pfx_of (map f ps)) calls out out' /\
    (forall q, In q (map (ekey T) out) <-> closure T requests calls q) /\ NoDup (map (ekey T) out) /\
    Permutation (map (ekey T) out') (map (ekey T) out).
Proof. exact table_plugin_prefix_equivariant. Qed.
Print Assumptions C12_table_plugin_prefix_equivariant.

Theorem C12_effective_keeps_names : forall global ovs a, pname (effective global ovs a) = pname a.
Proof. exact effective_pname. Qed.
Print Assumptions C12_effective_keeps_names.

Theorem C12_order_is_permutation : forall (f : plugin -> plugin) ps,
  (forall a, pname (f a) = pname a) -> Permutation (order ps) (order (map f ps)).
Proof. exact order_map_perm. Qed.
Print Assumptions C12_order_is_permutation.

(* Global -prefix: the order is the same, so the whole output is the default output renamed; and on
   every generated name the renaming is the single substitution h… |-> p… *)
Theorem C12_global_prefix_textual :
  forall (T : Type) (T_eqb : T -> T -> bool) (tyname : T -> str) (requests : nat -> T -> list (nat * T)) (nfuel : nat)
         (h p : str) (ps : list plugin),
  forallb (has_head h) ps = true ->
  forall (res res' : str -> bool),
  (forall k x, res' (pfx_of (map (rehead h p) ps) k ++ x) = res (pfx_of ps k ++ x)) ->
  forall fuel calls,
  (forall k n t, In (k, n, t) calls -> is_prefix (pfx_of ps k) n = true) ->
  run T T_eqb tyname requests nfuel (pfx_of (map (rehead h p) ps)) res' fuel (order (map (rehead h p) ps))
      (map (rn_call T (pfx_of ps) (pfx_of (map (rehead h p) ps))) calls)
  = option_map (map (rn_e T (pfx_of ps) (pfx_of (map (rehead h p) ps))))
               (run T T_eqb tyname requests nfuel (pfx_of ps) res fuel (order ps) calls).
Proof. exact global_prefix_textual. Qed.
Print Assumptions C12_global_prefix_textual.

Theorem C12_global_renaming_is_uniform : forall (h p : str) (ps : list plugin),
  forallb (has_head h) ps = true ->
  forall k x, k < length ps ->
  rn (pfx_of ps) (pfx_of (map (rehead h p) ps)) k (pfx_of ps k ++ x) = p ++ skipn (length h) (pfx_of ps k ++ x).
Proof. exact rn_is_global. Qed.
Print Assumptions C12_global_renaming_is_uniform.

(* a minted helper name belongs to its plugin under longest-match dispatch unless a prefix is another
   prefix followed by "_..." — and in that case the pinned tree does produce a clash *)
Theorem C12_minted_dispatch_home : forall ps ps' a name i,
  distinct_prefixes ps -> Permutation ps' ps -> no_underscore_nesting ps -> In a ps ->
  dispatch (sort_plugins ps') (cand (pprefix a) name i) = Some a.
Proof. exact minted_dispatch_home. Qed.
Print Assumptions C12_minted_dispatch_home.

Theorem C12_minted_name_collision_refuted :
  new_name 10 (s "eq"%string) [] (fun c => existsb (str_eqb c) [s "eq"%string]) = Some (s "eq_"%string).
Proof. exact minted_name_collision_refuted. Qed.
Print Assumptions C12_minted_name_collision_refuted.

Theorem C12_new_name_default_prefix_refuted :
  let dflt := s "deriveEqual"%string in
  let taken := fun _ : str => false in
  new_name 5 dflt [] taken <> option_map (fun r => s "eq"%string ++ skipn (length dflt) r) (new_name 5 dflt [] taken)
  /\ new_name 5 (s "eq"%string) [] taken = Some (s "eq"%string).
Proof. exact new_name_default_prefix_refuted. Qed.
Print Assumptions C12_new_name_default_prefix_refuted.

(* boundaries, each with a computed witness *)
Theorem C12_dispatch_unsorted_refuted :
  dispatch [ex_sort; ex_sorted] (s "deriveSortedInts"%string) <> dispatch [ex_sorted; ex_sort] (s "deriveSortedInts"%string).
Proof. exact dispatch_unsorted_refuted. Qed.
Print Assumptions C12_dispatch_unsorted_refuted.

Theorem C12_dispatch_duplicate_prefix_refuted :
  let a := mkP (s "sort"%string) (s "deriveS"%string) in
  let b := mkP (s "set"%string) (s "deriveS"%string) in
  dispatch (sort_plugins [a; b]) (s "deriveSX"%string) <> dispatch (sort_plugins [b; a]) (s "deriveSX"%string).
Proof. exact dispatch_duplicate_prefix_refuted. Qed.
Print Assumptions C12_dispatch_duplicate_prefix_refuted.

Theorem C12_plugin_prefix_order_refuted :
  let ps := [mkP (s "keys"%string) (s "deriveKeys"%string); mkP (s "set"%string) (s "deriveSet"%string)] in
  let ov := [(s "set"%string, s "deriveSetOf"%string)] in
  map pname (sort_plugins (map (effective derive_head ov) ps)) <> map pname (sort_plugins ps).
Proof. exact plugin_prefix_order_refuted. Qed.
Print Assumptions C12_plugin_prefix_order_refuted.

(* the theorems instantiated on any table that passes the decidable side conditions; the check
   re-establishes [table_ok table = true] by vm_compute on the table translated from the sources *)
Theorem C12_table_theorems : forall T, table_ok T = true ->
  distinct_prefixes T /\
  (no_nesting_b T = true -> forall name p q, In p T -> In q T -> matches name p -> matches name q -> p = q) /\
  (forall ps' name, Permutation T ps' -> dispatch (sort_plugins T) name = dispatch (sort_plugins ps') name) /\
  (forall global, sort_plugins (map (effective global []) T) = map (effective global []) (sort_plugins T)) /\
  (forall global, distinct_prefixes (map (effective global []) T)) /\
  map (effective derive_head []) T = T.
Proof.
  intros T H.
  exact (conj (table_default_unambiguous T H) (conj (fun Hn name p q => table_single_candidate T H name p q Hn)
        (conj (table_registration_order_irrelevant T H) (conj (table_global_order T H)
        (conj (table_global_distinct T H) (table_default_flag_identity T H)))))).
Qed.
Print Assumptions C12_table_theorems.
