(* Properties/C12.v — Prefix customisation only renames.
   Only statements, each closed by `exact`, with Print Assumptions beneath. *)
From Coq Require Import String.
From Coq Require Import List Permutation Sorted.
From Verif Require Import Base Prefix.Str Prefix.Dispatch Prefix.Names Prefix.TableFacts Prefix.Gen Prefix.GenOrder.
Import ListNotations.

(* a call is handled by the plugin with the longest matching prefix, whatever the registration order *)
Theorem C12_dispatch_longest : forall ps ps' name,
  distinct_prefixes ps -> Permutation ps' ps ->
  match dispatch (sort_plugins ps') name with
  | Some p => In p ps /\ is_prefix (pprefix p) name = true /\
              forall q, In q ps -> is_prefix (pprefix q) name = true -> length (pprefix q) <= length (pprefix p)
  | None => forall q, In q ps -> is_prefix (pprefix q) name = false
  end.
Proof. exact dispatch_longest. Qed.
Print Assumptions C12_dispatch_longest.

Theorem C12_longest_match_unique : forall ps name p q,
  distinct_prefixes ps -> is_longest_match ps name p -> is_longest_match ps name q -> p = q.
Proof. exact longest_match_unique. Qed.
Print Assumptions C12_longest_match_unique.

Theorem C12_dispatch_is_spec : forall ps ps' name,
  distinct_prefixes ps -> Permutation ps' ps ->
  dispatch (sort_plugins ps') name = spec_dispatch ps name.
Proof. exact dispatch_is_spec. Qed.
Print Assumptions C12_dispatch_is_spec.

Theorem C12_dispatch_perm_invariant : forall ps ps' name,
  distinct_prefixes ps -> Permutation ps ps' ->
  dispatch (sort_plugins ps) name = dispatch (sort_plugins ps') name.
Proof. exact dispatch_perm_invariant. Qed.
Print Assumptions C12_dispatch_perm_invariant.

(* sort.Slice is only specified by its contract: every sorted permutation is the model's list *)
Theorem C12_any_sorter_agrees : forall ps out,
  distinct_prefixes ps -> Permutation out ps ->
  StronglySorted (fun a b => before a b = true) out -> out = sort_plugins ps.
Proof. exact any_sorter_agrees. Qed.
Print Assumptions C12_any_sorter_agrees.

(* a global -prefix keeps the plugin order (hence the order of everything that is emitted) *)
Theorem C12_global_prefix_order : forall h p ps,
  forallb (has_head h) ps = true ->
  sort_plugins (map (rehead h p) ps) = map (rehead h p) (sort_plugins ps).
Proof. exact global_prefix_order. Qed.
Print Assumptions C12_global_prefix_order.

Theorem C12_global_flag_order : forall global ps,
  forallb (has_head derive_head) ps = true ->
  sort_plugins (map (effective global []) ps) = map (effective global []) (sort_plugins ps).
Proof. exact global_flag_order. Qed.
Print Assumptions C12_global_flag_order.

Theorem C12_global_prefix_dispatch : forall h p l x,
  forallb (has_head h) l = true ->
  dispatch (map (rehead h p) l) (p ++ x) = option_map (rehead h p) (dispatch l (h ++ x)).
Proof. exact global_prefix_dispatch. Qed.
Print Assumptions C12_global_prefix_dispatch.

(* helper names are minted from the current prefix: same suffix on the new prefix *)
Theorem C12_new_name_equivariant : forall fuel p p' name taken taken',
  (forall x, taken' (p' ++ x) = taken (p ++ x)) ->
  new_name fuel p' name taken' = option_map (fun r => p' ++ skipn (length p) r) (new_name fuel p name taken).
Proof. exact new_name_equivariant. Qed.
Print Assumptions C12_new_name_equivariant.

Theorem C12_new_name_has_prefix : forall fuel prefix name taken r,
  new_name fuel prefix name taken = Some r -> is_prefix prefix r = true /\ taken r = false.
Proof. intros fuel prefix name taken r H. exact (conj (new_name_has_prefix _ _ _ _ _ H) (new_name_fresh _ _ _ _ _ H)). Qed.
Print Assumptions C12_new_name_has_prefix.

(* Generation (typesMap + the generate loop, abstract in the plugins' templates and helper requests):
   for ANY two prefix maps whose reserved names agree suffix by suffix, with the same plugin order, the
   emission sequence (plugin, class, name, helper names) under the second map is the first one renamed
   plugin by plugin.  Partial with respect to the property for per-plugin overrides: an override may
   change the plugin order (C12_plugin_prefix_order_refuted), and that the SET of emitted
   (plugin, class) does not depend on the order is not proved here (closure of the requests; sampled by
   the battery, which compares the sets and bodies). *)
Theorem C12_plugin_prefix_equivariant_partial :
  forall (T : Type) (T_eqb : T -> T -> bool) (tyname : T -> str) (requests : nat -> T -> list (nat * T)) (nfuel : nat)
         (pfx pfx' : nat -> str) (res res' : str -> bool),
  (forall k x, res' (pfx' k ++ x) = res (pfx k ++ x)) ->
  forall fuel ord calls,
  (forall k n t, In (k, n, t) calls -> is_prefix (pfx k) n = true) ->
  run T T_eqb tyname requests nfuel pfx' res' fuel ord (map (rn_call T pfx pfx') calls)
  = option_map (map (rn_e T pfx pfx')) (run T T_eqb tyname requests nfuel pfx res fuel ord calls).
Proof. exact run_equivariant. Qed.
Print Assumptions C12_plugin_prefix_equivariant_partial.

(* Global -prefix: the order is the same, so the whole output is the default output renamed; and on
   every generated name the renaming is the single substitution h… |-> p… *)
Theorem C12_global_prefix_textual :
  forall (T : Type) (T_eqb : T -> T -> bool) (tyname : T -> str) (requests : nat -> T -> list (nat * T)) (nfuel : nat)
         (h p : str) (ps : list plugin),
  forallb (has_head h) ps = true ->
  forall (res res' : str -> bool),
  (forall k x, res' (pfx_of (map (rehead h p) ps) k ++ x) = res (pfx_of ps k ++ x)) ->
  forall fuel calls,
  (forall k n t, In (k, n, t) calls -> is_prefix (pfx_of ps k) n = true) ->
  run T T_eqb tyname requests nfuel (pfx_of (map (rehead h p) ps)) res' fuel (order (map (rehead h p) ps))
      (map (rn_call T (pfx_of ps) (pfx_of (map (rehead h p) ps))) calls)
  = option_map (map (rn_e T (pfx_of ps) (pfx_of (map (rehead h p) ps))))
               (run T T_eqb tyname requests nfuel (pfx_of ps) res fuel (order ps) calls).
Proof. exact global_prefix_textual. Qed.
Print Assumptions C12_global_prefix_textual.

Theorem C12_global_renaming_is_uniform : forall (h p : str) (ps : list plugin),
  forallb (has_head h) ps = true ->
  forall k x, k < length ps ->
  rn (pfx_of ps) (pfx_of (map (rehead h p) ps)) k (pfx_of ps k ++ x) = p ++ skipn (length h) (pfx_of ps k ++ x).
Proof. exact rn_is_global. Qed.
Print Assumptions C12_global_renaming_is_uniform.

(* a minted helper name belongs to its plugin under longest-match dispatch unless a prefix is another
   prefix followed by "_..." — and in that case the pinned tree does produce a clash *)
Theorem C12_minted_dispatch_home : forall ps ps' a name i,
  distinct_prefixes ps -> Permutation ps' ps -> no_underscore_nesting ps -> In a ps ->
  dispatch (sort_plugins ps') (cand (pprefix a) name i) = Some a.
Proof. exact minted_dispatch_home. Qed.
Print Assumptions C12_minted_dispatch_home.

Theorem C12_minted_name_collision_refuted :
  new_name 10 (s "eq"%string) [] (fun c => existsb (str_eqb c) [s "eq"%string]) = Some (s "eq_"%string).
Proof. exact minted_name_collision_refuted. Qed.
Print Assumptions C12_minted_name_collision_refuted.

Theorem C12_new_name_default_prefix_refuted :
  let dflt := s "deriveEqual"%string in
  let taken := fun _ : str => false in
  new_name 5 dflt [] taken <> option_map (fun r => s "eq"%string ++ skipn (length dflt) r) (new_name 5 dflt [] taken)
  /\ new_name 5 (s "eq"%string) [] taken = Some (s "eq"%string).
Proof. exact new_name_default_prefix_refuted. Qed.
Print Assumptions C12_new_name_default_prefix_refuted.

(* boundaries, each with a computed witness *)
Theorem C12_dispatch_unsorted_refuted :
  dispatch [ex_sort; ex_sorted] (s "deriveSortedInts"%string) <> dispatch [ex_sorted; ex_sort] (s "deriveSortedInts"%string).
Proof. exact dispatch_unsorted_refuted. Qed.
Print Assumptions C12_dispatch_unsorted_refuted.

Theorem C12_dispatch_duplicate_prefix_refuted :
  let a := mkP (s "sort"%string) (s "deriveS"%string) in
  let b := mkP (s "set"%string) (s "deriveS"%string) in
  dispatch (sort_plugins [a; b]) (s "deriveSX"%string) <> dispatch (sort_plugins [b; a]) (s "deriveSX"%string).
Proof. exact dispatch_duplicate_prefix_refuted. Qed.
Print Assumptions C12_dispatch_duplicate_prefix_refuted.

Theorem C12_plugin_prefix_order_refuted :
  let ps := [mkP (s "keys"%string) (s "deriveKeys"%string); mkP (s "set"%string) (s "deriveSet"%string)] in
  let ov := [(s "set"%string, s "deriveSetOf"%string)] in
  map pname (sort_plugins (map (effective derive_head ov) ps)) <> map pname (sort_plugins ps).
Proof. exact plugin_prefix_order_refuted. Qed.
Print Assumptions C12_plugin_prefix_order_refuted.

(* the theorems instantiated on any table that passes the decidable side conditions; the check
   re-establishes [table_ok table = true] by vm_compute on the table translated from the sources *)
Theorem C12_table_theorems : forall T, table_ok T = true ->
  distinct_prefixes T /\
  (no_nesting_b T = true -> forall name p q, In p T -> In q T -> matches name p -> matches name q -> p = q) /\
  (forall ps' name, Permutation T ps' -> dispatch (sort_plugins T) name = dispatch (sort_plugins ps') name) /\
  (forall global, sort_plugins (map (effective global []) T) = map (effective global []) (sort_plugins T)) /\
  (forall global, distinct_prefixes (map (effective global []) T)) /\
  map (effective derive_head []) T = T.
Proof.
  intros T H.
  exact (conj (table_default_unambiguous T H) (conj (fun Hn name p q => table_single_candidate T H name p q Hn)
        (conj (table_registration_order_irrelevant T H) (conj (table_global_order T H)
        (conj (table_global_distinct T H) (table_default_flag_identity T H)))))).
Qed.
Print Assumptions C12_table_theorems.
