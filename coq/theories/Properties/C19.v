(* Properties/C19.v — channel combinators deliver every item exactly once under all schedules.
   Only statements, each closed by `exact`, with Print Assumptions beneath.
   P = the expected IR (Chan/Expected.v) which every run re-checks against the IR translated
   from the freshly generated derived.gen.go. *)
From Coq Require Import List NArith.
Import ListNotations.
From Verif Require Import Chan.Sem Chan.Expected Chan.Lemmas Chan.FmapProofs Chan.DupProofs Chan.JoinCC Chan.JoinCCLive Chan.JoinSl Chan.JoinSlLive Chan.Explore Chan.Bounded Chan.EnabledComplete Chan.Pipe Chan.PipeLive Chan.JoinVar Chan.JoinVarLive Chan.JoinVarLive2 Chan.Feeder Chan.Alias.

(* ---------------- deriveFmap(f, <-chan) ---------------- *)
Theorem C19_fmap_safety : forall (f : item -> item) xs cin cout s,
  reach f (fn_progs exp_fmap) (fmap_init xs cin cout) s ->
  panicked s = false
  /\ (exists rest, map f xs = cons_log s 2 ++ rest)
  /\ (ch_closed s 1 = true ->
        prod_done s 0 = true /\ ch_closed s 0 = true /\ ch_buf s 0 = [] /\ prod_rem s 0 = []
        /\ map f xs = cons_log s 2 ++ ch_buf s 1).
Proof. exact fmap_safety. Qed.
Print Assumptions C19_fmap_safety.

Theorem C19_fmap_deadlock_free_no_leak : forall (f : item -> item) xs cin cout s,
  reach f (fn_progs exp_fmap) (fmap_init xs cin cout) s -> stuck f (fn_progs exp_fmap) s ->
  all_halted (fn_progs exp_fmap) s = true /\ cons_log s 2 = map f xs /\ ch_closed s 1 = true.
Proof. exact fmap_stuck_is_done. Qed.
Print Assumptions C19_fmap_deadlock_free_no_leak.

Theorem C19_fmap_measure_decreases : forall (f : item -> item) xs cin cout s act s',
  reach f (fn_progs exp_fmap) (fmap_init xs cin cout) s ->
  step f (fn_progs exp_fmap) s act = Some s' -> FmapProofs.mu s' < FmapProofs.mu s.
Proof. exact fmap_measure_decreases. Qed.
Print Assumptions C19_fmap_measure_decreases.

Theorem C19_fmap_terminates : forall (f : item -> item) xs cin cout l s,
  run f (fn_progs exp_fmap) (fmap_init xs cin cout) l = Some s -> length l <= length xs * 7 + 5.
Proof. exact fmap_terminates. Qed.
Print Assumptions C19_fmap_terminates.

(* ---------------- deriveDup(c) (c1, c2) with two independent consumers ---------------- *)
Theorem C19_dup_safety : forall (f : item -> item) xs cin c1 c2 s,
  reach f (fn_progs exp_dup) (dup_init xs cin c1 c2) s ->
  panicked s = false
  /\ (exists rest, xs = cons_log s 2 ++ rest)
  /\ (exists rest, xs = cons_log s 3 ++ rest)
  /\ (ch_closed s 1 = true ->
        prod_done s 0 = true /\ ch_closed s 0 = true /\ ch_buf s 0 = [] /\ prod_rem s 0 = []
        /\ xs = cons_log s 2 ++ ch_buf s 1)
  /\ (ch_closed s 2 = true ->
        prod_done s 0 = true /\ ch_closed s 0 = true /\ ch_buf s 0 = [] /\ prod_rem s 0 = []
        /\ xs = cons_log s 3 ++ ch_buf s 2).
Proof. exact dup_safety. Qed.
Print Assumptions C19_dup_safety.

Theorem C19_dup_deadlock_free_no_leak : forall (f : item -> item) xs cin c1 c2 s,
  reach f (fn_progs exp_dup) (dup_init xs cin c1 c2) s -> stuck f (fn_progs exp_dup) s ->
  all_halted (fn_progs exp_dup) s = true /\ cons_log s 2 = xs /\ cons_log s 3 = xs
  /\ ch_closed s 1 = true /\ ch_closed s 2 = true.
Proof. exact dup_stuck_is_done. Qed.
Print Assumptions C19_dup_deadlock_free_no_leak.

Theorem C19_dup_measure_decreases : forall (f : item -> item) xs cin c1 c2 s act s',
  reach f (fn_progs exp_dup) (dup_init xs cin c1 c2) s ->
  step f (fn_progs exp_dup) s act = Some s' -> DupProofs.mu s' < DupProofs.mu s.
Proof. exact dup_measure_decreases. Qed.
Print Assumptions C19_dup_measure_decreases.

Theorem C19_dup_terminates : forall (f : item -> item) xs cin c1 c2 l s,
  run f (fn_progs exp_dup) (dup_init xs cin c1 c2) l = Some s -> length l <= length xs * 8 + 7.
Proof. exact dup_terminates. Qed.
Print Assumptions C19_dup_terminates.

(* ---------------- deriveJoin(in <-chan (<-chan T)): any number of inner channels ---------------- *)
(* Merge ls l: l is an interleaving of the lists ls (Chan/Lemmas.v); what that means: *)
Theorem C19_merge_length : forall ls l, Merge ls l -> length l = sumw (@length item) ls.
Proof. exact Merge_length. Qed.
Print Assumptions C19_merge_length.

Theorem C19_merge_subseq : forall ls l, Merge ls l -> forall j d, nth_error ls j = Some d -> Subseq d l.
Proof. exact Merge_subseq. Qed.
Print Assumptions C19_merge_subseq.

Theorem C19_joincc_safety : forall (f : item -> item) inputs cin cout s,
  reach f (fn_progs exp_join_cc) (joincc_init inputs cin cout) s ->
  panicked s = false
  /\ (exists dls, length dls = length inputs /\ Merge dls (cons_log s 2 ++ ch_buf s 1) /\
        forall j cp its dl, nth_error inputs j = Some (cp, its) -> nth_error dls j = Some dl ->
                            exists rest, its = dl ++ rest)
  /\ (ch_closed s 1 = true ->
        prod_done s 0 = true /\ ch_closed s 0 = true /\ ch_buf s 0 = [] /\ wg s = 0
        /\ length (thr s) = 3 + length inputs + length inputs
        /\ (forall j, j < length inputs ->
               prod_done s (3 + j) = true /\ ch_closed s (2 + j) = true /\ ch_buf s (2 + j) = []
               /\ option_map (halted (fn_progs exp_join_cc)) (nth_error (thr s) (3 + length inputs + j)) = Some true)
        /\ Merge (map snd inputs) (cons_log s 2 ++ ch_buf s 1)).
Proof. exact joincc_safety. Qed.
Print Assumptions C19_joincc_safety.

Theorem C19_joincc_deadlock_free_no_leak : forall (f : item -> item) inputs cin cout s,
  reach f (fn_progs exp_join_cc) (joincc_init inputs cin cout) s -> stuck f (fn_progs exp_join_cc) s ->
  all_halted (fn_progs exp_join_cc) s = true /\ Merge (map snd inputs) (cons_log s 2) /\ ch_closed s 1 = true.
Proof. exact joincc_stuck_is_done. Qed.
Print Assumptions C19_joincc_deadlock_free_no_leak.

Theorem C19_joincc_measure_decreases : forall (f : item -> item) inputs cin cout s act s',
  reach f (fn_progs exp_join_cc) (joincc_init inputs cin cout) s ->
  step f (fn_progs exp_join_cc) s act = Some s' -> JoinCC.mu s' < JoinCC.mu s.
Proof. exact joincc_measure_decreases. Qed.
Print Assumptions C19_joincc_measure_decreases.

Theorem C19_joincc_terminates : forall (f : item -> item) inputs cin cout l s,
  run f (fn_progs exp_join_cc) (joincc_init inputs cin cout) l = Some s ->
  length l <= JoinCC.mu (joincc_init inputs cin cout).
Proof. exact joincc_terminates. Qed.
Print Assumptions C19_joincc_terminates.

(* ---------------- deriveJoin(in []<-chan T): any number of input channels ---------------- *)
Theorem C19_joinsl_safety : forall (f : item -> item) inputs cout s,
  reach f (fn_progs exp_join_sl) (joinsl_init inputs cout) s ->
  panicked s = false
  /\ (exists dls, length dls = length inputs /\ Merge dls (cons_log s 1 ++ ch_buf s 0) /\
        forall j cp its dl, nth_error inputs j = Some (cp, its) -> nth_error dls j = Some dl ->
                            exists rest, its = dl ++ rest)
  /\ (ch_closed s 0 = true ->
        wg s = 0 /\ length (thr s) = 2 + length inputs + length inputs
        /\ (forall j, j < length inputs ->
               prod_done s (2 + j) = true /\ ch_closed s (1 + j) = true /\ ch_buf s (1 + j) = []
               /\ option_map (halted (fn_progs exp_join_sl)) (nth_error (thr s) (2 + length inputs + j)) = Some true)
        /\ Merge (map snd inputs) (cons_log s 1 ++ ch_buf s 0)).
Proof. exact joinsl_safety. Qed.
Print Assumptions C19_joinsl_safety.

Theorem C19_joinsl_deadlock_free_no_leak : forall (f : item -> item) inputs cout s,
  reach f (fn_progs exp_join_sl) (joinsl_init inputs cout) s -> stuck f (fn_progs exp_join_sl) s ->
  all_halted (fn_progs exp_join_sl) s = true /\ Merge (map snd inputs) (cons_log s 1) /\ ch_closed s 0 = true.
Proof. exact joinsl_stuck_is_done. Qed.
Print Assumptions C19_joinsl_deadlock_free_no_leak.

Theorem C19_joinsl_measure_decreases : forall (f : item -> item) inputs cout s act s',
  reach f (fn_progs exp_join_sl) (joinsl_init inputs cout) s ->
  step f (fn_progs exp_join_sl) s act = Some s' -> JoinSl.mu s' < JoinSl.mu s.
Proof. exact joinsl_measure_decreases. Qed.
Print Assumptions C19_joinsl_measure_decreases.

Theorem C19_joinsl_terminates : forall (f : item -> item) inputs cout l s,
  run f (fn_progs exp_join_sl) (joinsl_init inputs cout) l = Some s ->
  length l <= JoinSl.mu (joinsl_init inputs cout).
Proof. exact joinsl_terminates. Qed.
Print Assumptions C19_joinsl_terminates.

(* ---------------- variadic deriveJoin(c0, .., c(n-1)) (select loop), ANY n >= 1 ---------------- *)
(* JoinVar.PV inputs = [joinvar_main n] = fn_progs (exp_join_var n), n = length inputs (checked against
   the translated IR for the generated n = 2, 3 on every run) *)
Theorem C19_joinvar_safety : forall (f : item -> item) inputs cout s,
  0 < length inputs ->
  reach f (JoinVar.PV inputs) (joinvar_init inputs cout) s ->
  panicked s = false
  /\ (exists dls, length dls = length inputs
        /\ Merge dls (cons_log s (S (length inputs)) ++ ch_buf s (length inputs)) /\
        forall j cp its dl, nth_error inputs j = Some (cp, its) -> nth_error dls j = Some dl ->
                            exists rest, its = dl ++ rest).
Proof. exact joinvar_safety. Qed.
Print Assumptions C19_joinvar_safety.

Theorem C19_joinvar_measure_decreases : forall (f : item -> item) inputs cout s act s',
  0 < length inputs ->
  reach f (JoinVar.PV inputs) (joinvar_init inputs cout) s ->
  step f (JoinVar.PV inputs) s act = Some s' ->
  exists p p', s = JoinVar.mk inputs cout p /\ s' = JoinVar.mk inputs cout p'
               /\ JoinVar.mu inputs p' < JoinVar.mu inputs p.
Proof. exact joinvar_measure_decreases. Qed.
Print Assumptions C19_joinvar_measure_decreases.

Theorem C19_joinvar_terminates : forall (f : item -> item) inputs cout l s,
  0 < length inputs ->
  run f (JoinVar.PV inputs) (joinvar_init inputs cout) l = Some s ->
  length l <= JoinVar.mu inputs (init_params inputs).
Proof. exact joinvar_terminates. Qed.
Print Assumptions C19_joinvar_terminates.

(* deadlock freedom and absence of leaks for ALL n >= 1, item lists, capacities (inputs and out,
   0 = rendezvous) and interleavings: a reachable state without enabled action has every thread halted
   (the n producers, the goroutine of deriveJoin, the consumer), the consumer has received an
   interleaving of exactly the inputs, and out is closed *)
Theorem C19_joinvar_deadlock_free_no_leak : forall (f : item -> item) inputs cout s,
  0 < length inputs ->
  reach f (JoinVar.PV inputs) (joinvar_init inputs cout) s -> stuck f (JoinVar.PV inputs) s ->
  all_halted (JoinVar.PV inputs) s = true
  /\ Merge (map snd inputs) (cons_log s (S (length inputs)))
  /\ ch_closed s (length inputs) = true.
Proof. exact joinvar_stuck_is_done. Qed.
Print Assumptions C19_joinvar_deadlock_free_no_leak.

(* the terminal state in full: out's buffer is empty, the consumer has seen the close, every input is
   closed and drained and its producer has sent everything *)
Theorem C19_joinvar_terminal_state : forall (f : item -> item) inputs cout s,
  0 < length inputs ->
  reach f (JoinVar.PV inputs) (joinvar_init inputs cout) s -> stuck f (JoinVar.PV inputs) s ->
  all_halted (JoinVar.PV inputs) s = true
  /\ Merge (map snd inputs) (cons_log s (S (length inputs)))
  /\ ch_closed s (length inputs) = true /\ ch_buf s (length inputs) = []
  /\ cons_done s (S (length inputs)) = true
  /\ (forall j, j < length inputs ->
        prod_done s j = true /\ prod_rem s j = [] /\ ch_closed s j = true /\ ch_buf s j = []).
Proof. exact joinvar_stuck_is_done_full. Qed.
Print Assumptions C19_joinvar_terminal_state.

(* progress: in a reachable state some action is enabled unless every thread has halted *)
Theorem C19_joinvar_progress : forall (f : item -> item) inputs cout s,
  0 < length inputs ->
  reach f (JoinVar.PV inputs) (joinvar_init inputs cout) s ->
  all_halted (JoinVar.PV inputs) s = false ->
  exists act s', step f (JoinVar.PV inputs) s act = Some s'.
Proof. exact joinvar_progress. Qed.
Print Assumptions C19_joinvar_progress.

(* out is closed only after the goroutine of deriveJoin has left its loop and halted: every input is
   closed and drained, every producer is done, ALL items are delivered or in out's buffer (together
   with C19_joinvar_safety — no panic — out is closed exactly once) *)
Theorem C19_joinvar_closed_only_when_drained : forall (f : item -> item) inputs cout s,
  0 < length inputs ->
  reach f (JoinVar.PV inputs) (joinvar_init inputs cout) s ->
  ch_closed s (length inputs) = true ->
  option_map (halted (JoinVar.PV inputs)) (nth_error (thr s) (length inputs)) = Some true
  /\ (forall j, j < length inputs ->
        prod_done s j = true /\ prod_rem s j = [] /\ ch_closed s j = true /\ ch_buf s j = [])
  /\ Merge (map snd inputs) (cons_log s (S (length inputs)) ++ ch_buf s (length inputs)).
Proof. exact joinvar_closed_only_when_drained. Qed.
Print Assumptions C19_joinvar_closed_only_when_drained.

(* No longer the only evidence for the variadic form (the four theorems above hold for all n, item
   lists, capacities, interleavings); kept as an independent cross-check of the proofs by exhaustive
   exploration with the executable semantics (n = 2: 0..2 items per input, capacities 0..1; n = 3:
   0..1 items): the explorer finds no panic, deadlock, leak, wrong delivery or cycle. *)
Theorem C19_joinvar_bounded_partial :
  no_violation (search_all KJoinVar (exp_join_var 2) joinvar_configs2 2000 0%N 0%N) = true
  /\ no_violation (search_all KJoinVar (exp_join_var 3) joinvar_configs3 2000 0%N 0%N) = true.
Proof. exact (conj joinvar2_bounded joinvar3_bounded). Qed.
Print Assumptions C19_joinvar_bounded_partial.

(* ---------------- derivePipeline(f, g) = deriveJoin . deriveFmap(g): the COMPOSED system ---------------- *)
(* PP = join main, forwarder, fmap goroutine: exactly the two programs the translator reports for
   derivePipeline (checked equal to exp_pipeline on every run).  Threads: producer of b = f(a),
   the goroutine of deriveFmap(g, b), the goroutine of deriveJoin, the consumer, the producers of the
   channels g returns, the spawned forwarders.  g maps the items of b, in order, to those channels. *)
Theorem C19_pipeline_programs :
  PP = fn_progs (fst exp_pipeline) ++ fn_progs (snd exp_pipeline).
Proof. reflexivity. Qed.
Print Assumptions C19_pipeline_programs.

Theorem C19_pipeline_safety : forall (f : item -> item) inputs xs cb cin cout s,
  map f xs = seq 3 (length inputs) ->
  reach f PP (pipe_init inputs xs cb cin cout) s ->
  panicked s = false
  /\ (exists dls, length dls = length inputs /\ Merge dls (cons_log s 3 ++ ch_buf s 2) /\
        forall j cp its dl, nth_error inputs j = Some (cp, its) -> nth_error dls j = Some dl ->
                            exists rest, its = dl ++ rest)
  /\ (ch_closed s 2 = true ->
        prod_done s 0 = true /\ ch_closed s 0 = true /\ ch_buf s 0 = []
        /\ ch_closed s 1 = true /\ ch_buf s 1 = []
        /\ option_map (halted PP) (nth_error (thr s) 1) = Some true
        /\ wg s = 0 /\ length (thr s) = 4 + length inputs + length inputs
        /\ (forall j, j < length inputs ->
               prod_done s (4 + j) = true /\ ch_closed s (3 + j) = true /\ ch_buf s (3 + j) = []
               /\ option_map (halted PP) (nth_error (thr s) (4 + length inputs + j)) = Some true)
        /\ Merge (map snd inputs) (cons_log s 3 ++ ch_buf s 2)).
Proof. exact pipeline_safety. Qed.
Print Assumptions C19_pipeline_safety.

Theorem C19_pipeline_deadlock_free_no_leak : forall (f : item -> item) inputs xs cb cin cout s,
  map f xs = seq 3 (length inputs) ->
  reach f PP (pipe_init inputs xs cb cin cout) s -> stuck f PP s ->
  all_halted PP s = true /\ Merge (map snd inputs) (cons_log s 3) /\ ch_closed s 2 = true.
Proof. exact pipeline_stuck_is_done. Qed.
Print Assumptions C19_pipeline_deadlock_free_no_leak.

Theorem C19_pipeline_measure_decreases : forall (f : item -> item) inputs xs cb cin cout s act s',
  map f xs = seq 3 (length inputs) ->
  reach f PP (pipe_init inputs xs cb cin cout) s -> step f PP s act = Some s' -> Pipe.mu s' < Pipe.mu s.
Proof. exact pipeline_measure_decreases. Qed.
Print Assumptions C19_pipeline_measure_decreases.

Theorem C19_pipeline_terminates : forall (f : item -> item) inputs xs cb cin cout l s,
  map f xs = seq 3 (length inputs) ->
  run f PP (pipe_init inputs xs cb cin cout) l = Some s ->
  length l <= Pipe.mu (pipe_init inputs xs cb cin cout).
Proof. exact pipeline_terminates. Qed.
Print Assumptions C19_pipeline_terminates.

(* ---------------- the explorer's enumeration of enabled actions is complete ---------------- *)
Theorem C19_enabled_complete : forall (f : item -> item) P s a s',
  step f P s a = Some s' -> In a (enabled f P s).
Proof. exact enabled_complete. Qed.
Print Assumptions C19_enabled_complete.

(* ---------------- the join forms under a FEEDER environment (bounded) ---------------- *)
(* One goroutine performs every operation of the environment in a fixed order (Chan/Feeder.v): it hands the
   channels over, closes the outer channel and feeds / closes the inputs in the given order, so that progress
   on one input depends on another one being served.  The all-sizes theorems above are about independent
   producers; for the feeder only this bounded statement is proved: every interleaving, two inputs with 0..2
   items under EVERY feeding order (eager and lazy hand-over for the chan-of-chan form), three inputs with one
   item each under the orders [orders3] (every order for the variadic form): no panic, deadlock, leak, wrong
   delivery or cycle.  The real-runtime battery runs feeder environments with up to 40 inputs. *)
Theorem C19_join_feeder_bounded_partial :
  (none_found (feeder_all KJoinCC exp_join_cc (configs_n 2 [0;1;2] [0] [0] ++ configs_n 2 [1] [1] [1]) 2000) = true /\
   none_found (feeder_some KJoinCC exp_join_cc (fun _ => orders3) (configs_n 3 [1] [0] [0]) 2000) = true) /\
  (none_found (feeder_all KJoinSl exp_join_sl (configs_n 2 [0;1;2] [0] [0] ++ configs_n 2 [1] [1] [0]) 2000) = true /\
   none_found (feeder_some KJoinSl exp_join_sl (fun _ => orders3) (configs_n 3 [1] [0] [0]) 2000) = true) /\
  (none_found (feeder_all KJoinVar (exp_join_var 2) (configs_n 2 [0;1;2] [0;1] [0]) 2000) = true /\
   none_found (feeder_all KJoinVar (exp_join_var 3) (configs_n 3 [1] [0] [0]) 2000) = true).
Proof. exact (conj joincc_feeder_bounded (conj joinsl_feeder_bounded joinvar_feeder_bounded)). Qed.
Print Assumptions C19_join_feeder_bounded_partial.

(* ---------------- inputs that are not pairwise distinct channels (bounded) ---------------- *)
(* The same channel may be given to a join more than once (twice on the channel of channels, twice in the
   slice, for two parameters of the variadic form, returned twice by the second stage of a pipeline): the
   expected IR then runs several receivers on it ([init_alias]: init_state with the hand-over sequence in
   place of the identity).  The all-sizes theorems above are about pairwise distinct channels; for shared
   channels only this bounded statement is proved: every interleaving of the listed configurations (one
   channel given two or three times, shared next to unshared channels in every position, 0..2 items,
   buffered and unbuffered) ends with every item delivered exactly once, the output closed, nobody left, no
   panic (the WaitGroup counter in particular), and per channel the order preserved by each of its receivers
   ([alias_spec]: at most k increasing subsequences for a channel given k times). *)
Theorem C19_join_shared_channels_bounded_partial :
  none_found' (alias_some KJoinCC exp_join_cc alias_cases_cc 2000) = true /\
  none_found' (alias_some KJoinSl exp_join_sl alias_cases_sl 2000) = true /\
  none_found' (alias_some KJoinVar (exp_join_var 2) alias_cases_v2 2000) = true /\
  none_found' (alias_some KJoinVar (exp_join_var 3) alias_cases_v3 2000) = true.
Proof. exact join_alias_bounded. Qed.
Print Assumptions C19_join_shared_channels_bounded_partial.
