(* Properties/C02.v — derived Equal is exactly structural equality.
   Statements only; proofs are in Go/EqualProofs.v. *)
From Verif Require Import Base Go.Ty Go.Val Go.Equal Go.EqualProofs Go.CompareSpec Go.Canon Go.Invariance Go.Clean Go.Compare Go.Methods Go.MethodsEx.
From Coq Require Import Permutation.

(* For every type and all well-typed (acyclic, NaN-free) values the generated comparison — in
   both generator modes: body of a deriveEqual function (Top) and component expression (Fld) —
   either is refused by the generator (Unsup) or returns exactly the structural equality
   [spec_eq], which is total. *)
Theorem C02_equal_is_structural : forall x e md t y,
  has_type e t x = true -> has_type e t y = true ->
  (exists b, spec_eq e t x y = Some b) /\
  (Equal.eqm e md t x y = Unsup \/ Equal.eqm e md t x y = lift (spec_eq e t x y)).
Proof. exact eqm_spec. Qed.
Print Assumptions C02_equal_is_structural.

(* ... and with no alternative on every type without a pointer to an unnamed struct and without
   a non-comparable unnamed struct below the root (the limitation the plugin documents): there the
   generated function returns exactly structural equality *)
Theorem C02_equal_is_structural_clean : forall t x y,
  clean false true t = true -> has_type [] t x = true -> has_type [] t y = true ->
  equal_model t x y = lift (spec_eq [] t x y).
Proof. exact equal_is_structural_clean. Qed.
Print Assumptions C02_equal_is_structural_clean.

Theorem C02_equal_never_panics : forall t x y,
  has_type [] t x = true -> has_type [] t y = true ->
  equal_model t x y <> Pan /\ equal_model t x y <> Stuck.
Proof. exact equal_never_panics. Qed.
Print Assumptions C02_equal_never_panics.

Theorem C02_equal_top_eq_field : forall e t x y,
  has_type e t x = true -> has_type e t y = true ->
  Equal.eqm e Top t x y = Unsup \/ Equal.eqm e Fld t x y = Unsup \/ Equal.eqm e Top t x y = Equal.eqm e Fld t x y.
Proof. exact equal_top_eq_field. Qed.
Print Assumptions C02_equal_top_eq_field.

Theorem C02_curried_eq_binary : forall t x y, equal_curried_model t x y = equal_model t x y.
Proof. exact curried_eq_binary. Qed.
Print Assumptions C02_curried_eq_binary.

(* Go's == (used by the generator on comparable types) is structural equality there *)
Theorem C02_go_eqeq_is_structural : forall t, can_equal t = true -> forall e x y,
  has_type e t x = true -> has_type e t y = true ->
  spec_eq e t x y = Some (go_eqeq x y).
Proof. exact go_eqeq_spec. Qed.
Print Assumptions C02_go_eqeq_is_structural.

(* structural equality (hence derived Equal) is an equivalence relation on the values of a type *)
Theorem C02_equal_refl : forall e t x, has_type e t x = true -> spec_eq e t x x = Some true.
Proof. exact spec_eq_refl. Qed.
Print Assumptions C02_equal_refl.

Theorem C02_equal_sym : forall e t x y, has_type e t x = true -> has_type e t y = true ->
  spec_eq e t x y = spec_eq e t y x.
Proof. exact spec_eq_sym. Qed.
Print Assumptions C02_equal_sym.

Theorem C02_equal_trans : forall e t x y z,
  has_type e t x = true -> has_type e t y = true -> has_type e t z = true ->
  spec_eq e t x y = Some true -> spec_eq e t y z = Some true -> spec_eq e t x z = Some true.
Proof. exact spec_eq_trans. Qed.
Print Assumptions C02_equal_trans.

(* it is equality of a canonical form that mentions no address, no spare capacity and lists
   map entries in key order *)
Theorem C02_equal_is_canonical_form : forall e t x y, has_type e t x = true -> has_type e t y = true ->
  (enc e t x = enc e t y <-> spec_eq e t x y = Some true).
Proof. exact enc_eq_iff. Qed.
Print Assumptions C02_equal_is_canonical_form.

(* irrespective of pointer identity and spare capacity: erasing every address label and every
   element between len and cap changes nothing *)
Theorem C02_equal_ignores_addresses_and_capacity : forall e t x y,
  has_type e t x = true -> has_type e t y = true ->
  spec_eq e t (erase x) (erase y) = spec_eq e t x y.
Proof. exact spec_eq_erase. Qed.
Print Assumptions C02_equal_ignores_addresses_and_capacity.

(* irrespective of map insertion order: any two listings of the same entries are equal *)
Theorem C02_equal_ignores_map_order : forall e t l l' xm xm',
  has_type e t (VMap l xm) = true -> has_type e t (VMap l' xm') = true ->
  Permutation xm xm' -> spec_eq e t (VMap l xm) (VMap l' xm') = Some true.
Proof. exact spec_eq_map_perm. Qed.
Print Assumptions C02_equal_ignores_map_order.

(* the pinned tree before fix 703d315: bytes.Equal alone ignored nil-ness of []byte fields *)
Theorem C02_equal_bytes_old_refuted :
  bytes_equal_old VNilS (VSl 1 [] []) = Ok true
  /\ spec_eq [] bytes_struct (VSt [VNilS]) (VSt [VSl 1 [] []]) = Some false
  /\ equal_model bytes_struct (VSt [VNilS]) (VSt [VSl 1 [] []]) = Ok false.
Proof. exact equal_bytes_old_refuted. Qed.
Print Assumptions C02_equal_bytes_old_refuted.

(* The pinned generator compared ==-comparable arrays/structs with == even when a component declares its own
   Equal method (found by the thorough tier on [2][2]ME): Equal false where the method says true and
   where Compare, which honours the method, says 0.  The repaired generator lets the method answer. *)
Theorem C02_equal_method_in_composite_refuted :
  exists t x y, MethodsEx.ex_ty = Some t /\ MethodsEx.ex_x = Some x /\ MethodsEx.ex_y = Some y /\
    has_type [] t x = true /\ has_type [] t y = true /\
    eqm_m_old [] Top t x y = Ok false /\
    cmpm_m true [] t x y = Ok 0%Z /\
    eqm_m [] Top t x y = Ok true.
Proof. exact MethodsEx.equal_method_in_composite_refuted. Qed.
Print Assumptions C02_equal_method_in_composite_refuted.
