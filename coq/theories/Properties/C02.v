(* Properties/C02.v — derived Equal is exactly structural equality. *)
From Verif Require Import Go.Ty Go.Val Go.Equal Go.EqualProofs.

Theorem C02_equal_bytes_old_refuted :
  bytes_equal_old VNilS (VSl 1 [] []) = Ok true
  /\ spec_eq [] bytes_struct (VSt [VNilS]) (VSt [VSl 1 [] []]) = Some false
  /\ equal_model bytes_struct (VSt [VNilS]) (VSt [VSl 1 [] []]) = Ok false.
Proof. exact equal_bytes_old_refuted. Qed.
Print Assumptions C02_equal_bytes_old_refuted.
