From Verif Require Import Base Do.Sem Do.Proofs.
Theorem C20_tmp : forall n, length (main (expected n)) = n + 7.
Proof. exact expected_main_length. Qed.
Print Assumptions C20_tmp.
