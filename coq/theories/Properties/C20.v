(* Properties/C20.v — deriveDo runs all functions concurrently and returns every result and an error.
   [expected n] is the goroutine program goderive emits for n functions (re-checked on every run:
   the translator parses the emitted Go and Coq checks `translated = expected n`).  [fs] are the user
   functions: scripts of rendezvous with one another, a value and an error tag.
   [reach (expected n) fs s] quantifies over every interleaving (every schedule prefix); the log is
   newest first, so in `log s = l1 ++ e :: l2` the list l2 is everything that happened before e.
   Only statements; proofs are in Do/Canon.v, Do/Proofs.v, Do/LogInv.v, Do/Progress.v;
   non-vacuity examples in Do/Examples.v. *)
From Verif Require Import Base Do.Sem Do.Canon Do.Proofs Do.LogInv Do.Progress.
From Coq Require Import Permutation.

(* all n goroutines are started before the caller waits for the first error *)
Theorem C20_do_starts_all_first : forall n fs, length fs = n -> forall s l1 t from e l2,
  reach (expected n) fs s -> log s = l1 ++ EvRecv t from e :: l2 -> count_spawn l2 = n.
Proof. exact starts_all_first. Qed.
Print Assumptions C20_do_starts_all_first.

(* the caller returns only after n receives and after every result cell was stored exactly once;
   each receive comes after the sending goroutine stored its function's result *)
Theorem C20_do_waits_for_all : forall n fs, length fs = n -> forall s, reach (expected n) fs s ->
  (forall l1 t cs vs e l2, log s = l1 ++ EvRet t cs vs e :: l2 ->
     count_recv l2 = n /\ forall c, c < n -> count_write c l2 = 1) /\
  (forall l1 t from e l2, log s = l1 ++ EvRecv t from e :: l2 ->
     exists v, In (EvWrite from (pred from) v) l2).
Proof. exact waits_for_all. Qed.
Print Assumptions C20_do_waits_for_all.

(* no unordered conflicting accesses ever; at return every cell has exactly one write, by goroutine
   c+1, and that write is in the happens-before past of the caller (channel edge) *)
Theorem C20_do_reads_after_writes : forall n fs, length fs = n -> forall s,
  reach (expected n) fs s -> racy s = false /\
  (forall vs e, main_ret s = Some (vs, e) ->
     exists t, nth_error (thr s) 0 = Some t /\
       forall c, c < n -> cws (nth c (cells s) zero_cell) = [(S c, 0)] /\ seen_in (seen t) (S c, 0) = true).
Proof. exact race_free. Qed.
Print Assumptions C20_do_reads_after_writes.

Theorem C20_do_results_in_position : forall n fs, length fs = n -> forall s vs e,
  reach (expected n) fs s -> main_ret s = Some (vs, e) -> vs = map rv fs.
Proof. exact results_in_position. Qed.
Print Assumptions C20_do_results_in_position.

(* nil exactly when all succeeded; otherwise the error of the first received failing function *)
Theorem C20_do_error_iff : forall n fs, length fs = n -> forall s vs e,
  reach (expected n) fs s -> main_ret s = Some (vs, e) ->
  exists order, Permutation order (seq 0 n) /\ e = first_err fs order /\
    (e = None <-> forall f, In f fs -> re f = None) /\
    (forall x, e = Some x -> exists f, In f fs /\ re f = Some x).
Proof. exact error_iff. Qed.
Print Assumptions C20_do_error_iff.

Theorem C20_do_error_is_first_received : forall n fs, length fs = n -> forall s vs e,
  reach (expected n) fs s -> main_ret s = Some (vs, e) ->
  e = first_err fs (map pred (recv_order (log s))).
Proof. exact error_is_first_received. Qed.
Print Assumptions C20_do_error_is_first_received.

(* when the caller has returned every goroutine has finished: nothing left running or blocked *)
Theorem C20_do_no_leak : forall n fs, length fs = n -> forall s,
  reach (expected n) fs s -> main_ret s <> None ->
  all_halted (expected n) s = true /\ buf s = [] /\ forall a, step (expected n) fs s a = None.
Proof. exact no_leak. Qed.
Print Assumptions C20_do_no_leak.

(* user functions that complete when all of them run (they may wait for one another): no deadlock *)
Theorem C20_do_deadlock_free : forall n fs, length fs = n -> forall s,
  coop fs -> reach (expected n) fs s ->
  (main_ret s <> None /\ all_halted (expected n) s = true) \/ exists a s', step (expected n) fs s a = Some s'.
Proof. exact deadlock_free. Qed.
Print Assumptions C20_do_deadlock_free.

(* every step decreases the measure, so every execution has at most [measure init] steps; with
   deadlock freedom every maximal execution ends with the caller returned *)
Theorem C20_do_measure_decreases : forall n fs, length fs = n -> forall s a s',
  reach (expected n) fs s -> step (expected n) fs s a = Some s' -> measure n fs s' < measure n fs s.
Proof. exact measure_decreases. Qed.
Print Assumptions C20_do_measure_decreases.

Theorem C20_do_bounded_executions : forall n fs, length fs = n -> forall s l s',
  reach (expected n) fs s -> exec (expected n) fs s l s' -> length l + measure n fs s' <= measure n fs s.
Proof. exact bounded_executions. Qed.
Print Assumptions C20_do_bounded_executions.

(* the reachable states and steps of expected n are exactly those of the abstract machine [trans] *)
Theorem C20_do_step_characterisation : forall n fs, length fs = n -> forall p a s',
  Wf n p -> mpc p <= n + 7 -> step (expected n) fs (mk n fs p) a = Some s' ->
  exists p', trans n fs p a p' /\ s' = mk n fs p'.
Proof. exact step_complete. Qed.
Print Assumptions C20_do_step_characterisation.
