(* Properties/C20.v — deriveDo runs all functions concurrently and returns every result and an error.
   [expected n] is the goroutine program goderive emits for n functions (re-checked on every run:
   the translator parses the emitted Go and Coq checks `translated = expected n`).  [fs] are the user
   functions: scripts of rendezvous with one another, a value and an error tag.  [reach (expected n) fs]
   quantifies over every interleaving.  Only statements; proofs are in Do/Canon.v and Do/Proofs.v. *)
From Verif Require Import Base Do.Sem Do.Canon Do.Proofs.
From Coq Require Import Permutation.

Theorem C20_do_results_in_position : forall n fs, length fs = n -> forall s vs e,
  reach (expected n) fs s -> main_ret s = Some (vs, e) -> vs = map rv fs.
Proof. exact results_in_position. Qed.
Print Assumptions C20_do_results_in_position.

Theorem C20_do_error_iff : forall n fs, length fs = n -> forall s vs e,
  reach (expected n) fs s -> main_ret s = Some (vs, e) ->
  exists order, Permutation order (seq 0 n) /\ e = first_err fs order /\
    (e = None <-> forall f, In f fs -> re f = None) /\
    (forall x, e = Some x -> exists f, In f fs /\ re f = Some x).
Proof. exact error_iff. Qed.
Print Assumptions C20_do_error_iff.

Theorem C20_do_no_leak : forall n fs, length fs = n -> forall s,
  reach (expected n) fs s -> main_ret s <> None ->
  all_halted (expected n) s = true /\ buf s = [] /\ forall a, step (expected n) fs s a = None.
Proof. exact no_leak. Qed.
Print Assumptions C20_do_no_leak.

Theorem C20_do_reads_after_writes : forall n fs, length fs = n -> forall s,
  reach (expected n) fs s -> racy s = false /\
  (forall vs e, main_ret s = Some (vs, e) ->
     exists t, nth_error (thr s) 0 = Some t /\
       forall c, c < n -> cws (nth c (cells s) zero_cell) = [(S c, 0)] /\ seen_in (seen t) (S c, 0) = true).
Proof. exact race_free. Qed.
Print Assumptions C20_do_reads_after_writes.
