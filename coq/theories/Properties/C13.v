(* Properties/C13.v — ordering helpers: Sort, Keys, Min, Max meet their specifications.
   Statements only; models in Ord/Model.v, proofs in Ord/Sorter.v and Ord/Proofs.v.
   [cmpm] is the model of the generated Compare (C03); cmp_le / cmp_ge / cmp_less /
   cmp_greater e t x y say that it returns a value <= 0 / >= 0 / < 0 / > 0 on (x, y). *)
From Verif Require Import Go.Ty Go.Val Go.Compare Go.CompareSpec Go.Methods Ord.Sorter Ord.Model Ord.Proofs Ord.Support Ord.Total Ord.Unique Ord.Methods13.
From Coq Require Import Permutation Sorted.
Open Scope Z_scope.

(* Sort: for EVERY sorter with the standard library's contract, every element type and every
   list of well-typed values the result is a permutation of the input, non-decreasing under
   the generated Compare, and under Go's < where the emitted code uses < or sort.Strings /
   sort.Ints / sort.Float64s. *)
Theorem C13_sort_perm_sorted : forall srt : @sorter val, sorter_ok srt -> forall e t l l',
  Forall (fun x => has_type e t x = true) l ->
  sort_list srt e t l = Ok l' ->
  Permutation l' l /\
  StronglySorted (cmp_le e t) l' /\
  (natural (sort_kind e t) = true -> StronglySorted nat_le l').
Proof. exact sort_perm_sorted. Qed.
Print Assumptions C13_sort_perm_sorted.

(* the slice value: sorted in place (same backing array and spare capacity), nil stays nil *)
Theorem C13_sort_model_spec : forall srt : @sorter val, sorter_ok srt -> forall e t v v',
  has_type e (TSl t) v = true -> sort_model srt e t v = Ok v' ->
  match v, v' with
  | VNilS, VNilS => True
  | VSl loc es sp, VSl loc' es' sp' =>
      loc' = loc /\ sp' = sp /\ Permutation es' es /\ StronglySorted (cmp_le e t) es'
  | _, _ => False
  end.
Proof. exact sort_model_spec. Qed.
Print Assumptions C13_sort_model_spec.

(* the model returns whenever the generated Compare is defined on the elements (i.e. the
   generator accepted the element type): the comparator never panics *)
Theorem C13_sort_defined : forall (srt : @sorter val) e t l,
  Forall (fun x => has_type e t x = true) l -> sort_kind e t <> KIll ->
  (forall x y, In x l -> In y l -> cmpm e t x y <> Unsup) ->
  exists l', sort_list srt e t l = Ok l'.
Proof. exact sort_defined. Qed.
Print Assumptions C13_sort_defined.

(* the contract is satisfiable: insertion sort, the instance used by the evaluator *)
Theorem C13_sorter_instance_ok : sorter_ok (@isort val).
Proof. exact sorter_instance_ok. Qed.
Print Assumptions C13_sorter_instance_ok.

(* Keys: for EVERY iteration order of the runtime (any permutation of the entries) the result
   is a fresh slice without spare capacity holding a permutation of the map's keys; every key
   occurs exactly once, also when occurrences are counted with Go's ==. *)
Theorem C13_keys_exactly_once : forall order : list (val * val) -> list (val * val),
  (forall l, Permutation (order l) l) ->
  forall e t r kt vt fresh m res,
  resolve e t = Some r -> r_node r = TM kt vt ->
  has_type e t m = true ->
  keys_model order fresh m = Ok res ->
  match m with
  | VNilM => res = VSl fresh [] []
  | VMap _ kvs =>
      exists ks, res = VSl fresh ks [] /\
        Permutation ks (map fst kvs) /\
        keys_distinct ks = true /\
        (forall k, In k (map fst kvs) -> length (filter (go_eqeq k) ks) = 1%nat) /\
        Forall (fun k => has_type (r_env r) kt k = true) ks
  | _ => False
  end.
Proof. exact keys_exactly_once. Qed.
Print Assumptions C13_keys_exactly_once.

(* Min: the default for an empty (or nil) list; otherwise an element of the list, namely the
   FIRST one that no element strictly precedes under the generated Compare. *)
Theorem C13_min_is_minimal : forall e t lst def r,
  has_type e (TSl t) lst = true ->
  min_model e t lst def = Ok r ->
  match lst with
  | VSl _ (x :: l) _ =>
      exists pre post, (x :: l = pre ++ r :: post)%list /\
        (forall y, In y pre -> cmp_less e t r y) /\
        (forall y, In y (x :: l) -> cmp_ge e t y r)
  | _ => r = def
  end.
Proof. exact min_is_minimal. Qed.
Print Assumptions C13_min_is_minimal.

Theorem C13_max_is_maximal : forall e t lst def r,
  has_type e (TSl t) lst = true ->
  max_model e t lst def = Ok r ->
  match lst with
  | VSl _ (x :: l) _ =>
      exists pre post, (x :: l = pre ++ r :: post)%list /\
        (forall y, In y pre -> cmp_greater e t r y) /\
        (forall y, In y (x :: l) -> cmp_le e t y r)
  | _ => r = def
  end.
Proof. exact max_is_maximal. Qed.
Print Assumptions C13_max_is_maximal.

(* two-value forms: one of the two arguments, a exactly when it strictly precedes (follows) b;
   neither argument precedes (follows) the result *)
Theorem C13_min2_max2 : forall e t a b,
  has_type e t a = true -> has_type e t b = true ->
  (forall x y, In x [a; b] -> In y [a; b] -> cmpm e t x y <> Unsup) ->
  (forall r, min2_model e t a b = Ok r ->
     exists c, cmpm e t a b = Ok c /\ r = (if c <? 0 then a else b) /\ cmp_ge e t a r /\ cmp_ge e t b r) /\
  (forall r, max2_model e t a b = Ok r ->
     exists c, cmpm e t a b = Ok c /\ r = (if 0 <? c then a else b) /\ cmp_le e t a r /\ cmp_le e t b r).
Proof. exact min2_max2. Qed.
Print Assumptions C13_min2_max2.

(* Go's natural < / > on integers, NaN-free floats and strings, which the emitted code uses for
   basic element types, is the order of the generated Compare of that type *)
Theorem C13_natural_order_is_compare : forall e t k x y,
  (k = sort_kind e t \/ k = minmax_kind e t) ->
  has_type e t x = true -> has_type e t y = true ->
  (forall b, less_by k e t x y = Ok b -> cmpm e t x y = Ok (cz e t x y) /\ b = (cz e t x y <? 0)) /\
  (forall b, greater_by k e t x y = Ok b -> cmpm e t x y = Ok (cz e t x y) /\ b = (0 <? cz e t x y)) /\
  (natural k = true -> less_by k e t x y = of_option (nat_lt x y) /\ greater_by k e t x y = of_option (nat_lt y x)
                       /\ exists c, cmpm e t x y = Ok c).
Proof. exact by_cz. Qed.
Print Assumptions C13_natural_order_is_compare.

(* ---------- the side condition "Compare is defined" discharged from the type ---------- *)

(* [Unsup] depends on the type only: for every type the generator accepts for Compare the model
   of the generated Compare returns on all well-typed values *)
Theorem C13_cmp_sup_defined : forall x e t y, env_sup e -> cmp_sup false t = true ->
  has_type e t x = true -> has_type e t y = true -> cmpm e t x y <> Unsup.
Proof. exact cmp_sup_defined. Qed.
Print Assumptions C13_cmp_sup_defined.

(* Sort on a supported element type: returns (the comparator never panics), and the result is
   the in-place sorted permutation *)
Theorem C13_sort_total : forall srt : @sorter val, sorter_ok srt -> forall e t,
  env_sup e -> cmp_sup false t = true -> forall v,
  sort_kind e t <> KIll -> has_type e (TSl t) v = true ->
  exists v', sort_model srt e t v = Ok v' /\
    match v, v' with
    | VNilS, VNilS => True
    | VSl loc es sp, VSl loc' es' sp' =>
        loc' = loc /\ sp' = sp /\ Permutation es' es /\ StronglySorted (cmp_le e t) es'
    | _, _ => False
    end.
Proof. exact sort_total. Qed.
Print Assumptions C13_sort_total.

(* Min / Max on a supported element type return: no index out of range, no panic *)
Theorem C13_minmax_total : forall e t, env_sup e -> cmp_sup false t = true -> forall lst def,
  minmax_kind e t <> KIll -> has_type e (TSl t) lst = true ->
  (exists r, min_model e t lst def = Ok r) /\ (exists r, max_model e t lst def = Ok r).
Proof. exact minmax_total. Qed.
Print Assumptions C13_minmax_total.

Theorem C13_minmax2_total : forall e t, env_sup e -> cmp_sup false t = true -> forall a b,
  minmax_kind e t <> KIll -> has_type e t a = true -> has_type e t b = true ->
  (exists r, min2_model e t a b = Ok r) /\ (exists r, max2_model e t a b = Ok r).
Proof. exact minmax2_total. Qed.
Print Assumptions C13_minmax2_total.

(* the sorted arrangement is unique up to the order's equivalence: any two sorters that meet the
   contract (the real sort.Slice, the insertion sort of the evaluator) return lists that agree
   position by position up to Compare = 0 (which is structural equality, C03) *)
Theorem C13_sort_unique_up_to_equiv : forall s1 s2 : @sorter val, sorter_ok s1 -> sorter_ok s2 ->
  forall e t l l1 l2, Forall (fun x => has_type e t x = true) l ->
  sort_list s1 e t l = Ok l1 -> sort_list s2 e t l = Ok l2 ->
  Forall2 (fun a b => cmpm e t a b = Ok 0) l1 l2.
Proof. exact sort_unique_up_to_equiv. Qed.
Print Assumptions C13_sort_unique_up_to_equiv.

(* ---------- element types with user Compare methods (Ord/Methods13.v) ----------
   The generated Compare passes the result of a user's Compare method through unchanged: it can be
   any integer, and whether it orders the values is up to the method.  The models [sort_list_g],
   [min_g], [max_g], [min2_g], [max2_g] are those of Ord/Model.v over an arbitrary compare function
   [cmp]; le_c / ge_c / ltp_c / gtp_c cmp x y say that [cmp x y] returns a value <= 0 / >= 0 / < 0 / > 0;
   [tpo_on cmp l]: cmp is defined, sign-antisymmetric and transitive on the elements of l. *)

(* Sort by ANY compare function that is a total preorder on the elements: a permutation,
   non-decreasing under that compare function; and the model returns *)
Theorem C13_sort_any_preorder : forall (cmp : val -> val -> res Z) (srt : @sorter val), sorter_ok srt ->
  forall l l', tpo_on cmp l -> sort_list_g cmp srt KCompare l = Ok l' ->
  Permutation l' l /\ StronglySorted (le_c cmp) l'.
Proof. exact sort_g_spec. Qed.
Print Assumptions C13_sort_any_preorder.

Theorem C13_sort_any_preorder_defined : forall (cmp : val -> val -> res Z) (srt : @sorter val) l,
  tpo_on cmp l -> exists l', sort_list_g cmp srt KCompare l = Ok l'.
Proof. exact sort_g_defined. Qed.
Print Assumptions C13_sort_any_preorder_defined.

(* Min / Max by any such compare function: the FIRST element that no element precedes / follows *)
Theorem C13_min_any_preorder : forall (cmp : val -> val -> res Z) loc x l sp def r, tpo_on cmp (x :: l) ->
  min_g cmp KCompare (VSl loc (x :: l) sp) def = Ok r ->
  (exists pre post, (x :: l = pre ++ r :: post)%list /\ (forall y, In y pre -> ltp_c cmp r y)) /\
  (In r (x :: l) /\ forall y, In y (x :: l) -> ge_c cmp y r).
Proof. exact min_g_spec. Qed.
Print Assumptions C13_min_any_preorder.

Theorem C13_max_any_preorder : forall (cmp : val -> val -> res Z) loc x l sp def r, tpo_on cmp (x :: l) ->
  max_g cmp KCompare (VSl loc (x :: l) sp) def = Ok r ->
  (exists pre post, (x :: l = pre ++ r :: post)%list /\ (forall y, In y pre -> gtp_c cmp r y)) /\
  (In r (x :: l) /\ forall y, In y (x :: l) -> le_c cmp y r).
Proof. exact max_g_spec. Qed.
Print Assumptions C13_max_any_preorder.

Theorem C13_minmax_default_any : forall (cmp : val -> val -> res Z) k lst def,
  (lst = VNilS \/ exists loc sp, lst = VSl loc [] sp) ->
  min_g cmp k lst def = Ok def /\ max_g cmp k lst def = Ok def.
Proof. exact minmax_g_default. Qed.
Print Assumptions C13_minmax_default_any.

Theorem C13_min2_max2_any_preorder : forall (cmp : val -> val -> res Z) a b, tpo_on cmp [a; b] ->
  (exists c, cmp a b = Ok c /\ min2_g cmp KCompare a b = Ok (if c <? 0 then a else b)
             /\ ge_c cmp a (if c <? 0 then a else b) /\ ge_c cmp b (if c <? 0 then a else b)) /\
  (exists c, cmp a b = Ok c /\ max2_g cmp KCompare a b = Ok (if 0 <? c then a else b)
             /\ le_c cmp a (if 0 <? c then a else b) /\ le_c cmp b (if 0 <? c then a else b)).
Proof. exact min2_max2_g. Qed.
Print Assumptions C13_min2_max2_any_preorder.

(* ONLY THE SIGN of the compare results matters.  Two compare functions that agree in sign (a
   magnitude-returning one and its normalisation to -1/0/+1, [norm]) give the same Min, Max,
   two-value results and (with the insertion sort) the same sorted list ... *)
Theorem C13_models_sign_only : forall c1 c2 : val -> val -> res Z, sgn_agree c1 c2 -> forall k,
  (forall lst def, min_g c1 k lst def = min_g c2 k lst def) /\
  (forall lst def, max_g c1 k lst def = max_g c2 k lst def) /\
  (forall a b, min2_g c1 k a b = min2_g c2 k a b) /\
  (forall a b, max2_g c1 k a b = max2_g c2 k a b) /\
  (forall l, sort_list_g c1 isort k l = sort_list_g c2 isort k l).
Proof. exact models_sign_only. Qed.
Print Assumptions C13_models_sign_only.

(* ... and the specification predicates (and the hypothesis "total preorder") hold for the one
   exactly when they hold for the other *)
Theorem C13_specs_sign_only : forall c1 c2 : val -> val -> res Z, sgn_agree c1 c2 ->
  (forall U, tpo_on c1 U <-> tpo_on c2 U) /\
  (forall l l', sort_spec c1 l l' <-> sort_spec c2 l l') /\
  (forall l r, min_spec c1 l r <-> min_spec c2 l r) /\
  (forall l r, max_spec c1 l r <-> max_spec c2 l r).
Proof. exact specs_sign_only. Qed.
Print Assumptions C13_specs_sign_only.

Theorem C13_norm_agrees_in_sign : forall cmp : val -> val -> res Z, sgn_agree cmp (norm cmp).
Proof. exact norm_agree. Qed.
Print Assumptions C13_norm_agrees_in_sign.

(* for every sorter with the contract: what Sort returns when the comparator is a
   magnitude-returning compare is sorted under every compare function with the same signs *)
Theorem C13_sort_sign_only : forall (srt : @sorter val) (c1 c2 : val -> val -> res Z), sorter_ok srt -> sgn_agree c1 c2 ->
  forall l l', tpo_on c1 l -> sort_list_g c1 srt KCompare l = Ok l' -> sort_spec c2 l l'.
Proof. exact sort_g_spec_sign. Qed.
Print Assumptions C13_sort_sign_only.

(* on element types without user methods the generic models over [cmp13 e t] (the derived Compare
   of the element type, methods included) ARE the models of the theorems above *)
Theorem C13_method_free_models : forall e t, method_free t = true ->
  cmp13 e t = cmpm e t /\
  (forall srt l, sort_list_g (cmpm e t) srt (sort_kind e t) l = sort_list srt e t l) /\
  (forall srt v, sort_model_g (cmpm e t) srt (sort_kind e t) v = sort_model srt e t v) /\
  (forall lst def, min_g (cmpm e t) (minmax_kind e t) lst def = min_model e t lst def) /\
  (forall lst def, max_g (cmpm e t) (minmax_kind e t) lst def = max_model e t lst def) /\
  (forall a b, min2_g (cmpm e t) (minmax_kind e t) a b = min2_model e t a b) /\
  (forall a b, max2_g (cmpm e t) (minmax_kind e t) a b = max2_model e t a b).
Proof. exact method_free_models. Qed.
Print Assumptions C13_method_free_models.

(* PARTIAL: for an element type WITH user methods the specification is proved under the explicit
   hypothesis that the derived Compare of the element type is a total preorder on the values at
   hand.  Not proved (and false in general, [ex_not_tpo]: a map keyed by a struct whose method
   ignores a field): that hypothesis from the type.  The evaluator decides it per input ([tpo_b]). *)
Theorem C13_sort_with_methods_partial : forall (srt : @sorter val), sorter_ok srt -> forall e t l l',
  tpo_on (cmp13 e t) l -> sort_list_g (cmp13 e t) srt KCompare l = Ok l' ->
  Permutation l' l /\ StronglySorted (le_c (cmp13 e t)) l'.
Proof. exact sort_with_methods. Qed.
Print Assumptions C13_sort_with_methods_partial.

(* the evaluator's guard on the real inputs decides the hypothesis: sound and complete *)
Theorem C13_preorder_check_sound : forall (cmp : val -> val -> res Z) l, tpo_b cmp l = true -> tpo_on cmp l.
Proof. exact tpo_b_sound. Qed.
Print Assumptions C13_preorder_check_sound.

Theorem C13_preorder_check_complete : forall (cmp : val -> val -> res Z) l, tpo_on cmp l -> tpo_b cmp l = true.
Proof. exact tpo_b_complete. Qed.
Print Assumptions C13_preorder_check_complete.

(* the hypothesis holds for the harness' magnitude method (Compare = int(a.F1) - int(b.F1)) on
   every list of values, so for a struct type whose derived Compare is that method, Sort is a
   sorted permutation under it for every sorter with the contract *)
Theorem C13_magnitude_method_is_preorder : forall U, (forall v, In v U -> mag_shaped v) -> tpo_on second_mag U.
Proof. exact second_mag_tpo. Qed.
Print Assumptions C13_magnitude_method_is_preorder.

Theorem C13_sort_magnitude_struct : forall (srt : @sorter val), sorter_ok srt -> forall l l',
  (forall v, In v l -> mag_shaped v) ->
  sort_list_g (cmp13 [] ex_MGP) srt KCompare l = Ok l' -> sort_spec second_mag l l'.
Proof. exact sort_MGP. Qed.
Print Assumptions C13_sort_magnitude_struct.
