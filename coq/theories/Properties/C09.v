(* Properties/C09.v — every run ends cleanly: success, or a diagnostic, never a crash or a bad
   file.  Only statements, each closed by `exact`, with Print Assumptions beneath. *)
From Verif Require Import Base.
From Verif.Validate Require Import Aty Add Gen Spec NoCrash Exact Reported RunReported TParam Order.
From Coq Require Import List.
Import ListNotations.

(* ---- never a crash ---- *)
(* no Add of any of the 33 plugins indexes out of range / fails a type assertion, whatever
   the argument list *)
Theorem C09_no_crash : forall (p : plugin) (typs : list aty), add_model p typs <> Crash.
Proof. exact no_crash. Qed.
Print Assumptions C09_no_crash.

(* nor does Generate on the types Add registered: a whole run is Ok or Err *)
Theorem C09_run_no_crash : forall (p : plugin) (typs : list aty), run_model p typs <> Crash.
Proof. exact run_no_crash. Qed.
Print Assumptions C09_run_no_crash.

(* ---- an argument outside the supported set is reported ---- *)
(* must_report is the specification (Spec.v): chan / func / interface (/ unsafe.Pointer,
   unordered basic types, variadic functions, non-comparable set elements) at a position the
   plugin has to handle *)
Theorem C09_unsupported_reported : forall (p : plugin) (typs : list aty),
  must_report p typs = true -> run_model p typs = Err.
Proof. exact unsupported_reported. Qed.
Print Assumptions C09_unsupported_reported.

Theorem C09_unsupported_reported_equal : forall t, has_unsup false false t = true -> eq_stmt t = Err.
Proof. exact unsupported_reported_equal. Qed.
Print Assumptions C09_unsupported_reported_equal.
Theorem C09_unsupported_reported_compare : forall t, has_unsup true true t = true -> cmp_stmt t = Err.
Proof. exact unsupported_reported_compare. Qed.
Print Assumptions C09_unsupported_reported_compare.
Theorem C09_unsupported_reported_hash : forall t, has_unsup true true t = true -> hash_stmt t = Err.
Proof. exact unsupported_reported_hash. Qed.
Print Assumptions C09_unsupported_reported_hash.
Theorem C09_unsupported_reported_deepcopy : forall t, has_unsup true false t = true -> dc_stmt t = Err.
Proof. exact unsupported_reported_deepcopy. Qed.
Print Assumptions C09_unsupported_reported_deepcopy.
Theorem C09_unsupported_reported_gostring : forall t, has_unsup true false t = true -> gs_stmt t = Err.
Proof. exact unsupported_reported_gostring. Qed.
Print Assumptions C09_unsupported_reported_gostring.

(* ---- each Add accepts exactly the documented shapes (all 33 plugins) ---- *)
Theorem C09_validate_exact_all_any_filter_takewhile : forall typs,
  add_pred typs = Ok <->
  exists t, typs = [ASig (TCons t TNil) (TCons (ABasic KBool) TNil) false; ASlice t].
Proof. exact validate_exact_pred. Qed.
Print Assumptions C09_validate_exact_all_any_filter_takewhile.
Theorem C09_validate_exact_clone_keys_set_sort_unique : forall typs,
  add_one typs = Ok <-> exists t, typs = [t].
Proof. exact validate_exact_one. Qed.
Print Assumptions C09_validate_exact_clone_keys_set_sort_unique.
(* gostring and hash print the type of their argument: the untyped nil has none *)
Theorem C09_validate_exact_gostring_hash : forall typs,
  add_one_typed typs = Ok <-> exists t, typs = [t] /\ t <> ABasic KUNil.
Proof. exact validate_exact_one_typed. Qed.
Print Assumptions C09_validate_exact_gostring_hash.
Theorem C09_validate_exact_compare_equal : forall typs,
  add_one_or_two typs = Ok <-> (exists t, typs = [t]) \/ (exists t, typs = [t; t]).
Proof. exact validate_exact_one_or_two. Qed.
Print Assumptions C09_validate_exact_compare_equal.
Theorem C09_validate_exact_deepcopy : forall typs, add_deepcopy typs = Ok <-> exists t, typs = [t; t].
Proof. exact validate_exact_deepcopy. Qed.
Print Assumptions C09_validate_exact_deepcopy.
Theorem C09_validate_exact_curry_flip : forall typs,
  add_curry typs = Ok <-> exists p1 p2 ps rs, typs = [ASig (TCons p1 (TCons p2 ps)) rs false].
Proof. exact validate_exact_curry. Qed.
Print Assumptions C09_validate_exact_curry_flip.
(* dup, fmap, join and pipeline receive from their channels: no send only channel *)
Theorem C09_validate_exact_dup : forall typs,
  add_dup typs = Ok <-> exists d t, typs = [AChan d t] /\ d <> DSend.
Proof. exact validate_exact_dup. Qed.
Print Assumptions C09_validate_exact_dup.
Theorem C09_validate_exact_mem : forall typs, add_mem typs = Ok <-> exists ps rs, typs = [ASig ps rs false].
Proof. exact validate_exact_mem. Qed.
Print Assumptions C09_validate_exact_mem.
Theorem C09_validate_exact_tuple : forall typs,
  add_tuple typs = Ok <-> typs <> [] /\ ~ In (ABasic KUNil) typs.
Proof. exact validate_exact_tuple. Qed.
Print Assumptions C09_validate_exact_tuple.
Theorem C09_validate_exact_uncurry : forall typs,
  add_uncurry typs = Ok <->
  exists a ps rs, typs = [ASig (TCons a TNil) (TCons (ASig ps rs false) TNil) false].
Proof. exact validate_exact_uncurry. Qed.
Print Assumptions C09_validate_exact_uncurry.
Theorem C09_validate_exact_union_intersect : forall typs,
  add_setop typs = Ok <->
  (exists t, typs = [ASlice t; ASlice t]) \/ (exists k, typs = [AMap k (AStruct TNil); AMap k (AStruct TNil)]).
Proof. exact validate_exact_setop. Qed.
Print Assumptions C09_validate_exact_union_intersect.
Theorem C09_validate_exact_min_max : forall typs,
  add_minmax typs = Ok <->
  (exists t, typs = [t; t]) \/ (exists e b, typs = [ASlice e; b] /\ assignable b e = true).
Proof. exact validate_exact_minmax. Qed.
Print Assumptions C09_validate_exact_min_max.
Theorem C09_validate_exact_contains : forall typs,
  add_contains typs = Ok <-> exists e b, typs = [ASlice e; b] /\ assignable b e = true.
Proof. exact validate_exact_contains. Qed.
Print Assumptions C09_validate_exact_contains.
Theorem C09_validate_exact_traverse : forall typs,
  add_traverse typs = Ok <->
  exists t r e, typs = [ASig (TCons t TNil) (TCons r (TCons e TNil)) false; ASlice t] /\ is_error e = true.
Proof. exact validate_exact_traverse. Qed.
Print Assumptions C09_validate_exact_traverse.
Theorem C09_validate_exact_pipeline : forall typs,
  add_pipeline typs = Ok <->
  exists a b c d1,
    typs = [ASig (TCons a TNil) (TCons (AChan d1 b) TNil) false; ASig (TCons b TNil) (TCons (AChan DRecv c) TNil) false]
    /\ d1 <> DSend.
Proof. exact validate_exact_pipeline. Qed.
Print Assumptions C09_validate_exact_pipeline.
(* apply: a non-variadic function and a value for its last parameter *)
Theorem C09_validate_exact_apply : forall typs,
  add_apply typs = Ok <->
  exists ps rs b last, typs = [ASig ps rs false; b] /\ alast ps = Some last /\ assignable b last = true.
Proof. exact validate_exact_apply. Qed.
Print Assumptions C09_validate_exact_apply.
(* do: two or more func() (T, error) *)
Theorem C09_validate_exact_do : forall typs,
  add_do typs = Ok <->
  2 <= length typs /\
  Forall (fun t => exists r e v, t = ASig TNil (TCons r (TCons e TNil)) v /\ is_error e = true) typs.
Proof. exact validate_exact_do. Qed.
Print Assumptions C09_validate_exact_do.
(* compose: two or more non-variadic functions that return an error last; the other results of each
   are assignable, one by one, to the parameters of the next (compose_links, Exact.v) *)
Theorem C09_validate_exact_compose : forall typs,
  add_compose typs = Ok <->
  2 <= length typs /\
  exists l : list (atys * atys),
    Forall2 (fun t pr => exists e, t = ASig (fst pr) (snd pr) false /\ alast (snd pr) = Some e /\ is_error e = true) typs l /\
    compose_links l.
Proof. exact validate_exact_compose. Qed.
Print Assumptions C09_validate_exact_compose.
Theorem C09_validate_exact_fmap : forall typs,
  add_fmap typs = Ok <->
  (exists e r, typs = [ASig (TCons e TNil) (TCons r TNil) false; ASlice e]) \/
  (exists k r, typs = [ASig (TCons (ABasic KInt32) TNil) (TCons r TNil) false; ABasic k] /\ default_kind k = KString) \/
  (exists e rs er v', typs = [ASig (TCons e TNil) rs false; ASig TNil (TCons e (TCons er TNil)) v'] /\ is_error er = true) \/
  (exists e r d, typs = [ASig (TCons e TNil) (TCons r TNil) false; AChan d e] /\ d <> DSend).
Proof. exact validate_exact_fmap. Qed.
Print Assumptions C09_validate_exact_fmap.
(* join: [][]T, []string, []chan T (not send only), (func() (.., error), error) as two arguments or
   one multi-valued call, (chan | <-chan) of <-chan T, two or more channels over one element type
   none of which is send only *)
Theorem C09_validate_exact_join : forall typs,
  add_join typs = Ok <->
  (exists t, typs = [ASlice (ASlice t)]) \/
  typs = [ASlice (ABasic KString)] \/
  (exists d t, typs = [ASlice (AChan d t)] /\ d <> DSend) \/
  (exists a b, (typs = [a; b] \/ exists r, typs = ATuple (TCons a (TCons b TNil)) :: r) /\ accepted_join_error a b) \/
  (exists d t, typs = [AChan d (AChan DRecv t)] /\ d <> DSend) \/
  (exists e ds, typs = map (fun d => AChan d e) ds /\ 2 <= length ds /\ ~ In DSend ds /\ not_chan e).
Proof. exact validate_exact_join. Qed.
Print Assumptions C09_validate_exact_join.
Theorem C09_validate_exact_toerror : forall typs,
  add_toerror typs = Ok <->
  exists e ps rs, typs = [e; ASig ps rs false] /\ is_error e = true /\ alast rs = Some (ABasic KBool).
Proof. exact validate_exact_toerror. Qed.
Print Assumptions C09_validate_exact_toerror.

(* ---- the traversal of types terminates: the fixed equal.field is structurally recursive (a
   Coq Fixpoint); the code before the fix diverged on an unnamed non-comparable struct in
   element position, for every amount of fuel ---- *)
Theorem C09_equal_field_diverges_refuted : forall fuel,
  eq_field_prefix fuel (AStruct (TCons (ASlice (ABasic KInt)) (TCons (ABasic KInt) TNil))) = None.
Proof. exact eq_field_prefix_diverges. Qed.
Print Assumptions C09_equal_field_diverges_refuted.

(* ---- behaviour before the fixes (each is a corpus entry replayed on every run) ---- *)
Theorem C09_mem_index_refuted : add_mem_prefix [ABasic KInt] = Crash.
Proof. exact mem_index_refuted. Qed.
Print Assumptions C09_mem_index_refuted.
Theorem C09_equal_swallow_refuted :
  has_unsup false false t_chan_field = true /\ equal_run_prefix [t_chan_field; t_chan_field] = Ok
  /\ run_model PEqual [t_chan_field; t_chan_field] = Err.
Proof. exact equal_swallow_refuted_w. Qed.
Print Assumptions C09_equal_swallow_refuted.
Theorem C09_hash_swallow_refuted :
  has_unsup true true t_chan_field = true /\ hash_run_prefix [t_chan_field] = Ok
  /\ run_model PHash [t_chan_field] = Err.
Proof. exact hash_swallow_refuted_w. Qed.
Print Assumptions C09_hash_swallow_refuted.
Theorem C09_fieldstrings_single_refuted : fieldstrings_prefix 1 = Crash.
Proof. exact fieldstrings_single_refuted_w. Qed.
Print Assumptions C09_fieldstrings_single_refuted.
Theorem C09_deepcopy_array_swallow_refuted :
  dc_array_field_prefix (AChan DBoth (ABasic KInt)) = Ok /\
  dc_field (AArray 2 (AChan DBoth (ABasic KInt))) = Err.
Proof. exact deepcopy_array_swallow_refuted_w. Qed.
Print Assumptions C09_deepcopy_array_swallow_refuted.
Theorem C09_gostring_ptr_swallow_refuted :
  gs_ptr_prefix (AChan DBoth (ABasic KInt)) = Ok /\ gs_stmt (APtr (AChan DBoth (ABasic KInt))) = Err.
Proof. exact gostring_ptr_swallow_refuted_w. Qed.
Print Assumptions C09_gostring_ptr_swallow_refuted.
Theorem C09_sendonly_chan_refuted :
  add_dup_prefix [AChan DSend (ABasic KInt)] = Ok /\
  must_report PDup [AChan DSend (ABasic KInt)] = true /\
  run_model PDup [AChan DSend (ABasic KInt)] = Err /\
  run_model PDup [AChan DRecv (ABasic KInt)] = Ok.
Proof. exact sendonly_chan_refuted_w. Qed.
Print Assumptions C09_sendonly_chan_refuted.
(* a variadic function whose parameter type fits the other arguments: accepted by the Add functions
   before C09-fix-variadic-function-arguments, the specification says it has to be reported, the fixed
   run reports it and the same call with the non-variadic function is still accepted *)
Theorem C09_variadic_argument_refuted :
  add_pipeline_prefix vw_pipeline = Ok /\ must_report PPipeline vw_pipeline = true /\
  run_model PPipeline vw_pipeline = Err /\
  (match vw_fmap true with [f; ASlice e] => fmap_fn1_prefix f e | _ => Err end) = Ok /\
  must_report PFmap (vw_fmap true) = true /\ run_model PFmap (vw_fmap true) = Err /\
  run_model PFmap (vw_fmap false) = Ok /\
  add_pred_prefix (vw_filter true) = Ok /\ must_report PFilter (vw_filter true) = true /\
  run_model PFilter (vw_filter true) = Err /\ run_model PFilter (vw_filter false) = Ok.
Proof. exact variadic_argument_refuted_w. Qed.
Print Assumptions C09_variadic_argument_refuted.
Theorem C09_untyped_nil_refuted :
  add_one [ABasic KUNil] = Ok /\ hash_stmt (ABasic KUNil) = Ok /\
  must_report PHash [ABasic KUNil] = true /\ run_model PHash [ABasic KUNil] = Err /\
  run_model PHash [ABasic KUInt] = Ok.
Proof. exact untyped_nil_refuted_w. Qed.
Print Assumptions C09_untyped_nil_refuted.
Theorem C09_minmax_unordered_refuted :
  minmax_elem_prefix (ABasic KBool) = Ok /\ is_ordered KBool = false /\
  minmax_elem_prefix (ABasic KUnsafePtr) = Ok /\
  must_report PMin [ABasic KUnsafePtr; ABasic KUnsafePtr] = true
  /\ run_model PMin [ABasic KUnsafePtr; ABasic KUnsafePtr] = Err
  /\ run_model PMin [ABasic KBool; ABasic KBool] = Ok.
Proof. exact minmax_unordered_refuted_w. Qed.
Print Assumptions C09_minmax_unordered_refuted.

(* ---- round 5: a type parameter of the enclosing generic function (pkg.Add's gate, /repo ec9c759) ---- *)
(* a call whose argument types mention a type parameter is reported, whatever the plugin and whatever else
   the arguments are; with the gate a run is still never a crash, and the specification extended by "mentions
   a type parameter" is still met *)
Theorem C09_type_parameter_reported : forall (p : plugin) (typs : list aty),
  call_tparam typs = true -> run_model_tp p typs = Err.
Proof. exact tparam_reported. Qed.
Print Assumptions C09_type_parameter_reported.
Theorem C09_run_tp_no_crash : forall (p : plugin) (typs : list aty), run_model_tp p typs <> Crash.
Proof. exact run_tp_no_crash. Qed.
Print Assumptions C09_run_tp_no_crash.
Theorem C09_unsupported_reported_tp : forall (p : plugin) (typs : list aty),
  must_report_tp p typs = true -> run_model_tp p typs = Err.
Proof. exact unsupported_reported_tp. Qed.
Print Assumptions C09_unsupported_reported_tp.
(* the code before the repair: set, keys and tuple accepted such calls (finding C09-type-parameter-argument) *)
Theorem C09_type_parameter_refuted :
  run_model PSet [ASlice (tp 0)] = Ok /\ must_report_tp PSet [ASlice (tp 0)] = true /\
  run_model PKeys [AMap (tp 1) (tp 0)] = Ok /\ must_report_tp PKeys [AMap (tp 1) (tp 0)] = true /\
  run_model PTuple [tp 0; tp 1] = Ok /\ must_report_tp PTuple [tp 0; tp 1] = true.
Proof. exact tparam_refuted_before_fix. Qed.
Print Assumptions C09_type_parameter_refuted.

(* ---- round 5: several packages in one run (dependenciesFirst) ---- *)
(* the walk that orders the packages of a run returns whatever the import relation is — import cycles
   included, which the loader hands over (AllowErrors) *)
Theorem C09_package_order_terminates : forall (imp : nat -> nat -> bool) (pkgs : list nat) (fuel : nat),
  length pkgs < fuel -> deps_first imp pkgs fuel <> None.
Proof. exact deps_first_terminates. Qed.
Print Assumptions C09_package_order_terminates.
(* marking a package only when it is appended does not: two packages that import each other *)
Theorem C09_package_order_late_mark_refuted : forall fuel, deps_first_late imp2 [0; 1] fuel = None.
Proof. exact deps_first_late_refuted. Qed.
Print Assumptions C09_package_order_late_mark_refuted.
