(* Properties/C09.v — every run ends cleanly: success, or a diagnostic, never a crash or a bad
   file.  Only statements, each closed by `exact`, with Print Assumptions beneath. *)
From Verif Require Import Base.
From Verif.Validate Require Import Aty Add Gen Spec NoCrash Reported.

(* no Add of any of the 33 plugins indexes out of range / fails a type assertion, whatever
   the argument list *)
Theorem C09_no_crash : forall (p : plugin) (typs : list aty), add_model p typs <> Crash.
Proof. exact no_crash. Qed.
Print Assumptions C09_no_crash.

(* nor does Generate on the types Add registered: a whole run is Ok or Err *)
Theorem C09_run_no_crash : forall (p : plugin) (typs : list aty), run_model p typs <> Crash.
Proof. exact run_no_crash. Qed.
Print Assumptions C09_run_no_crash.

(* mem.Add before commit 4a8b872 *)
Theorem C09_mem_index_refuted : add_mem_prefix [ABasic KInt] = Crash.
Proof. exact mem_index_refuted. Qed.
Print Assumptions C09_mem_index_refuted.
