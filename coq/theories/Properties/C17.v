(* Properties/C17.v — Fmap and Join over slices and strings are map and concatenation.
   Only statements, each closed by `exact`, with Print Assumptions beneath. *)
From Verif Require Import Base Utf8 Fmap FmapProofs.

Theorem C17_fmap_slice_spec : forall (A B : Type) (f : A -> B) (z : B) (l : list A),
  fmap_slice f z l = Ret (map f l, l).
Proof. exact @fmap_slice_spec. Qed.
Print Assumptions C17_fmap_slice_spec.

Theorem C17_fmap_string_spec : forall (B : Type) (f : rune -> B) (z : B) (s : list byte),
  fmap_string f z s = Ret (map f (runes s), runes s).
Proof. exact @fmap_string_spec. Qed.
Print Assumptions C17_fmap_string_spec.

Theorem C17_join_slices_spec : forall (A : Type) (ll : gslice (gslice A)),
  join_slices ll = match ll with SNil => SNil | SList ls => SList (concat (map slice_elems ls)) end.
Proof. exact @join_slices_spec. Qed.
Print Assumptions C17_join_slices_spec.

Theorem C17_join_capacity_exact : forall (A : Type) (ls : list (gslice A)),
  total_len ls = length (join_loop ls []).
Proof. exact @join_capacity_exact. Qed.
Print Assumptions C17_join_capacity_exact.

Theorem C17_join_strings_spec : forall l, join_strings l = concat l.
Proof. exact join_strings_spec. Qed.
Print Assumptions C17_join_strings_spec.

(* the behaviour of the pinned tree before the fix: commit "fix: fmap over strings ..." *)
Theorem C17_fmap_string_byteidx_refuted :
  fmap_string_byteidx (fun r => r) 0%N [195; 169; 97]%N = Panic.
Proof. exact fmap_string_byteidx_refuted_panic. Qed.
Print Assumptions C17_fmap_string_byteidx_refuted.
