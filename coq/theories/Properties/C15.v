(* Properties/C15.v — Curry, Uncurry, Flip, Apply, Tuple only re-plumb arguments.
   Only statements, each closed by `exact`, with Print Assumptions beneath.

   [run_<plugin> res v fuel s F args] (Plumb/Model.v) names the parameters of s as version v of
   derive/params.go does, picks the name of the wrapper's own parameter as v does, builds the
   closure nest the plugin prints, and evaluates "derived wrapper applied to F and then to args"
   in a scoped environment; the answer is the list of returned values and the log of applications
   of the original function (level, argument vector).  [res j argss] is the j-th result of the
   original function.  [hygienic] is the current tree.  The only hypothesis about names is
   [src_ok ps rs]: the signature is one Go accepts (results all named or all unnamed, the names
   that can be referred to pairwise distinct among the parameters and among the results) — named,
   blank and unnamed parameters, names the generator itself uses (f, param_N, innerParam_N),
   named results and names shared by the two levels of uncurry are all covered.
   FUEL + k is any sufficient amount of evaluator fuel. *)
From Coq Require Import String Ascii List.
From Verif Require Import Base Plumb.Model Plumb.Proofs Plumb.Shared Plumb.HigherOrder.
Import ListNotations.
Open Scope string_scope.
Open Scope list_scope.

Theorem C15_plumb_correct_curry :
  forall (res : nat -> list (list val) -> val) (s : sig) (a1 : val) (rest : list val) (k : nat),
  s_variadic s = false ->
  src_ok (names (s_params s)) (names (s_results s)) = true ->
  2 <= length (s_params s) ->
  length (a1 :: rest) = length (s_params s) ->
  run_curry res hygienic (FUEL + k) s (prim_flat s) (a1 :: rest)
  = ROk (prim_results res (length (s_results s)) [a1 :: rest]) [(0, a1 :: rest)].
Proof. exact plumb_correct_curry. Qed.
Print Assumptions C15_plumb_correct_curry.

Theorem C15_plumb_correct_flip :
  forall (res : nat -> list (list val) -> val) (s : sig) (x1 x2 : val) (xs : list val) (k : nat),
  s_variadic s = false ->
  src_ok (names (s_params s)) (names (s_results s)) = true ->
  length (x1 :: x2 :: xs) = length (s_params s) ->
  run_flip res hygienic (FUEL + k) s (prim_flat s) (x1 :: x2 :: xs)
  = ROk (prim_results res (length (s_results s)) [x2 :: x1 :: xs]) [(0, x2 :: x1 :: xs)].
Proof. exact plumb_correct_flip. Qed.
Print Assumptions C15_plumb_correct_flip.

Theorem C15_plumb_correct_apply :
  forall (res : nat -> list (list val) -> val) (s : sig) (vs : list val) (bound : val) (k : nat),
  s_variadic s = false ->
  src_ok (names (s_params s)) (names (s_results s)) = true ->
  length (vs ++ [bound]) = length (s_params s) ->
  run_apply res hygienic (FUEL + k) s (prim_flat s) (vs ++ [bound])
  = ROk (prim_results res (length (s_results s)) [vs ++ [bound]]) [(0, vs ++ [bound])].
Proof. exact plumb_correct_apply. Qed.
Print Assumptions C15_plumb_correct_apply.

(* no condition ties the names of the outer level to those of the inner level or of the results,
   nor restricts the name of the returned function *)
Theorem C15_plumb_correct_uncurry :
  forall (res : nat -> list (list val) -> val) (c : csig) (vo vi : list val) (k : nat),
  c_variadic c = false ->
  nodupb (filter bindable (names (c_outer c))) = true ->
  src_ok (names (c_inner c)) (names (c_results c)) = true ->
  length (c_outer c) = 1 ->
  length vo = length (c_outer c) -> length vi = length (c_inner c) ->
  run_uncurry res hygienic (FUEL + k) c (prim_curried c) (vo ++ vi)
  = ROk (prim_results res (length (c_results c)) [vo; vi]) [(0, vo); (1, vi)].
Proof. exact plumb_correct_uncurry. Qed.
Print Assumptions C15_plumb_correct_uncurry.

Theorem C15_tuple_spec :
  forall (res : nat -> list (list val) -> val) (args : list val) (k : nat),
  args <> [] -> run_tuple res (FUEL + k) args = ROk args [].
Proof. exact tuple_spec. Qed.
Print Assumptions C15_tuple_spec.

Theorem C15_uncurry_curry_id :
  forall (res : nat -> list (list val) -> val) (s : sig) (a1 : val) (rest : list val) (k : nat),
  s_variadic s = false ->
  src_ok (names (s_params s)) (names (s_results s)) = true ->
  2 <= length (s_params s) ->
  length (a1 :: rest) = length (s_params s) ->
  run_roundtrip res hygienic (FUEL + k) s (prim_flat s) (a1 :: rest)
  = ROk (prim_results res (length (s_results s)) [a1 :: rest]) [(0, a1 :: rest)].
Proof. exact uncurry_curry_id. Qed.
Print Assumptions C15_uncurry_curry_id.

(* The original function returns a function [g] (any value: a primitive that would log its own
   application, a closure, ...): Uncurry, Curry and Uncurry of Curry hand exactly [g] to the caller,
   and the log holds the application(s) of the original function and nothing else: the function
   that f returns is a result of f, not a further level of currying ([res_const g]: the original
   function whose result is g). *)
Theorem C15_uncurry_hands_function_result_through :
  forall (g : val) (c : csig) (vo vi : list val) (k : nat),
  c_variadic c = false ->
  nodupb (filter bindable (names (c_outer c))) = true ->
  src_ok (names (c_inner c)) (names (c_results c)) = true ->
  length (c_outer c) = 1 ->
  length (c_results c) = 1 ->
  length vo = length (c_outer c) -> length vi = length (c_inner c) ->
  run_uncurry (res_const g) hygienic (FUEL + k) c (prim_curried c) (vo ++ vi)
  = ROk [g] [(0, vo); (1, vi)].
Proof. exact uncurry_hands_function_result_through. Qed.
Print Assumptions C15_uncurry_hands_function_result_through.

Theorem C15_roundtrip_hands_function_result_through :
  forall (g : val) (s : sig) (a1 : val) (rest : list val) (k : nat),
  s_variadic s = false ->
  src_ok (names (s_params s)) (names (s_results s)) = true ->
  2 <= length (s_params s) ->
  length (s_results s) = 1 ->
  length (a1 :: rest) = length (s_params s) ->
  run_roundtrip (res_const g) hygienic (FUEL + k) s (prim_flat s) (a1 :: rest)
  = ROk [g] [(0, a1 :: rest)]
  /\ run_curry (res_const g) hygienic (FUEL + k) s (prim_flat s) (a1 :: rest)
  = ROk [g] [(0, a1 :: rest)].
Proof. exact roundtrip_hands_function_result_through. Qed.
Print Assumptions C15_roundtrip_hands_function_result_through.

(* One derived function, several call sites: goderive identifies the function a call asks for by the
   types of its arguments only, so calls that pass functions of identical type and other parameter /
   result names (and, with --dedup, calls that ask for other function names) are served by the one
   function printed for the signature [s] that registered first.  Applied to an original function
   of any signature [t] of the same types it plumbs as the property demands of [t]; nothing is
   assumed about the names of [t]. *)
Theorem C15_shared_call_sites :
  forall (res : nat -> list (list val) -> val) (s t : sig) (k : nat),
  same_sig_types s t ->
  s_variadic s = false ->
  src_ok (names (s_params s)) (names (s_results s)) = true ->
  (forall a1 rest, 2 <= length (s_params s) -> length (a1 :: rest) = length (s_params t) ->
     run_curry res hygienic (FUEL + k) s (prim_flat t) (a1 :: rest)
     = ROk (prim_results res (length (s_results t)) [a1 :: rest]) [(0, a1 :: rest)])
  /\ (forall x1 x2 xs, length (x1 :: x2 :: xs) = length (s_params t) ->
     run_flip res hygienic (FUEL + k) s (prim_flat t) (x1 :: x2 :: xs)
     = ROk (prim_results res (length (s_results t)) [x2 :: x1 :: xs]) [(0, x2 :: x1 :: xs)])
  /\ (forall vs bound, length (vs ++ [bound]) = length (s_params t) ->
     run_apply res hygienic (FUEL + k) s (prim_flat t) (vs ++ [bound])
     = ROk (prim_results res (length (s_results t)) [vs ++ [bound]]) [(0, vs ++ [bound])])
  /\ (forall a1 rest, 2 <= length (s_params s) -> length (a1 :: rest) = length (s_params t) ->
     run_roundtrip res hygienic (FUEL + k) s (prim_flat t) (a1 :: rest)
     = ROk (prim_results res (length (s_results t)) [a1 :: rest]) [(0, a1 :: rest)]).
Proof. exact shared_call_sites. Qed.
Print Assumptions C15_shared_call_sites.

Theorem C15_shared_call_sites_uncurry :
  forall (res : nat -> list (list val) -> val) (c d : csig) (vo vi : list val) (k : nat),
  same_csig_types c d ->
  c_variadic c = false ->
  nodupb (filter bindable (names (c_outer c))) = true ->
  src_ok (names (c_inner c)) (names (c_results c)) = true ->
  length (c_outer c) = 1 ->
  length vo = length (c_outer d) -> length vi = length (c_inner d) ->
  run_uncurry res hygienic (FUEL + k) c (prim_curried d) (vo ++ vi)
  = ROk (prim_results res (length (c_results d)) [vo; vi]) [(0, vo); (1, vi)].
Proof. exact shared_uncurry. Qed.
Print Assumptions C15_shared_call_sites_uncurry.

(* derive.UnusedName: the loop `for isUsed(name) { name += "_" }` ends on a name that is not taken
   (within length taken rounds) *)
Theorem C15_unused_name_fresh :
  forall (n : name) (taken : list name), ~ In (unused_name n taken) taken.
Proof. exact unused_name_fresh. Qed.
Print Assumptions C15_unused_name_fresh.

(* derive/params.go, current tree (RenameClashingIdentifierWith): types and length kept; afterwards
   every parameter can be referred to and none has a taken name (a result, the other level of
   uncurry); pairwise distinct usable names stay pairwise distinct, whatever they look like;
   nothing changes unless a parameter is blank, unnamed or has a taken name *)
Theorem C15_rename_avoid_spec :
  forall (v : version) (c : Ascii.ascii) (pre' : string) (taken : list name) (ps : list (name * ty)),
  v_blank_empty v = true -> c <> "_"%char ->
  let out := rename_avoid v (String c pre') taken ps in
  map snd out = map snd ps
  /\ length out = length ps
  /\ forallb bindable (names out) = true
  /\ (forall x, In x (names out) -> ~ In x taken)
  /\ (NoDup (filter bindable (names ps)) -> NoDup (names out))
  /\ (needs_rename v taken ps = false -> out = ps).
Proof. exact rename_avoid_spec. Qed.
Print Assumptions C15_rename_avoid_spec.

(* derive/params.go before the last fix (each list renamed on its own), both earlier versions:
   types and length kept; no blank (fixed: nor unnamed) parameter remains; pairwise distinct
   usable names stay pairwise distinct; nothing changes when there is no blank parameter *)
Theorem C15_rename_blank_spec :
  forall (v : version) (c : Ascii.ascii) (pre' : string) (ps : list (name * ty)),
  c <> "_"%char ->
  let out := rename_blank v (String c pre') ps in
  map snd out = map snd ps
  /\ length out = length ps
  /\ Forall (fun n => is_blank v n = false) (names out)
  /\ (NoDup (filter (nonblank v) (names ps)) -> NoDup (names out))
  /\ (has_blank v ps = false -> out = ps).
Proof. exact rename_blank_spec. Qed.
Print Assumptions C15_rename_blank_spec.

(* pinned tree, repaired by repo-patches/C15-fix-unnamed-params.patch *)
Theorem C15_plumb_unnamed_refuted :
  run_curry res0 pinned FUEL w_unnamed (prim_flat w_unnamed) [v1; v2] = RIll
  /\ run_flip res0 pinned FUEL w_unnamed (prim_flat w_unnamed) [v1; v2] = RIll
  /\ run_apply res0 pinned FUEL w_unnamed (prim_flat w_unnamed) [v1; v2] = RIll
  /\ run_uncurry res0 pinned FUEL w_unnamed_c (prim_curried w_unnamed_c) [v1; v2; v3] = RIll
  /\ run_curry res0 fixed FUEL w_unnamed (prim_flat w_unnamed) [v1; v2] = ROk [VBase 0] [(0, [v1; v2])].
Proof. exact plumb_unnamed_refuted. Qed.
Print Assumptions C15_plumb_unnamed_refuted.

(* pinned tree, repaired by repo-patches/C15-fix-void-return.patch *)
Theorem C15_plumb_void_refuted :
  run_curry res0 pinned FUEL w_void (prim_flat w_void) [v1; v2] = RIll
  /\ run_flip res0 pinned FUEL w_void (prim_flat w_void) [v1; v2] = RIll
  /\ run_apply res0 pinned FUEL w_void (prim_flat w_void) [v1; v2] = RIll
  /\ run_uncurry res0 pinned FUEL w_void_c (prim_curried w_void_c) [v1; v2] = RIll
  /\ run_curry res0 fixed FUEL w_void (prim_flat w_void) [v1; v2] = ROk [] [(0, [v1; v2])].
Proof. exact plumb_void_refuted. Qed.
Print Assumptions C15_plumb_void_refuted.

(* the old naming (the wrapper's own parameter is always called f), repaired by
   repo-patches/C15-fix-1-param-named-f.patch: finding C15-param-named-f *)
Theorem C15_plumb_param_f_refuted :
  run_curry res0 fixed FUEL w_f_first (prim_flat w_f_first) [v1; v2] = RIll
  /\ run_flip res0 fixed FUEL w_f_last (prim_flat w_f_last) [v1; v2] = RIll
  /\ run_apply res0 fixed FUEL w_f_first (prim_flat w_f_first) [v1; v2] = RIll
  /\ run_apply res0 fixed FUEL w_f_last (prim_flat w_f_last) [v1; v2] = RIll
  /\ run_uncurry res0 fixed FUEL w_f_inner (prim_curried w_f_inner) [v1; v2] = RIll
  /\ run_curry res0 fixed FUEL w_f_result (prim_flat w_f_result) [v1; v2] = RIll
  /\ run_curry res0 hygienic FUEL w_f_first (prim_flat w_f_first) [v1; v2] = ROk [VBase 0] [(0, [v1; v2])]
  /\ run_flip res0 hygienic FUEL w_f_last (prim_flat w_f_last) [v1; v2] = ROk [VBase 0] [(0, [v2; v1])]
  /\ run_apply res0 hygienic FUEL w_f_last (prim_flat w_f_last) [v1; v2] = ROk [VBase 0] [(0, [v1; v2])]
  /\ run_uncurry res0 hygienic FUEL w_f_inner (prim_curried w_f_inner) [v1; v2] = ROk [VBase 0] [(0, [v1]); (1, [v2])]
  /\ run_curry res0 hygienic FUEL w_f_result (prim_flat w_f_result) [v1; v2] = ROk [VBase 0; VBase 1] [(0, [v1; v2])]
  /\ sig_fname hygienic w_f_first = "f_".
Proof. exact plumb_param_f_refuted. Qed.
Print Assumptions C15_plumb_param_f_refuted.

(* the old naming (each parameter list renamed on its own), repaired by
   repo-patches/C15-fix-2-uncurry-duplicate-names.patch: finding C15-uncurry-duplicate-names *)
Theorem C15_plumb_uncurry_dup_refuted :
  run_uncurry res0 fixed FUEL w_dup_a (prim_curried w_dup_a) [v1; v2] = RIll
  /\ run_uncurry res0 fixed FUEL w_dup_inner (prim_curried w_dup_inner) [v1; v2] = RIll
  /\ run_uncurry res0 fixed FUEL w_dup_param (prim_curried w_dup_param) [v1; v2] = RIll
  /\ run_uncurry res0 hygienic FUEL w_dup_a (prim_curried w_dup_a) [v1; v2] = ROk [VBase 0] [(0, [v1]); (1, [v2])]
  /\ run_uncurry res0 hygienic FUEL w_dup_inner (prim_curried w_dup_inner) [v1; v2] = ROk [VBase 0] [(0, [v1]); (1, [v2])]
  /\ run_uncurry res0 hygienic FUEL w_dup_param (prim_curried w_dup_param) [v1; v2] = ROk [VBase 0] [(0, [v1]); (1, [v2])]
  /\ outer_inner (add_uncurry hygienic w_dup_a) = Some (["param_0"], ["a"])
  /\ outer_inner (add_uncurry hygienic w_dup_inner) = Some (["param_0"], ["innerParam_0"])
  /\ outer_inner (add_uncurry hygienic w_dup_param) = Some (["param_0_"], ["param_0"]).
Proof. exact plumb_uncurry_dup_refuted. Qed.
Print Assumptions C15_plumb_uncurry_dup_refuted.

(* the old naming, same patch: a made-up parameter name is the name of a result; the outer parameter
   of uncurry is the name of an inner result or of the returned function *)
Theorem C15_plumb_result_clash_refuted :
  run_curry res0 fixed FUEL w_res_prefix (prim_flat w_res_prefix) [v1; v2] = RIll
  /\ run_flip res0 fixed FUEL w_res_prefix (prim_flat w_res_prefix) [v1; v2] = RIll
  /\ run_apply res0 fixed FUEL w_res_prefix (prim_flat w_res_prefix) [v1; v2] = RIll
  /\ run_uncurry res0 fixed FUEL w_outer_res (prim_curried w_outer_res) [v1; v2] = RIll
  /\ run_uncurry res0 fixed FUEL w_rname (prim_curried w_rname) [v1; v2] = RIll
  /\ run_curry res0 hygienic FUEL w_res_prefix (prim_flat w_res_prefix) [v1; v2] = ROk [VBase 0] [(0, [v1; v2])]
  /\ run_uncurry res0 hygienic FUEL w_outer_res (prim_curried w_outer_res) [v1; v2] = ROk [VBase 0] [(0, [v1]); (1, [v2])]
  /\ run_uncurry res0 hygienic FUEL w_rname (prim_curried w_rname) [v1; v2] = ROk [VBase 0] [(0, [v1]); (1, [v2])]
  /\ names (s_params (rename_sig hygienic "param_" w_res_prefix)) = ["param_0_"; "b"].
Proof. exact plumb_result_clash_refuted. Qed.
Print Assumptions C15_plumb_result_clash_refuted.
