(* Properties/C15.v — placeholder until the proofs land. *)
From Verif Require Import Base.
