(* Properties/C15.v — Curry, Uncurry, Flip, Apply, Tuple only re-plumb arguments.
   Only statements, each closed by `exact`, with Print Assumptions beneath.

   [run_<plugin> res fixed fuel s F args] (Plumb/Model.v) renames the parameters of s as
   derive/params.go does, builds the closure nest the plugin prints, and evaluates
   "derived wrapper applied to F and then to args" in a scoped environment; the answer is the
   list of returned values and the log of applications of the original function
   (level, argument vector).  [res j argss] is the j-th result of the original function.
   The guard [guardb ps rs]: the parameter names of all levels *after the generator's own
   renaming* are usable identifiers other than f, pairwise distinct and distinct from named
   results; no result is called f.  All theorems are about the tree with the two C15 fixes
   ([fixed]); FUEL + k is any sufficient amount of evaluator fuel. *)
From Coq Require Import String Ascii List.
From Verif Require Import Base Plumb.Model Plumb.Proofs.
Import ListNotations.
Open Scope string_scope.
Open Scope list_scope.

Theorem C15_plumb_correct_curry :
  forall (res : nat -> list (list val) -> val) (s : sig) (a1 : val) (rest : list val) (k : nat),
  s_variadic s = false ->
  guardb (names (rename_blank fixed "param_" (s_params s))) (names (s_results s)) = true ->
  2 <= length (s_params s) ->
  length (a1 :: rest) = length (s_params s) ->
  run_curry res fixed (FUEL + k) s (prim_flat s) (a1 :: rest)
  = ROk (prim_results res (length (s_results s)) [a1 :: rest]) [(0, a1 :: rest)].
Proof. exact plumb_correct_curry. Qed.
Print Assumptions C15_plumb_correct_curry.

Theorem C15_plumb_correct_flip :
  forall (res : nat -> list (list val) -> val) (s : sig) (x1 x2 : val) (xs : list val) (k : nat),
  s_variadic s = false ->
  guardb (names (rename_blank fixed "param_" (s_params s))) (names (s_results s)) = true ->
  length (x1 :: x2 :: xs) = length (s_params s) ->
  run_flip res fixed (FUEL + k) s (prim_flat s) (x1 :: x2 :: xs)
  = ROk (prim_results res (length (s_results s)) [x2 :: x1 :: xs]) [(0, x2 :: x1 :: xs)].
Proof. exact plumb_correct_flip. Qed.
Print Assumptions C15_plumb_correct_flip.

Theorem C15_plumb_correct_apply :
  forall (res : nat -> list (list val) -> val) (s : sig) (vs : list val) (bound : val) (k : nat),
  s_variadic s = false ->
  guardb (names (rename_blank fixed "param_" (s_params s))) (names (s_results s)) = true ->
  length (vs ++ [bound]) = length (s_params s) ->
  run_apply res fixed (FUEL + k) s (prim_flat s) (vs ++ [bound])
  = ROk (prim_results res (length (s_results s)) [vs ++ [bound]]) [(0, vs ++ [bound])].
Proof. exact plumb_correct_apply. Qed.
Print Assumptions C15_plumb_correct_apply.

Theorem C15_plumb_correct_uncurry :
  forall (res : nat -> list (list val) -> val) (c : csig) (vo vi : list val) (k : nat),
  c_variadic c = false ->
  guardb (names (rename_blank fixed "param_" (c_outer c)) ++
          names (rename_blank fixed "innerParam_" (c_inner c))) (names (c_results c)) = true ->
  bindable (c_rname c) = false ->
  length (c_outer c) = 1 ->
  length vo = length (c_outer c) -> length vi = length (c_inner c) ->
  run_uncurry res fixed (FUEL + k) c (prim_curried c) (vo ++ vi)
  = ROk (prim_results res (length (c_results c)) [vo; vi]) [(0, vo); (1, vi)].
Proof. exact plumb_correct_uncurry. Qed.
Print Assumptions C15_plumb_correct_uncurry.

Theorem C15_tuple_spec :
  forall (res : nat -> list (list val) -> val) (args : list val) (k : nat),
  args <> [] -> run_tuple res (FUEL + k) args = ROk args [].
Proof. exact tuple_spec. Qed.
Print Assumptions C15_tuple_spec.

Theorem C15_uncurry_curry_id :
  forall (res : nat -> list (list val) -> val) (s : sig) (a1 : val) (rest : list val) (k : nat),
  s_variadic s = false ->
  guardb (names (rename_blank fixed "param_" (s_params s))) (names (s_results s)) = true ->
  2 <= length (s_params s) ->
  length (a1 :: rest) = length (s_params s) ->
  run_roundtrip res fixed (FUEL + k) s (prim_flat s) (a1 :: rest)
  = ROk (prim_results res (length (s_results s)) [a1 :: rest]) [(0, a1 :: rest)].
Proof. exact uncurry_curry_id. Qed.
Print Assumptions C15_uncurry_curry_id.

(* derive/params.go, both versions: types and length kept; no blank (fixed: nor unnamed) parameter
   remains; pairwise distinct usable names stay pairwise distinct, whatever they look like;
   nothing changes when there is no blank parameter *)
Theorem C15_rename_blank_spec :
  forall (v : version) (c : Ascii.ascii) (pre' : string) (ps : list (name * ty)),
  c <> "_"%char ->
  let out := rename_blank v (String c pre') ps in
  map snd out = map snd ps
  /\ length out = length ps
  /\ Forall (fun n => is_blank v n = false) (names out)
  /\ (NoDup (filter (nonblank v) (names ps)) -> NoDup (names out))
  /\ (has_blank v ps = false -> out = ps).
Proof. exact rename_blank_spec. Qed.
Print Assumptions C15_rename_blank_spec.

(* every signature Go accepts whose results are unnamed or blank and in which nothing is called f is
   inside the guard of the four theorems above: named, blank, unnamed parameters and parameters
   that look like the generator's own param_N are all covered *)
Theorem C15_guard_from_source :
  forall (ps : list (name * ty)) (rs : list name),
  NoDup (filter (nonblank fixed) (names ps)) ->
  ~ In "f" (names ps) ->
  names_form rs = true -> filter bindable rs = [] ->
  guardb (names (rename_blank fixed "param_" ps)) rs = true.
Proof. exact guard_from_source. Qed.
Print Assumptions C15_guard_from_source.

(* pinned tree, repaired by repo-patches/C15-fix-unnamed-params.patch *)
Theorem C15_plumb_unnamed_refuted :
  run_curry res0 pinned FUEL w_unnamed (prim_flat w_unnamed) [v1; v2] = RIll
  /\ run_flip res0 pinned FUEL w_unnamed (prim_flat w_unnamed) [v1; v2] = RIll
  /\ run_apply res0 pinned FUEL w_unnamed (prim_flat w_unnamed) [v1; v2] = RIll
  /\ run_uncurry res0 pinned FUEL w_unnamed_c (prim_curried w_unnamed_c) [v1; v2; v3] = RIll
  /\ run_curry res0 fixed FUEL w_unnamed (prim_flat w_unnamed) [v1; v2] = ROk [VBase 0] [(0, [v1; v2])].
Proof. exact plumb_unnamed_refuted. Qed.
Print Assumptions C15_plumb_unnamed_refuted.

(* pinned tree, repaired by repo-patches/C15-fix-void-return.patch *)
Theorem C15_plumb_void_refuted :
  run_curry res0 pinned FUEL w_void (prim_flat w_void) [v1; v2] = RIll
  /\ run_flip res0 pinned FUEL w_void (prim_flat w_void) [v1; v2] = RIll
  /\ run_apply res0 pinned FUEL w_void (prim_flat w_void) [v1; v2] = RIll
  /\ run_uncurry res0 pinned FUEL w_void_c (prim_curried w_void_c) [v1; v2] = RIll
  /\ run_curry res0 fixed FUEL w_void (prim_flat w_void) [v1; v2] = ROk [] [(0, [v1; v2])].
Proof. exact plumb_void_refuted. Qed.
Print Assumptions C15_plumb_void_refuted.

(* open finding C15-param-named-f *)
Theorem C15_plumb_param_f_refuted :
  run_curry res0 fixed FUEL w_f_first (prim_flat w_f_first) [v1; v2] = RIll
  /\ run_flip res0 fixed FUEL w_f_last (prim_flat w_f_last) [v1; v2] = RIll
  /\ run_apply res0 fixed FUEL w_f_first (prim_flat w_f_first) [v1; v2] = RIll
  /\ run_apply res0 fixed FUEL w_f_last (prim_flat w_f_last) [v1; v2] = RIll
  /\ run_uncurry res0 fixed FUEL w_f_inner (prim_curried w_f_inner) [v1; v2] = RIll
  /\ run_curry res0 fixed FUEL w_f_result (prim_flat w_f_result) [v1; v2] = RIll.
Proof. exact plumb_param_f_refuted. Qed.
Print Assumptions C15_plumb_param_f_refuted.

(* open finding C15-uncurry-duplicate-names *)
Theorem C15_plumb_uncurry_dup_refuted :
  run_uncurry res0 fixed FUEL w_dup_a (prim_curried w_dup_a) [v1; v2] = RIll
  /\ run_uncurry res0 fixed FUEL w_dup_inner (prim_curried w_dup_inner) [v1; v2] = RIll
  /\ run_uncurry res0 fixed FUEL w_dup_param (prim_curried w_dup_param) [v1; v2] = RIll.
Proof. exact plumb_uncurry_dup_refuted. Qed.
Print Assumptions C15_plumb_uncurry_dup_refuted.
