(* Properties/C01.v — placeholder: theorems about the work list and the import table follow *)
From Verif Require Import Go.Ty Gen.Support.
Theorem C01_support_nonvacuous : dc_top (TP (TN 1 false (TSt [(false, TSl (TB KStr))]))) = true /\ dc_top (TP (TSt [(false, TSl (TB KStr))])) = false.
Proof. split; reflexivity. Qed.
Print Assumptions C01_support_nonvacuous.
