(* Properties/C01.v — successful generation yields a complete package.  The three mechanisms
   the statement names, as theorems about their models (that the emitted text type-checks is
   decided on samples by go vet in the correspondence run; see DESIGN.md §6 C01):
   the generate-until-done work list, the lazy import table, and — in Properties/C11.v — the
   name table (fresh unique helper names). *)
From Coq Require Import List String Bool Arith.
From Verif Require Import Gen.Worklist Gen.Imports.
From Verif Require Regen.Model Regen.Proofs Regen.Complete.
Import ListNotations.

(* "every helper needed transitively": whatever the helper-request relation of the plugins
   is, when the loop returns the generated functions are exactly the closure of the user's
   calls under it, each generated exactly once *)
Theorem C01_loop_complete :
  forall (key : Type) (key_eqb : key -> key -> bool), (forall a b, reflect (a = b) (key_eqb a b)) ->
  forall (requests : key -> list key) (plugin_of : key -> nat) (plugins : list nat) init fuel s',
  loop key key_eqb requests plugin_of plugins fuel (start key key_eqb init) = Some s' ->
  (forall k, In k (generated key s') <-> closure key requests init k) /\ NoDup (generated key s').
Proof. intros key key_eqb spec requests plugin_of plugins. exact (loop_complete key key_eqb spec requests plugin_of plugins). Qed.
Print Assumptions C01_loop_complete.

(* the loop ends: at most |universe| + 1 passes when the closure lies in a finite universe
   (the sub-terms of the user's argument types) *)
Theorem C01_loop_terminates :
  forall (key : Type) (key_eqb : key -> key -> bool), (forall a b, reflect (a = b) (key_eqb a b)) ->
  forall (requests : key -> list key) (plugin_of : key -> nat) (plugins : list nat),
  (forall k, In (plugin_of k) plugins) ->
  forall init universe, (forall k, closure key requests init k -> In k universe) ->
  exists s', loop key key_eqb requests plugin_of plugins (S (List.length universe)) (start key key_eqb init) = Some s'.
Proof. intros key key_eqb spec requests plugin_of plugins known. exact (loop_terminates key key_eqb spec requests plugin_of plugins known). Qed.
Print Assumptions C01_loop_terminates.

(* "imports exactly what it uses", bookkeeping part: an alias handed out denotes the requested
   path and keeps doing so; asking again gives the same alias; an alias never denotes two
   paths; the only failure is the explicit panic; every alias in the table was handed out *)
Theorem C01_import_sound : forall name path full t a t',
  use name path full t = IOk a t' -> lookup a t' = Some path /\ extends t t'.
Proof. exact use_sound. Qed.
Print Assumptions C01_import_sound.

Theorem C01_import_stable : forall name path full t a t1 t2,
  use name path full t = IOk a t1 -> extends t1 t2 -> use name path full t2 = IOk a t2.
Proof. exact use_stable. Qed.
Print Assumptions C01_import_stable.

Theorem C01_import_injective : forall t a p1 p2, lookup a t = Some p1 -> lookup a t = Some p2 -> p1 = p2.
Proof. exact alias_functional. Qed.
Print Assumptions C01_import_injective.

Theorem C01_import_crash_iff : forall name path full t,
  use name path full t = ICrash <->
  exists p p2, lookup name t = Some p /\ p <> path /\ lookup full t = Some p2 /\ p2 <> path.
Proof. exact use_crash_iff. Qed.
Print Assumptions C01_import_crash_iff.

Theorem C01_imports_are_used : forall calls t as_ t',
  run calls t = Some (as_, t') ->
  forall a p, lookup a t' = Some p -> lookup a t = Some p \/ In a as_.
Proof. exact run_aliases_used. Qed.
Print Assumptions C01_imports_are_used.

(* "every derive call, including calls nested in other derive calls, ... resolves to exactly one
   generated function that accepts its arguments", also when types "only become inferable after an
   earlier generation pass": in the model of the write / reload / retry loop (Regen/Model.v, the one
   C07 is about), on every well-formed package and whatever derived.gen.go held before, the run
   succeeds within max(1, nesting depth) passes and the output has, for every call, an entry with
   the call's plugin, name and argument type, and no other entry of that name ... *)
Theorem C01_every_call_resolves_to_one_function :
  forall (p : Regen.Model.package) (old : Regen.Model.disk), Regen.Model.wf p = true ->
  forall c, In c (Regen.Model.calls p) ->
  exists n es t,
    Regen.Model.regen Regen.Model.fixed p old = Regen.Model.ROk (Some es) n /\
    n <= Nat.max 1 (Regen.Model.max_depth p) /\
    Regen.Model.ety (Regen.Model.ca c) = Some t /\
    In (Regen.Model.mkEntry (Regen.Model.ck c) (Regen.Model.cn c) t) es /\
    (forall e, In e es -> Regen.Model.en e = Regen.Model.cn c ->
               e = Regen.Model.mkEntry (Regen.Model.ck c) (Regen.Model.cn c) t).
Proof. exact Regen.Complete.regen_resolves_every_call. Qed.
Print Assumptions C01_every_call_resolves_to_one_function.

(* ... and nothing is generated that no call asks for *)
Theorem C01_only_what_is_called :
  forall (p : Regen.Model.package) (old : Regen.Model.disk), Regen.Model.wf p = true ->
  forall n es, Regen.Model.regen Regen.Model.fixed p old = Regen.Model.ROk (Some es) n ->
  forall e, In e es -> exists c, In c (Regen.Model.calls p) /\ Regen.Model.ck c = Regen.Model.ek e /\
    Regen.Model.cn c = Regen.Model.en e /\ Regen.Model.ety (Regen.Model.ca c) = Some (Regen.Model.et e).
Proof. exact Regen.Complete.regen_only_what_is_called. Qed.
Print Assumptions C01_only_what_is_called.
