(* Properties/C04.v — placeholder until HashProofs is in place *)
From Verif Require Import Go.Ty Go.Val Go.Hash.
Theorem C04_nonvacuous : hash_model (TB KF64) (VF true 0) = hash_model (TB KF64) (VF false 0).
Proof. vm_compute. reflexivity. Qed.
Print Assumptions C04_nonvacuous.
