(* Properties/C04.v — derived Hash is a function of the value that respects Equal.
   Statements only; proofs in Go/HashProofs.v. *)
From Verif Require Import Go.Ty Go.Val Go.Equal Go.Compare Go.Hash Go.HashProofs Go.Invariance Go.HashTotal Go.HashPrivKeys.
From Coq Require Import Permutation.

(* For every type and all well-typed values: structurally equal values (a value and its clone,
   equal contents at different addresses, maps populated in different orders, slices with
   different spare capacity, +0 and -0) have the same hash — also when the generator refuses
   the type (both sides are then the same refusal). *)
Theorem C04_hash_respects_equal : forall e t x y,
  has_type e t x = true -> has_type e t y = true ->
  spec_eq e t x y = Some true -> hashm e t x = hashm e t y.
Proof. exact hash_respects_equal. Qed.
Print Assumptions C04_hash_respects_equal.

(* ... in particular for values the generated Equal considers equal *)
Theorem C04_hash_respects_derived_equal : forall t x y,
  has_type [] t x = true -> has_type [] t y = true ->
  Equal.eqm [] Top t x y = Ok true -> hash_model t x = hash_model t y.
Proof. exact hash_respects_derived_equal. Qed.
Print Assumptions C04_hash_respects_derived_equal.

(* the pinned tree: floats hashed by bit pattern (fixed by 805fd63) *)
Theorem C04_hash_negzero_old_refuted :
  spec_eq [] (TB KF64) (VF false 0) (VF true 0) = Some true
  /\ fbits_old 64 false 0 <> fbits_old 64 true 0
  /\ hash_model (TB KF64) (VF false 0) = hash_model (TB KF64) (VF true 0).
Proof. exact hash_negzero_old_refuted. Qed.
Print Assumptions C04_hash_negzero_old_refuted.

(* the pinned tree: Equal ignored nil-ness of []byte fields, Hash does not (fixed by 703d315) *)
Theorem C04_hash_bytes_old_refuted :
  bytes_equal_old VNilS (VSl 1 [] []) = Ok true
  /\ hash_model (TSt [(false, TSl (TB (KInt 8 false)))]) (VSt [VNilS])
     <> hash_model (TSt [(false, TSl (TB (KInt 8 false)))]) (VSt [VSl 1 [] []]).
Proof. exact hash_bytes_old_refuted. Qed.
Print Assumptions C04_hash_bytes_old_refuted.

(* The model is defined on every well-typed value: a number, or the generator's refusal of the type
   (a map key type that cannot be sorted) - never a panic, never "stuck".  The equations above are
   therefore equations between numbers for every supported type. *)
Theorem C04_hash_total : forall e t x, has_type e t x = true ->
  (exists n, hashm e t x = Ok n) \/ hashm e t x = Unsup.
Proof. exact hash_total. Qed.
Print Assumptions C04_hash_total.

(* clause by clause: equal contents at different addresses, slices with different spare capacity
   (erase forgets every address label and every spare element) ... *)
Theorem C04_hash_ignores_addresses_and_capacity : forall e t x y,
  has_type e t x = true -> has_type e t y = true -> erase x = erase y -> hashm e t x = hashm e t y.
Proof. exact hash_erase. Qed.
Print Assumptions C04_hash_ignores_addresses_and_capacity.

Theorem C04_hash_of_relocated_copy : forall e t x, has_type e t x = true -> hashm e t (erase x) = hashm e t x.
Proof. exact hash_of_erased. Qed.
Print Assumptions C04_hash_of_relocated_copy.

(* ... maps populated in different orders ... *)
Theorem C04_hash_ignores_map_order : forall e t l l' xm xm',
  has_type e t (VMap l xm) = true -> has_type e t (VMap l' xm') = true ->
  Permutation xm xm' -> hashm e t (VMap l xm) = hashm e t (VMap l' xm').
Proof. exact hash_map_perm. Qed.
Print Assumptions C04_hash_ignores_map_order.

(* ... +0 and -0 *)
Theorem C04_hash_zero_sign : forall k (n1 n2 : bool),
  (k = KF32 \/ k = KF64) -> hashm [] (TB k) (VF n1 0) = hashm [] (TB k) (VF n2 0).
Proof. exact hash_zero_sign. Qed.
Print Assumptions C04_hash_zero_sign.

(* Keys that hash alike: plugin/hash leaves the unexported fields of an imported struct out, so the keys
   k0, k1, k2 of map[ext.E4]string (E4 = struct{ f0 int; f1 string }) all hash to 17.  Every insertion
   order of the same entries gives one hash (instances of C04_hash_ignores_map_order) ... *)
Theorem C04_hash_tied_keys_any_insertion_order :
  hash_model ME4 (VMap 1 [(k0, va); (k1, vb); (k2, vc)]) = hash_model ME4 (VMap 2 [(k2, vc); (k1, vb); (k0, va)])
  /\ hash_model ME4 (VMap 1 [(k0, va); (k1, vb); (k2, vc)]) = hash_model ME4 (VMap 3 [(k1, vb); (k2, vc); (k0, va)])
  /\ exists n, hash_model ME4 (VMap 1 [(k0, va); (k1, vb); (k2, vc)]) = Ok n.
Proof. exact priv_keys_orders. Qed.
Print Assumptions C04_hash_tied_keys_any_insertion_order.

(* ... although which key holds which value is part of the hash: the keys are told apart by derived
   Compare (which reads the unexported fields), not by their hashes. *)
Theorem C04_hash_tied_keys_are_ordered_by_compare :
  hash_model ME4 (VMap 1 [(k0, va); (k1, vb)]) <> hash_model ME4 (VMap 1 [(k0, vb); (k1, va)])
  /\ has_type [] ME4 (VMap 1 [(k0, va); (k1, vb)]) = true
  /\ Compare.cmpm [] E4 k0 k1 = Ok (-1)%Z /\ Compare.cmpm [] E4 k1 k0 = Ok 1%Z.
Proof. exact priv_keys_order_matters. Qed.
Print Assumptions C04_hash_tied_keys_are_ordered_by_compare.
