(* Eval16.v — evaluation of C16 observations (stub: replaced when C16 is built). *)
From Verif Require Import Base Sexp.
Open Scope string_scope.

Definition eval16 (e : sexp) : verdict := bad_line.
