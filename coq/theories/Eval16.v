(* Eval16.v — evaluation of C16 observations: real vs model (Chain.v, Zero.v) and real vs
   specification (the right-hand sides of the theorems in Chain/ChainProofs.v, computed from the
   failure placement without running the model).

   Values are ids in Z: 0 is "the zero value of the slot's type" (nil pointer, nil map, 0, "" ...),
   ids >= 1 are non-zero values.  The instrumented stage functions of the harness produce ids >= 1,
   except for the results named by a zero mask (composez) and for gval = 0 / list elements 0 /
   arguments 0, which stand for a stage that returns a zero value next to a nil error.  Errors are identity tags: 0 = nil, 1 and 2 the two
   sentinel errors (same text, different pointers), 9 anything else.

   Observation lines (REAL is what the driver saw, or the symbol panic):
     (compose (a0 .. an) (e0 .. e(n-1)) (args) (ret (res) err ((stage arg ..) ..)))
     (composez (a0 .. an) (e0 .. e(n-1)) (z0 .. z(n-1)) (args) (ret ..))   bit j of zi: result j of stage i is 0
     (fmap ARITY gerr gval (ret RES err log))         RES = (res) | nil | (tuple (res) (res))
     (bind gerr gval ferr (ret (res) err log))
     (join N err ferr conv (ret (res) err log))
     (traverse (ids) ((id tag) ..) (ret nil|(res) err (visited ids)))
     (toerror NOUT (args) success errtag (ret (outs) err ((args))))
     (toerrorp NOUT (name ..) (args) success errtag (ret ..))    name .. = the parameter names of f (symbols);
                                   a call of a function-valued ARGUMENT shows in the log as (-9 id)
     (zero KIND NAMED LIT)
     (ir (a0 .. an) (STMT ..))     the body of a generated deriveCompose, translated by the harness:
                                   STMT = (call ((i j) ..) ev fn ((i j) ..)) | (iferr ev nzeros) | (ret ((i j) ..))
                                   variables numbered by where they are defined, not by name   *)
From Verif Require Import Base Sexp Fmap.
From Verif.Chain Require Import Chain ChainProofs Zero ComposeIR.
From Verif.Chain Require ToErrorText.
From Verif.Plumb Require Model.
Open Scope string_scope.

(* ---- the instrumented stages of the harness ---- *)
Fixpoint wsum (k : Z) (a : list Z) : Z :=
  match a with
  | [] => 0
  | x :: t => (k * x + wsum (k + 1) t)%Z
  end.

(* result j of stage i on argument vector a: never 0 *)
Definition mix (i j : nat) (a : list Z) : Z :=
  (1 + (31 * Z.of_nat i + 7 * Z.of_nat j + 3 * wsum 1 a) mod 97)%Z.

Definition err_of (z : Z) : option Z := if (z =? 0)%Z then None else Some z.
Definition err_z (o : option Z) : Z := match o with None => 0%Z | Some e => e end.

Definition hvals (i nres : nat) (a : list Z) : list Z := map (fun j => mix i j a) (seq 0 nres).

(* with a zero mask: result j is the zero value when bit j of the mask is set *)
Definition hvalsz (i nres : nat) (mask : Z) (a : list Z) : list Z :=
  map (fun j => if Z.testbit mask (Z.of_nat j) then 0%Z else mix i j a) (seq 0 nres).

(* a stage returns its (junk, non-zero) values next to the error it is configured to report *)
Definition hstage (i nres : nat) (etag : Z) : @stage Z Z := fun a => (hvals i nres a, err_of etag).
Definition hstagez (i nres : nat) (mask etag : Z) : @stage Z Z := fun a => (hvalsz i nres mask a, err_of etag).

Fixpoint hstages (i : nat) (ar : list nat) (errs : list Z) : list (@stage Z Z) :=
  match ar, errs with
  | nres :: ar', e :: errs' => hstage i nres e :: hstages (S i) ar' errs'
  | _, _ => []
  end.

Fixpoint hstagesz (i : nat) (ar : list nat) (errs zs : list Z) : list (@stage Z Z) :=
  match ar, errs, zs with
  | nres :: ar', e :: errs', z :: zs' => hstagez i nres z e :: hstagesz (S i) ar' errs' zs'
  | _, _, _ => []
  end.

(* ---- printing ---- *)
Definition log_sexp (lg : list (nat * list Z)) : sexp :=
  L (map (fun '(i, a) => L (of_nat i :: map Num a)) lg).

Definition ret3 (res : sexp) (e : option Z) (lg : sexp) : sexp :=
  L [Sym "ret"; res; Num (err_z e); lg].

Definition cout_sexp (c : @cout Z Z) : sexp := ret3 (of_zs (c_res c)) (c_err c) (log_sexp (c_log c)).

Definition digit (n : nat) : string :=
  match n with
  | 0 => "0" | 1 => "1" | 2 => "2" | 3 => "3" | 4 => "4" | 5 => "5" | 6 => "6" | 7 => "7"
  | 8 => "8" | _ => "9+"
  end%nat.

Definition mk (tag : string) (model spec real : sexp) : verdict :=
  {| v_known := true; v_model_ok := sexp_eqb model real; v_spec_ok := sexp_eqb spec real;
     v_guard := true; v_model := model; v_tag := tag |}.

(* ---- compose ---- *)
Fixpoint first_fail (k : nat) (errs : list Z) : option (nat * Z) :=
  match errs with
  | [] => None
  | e :: t => if (e =? 0)%Z then first_fail (S k) t else Some (k, e)
  end.

Definition get_nats (e : sexp) : option (list nat) := option_map (map Z.to_nat) (get_zs e).

Definition eval_composez (ar errs zs args real : sexp) : verdict :=
  match get_nats ar, get_zs errs, get_zs zs, get_zs args with
  | Some (a0 :: ar'), Some es, Some ms, Some a =>
      if negb (Nat.eqb (length ar') (length es) && Nat.eqb (length ms) (length es) &&
               Nat.eqb a0 (length a) && Nat.leb 1 (length es))
      then bad_line else
      let fs := hstagesz 0 ar' es ms in
      let zt := (if existsb (fun x => negb (x =? 0)%Z) ms then "+zero-results" else "") ++
                (if existsb (fun x => (x =? 0)%Z) a then "+zero-args" else "") in
      let nfinal := last ar' 0%nat in
      let model := cout_sexp (compose 0%Z fs nfinal a) in
      let ins := inputs fs a in
      match first_fail 0 es with
      | Some (k, e) =>
          let later := existsb (fun x => negb (x =? 0)%Z) (skipn (S k) es) in
          mk ("compose/n" ++ digit (length es) ++ "/fail@" ++ digit k ++ (if later then "+later" else "") ++ zt)
             model
             (ret3 (of_zs (repeat 0%Z nfinal)) (Some e)
                   (log_sexp (combine (seq 0 (S k)) (firstn (S k) ins))))
             real
      | None =>
          mk ("compose/n" ++ digit (length es) ++ "/ok" ++ zt) model
             (ret3 (of_zs (seq_compose fs a)) None (log_sexp (combine (seq 0 (length fs)) ins)))
             real
      end
  | _, _, _, _ => bad_line
  end.

Definition eval_compose (ar errs args real : sexp) : verdict :=
  match get_zs errs with
  | Some es => eval_composez ar errs (of_zs (repeat 0%Z (length es))) args real
  | None => bad_line
  end.

(* ---- fmap ---- *)
Definition gstage (gerr gval : Z) : @stage Z Z := fun _ => ([gval], err_of gerr).

Definition thunk_sexp (t : thunk (list Z)) : option sexp :=
  match t with
  | ThNil => Some (Sym "nil")
  | _ => match thunk_call t, thunk_call t with      (* the driver calls the func twice *)
         | Ret a, Ret b => Some (L [Sym "tuple"; of_zs a; of_zs b])
         | _, _ => None
         end
  end.

Definition eval_fmap (arity gerr gval real : sexp) : verdict :=
  match get_nat arity, get_num gerr, get_num gval with
  | Some n, Some ge, Some gv =>
      let g := gstage ge gv in
      let f := fun v => hvals 1 n v in
      let model :=
        match n with
        | 0%nat => cout_sexp (fmap0 (fun _ => tt) g)
        | 1%nat => cout_sexp (fmap1 0%Z (fun v => mix 1 0 v) g)
        | _ => let '(th, e, lg) := fmapN f g in
               match thunk_sexp th with
               | Some s => ret3 s e (log_sexp lg)
               | None => Sym "panic"
               end
        end in
      let spec :=
        if (ge =? 0)%Z then
          ret3 (match n with
                | 0%nat => L []
                | 1%nat => of_zs (f [gv])
                | _ => L [Sym "tuple"; of_zs (f [gv]); of_zs (f [gv])]
                end) None (log_sexp [(0%nat, []); (1%nat, [gv])])
        else
          ret3 (match n with 0%nat => L [] | 1%nat => of_zs [0%Z] | _ => Sym "nil" end)
               (Some ge) (log_sexp [(0%nat, [])]) in
      mk ("fmap/arity" ++ digit n ++ (if (ge =? 0)%Z then "/ok" else "/g-fails") ++
          (if (gv =? 0)%Z then "+zero-value" else "")) model spec real
  | _, _, _ => bad_line
  end.

Definition eval_bind (gerr gval ferr real : sexp) : verdict :=
  match get_num gerr, get_num gval, get_num ferr with
  | Some ge, Some gv, Some fe =>
      let g := gstage ge gv in
      let f := hstage 1 1 fe in
      let model := match bind 0%Z 1 f g with Ret c => cout_sexp c | Panic => Sym "panic" end in
      let spec :=
        if (ge =? 0)%Z
        then ret3 (of_zs [mix 1 0 [gv]]) (err_of fe) (log_sexp [(0%nat, []); (1%nat, [gv])])
        else ret3 (of_zs [0%Z]) (Some ge) (log_sexp [(0%nat, [])]) in
      mk ((if (ge =? 0)%Z then (if (fe =? 0)%Z then "bind/ok" else "bind/f-fails") else "bind/g-fails") ++
          (if (gv =? 0)%Z then "+zero-value" else ""))
         model spec real
  | _, _, _ => bad_line
  end.

(* ---- join ---- *)
Definition eval_join (n err ferr conv real : sexp) : verdict :=
  match get_nat n, get_num err, get_num ferr, get_num conv with
  | Some n, Some e, Some fe, Some cv =>
      let vals := if negb (cv =? 0)%Z && negb (fe =? 0)%Z then repeat 0%Z n else hvals 0 n [] in
      let f : @stage Z Z := fun _ => (vals, err_of fe) in
      let model := cout_sexp (join 0%Z n f (err_of e)) in
      let spec :=
        if (e =? 0)%Z then ret3 (of_zs vals) (err_of fe) (log_sexp [(0%nat, [])])
        else ret3 (of_zs (repeat 0%Z n)) (Some e) (log_sexp []) in
      mk ("join/n" ++ digit n ++
          (if (e =? 0)%Z then (if (fe =? 0)%Z then "/ok" else if (cv =? 0)%Z then "/f-fails-junk" else "/f-fails")
           else "/err"))
         model spec real
  | _, _, _, _ => bad_line
  end.

(* ---- traverse ---- *)
Fixpoint lookup (x : Z) (tbl : list (Z * Z)) : Z :=
  match tbl with
  | [] => 0%Z
  | (k, v) :: t => if (k =? x)%Z then v else lookup x t
  end.

Definition get_pair (e : sexp) : option (Z * Z) :=
  match e with L [Num a; Num b] => Some (a, b) | _ => None end.

(* table entry 4: the element's result is the zero value of its type, with a nil error *)
Definition terr (tbl : list (Z * Z)) (x : Z) : Z := if (lookup x tbl =? 4)%Z then 0%Z else lookup x tbl.
Definition tval (tbl : list (Z * Z)) (x : Z) : Z := if (lookup x tbl =? 4)%Z then 0%Z else mix 0 0 [x].

Definition tstage (tbl : list (Z * Z)) (x : Z) : Z * option Z := (tval tbl x, err_of (terr tbl x)).

Definition gslice_sexp (s : gslice Z) : sexp :=
  match s with SNil => Sym "nil" | SList l => of_zs l end.

Fixpoint first_bad (tbl : list (Z * Z)) (seen todo : list Z) : option (list Z * Z) :=
  match todo with
  | [] => None
  | x :: t => if (terr tbl x =? 0)%Z then first_bad tbl (seen ++ [x])%list t
              else Some ((seen ++ [x])%list, terr tbl x)
  end.

Definition eval_traverse (ids tbl real : sexp) : verdict :=
  match get_zs ids, tbl with
  | Some l, L tl =>
      match map_opt get_pair tl with
      | Some tb =>
          let model := match traverse 0%Z (tstage tb) l with
                       | Ret (s, e, lg) => ret3 (gslice_sexp s) e (of_zs lg)
                       | Panic => Sym "panic"
                       end in
          match first_bad tb [] l with
          | Some (visited, e) =>
              mk ("traverse/len" ++ digit (length l) ++ "/fail@" ++ digit (length visited - 1) ++
                  (if existsb (fun x => (x =? 0)%Z) l then "+zero-elem" else ""))
                 model (ret3 (Sym "nil") (Some e) (of_zs visited)) real
          | None =>
              mk ("traverse/len" ++ digit (length l) ++ "/ok" ++
                  (if existsb (fun x => (x =? 0)%Z) l then "+zero-elem" else "") ++
                  (if existsb (fun x => (tval tb x =? 0)%Z) l then "+zero-result" else ""))
                 model (ret3 (of_zs (map (tval tb) l)) None (of_zs l)) real
          end
      | None => bad_line
      end
  | _, _ => bad_line
  end.

(* ---- toerror ---- *)
Definition eval_toerror (nout args success etag real : sexp) : verdict :=
  match get_nat nout, get_zs args, get_num success, get_num etag with
  | Some n, Some a, Some sc, Some et =>
      let ok := negb (sc =? 0)%Z in
      let f := fun x => (hvals 0 n x, ok) in
      let '(outs, e, lg) := toerror (err_of et) f a in
      let model := ret3 (of_zs outs) e (L (map of_zs lg)) in
      let spec := ret3 (of_zs (hvals 0 n a)) (if ok then None else err_of et) (L [of_zs a]) in
      mk ("toerror/n" ++ digit n ++ (if ok then "/true" else "/false") ++
          (if (et =? 0)%Z then "/nil-err" else "") ++
          (if existsb (fun x => (x =? 0)%Z) a then "+zero-args" else ""))
         model spec real
  | _, _, _, _ => bad_line
  end.

(* f's parameters carry names (symbols): the names the generated function chooses for itself are
   computed and resolved in the text model *)
Definition get_syms (e : sexp) : option (list string) :=
  match e with L l => map_opt (fun x => match x with Sym s => Some s | _ => None end) l | _ => None end.

Definition val_id (v : @ToErrorText.val Z Z) : Z :=
  match v with ToErrorText.VData z => z | _ => (-1)%Z end.

Definition eval_toerrorp (nout names args success etag real : sexp) : verdict :=
  match get_nat nout, get_syms names, get_zs args, get_num success, get_num etag with
  | Some n, Some ns, Some a, Some sc, Some et =>
      if negb (Verif.Plumb.Model.nodupb ns && Nat.eqb (length ns) (length a)) then bad_line else
      let ok := negb (sc =? 0)%Z in
      let ft := fun (_ : nat) (x : list (@ToErrorText.val Z Z)) =>
                  (map (@ToErrorText.VData Z Z) (hvals 0 n (map val_id x)), ok) in
      (* model: the printed text with the names the generator chooses, resolved scope by scope *)
      let model :=
        match ToErrorText.run ft (ToErrorText.gen ns n) (err_of et) 0 (map (@ToErrorText.VData Z Z) a) with
        | Some (outs, e, lg) =>
            ret3 (of_zs (map val_id outs)) e (L (map (fun l => of_zs (map val_id l)) lg))
        | None => Sym "stuck"
        end in
      let spec := ret3 (of_zs (hvals 0 n a)) (if ok then None else err_of et) (L [of_zs a]) in
      let own := fun p => existsb (String.eqb p) ns in
      mk ("toerror/n" ++ digit n ++ (if ok then "/true" else "/false") ++
          (if (et =? 0)%Z then "/nil-err" else "") ++
          (if existsb (fun x => (x =? 0)%Z) a then "+zero-args" else "") ++
          "+params-named" ++ (if own "err" then "-err" else "") ++ (if own "f" then "-f" else "") ++
          (if own "success" then "-success" else "") ++
          (if own "out0" || own "out1" || own "out2" then "-out" else "") ++
          (if own "err_" || own "f_" || own "success_" || own "out0_" then "-underscored" else ""))
         model spec real
  | _, _, _, _, _ => bad_line
  end.

(* ---- zero literals (structural: the literal text found in derived.gen.go) ---- *)
Definition shape_of (e : sexp) : option shape :=
  match e with
  | Sym s =>
      if String.eqb s "bool" then Some (SBasic BBool) else
      if String.eqb s "string" then Some (SBasic BString) else
      if String.eqb s "numeric" then Some (SBasic BNumeric) else
      if String.eqb s "unsafeptr" then Some (SBasic BUnsafePointer) else
      if String.eqb s "ptr" then Some SPtr else
      if String.eqb s "slice" then Some SSlice else
      if String.eqb s "map" then Some SMap else
      if String.eqb s "chan" then Some SChan else
      if String.eqb s "func" then Some SFunc else
      if String.eqb s "iface" then Some SIface else
      if String.eqb s "struct" then Some SStruct else
      if String.eqb s "array" then Some SArray else None
  | _ => None
  end.

Definition lit_of (e : sexp) : option lit :=
  match e with
  | Sym s =>
      if String.eqb s "nil" then Some LNil else
      if String.eqb s "zero" then Some LZero else
      if String.eqb s "empty" then Some LEmpty else
      if String.eqb s "false" then Some LFalse else
      if String.eqb s "composite" then Some (LComposite "T") else   (* the text is TypeString(t) ++ "{}" *)
      if String.eqb s "other" then Some (LComposite "?") else None
  | _ => None
  end.

Definition lit_sexp (l : lit) : sexp :=
  match l with
  | LNil => Sym "nil" | LZero => Sym "zero" | LEmpty => Sym "empty" | LFalse => Sym "false"
  | LComposite s => if String.eqb s "T" then Sym "composite" else Sym "other"
  end.

Definition eval_zero (kind nm real : sexp) : verdict :=
  match shape_of kind, get_num nm, lit_of real with
  | Some sh, Some n, Some l =>
      let t := {| named := negb (n =? 0)%Z; under := sh; tname := "T" |} in
      {| v_known := true;
         v_model_ok := sexp_eqb (lit_sexp (zero_literal t)) real;
         v_spec_ok := lit_ok l t;
         v_guard := true;
         v_model := lit_sexp (zero_literal t);
         v_tag := "zero/" ++ (match kind with Sym s => s | _ => "?" end) ++
                  (if (n =? 0)%Z then "" else "/named") |}
  | _, _, _ => bad_line
  end.

(* ---- the translated text of a generated deriveCompose (T) ---- *)
Definition vn_sexp (x : vname) : sexp := L [of_nat (fst x); of_nat (snd x)].
Definition stmt_sexp (st : stmt) : sexp :=
  match st with
  | SCall outs ev fn args => L [Sym "call"; L (map vn_sexp outs); of_nat ev; of_nat fn; L (map vn_sexp args)]
  | SIfErr ev nz => L [Sym "iferr"; of_nat ev; of_nat nz]
  | SRet vals => L [Sym "ret"; L (map vn_sexp vals)]
  end.

Definition get_vn (e : sexp) : option vname :=
  match e with L [Num a; Num b] => Some (Z.to_nat a, Z.to_nat b) | _ => None end.
Definition get_vns (e : sexp) : option (list vname) :=
  match e with L l => map_opt get_vn l | _ => None end.
Definition get_stmt (e : sexp) : option stmt :=
  match e with
  | L [Sym k; a; Num ev; Num fn; b] =>
      if String.eqb k "call" then
        match get_vns a, get_vns b with
        | Some outs, Some args => Some (SCall outs (Z.to_nat ev) (Z.to_nat fn) args)
        | _, _ => None
        end
      else None
  | L [Sym k; Num ev; Num nz] => if String.eqb k "iferr" then Some (SIfErr (Z.to_nat ev) (Z.to_nat nz)) else None
  | L [Sym k; a] => if String.eqb k "ret" then option_map SRet (get_vns a) else None
  | _ => None
  end.

(* error placements used to run the translated text: none, and each stage alone *)
Fixpoint placements (n k : nat) : list (list Z) :=
  match k with
  | O => [repeat 0%Z n]
  | S k' => (repeat 0%Z k' ++ [1%Z] ++ repeat 0%Z (n - k))%list :: placements n k'
  end.

Definition cout_eqb (a b : option (@cout Z Z)) : bool :=
  match a, b with
  | Some x, Some y => sexp_eqb (cout_sexp x) (cout_sexp y)
  | _, _ => false
  end.

Definition eval_ir (ar body : sexp) : verdict :=
  match get_nats ar, body with
  | Some (a0 :: ar'), L stmts =>
      match map_opt get_stmt stmts with
      | Some real =>
          let n := length ar' in
          let args := map Z.of_nat (seq 1 a0) in
          let nfinal := last ar' 0%nat in
          let expected := compose_body (a0 :: ar') in
          let same_meaning :=
            forallb (fun errs =>
                       let fs := hstages 0 ar' errs in
                       cout_eqb (exec 0%Z fs real (combine (vrow 0 a0) args) [] [])
                                (Some (compose 0%Z fs nfinal args)))
                    (placements n n) in
          {| v_known := true;
             v_model_ok := sexp_eqb (L (map stmt_sexp expected)) body;
             v_spec_ok := same_meaning;
             v_guard := true;
             v_model := L (map stmt_sexp expected);
             v_tag := "compose-text/n" ++ digit n |}
      | None => bad_line
      end
  | _, _ => bad_line
  end.

Definition eval16 (e : sexp) : verdict :=
  match e with
  | L (Sym k :: rest) =>
      match rest with
      | [ar; errs; args; real] =>
          if String.eqb k "compose" then eval_compose ar errs args real else
          if String.eqb k "fmap" then eval_fmap ar errs args real else
          if String.eqb k "bind" then eval_bind ar errs args real else
          bad_line
      | [n; err; ferr; conv; real] =>
          if String.eqb k "join" then eval_join n err ferr conv real else
          if String.eqb k "composez" then eval_composez n err ferr conv real else
          if String.eqb k "toerror" then eval_toerror n err ferr conv real else
          bad_line
      | [n; names; args; sc; et; real] =>
          if String.eqb k "toerrorp" then eval_toerrorp n names args sc et real else bad_line
      | [a; b; real] =>
          if String.eqb k "traverse" then eval_traverse a b real else
          if String.eqb k "zero" then eval_zero a b real else
          bad_line
      | [a; b] => if String.eqb k "ir" then eval_ir a b else bad_line
      | _ => bad_line
      end
  | _ => bad_line
  end.
