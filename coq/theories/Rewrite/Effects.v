(* Rewrite/Effects.v — C10: the file effects of newPackage / generatePackage
   (derive/generate.go), as the list of file operations they perform, for every outcome.
   The loader's answers (which calls a file contains, with which argument types, whether
   the package loads at all, what a reload after writing derived.gen.go reports) are inputs
   ("views"): theorems quantify over all of them.  go/format.Node and the text of
   derived.gen.go are Section variables (trusted library / other properties). *)
From Verif Require Import Base.
From Verif.Rewrite Require Import Files Tokens Names.

(* one derive-looking call expression `name(args...)` found by derive/find.go *)
Record call := {
  c_name : name;       (* the callee identifier as written by the user *)
  c_pos : nat;         (* token position of that identifier in its file *)
  c_ty : nat;          (* class of the argument type list *)
  c_base : name;       (* what newName derives from the first argument type *)
  c_valid : bool;      (* the plugin's Add accepts the argument list (arity, kinds) *)
  c_undef : bool;      (* call.HasUndefined(): an argument has no/invalid type yet *)
  c_genok : bool       (* the plugin can generate code for these types *)
}.

(* f_parses: the file's source parses without error (the loader tolerates syntax errors and
   hands out an error-recovered AST with Bad* nodes for the others) *)
Record file := { f_path : path; f_toks : list token; f_calls : list call; f_parses : bool }.

(* what the loader reports for the package: files exclude derived.gen.go and files dropped
   by build constraints; plugin prefixes come sorted longest first (sortPlugins);
   reserved = names of the package's own functions that are called somewhere *)
Record pkg := {
  p_loads : bool;
  p_plugins : list name;
  p_reserved : list name;
  p_files : list file
}.

Inductive gres (A : Type) := GOk (a : A) | GErr | GCrash.
Arguments GOk {A} a. Arguments GErr {A}. Arguments GCrash {A}.

Definition is_prefix (p n : name) : bool := bytes_eqb p (firstn (length p) n).

(* pkg.Add: the first plugin whose prefix is a prefix of the call's name *)
Fixpoint dispatch (plugins : list name) (n : name) : option nat :=
  match plugins with
  | [] => None
  | p :: r => if is_prefix p n then Some 0 else option_map S (dispatch r n)
  end.

Fixpoint set_at {A} (k : nat) (x : A) (l : list A) : list A :=
  match l, k with
  | [], _ => []
  | _ :: t, 0 => x :: t
  | h :: t, S k' => h :: set_at k' x t
  end.

Definition empty_tm : tmap := {| tm_prefix := []; tm_f2t := [] |}.

(* typesmaps (one per plugin), the renamings of the current file, pkg.undefined *)
Definition cstate := (list tmap * subst * list name)%type.

(* the body of `for _, call := range calls` in newPackage *)
Definition call_step (fl : flags) (plugins reserved : list name) (st : cstate) (c : call)
  : gres cstate :=
  let '(tms, sg, und) := st in
  if c_undef c then
    GOk (tms, sg, if existsb (fun p => is_prefix p (c_name c)) plugins
                  then und ++ [c_name c] else und)
  else
    match dispatch plugins (c_name c) with
    | None => GOk st                                     (* len(name) == 0: continue *)
    | Some k =>
        if negb (c_valid c) then GErr                    (* Add Error from the plugin *)
        else
          match set_func_name fl reserved (nth k tms empty_tm) (c_name c) (c_ty c) (c_base c) with
          | SOk n tm' =>
              let tms' := set_at k tm' tms in
              if bytes_eqb n (c_name c) then GOk (tms', sg, und)
              else if negb (autoname fl) && negb (dedup fl) then GCrash  (* panic("unreachable") *)
              else GOk (tms', sg ++ [(c_pos c, n)], und)  (* changed = true; call.Expr.Fun = ident n *)
          | _ => GErr                                     (* Add Error: ambiguous / conflicting *)
          end
    end.

Arguments call_step : simpl never.

Fixpoint calls_loop (fl : flags) (plugins reserved : list name) (st : cstate) (cs : list call)
  : gres cstate :=
  match cs with
  | [] => GOk st
  | c :: r => match call_step fl plugins reserved st c with
              | GOk st' => calls_loop fl plugins reserved st' r
              | e => e
              end
  end.

Section Model.
(* pg = true: the repaired code (repo-patches/C10-fix-no-rewrite-of-unparsable-file.patch)
   refuses to rewrite a file that does not parse; pg = false: the tree before that fix *)
Variable pg : bool.

Definition blocked (f : file) (sg : subst) : bool :=
  pg && negb (f_parses f) && match sg with [] => false | _ => true end.

(* The naming pass alone (no file operation): for each file processed completely, the
   substitution its calls received.  This is the specification side of "which calls are
   renamed": the effects below are proved to be exactly the writes it induces. *)
Fixpoint names_loop (fl : flags) (plugins reserved : list name) (tms : list tmap) (und : list name)
         (fs : list file) : list (file * subst) * gres (list tmap * list name) :=
  match fs with
  | [] => ([], GOk (tms, und))
  | f :: r =>
      match calls_loop fl plugins reserved (tms, [], und) (f_calls f) with
      | GOk (tms', sg, und') =>
          if blocked f sg then ([], GErr)       (* error returned instead of rewriting *)
          else let '(l, res) := names_loop fl plugins reserved tms' und' r in ((f, sg) :: l, res)
      | GErr => ([], GErr)
      | GCrash => ([], GCrash)
      end
  end.

Definition init_tms (plugins : list name) : list tmap :=
  map (fun p => {| tm_prefix := p; tm_f2t := [] |}) plugins.

Definition names_pass (fl : flags) (v : pkg) :=
  names_loop fl (p_plugins v) (p_reserved v) (init_tms (p_plugins v)) [] (p_files v).

(* AddError: newPackage returned an error (a plugin's Add Error, an ambiguous/conflicting
   name, or the refusal to rewrite an unparsable file) *)
Inductive outcome10 :=
| Success | LoadError | AddError | GeneratorError | CannotGenerate | Crash | OutOfViews.

Variable wm : wmode.                          (* how the user file is opened *)
Variable fmt : list token -> bytes.           (* go/format.Node *)
Variable gen_text : list tmap -> bytes.       (* the printer's derived.gen.go *)

Definition write_of (e : file * subst) : list op :=
  match snd e with
  | [] => []                                  (* changed = false *)
  | sg => [OWrite wm (f_path (fst e)) (fmt (rename sg (f_toks (fst e))))]
  end.

(* newPackage's `for _, fileInfo := range fileInfos`: the write happens inside the loop, so
   files before a failing one have already been rewritten when the error is returned *)
Fixpoint files_loop (fl : flags) (plugins reserved : list name) (tms : list tmap) (und : list name)
         (fs : list file) (ops : list op) : list op * gres (list tmap * list name) :=
  match fs with
  | [] => (ops, GOk (tms, und))
  | f :: r =>
      match calls_loop fl plugins reserved (tms, [], und) (f_calls f) with
      | GOk (tms', sg, und') =>
          if blocked f sg then (ops, GErr)
          else files_loop fl plugins reserved tms' und' r (ops ++ write_of (f, sg))
      | GErr => (ops, GErr)
      | GCrash => (ops, GCrash)
      end
  end.

Definition new_package (fl : flags) (v : pkg) :=
  files_loop fl (p_plugins v) (p_reserved v) (init_tms (p_plugins v)) [] (p_files v) [].

Definition has_content (tms : list tmap) : bool :=
  existsb (fun tm => match tm_f2t tm with [] => false | _ => true end) tms.

Definition gen_ok (v : pkg) : bool :=
  forallb (fun f => forallb (fun c => c_undef c || c_genok c) (f_calls f)) (p_files v).

Fixpoint names_eqb (a b : list name) : bool :=
  match a, b with
  | [], [] => true
  | x :: a', y :: b' => bytes_eqb x y && names_eqb a' b'
  | _, _ => false
  end.

(* pkg.Print (os.Create) when there is content, else pkg.Delete *)
Definition derived_op (generated : bool) (tms : list tmap) : op :=
  if generated then OCreate Derived (gen_text tms) else ORemove Derived.

(* generatePackage's `for generated { ... }`; [views] = the loader's successive answers *)
Fixpoint gen_loop (fl : flags) (views : list pkg) (prev : list name) : list op * outcome10 :=
  match views with
  | [] => ([], OutOfViews)
  | v :: rest =>
      match new_package fl v with
      | (o1, GErr) => (o1, AddError)
      | (o1, GCrash) => (o1, Crash)
      | (o1, GOk (tms, und)) =>
          if negb (gen_ok v) then (o1, GeneratorError)
          else
            let generated := has_content tms in
            let o2 := o1 ++ [derived_op generated tms] in
            match und with
            | [] => (o2, Success)
            | _ =>
                if names_eqb und prev then (o2, if generated then Success else CannotGenerate)
                else match rest with
                     | [] => (o2, OutOfViews)
                     | v' :: _ =>
                         if negb (p_loads v') then (o2, LoadError)      (* reload failed *)
                         else if negb generated then (o2, CannotGenerate)
                         else let '(o3, r) := gen_loop fl rest und in (o2 ++ o3, r)
                     end
            end
      end
  end.

(* main: Load, then generatePackage *)
Definition run (fl : flags) (views : list pkg) : list op * outcome10 :=
  match views with
  | [] => ([], OutOfViews)
  | v :: _ => if negb (p_loads v) then ([], LoadError) else gen_loop fl views []
  end.

(* ================= theorems ================= *)

(* ---- the unreachable panic is unreachable; without flags nothing is renamed ---- *)

Lemma call_step_no_crash fl plugins reserved st c :
  call_step fl plugins reserved st c <> GCrash.
Proof.
  destruct st as [[tms sg] und]. unfold call_step.
  destruct (c_undef c); [discriminate|].
  destruct (dispatch plugins (c_name c)) as [k|]; [|discriminate].
  destruct (negb (c_valid c)); [discriminate|].
  destruct (set_func_name fl reserved (nth k tms empty_tm) (c_name c) (c_ty c) (c_base c))
    as [n tm'| |] eqn:E; try discriminate.
  destruct (bytes_eqb n (c_name c)) eqn:En; [discriminate|].
  apply bytes_eqb_neq in En.
  destruct (rename_needs_flag _ _ _ _ _ _ _ _ E En) as [H|H]; rewrite H; cbn;
    [|rewrite andb_false_r]; discriminate.
Qed.

(* what a step does to the substitution *)
Lemma call_step_subst fl plugins reserved tms sg und c tms' sg' und' :
  call_step fl plugins reserved (tms, sg, und) c = GOk (tms', sg', und') ->
  sg' = sg \/
  exists n, sg' = sg ++ [(c_pos c, n)] /\ n <> c_name c /\ c_undef c = false /\
            (autoname fl = true \/ dedup fl = true).
Proof.
  unfold call_step. intro H.
  destruct (c_undef c) eqn:U; [inversion H; auto|].
  destruct (dispatch plugins (c_name c)) as [k|]; [|inversion H; auto].
  destruct (negb (c_valid c)); [discriminate|].
  destruct (set_func_name fl reserved (nth k tms empty_tm) (c_name c) (c_ty c) (c_base c))
    as [n tm'| |] eqn:E; try discriminate.
  destruct (bytes_eqb n (c_name c)) eqn:En; [inversion H; auto|].
  apply bytes_eqb_neq in En.
  destruct (negb (autoname fl) && negb (dedup fl)); [discriminate|].
  inversion H; subst. right. exists n. repeat split; auto.
  eapply rename_needs_flag; eassumption.
Qed.

Lemma calls_loop_no_crash fl plugins reserved cs : forall st,
  calls_loop fl plugins reserved st cs <> GCrash.
Proof.
  induction cs as [|c r IH]; intro st; cbn; [discriminate|].
  destruct (call_step fl plugins reserved st c) eqn:E; [apply IH|discriminate|].
  exfalso. eapply call_step_no_crash; eassumption.
Qed.

(* every entry of the resulting substitution is a call of this file, renamed under a flag *)
Definition renamed_entry (fl : flags) (cs : list call) (e : nat * bytes) : Prop :=
  exists c, In c cs /\ c_pos c = fst e /\ snd e <> c_name c /\ c_undef c = false /\
            (autoname fl = true \/ dedup fl = true).

Lemma calls_loop_subst fl plugins reserved cs : forall tms sg und tms' sg' und',
  calls_loop fl plugins reserved (tms, sg, und) cs = GOk (tms', sg', und') ->
  exists added, sg' = sg ++ added /\ Forall (renamed_entry fl cs) added.
Proof.
  induction cs as [|c r IH]; intros tms sg und tms' sg' und' H; cbn in H.
  - inversion H; subst. exists []. rewrite app_nil_r. auto.
  - destruct (call_step fl plugins reserved (tms, sg, und) c) as [[[t1 s1] u1]| |] eqn:E;
      try discriminate.
    apply IH in H as [added [Hs Hf]].
    assert (Hmono : Forall (renamed_entry fl (c :: r)) added).
    { eapply Forall_impl; [|exact Hf]. intros e [c0 [Hin Hr]]. exists c0. split; [right; exact Hin|exact Hr]. }
    apply call_step_subst in E as [E|[n [E [Hn [Hu Hfl]]]]]; subst.
    + exists added. auto.
    + exists ((c_pos c, n) :: added). rewrite <- app_assoc. split; [reflexivity|].
      constructor; [|exact Hmono]. exists c. cbn. repeat split; auto.
Qed.

Lemma calls_loop_noflags plugins reserved cs tms sg und tms' sg' und' :
  calls_loop {| autoname := false; dedup := false |} plugins reserved (tms, sg, und) cs
    = GOk (tms', sg', und') -> sg' = sg.
Proof.
  intro H. apply calls_loop_subst in H as [added [Hs Hf]]. subst.
  destruct added as [|e added]; [apply app_nil_r|].
  inversion Hf as [|? ? [c [_ [_ [_ [_ [Hfl|Hfl]]]]]] _]; discriminate.
Qed.

(* ---- effects = the writes induced by the naming pass ---- *)

Lemma files_loop_spec fl plugins reserved fs : forall tms und ops,
  files_loop fl plugins reserved tms und fs ops =
  (ops ++ flat_map write_of (fst (names_loop fl plugins reserved tms und fs)),
   snd (names_loop fl plugins reserved tms und fs)).
Proof.
  induction fs as [|f r IH]; intros tms und ops; cbn.
  - rewrite app_nil_r. reflexivity.
  - destruct (calls_loop fl plugins reserved (tms, [], und) (f_calls f)) as [[[t1 s1] u1]| |];
      cbn; try (rewrite app_nil_r; reflexivity).
    destruct (blocked f s1); [cbn; rewrite app_nil_r; reflexivity|].
    rewrite IH.
    destruct (names_loop fl plugins reserved t1 u1 r) as [l res]. cbn.
    rewrite <- app_assoc. reflexivity.
Qed.

Theorem new_package_spec fl v :
  new_package fl v = (flat_map write_of (fst (names_pass fl v)), snd (names_pass fl v)).
Proof. unfold new_package, names_pass. rewrite files_loop_spec. reflexivity. Qed.

Lemma names_loop_sound fl plugins reserved fs : forall tms und f sg,
  In (f, sg) (fst (names_loop fl plugins reserved tms und fs)) ->
  In f fs /\ Forall (renamed_entry fl (f_calls f)) sg.
Proof.
  induction fs as [|f0 r IH]; intros tms und f sg H; cbn in H; [contradiction|].
  destruct (calls_loop fl plugins reserved (tms, [], und) (f_calls f0)) as [[[t1 s1] u1]| |] eqn:E;
    cbn in H; try contradiction.
  destruct (blocked f0 s1); [contradiction|].
  destruct (names_loop fl plugins reserved t1 u1 r) as [l res] eqn:En. cbn in H.
  destruct H as [H|H].
  - inversion H; subst. split; [left; reflexivity|].
    apply calls_loop_subst in E as [added [Hs Hf]]. cbn in Hs. subst. exact Hf.
  - specialize (IH t1 u1 f sg). rewrite En in IH. destruct (IH H) as [H1 H2].
    split; [right; exact H1|exact H2].
Qed.

(* under the parse guard a file that does not parse is never renamed in (hence never written) *)
Lemma names_loop_parses fl plugins reserved fs : forall tms und f sg,
  pg = true -> In (f, sg) (fst (names_loop fl plugins reserved tms und fs)) -> sg <> [] ->
  f_parses f = true.
Proof.
  induction fs as [|f0 r IH]; intros tms und f sg Hpg H Hne; cbn in H; [contradiction|].
  destruct (calls_loop fl plugins reserved (tms, [], und) (f_calls f0)) as [[[t1 s1] u1]| |] eqn:E;
    cbn in H; try contradiction.
  destruct (blocked f0 s1) eqn:B; [contradiction|].
  destruct (names_loop fl plugins reserved t1 u1 r) as [l res] eqn:En. cbn in H.
  destruct H as [H|H].
  - inversion H; subst. unfold blocked in B. rewrite Hpg in B. cbn in B.
    destruct (f_parses f); [reflexivity|]. cbn in B. destruct sg; [congruence|discriminate].
  - specialize (IH t1 u1 f sg Hpg). rewrite En in IH. exact (IH H Hne).
Qed.

Lemma names_loop_no_crash fl plugins reserved fs : forall tms und,
  snd (names_loop fl plugins reserved tms und fs) <> GCrash.
Proof.
  induction fs as [|f r IH]; intros tms und; cbn; [discriminate|].
  destruct (calls_loop fl plugins reserved (tms, [], und) (f_calls f)) as [[[t1 s1] u1]| |] eqn:E;
    cbn; try discriminate.
  - destruct (blocked f s1); [discriminate|].
    specialize (IH t1 u1). destruct (names_loop fl plugins reserved t1 u1 r). exact IH.
  - exfalso. eapply calls_loop_no_crash; eassumption.
Qed.

Lemma names_loop_noflags plugins reserved fs : forall tms und f sg,
  In (f, sg) (fst (names_loop {| autoname := false; dedup := false |} plugins reserved tms und fs)) ->
  sg = [].
Proof.
  intros tms und f sg H. apply names_loop_sound in H as [_ H].
  destruct sg as [|e sg]; [reflexivity|].
  inversion H as [|? ? [c [_ [_ [_ [_ [Hfl|Hfl]]]]]] _]; discriminate.
Qed.

(* a user file is written iff the naming pass renamed one of its calls *)
Theorem new_package_writes : forall fl v o,
  In o (fst (new_package fl v)) <->
  exists f sg, In (f, sg) (fst (names_pass fl v)) /\ sg <> [] /\
               o = OWrite wm (f_path f) (fmt (rename sg (f_toks f))).
Proof.
  intros fl v o. rewrite new_package_spec. cbn. rewrite in_flat_map. split.
  - intros [[f sg] [Hin Ho]]. unfold write_of in Ho. cbn in Ho.
    destruct sg as [|e sg]; [contradiction|]. destruct Ho as [Ho|[]].
    exists f, (e :: sg). repeat split; [exact Hin|discriminate|symmetry; exact Ho].
  - intros [f [sg [Hin [Hne Ho]]]]. exists (f, sg). split; [exact Hin|].
    unfold write_of. cbn. destruct sg; [congruence|]. left. symmetry. exact Ho.
Qed.

Theorem new_package_noflags_no_ops : forall v,
  fst (new_package {| autoname := false; dedup := false |} v) = [].
Proof.
  intro v. rewrite new_package_spec. cbn. unfold names_pass.
  assert (H := names_loop_noflags (p_plugins v) (p_reserved v) (p_files v)
                 (init_tms (p_plugins v)) []).
  induction (fst (names_loop {| autoname := false; dedup := false |} (p_plugins v) (p_reserved v)
                 (init_tms (p_plugins v)) [] (p_files v))) as [|[f sg] l IH]; [reflexivity|].
  cbn. rewrite (H f sg) by (left; reflexivity). cbn. apply IH.
  intros f' sg' Hin. apply (H f' sg'). right. exact Hin.
Qed.

Theorem new_package_no_crash : forall fl v, snd (new_package fl v) <> GCrash.
Proof. intros fl v. rewrite new_package_spec. cbn. apply names_loop_no_crash. Qed.

(* ---- the whole run, over every sequence of loader answers ---- *)

(* every operation of a run is the create/remove of derived.gen.go or the rewrite of a file
   in which the naming pass of some processed view renamed a call *)
Definition allowed_op (fl : flags) (views : list pkg) (o : op) : Prop :=
  op_path o = Derived \/
  exists v f sg, In v views /\ In (f, sg) (fst (names_pass fl v)) /\ sg <> [] /\
                 o = OWrite wm (f_path f) (fmt (rename sg (f_toks f))).

Lemma allowed_op_mono fl v views o : allowed_op fl views o -> allowed_op fl (v :: views) o.
Proof.
  intros [H|[v0 [f [sg [H1 H2]]]]]; [left; exact H|].
  right. exists v0, f, sg. split; [right; exact H1|exact H2].
Qed.

Lemma gen_loop_allowed fl views : forall prev o,
  In o (fst (gen_loop fl views prev)) -> allowed_op fl views o.
Proof.
  induction views as [|v rest IH]; intros prev o H; cbn in H; [contradiction|].
  assert (Hnp : forall o, In o (fst (new_package fl v)) -> allowed_op fl (v :: rest) o).
  { intros o' Ho. apply new_package_writes in Ho as [f [sg [H1 [H2 H3]]]].
    right. exists v, f, sg. split; [left; reflexivity|auto]. }
  destruct (new_package fl v) as [o1 [[tms und]| |]] eqn:Enp; cbn in Hnp;
    try (cbn in H; apply Hnp; exact H).
  assert (Hd : forall g, allowed_op fl (v :: rest) (derived_op g tms)).
  { intro g. left. unfold derived_op. destruct g; reflexivity. }
  destruct (negb (gen_ok v)); [cbn in H; apply Hnp; exact H|].
  assert (Ho2 : In o (o1 ++ [derived_op (has_content tms) tms]) -> allowed_op fl (v :: rest) o).
  { intro Hi. apply in_app_or in Hi as [Hi|[Hi|[]]]; [apply Hnp; exact Hi|subst; apply Hd]. }
  destruct und as [|u und]; [cbn in H; auto|].
  destruct (names_eqb (u :: und) prev); [cbn in H; auto|].
  destruct rest as [|v' rest']; [cbn in H; auto|].
  destruct (negb (p_loads v')); [cbn in H; auto|].
  destruct (negb (has_content tms)); [cbn in H; auto|].
  destruct (gen_loop fl (v' :: rest') (u :: und)) as [o3 r] eqn:E3. cbn in H.
  apply in_app_or in H as [H|H]; [auto|].
  apply allowed_op_mono. apply (IH (u :: und)). rewrite E3. exact H.
Qed.

Theorem run_allowed : forall fl views o, In o (fst (run fl views)) -> allowed_op fl views o.
Proof.
  intros fl views o H. unfold run in H. destruct views as [|v rest]; [contradiction|].
  destruct (negb (p_loads v)); [contradiction|]. eapply gen_loop_allowed; exact H.
Qed.

(* the writes of the first pass do happen, whatever comes later (the converse direction) *)
Lemma gen_loop_first fl v rest prev o :
  In o (fst (new_package fl v)) -> In o (fst (gen_loop fl (v :: rest) prev)).
Proof.
  intro H. cbn. destruct (new_package fl v) as [o1 [[tms und]| |]]; cbn in *; try exact H.
  destruct (negb (gen_ok v)); [exact H|].
  assert (H2 : In o (o1 ++ [derived_op (has_content tms) tms])) by (apply in_or_app; left; exact H).
  destruct und as [|u und]; [exact H2|].
  destruct (names_eqb (u :: und) prev); [exact H2|].
  destruct rest as [|v' rest']; [exact H2|].
  destruct (negb (p_loads v')); [exact H2|].
  destruct (negb (has_content tms)); [exact H2|].
  destruct (gen_loop fl (v' :: rest') (u :: und)). cbn. apply in_or_app. left. exact H2.
Qed.

Theorem run_first_pass_writes : forall fl v rest f sg,
  p_loads v = true -> In (f, sg) (fst (names_pass fl v)) -> sg <> [] ->
  In (OWrite wm (f_path f) (fmt (rename sg (f_toks f)))) (fst (run fl (v :: rest))).
Proof.
  intros fl v rest f sg Hl Hin Hne. unfold run. rewrite Hl. cbn [negb].
  apply gen_loop_first. apply new_package_writes. exists f, sg. auto.
Qed.

(* without flags: only derived.gen.go, on every outcome *)
Theorem touched_without_flags : forall views p,
  In p (touched (fst (run {| autoname := false; dedup := false |} views))) -> p = Derived.
Proof.
  intros views p H. unfold touched in H. apply in_map_iff in H as [o [Hp Ho]].
  apply run_allowed in Ho as [Hd|[v [f [sg [_ [Hin [Hne _]]]]]]]; [congruence|].
  exfalso. apply Hne. unfold names_pass in Hin. eapply names_loop_noflags. exact Hin.
Qed.

Lemma gen_loop_no_crash fl views : forall prev, snd (gen_loop fl views prev) <> Crash.
Proof.
  induction views as [|v rest IH]; intro prev; cbn; [discriminate|].
  assert (Hc := new_package_no_crash fl v).
  destruct (new_package fl v) as [o1 [[tms und]| |]]; cbn in *; try discriminate; [|congruence].
  destruct (negb (gen_ok v)); [discriminate|].
  destruct und as [|u und]; [discriminate|].
  destruct (names_eqb (u :: und) prev); [destruct (has_content tms); discriminate|].
  destruct rest as [|v' rest']; [discriminate|].
  destruct (negb (p_loads v')); [discriminate|].
  destruct (negb (has_content tms)); [discriminate|].
  specialize (IH (u :: und)). destruct (gen_loop fl (v' :: rest') (u :: und)). exact IH.
Qed.

Theorem no_unreachable_panic : forall fl views, snd (run fl views) <> Crash.
Proof.
  intros fl views. unfold run. destruct views as [|v rest]; [discriminate|].
  destruct (negb (p_loads v)); [discriminate|apply gen_loop_no_crash].
Qed.

Theorem load_error_touches_nothing : forall fl v rest,
  p_loads v = false -> run fl (v :: rest) = ([], LoadError).
Proof. intros fl v rest H. unfold run. rewrite H. reflexivity. Qed.

End Model.

(* the two directions packaged as the property statements *)
Theorem touched_with_flags :
  forall (pg : bool) (wm : wmode) (fmt : list token -> bytes) fl v,
  (forall o, In o (fst (new_package pg wm fmt fl v)) <->
     exists f sg, In (f, sg) (fst (names_pass pg fl v)) /\ sg <> [] /\
                  o = OWrite wm (f_path f) (fmt (rename sg (f_toks f)))) /\
  (forall f sg, In (f, sg) (fst (names_pass pg fl v)) ->
     In f (p_files v) /\ Forall (renamed_entry fl (f_calls f)) sg).
Proof.
  intros pg wm fmt fl v. split; [exact (new_package_writes pg wm fmt fl v)|].
  intros f sg. exact (names_loop_sound pg fl _ _ _ _ _ f sg).
Qed.

Theorem run_touched_with_flags :
  forall (pg : bool) (wm : wmode) (fmt : list token -> bytes) (gen : list tmap -> bytes) fl views,
  (forall o, In o (fst (run pg wm fmt gen fl views)) -> allowed_op pg wm fmt fl views o) /\
  (forall v rest f sg, views = v :: rest -> p_loads v = true ->
     In (f, sg) (fst (names_pass pg fl v)) -> sg <> [] ->
     In (OWrite wm (f_path f) (fmt (rename sg (f_toks f)))) (fst (run pg wm fmt gen fl views))).
Proof.
  intros pg wm fmt gen fl views. split; [exact (run_allowed pg wm fmt gen fl views)|].
  intros v rest f sg E. subst. exact (run_first_pass_writes pg wm fmt gen fl v rest f sg).
Qed.

Theorem unparsable_never_written :
  forall (wm : wmode) (fmt : list token -> bytes) fl v o,
  In o (fst (new_package true wm fmt fl v)) ->
  exists f sg, In f (p_files v) /\ f_parses f = true /\
               o = OWrite wm (f_path f) (fmt (rename sg (f_toks f))).
Proof.
  intros wm fmt fl v o H. apply new_package_writes in H as [f [sg [H1 [H2 H3]]]].
  exists f, sg. split; [|split; [|exact H3]].
  - unfold names_pass in H1. apply names_loop_sound in H1 as [H1 _]. exact H1.
  - unfold names_pass in H1. eapply names_loop_parses; [reflexivity|exact H1|exact H2].
Qed.

(* ---- contents after one pass of the repaired code ---- *)

Section Contents.
Variable pg : bool.
Variable fmt : list token -> bytes.

Lemma writes_content : forall (l : list (file * subst)) (s : fs) f sg old,
  NoDup (map (fun e => f_path (fst e)) l) ->
  In (f, sg) l -> sg <> [] -> s (f_path f) = Some old ->
  apply_ops (flat_map (write_of Trunc fmt) l) s (f_path f) = Some (fmt (rename sg (f_toks f))).
Proof.
  induction l as [|[f0 sg0] l IH]; intros s f sg old Hnd Hin Hne Hs; [contradiction|].
  cbn in Hnd. inversion Hnd as [|? ? Hnotin Hnd']; subst.
  assert (Hfr : forall l' q, ~ In q (map (fun e => f_path (fst e)) l') ->
                       ~ In q (touched (flat_map (write_of Trunc fmt) l'))).
  { induction l' as [|[f1 s1] l' IHl]; intros q Hq; cbn in *; [tauto|].
    unfold touched. rewrite map_app. intro Hc. apply in_app_or in Hc as [Hc|Hc].
    - unfold write_of in Hc. cbn in Hc. destruct s1; cbn in Hc; [contradiction|].
      destruct Hc as [Hc|[]]. apply Hq. left. exact Hc.
    - apply (IHl q); [tauto|exact Hc]. }
  cbn [flat_map]. rewrite apply_ops_app. destruct Hin as [Hin|Hin].
  - inversion Hin; subst. rewrite frame by (apply Hfr; exact Hnotin).
    unfold write_of. cbn. destruct sg as [|e sg]; [congruence|]. cbn.
    rewrite Hs. unfold upd. rewrite path_eqb_refl, rewrite_exact. reflexivity.
  - assert (Hneq : f_path f0 <> f_path f).
    { intro E. apply Hnotin. rewrite E.
      change (f_path f) with ((fun e : file * subst => f_path (fst e)) (f, sg)).
      apply in_map. exact Hin. }
    eapply IH; try eassumption.
    unfold write_of. cbn. destruct sg0; cbn; [exact Hs|].
    destruct (s (f_path f0)); [|exact Hs].
    unfold upd. destruct (path_eqb (f_path f) (f_path f0)) eqn:E; [|exact Hs].
    apply path_eqb_eq in E. congruence.
Qed.

Lemma names_loop_paths fl plugins reserved fs : forall tms und,
  exists k, map (fun e => f_path (fst e)) (fst (names_loop pg fl plugins reserved tms und fs))
            = firstn k (map f_path fs).
Proof.
  induction fs as [|f r IH]; intros tms und; cbn; [exists 0; reflexivity|].
  destruct (calls_loop fl plugins reserved (tms, [], und) (f_calls f)) as [[[t1 s1] u1]| |];
    try (exists 0; reflexivity).
  destruct (blocked pg f s1); [exists 0; reflexivity|].
  destruct (IH t1 u1) as [k Hk]. destruct (names_loop pg fl plugins reserved t1 u1 r). cbn in *.
  exists (S k). cbn. rewrite Hk. reflexivity.
Qed.

Lemma firstn_In_local {A} k (l : list A) x : In x (firstn k l) -> In x l.
Proof.
  revert k; induction l as [|a l IH]; intros [|k] H; cbn in *; try contradiction.
  destruct H as [H|H]; [left; exact H|right; eapply IH; exact H].
Qed.

Lemma NoDup_firstn {A} k (l : list A) : NoDup l -> NoDup (firstn k l).
Proof.
  revert k; induction l as [|a l IH]; intros [|k] H; cbn; try constructor.
  - inversion H; subst. intro Hc. apply firstn_In_local in Hc. contradiction.
  - inversion H; subst. apply IH. assumption.
Qed.

(* After newPackage of the repaired code, a file in which a call was renamed holds exactly
   the formatting of its tokens with the renamed identifiers substituted (nothing of the old
   contents), and every file the naming pass did not rename in is byte-for-byte what it was. *)
Theorem rewrite_exact_fs : forall gen fl v (s : fs),
  NoDup (map f_path (p_files v)) ->
  let s' := apply_ops (fst (new_package pg Trunc fmt fl v)) s in
  (forall f sg old, In (f, sg) (fst (names_pass pg fl v)) -> sg <> [] -> s (f_path f) = Some old ->
                    s' (f_path f) = Some (fmt (rename sg (f_toks f)))) /\
  (forall q, (forall f sg, In (f, sg) (fst (names_pass pg fl v)) -> sg <> [] -> f_path f <> q) ->
             s' q = s q) /\
  snd (run pg Trunc fmt gen fl [v]) <> Crash.
Proof.
  intros gen fl v s Hnd s'. subst s'. rewrite new_package_spec. cbn [fst]. split; [|split].
  - intros f sg old Hin Hne Hs. eapply writes_content; try eassumption.
    unfold names_pass. destruct (names_loop_paths fl (p_plugins v) (p_reserved v) (p_files v)
                                   (init_tms (p_plugins v)) []) as [k Hk].
    rewrite Hk. apply NoDup_firstn. exact Hnd.
  - intros q Hq. apply frame. intro Hc. unfold touched in Hc.
    apply in_map_iff in Hc as [o [Hp Ho]].
    assert (Ho' : In o (fst (new_package pg Trunc fmt fl v))) by (rewrite new_package_spec; exact Ho).
    apply new_package_writes in Ho' as [f [sg [H1 [H2 H3]]]]. subst. cbn in Hq.
    exact (Hq f sg H1 H2 eq_refl).
  - apply no_unreachable_panic.
Qed.

End Contents.

(* ================= non-vacuity ================= *)

(* a toy printer: token texts separated by a blank *)
Definition toy_fmt (ts : list token) : bytes := flat_map (fun t => text t ++ [32%N]) ts.
Definition toy_gen (_ : list tmap) : bytes := [].

Definition nE : name := [100;69]%N.                 (* "dE": prefix of the only plugin *)
Definition nEX : name := [100;69;88;88;88]%N.       (* "dEXXX" *)
Definition mk_call (n : name) (pos ty : nat) : call :=
  {| c_name := n; c_pos := pos; c_ty := ty; c_base := []; c_valid := true; c_undef := false;
     c_genok := true |}.

(* file 0: `dEXXX ( ) dEXXX ( ) //c` — the same name for two argument types (a conflict);
   file 1: `dE ( )` with the first type (a duplicate of file 0's first call) *)
Definition ex_pkg : pkg :=
  {| p_loads := true; p_plugins := [nE]; p_reserved := [];
     p_files := [ {| f_path := User 0;
                     f_toks := [TIdent nEX; TOther [40]; TOther [41]; TIdent nEX; TOther [40];
                                TOther [41]; TComment [47;47;99]]%N;
                     f_calls := [mk_call nEX 0 1; mk_call nEX 3 2]; f_parses := true |};
                  {| f_path := User 1; f_toks := [TIdent nE; TOther [40]; TOther [41]]%N;
                     f_calls := [mk_call nE 0 1]; f_parses := true |} ] |}.

Definition fl_of (a d : bool) : flags := {| autoname := a; dedup := d |}.

(* no flags: conflict -> Add Error and no operation at all *)
Example ex_noflags : run true Trunc toy_fmt toy_gen (fl_of false false) [ex_pkg] = ([], AddError).
Proof. vm_compute. reflexivity. Qed.

(* -autoname: the second call of file 0 becomes "dE" (shorter); file 0 is rewritten; then
   file 1's dE(type 1) is a duplicate of dEXXX -> Add Error AFTER file 0 has been written *)
Example ex_autoname :
  run true Trunc toy_fmt toy_gen (fl_of true false) [ex_pkg]
  = ([OWrite Trunc (User 0) (toy_fmt [TIdent nEX; TOther [40]; TOther [41]; TIdent nE; TOther [40];
                                     TOther [41]; TComment [47;47;99]]%N)], AddError).
Proof. vm_compute. reflexivity. Qed.

(* both flags: file 0 as above, file 1's call renamed to dEXXX (longer); derived.gen.go created *)
Example ex_both :
  touched (fst (run true Trunc toy_fmt toy_gen (fl_of true true) [ex_pkg])) = [User 0; User 1; Derived]
  /\ snd (run true Trunc toy_fmt toy_gen (fl_of true true) [ex_pkg]) = Success.
Proof. vm_compute. auto. Qed.

(* the same run through the file system: the shorter text replaces the old one entirely with
   O_TRUNC, and keeps the old tail without it *)
Definition ex_fs : fs := fun p =>
  match p with
  | User 0 => Some (toy_fmt (f_toks (nth 0 (p_files ex_pkg) {| f_path := Derived; f_toks := []; f_calls := []; f_parses := true |})))
  | User 1 => Some (toy_fmt [TIdent nE; TOther [40]; TOther [41]]%N)
  | _ => None
  end.

Example ex_fs_trunc :
  apply_ops (fst (run true Trunc toy_fmt toy_gen (fl_of true true) [ex_pkg])) ex_fs (User 0)
  = Some (toy_fmt [TIdent nEX; TOther [40]; TOther [41]; TIdent nE; TOther [40]; TOther [41];
                   TComment [47;47;99]]%N).
Proof. vm_compute. reflexivity. Qed.

Example run_notrunc_refuted :
  apply_ops (fst (run true NoTrunc toy_fmt toy_gen (fl_of true true) [ex_pkg])) ex_fs (User 0)
  = Some (toy_fmt [TIdent nEX; TOther [40]; TOther [41]; TIdent nE; TOther [40]; TOther [41];
                   TComment [47;47;99]]%N ++ [47;99;32])%N.
Proof. vm_compute. reflexivity. Qed.

(* a file with a syntax error (f_parses = false) containing a renamed call: the repaired code
   returns an error and leaves it alone; the tree before the fix rewrites it from the
   error-recovered AST (the real run loses user code: corpus/C10/broken-file) *)
Definition ex_broken : pkg :=
  {| p_loads := true; p_plugins := [nE]; p_reserved := [];
     p_files := [ {| f_path := User 0; f_toks := [TIdent nE; TOther [40]; TIdent nE; TOther [40]]%N;
                     f_calls := [mk_call nE 0 1; mk_call nE 2 2]; f_parses := false |} ] |}.

Example ex_broken_guarded :
  run true Trunc toy_fmt toy_gen (fl_of true true) [ex_broken] = ([], AddError).
Proof. vm_compute. reflexivity. Qed.

Example unparsable_rewritten_refuted :
  touched (fst (run false Trunc toy_fmt toy_gen (fl_of true true) [ex_broken])) = [User 0; Derived].
Proof. vm_compute. reflexivity. Qed.
