(* Rewrite/Invocation.v — WHERE the file operations of a whole goderive invocation land.

   Effects.v describes one package: its operations are on [User i] / [Derived], paths relative to
   "the package directory".  The code that exists (derive/generate.go) computes that directory in
   newPackage from the package's FIRST source file,

       fullpath := ""
       if len(fileInfos) > 0 { abs := filepath.Abs(fileInfos[0].fullpath); fullpath = filepath.Dir(abs) }

   and pkg.Filename() = filepath.Join(fullpath, "derived.gen.go").  A package the loader reports
   WITHOUT files (a directory that only holds an external test package, only files excluded by
   build constraints, no Go file at all, only an old derived.gen.go) has fullpath "", and a path
   relative to "" is relative to the WORKING directory.  pkg.Delete therefore starts with
   `if pkg.fullpath == "" { return nil }` (fix 67fe608).  Program.Generate goes through the packages
   in order and returns at the first error.

   Here: directories are numbers, the working directory is one of them, an invocation is the list
   of loaded packages (directory of its sources, the loader's successive answers for it).
   Theorems: a package without source files causes no file operation at all; every operation of an
   invocation lands in the directory of a package of the invocation that has source files (so the
   working directory's derived.gen.go is touched only if the working directory is such a
   directory), and without flags it is on derived.gen.go; without the guard the working
   directory's derived.gen.go is removed (refuted witness = the input class of seed C10-m14). *)
From Coq Require Import List Bool Arith.
From Verif Require Import Base.
From Verif.Rewrite Require Import Files Tokens Names Effects.
Import ListNotations.

Section Invocation.
Variable pg : bool.
Variable wm : wmode.
Variable fmt : list token -> bytes.
Variable gen_text : list tmap -> bytes.
(* guard = true: the code as it is; false: pkg.Delete without `if pkg.fullpath == ""` *)
Variable guard : bool.
Variable cwd : nat.

(* newPackage's fullpath: the directory of the first file of the (first) answer of the loader *)
Definition pkg_dir (dir : nat) (views : list pkg) : option nat :=
  match views with
  | v :: _ => match p_files v with [] => None | _ :: _ => Some dir end
  | [] => None
  end.

(* an operation of Effects.run placed in the directory tree *)
Definition locate (d : option nat) (o : op) : list (nat * op) :=
  match d with
  | Some d' => [(d', o)]
  | None =>
      match o with
      | ORemove Derived => if guard then [] else [(cwd, o)]   (* pkg.Delete *)
      | _ => [(cwd, o)]                                       (* a path relative to "" *)
      end
  end.

Definition ipkg := (nat * list pkg)%type.

Definition located (fl : flags) (e : ipkg) : list (nat * op) :=
  flat_map (locate (pkg_dir (fst e) (snd e))) (fst (run pg wm fmt gen_text fl (snd e))).

Definition succeeded (fl : flags) (e : ipkg) : bool :=
  match snd (run pg wm fmt gen_text fl (snd e)) with Success => true | _ => false end.

(* Program.Generate: package after package, stop at the first error *)
Fixpoint inv_run (fl : flags) (pkgs : list ipkg) : list (nat * op) :=
  match pkgs with
  | [] => []
  | e :: r => located fl e ++ (if succeeded fl e then inv_run fl r else [])
  end.

Lemma has_content_init plugins : has_content (init_tms plugins) = false.
Proof. induction plugins as [|p r IH]; cbn; auto. Qed.

(* what run does for a package without files: the file has no content, it "should be removed" *)
Lemma run_sourceless fl v rest :
  p_files v = [] ->
  run pg wm fmt gen_text fl (v :: rest) =
  if p_loads v then ([ORemove Derived], Success) else ([], LoadError).
Proof.
  intro Hf. unfold run. destruct (p_loads v); cbn [negb]; [|reflexivity].
  cbn [gen_loop]. unfold new_package, gen_ok. rewrite Hf. cbn [files_loop forallb negb].
  rewrite has_content_init. reflexivity.
Qed.

End Invocation.

(* ---- the code as it is (guard = true) ---- *)

(* a package without source files causes no file operation, wherever goderive was started,
   under every flag combination *)
Theorem sourceless_package_no_operation :
  forall pg wm fmt gen cwd fl dir v rest,
  p_files v = [] -> located pg wm fmt gen true cwd fl (dir, v :: rest) = [].
Proof.
  intros pg wm fmt gen cwd fl dir v rest Hf. unfold located. cbn [fst snd].
  rewrite (run_sourceless pg wm fmt gen fl v rest Hf). unfold pkg_dir. rewrite Hf.
  destruct (p_loads v); reflexivity.
Qed.

Lemma located_in_own_dir pg wm fmt gen cwd fl e d o :
  In (d, o) (located pg wm fmt gen true cwd fl e) ->
  pkg_dir (fst e) (snd e) = Some d /\ In o (fst (run pg wm fmt gen fl (snd e))).
Proof.
  destruct e as [dir views]. unfold located. cbn [fst snd]. intro H.
  destruct views as [|v rest].
  - cbn in H. contradiction.
  - destruct (p_files v) as [|f fs] eqn:Hf.
    + exfalso. pose proof (sourceless_package_no_operation pg wm fmt gen cwd fl dir v rest Hf) as E.
      unfold located in E. cbn [fst snd] in E. rewrite E in H. contradiction.
    + unfold pkg_dir in *. rewrite Hf in *. apply in_flat_map in H as [o' [Ho' Hl]].
      cbn in Hl. destruct Hl as [Hl|[]]. inversion Hl; subst. split; [reflexivity|assumption].
Qed.

(* every operation of an invocation lands in the directory of one of ITS packages that has
   source files; so a derived.gen.go (or anything else) in the working directory is touched only
   if the working directory is the directory of such a package *)
Theorem invocation_stays_in_named_directories :
  forall pg wm fmt gen cwd fl pkgs d o,
  In (d, o) (inv_run pg wm fmt gen true cwd fl pkgs) ->
  exists e, In e pkgs /\ pkg_dir (fst e) (snd e) = Some d /\
            In o (fst (run pg wm fmt gen fl (snd e))).
Proof.
  intros pg wm fmt gen cwd fl pkgs d o. induction pkgs as [|e r IH]; cbn [inv_run]; [contradiction|].
  intro H. apply in_app_or in H as [H|H].
  - apply located_in_own_dir in H as [Hd Ho]. exists e. split; [left; reflexivity|split; assumption].
  - destruct (succeeded pg wm fmt gen fl e); [|contradiction].
    destruct (IH H) as [e' [Hin Hrest]]. exists e'. split; [right; assumption|assumption].
Qed.

(* ... and without flags it is an operation on derived.gen.go of that directory *)
Theorem invocation_without_flags :
  forall pg wm fmt gen cwd pkgs d o,
  In (d, o) (inv_run pg wm fmt gen true cwd {| autoname := false; dedup := false |} pkgs) ->
  op_path o = Derived /\ exists e, In e pkgs /\ pkg_dir (fst e) (snd e) = Some d.
Proof.
  intros pg wm fmt gen cwd pkgs d o H.
  apply invocation_stays_in_named_directories in H as [e [Hin [Hd Ho]]].
  split; [|exists e; split; assumption].
  apply (touched_without_flags pg wm fmt gen (snd e)). unfold touched. apply in_map. exact Ho.
Qed.

(* ---- without the guard (the tree before 67fe608; seed C10-m14 computes Abs("") instead) ---- *)

Definition toy_fmt10 (t : list token) : bytes := [].
Definition toy_gen10 (t : list tmap) : bytes := [].

Definition sourceless_view : pkg :=
  {| p_loads := true; p_plugins := [[100%N]]; p_reserved := []; p_files := [] |}.

(* goderive started in directory 0 on directory 1, which holds no package with source files *)
Example ex_guarded :
  inv_run true Trunc toy_fmt10 toy_gen10 true 0 {| autoname := false; dedup := false |} [(1, [sourceless_view])] = [].
Proof. vm_compute. reflexivity. Qed.

Theorem unguarded_delete_hits_working_directory_refuted :
  exists cwd pkgs,
    In (cwd, ORemove Derived)
       (inv_run true Trunc toy_fmt10 toy_gen10 false cwd {| autoname := false; dedup := false |} pkgs) /\
    forall e, In e pkgs -> fst e <> cwd.
Proof.
  exists 0, [(1, [sourceless_view])]. split.
  - vm_compute. left. reflexivity.
  - intros e [He|[]]. subst e. cbn. discriminate.
Qed.
