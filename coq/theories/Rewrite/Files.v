(* Rewrite/Files.v — C10: file contents as byte lists, the two ways goderive could open a
   user source file for rewriting, a file system as a finite map, and file operations.
   Anchors: /repo/derive/generate.go newPackage (os.OpenFile(O_WRONLY|O_TRUNC) + format.Node),
   pkg.Print (os.Create), pkg.Delete (os.Remove). *)
From Verif Require Import Base.

Definition bytes := list N.

Fixpoint bytes_eqb (a b : bytes) : bool :=
  match a, b with
  | [], [] => true
  | x :: a', y :: b' => N.eqb x y && bytes_eqb a' b'
  | _, _ => false
  end.

Lemma bytes_eqb_eq a b : bytes_eqb a b = true <-> a = b.
Proof.
  revert b; induction a as [|x a IH]; intros [|y b]; cbn; split; intro H;
    try reflexivity; try discriminate.
  - apply andb_true_iff in H as [H1 H2]. apply N.eqb_eq in H1. apply IH in H2. congruence.
  - inversion H; subst. rewrite N.eqb_refl. cbn. apply IH. reflexivity.
Qed.

Lemma bytes_eqb_refl a : bytes_eqb a a = true.
Proof. apply bytes_eqb_eq. reflexivity. Qed.

Lemma bytes_eqb_neq a b : bytes_eqb a b = false <-> a <> b.
Proof.
  split; intro H.
  - intro E. apply bytes_eqb_eq in E. congruence.
  - destruct (bytes_eqb a b) eqn:E; [|reflexivity]. apply bytes_eqb_eq in E. contradiction.
Qed.

(* ---------- writing into an opened file ---------- *)

(* Writing [new] at offset 0 of a file whose current contents are [base]: the bytes beyond
   the written range stay (POSIX write semantics, no implicit truncation). *)
Definition overlay (base new : bytes) : bytes := new ++ skipn (length new) base.

(* O_WRONLY|O_TRUNC (the repaired code) vs O_WRONLY alone (the pinned tree before b3117f9). *)
Inductive wmode := Trunc | NoTrunc.

Definition open_write (m : wmode) (old new : bytes) : bytes :=
  overlay (match m with Trunc => [] | NoTrunc => old end) new.

(* for EVERY old/new (shorter, equal, longer): what is left is exactly the new text *)
Lemma rewrite_exact : forall old new : bytes, open_write Trunc old new = new.
Proof.
  intros old new. unfold open_write, overlay. rewrite skipn_nil. apply app_nil_r.
Qed.

Lemma notrunc_keeps_tail : forall old new : bytes,
  open_write NoTrunc old new = new ++ skipn (length new) old.
Proof. reflexivity. Qed.

Lemma notrunc_length : forall old new : bytes,
  length (open_write NoTrunc old new) = Nat.max (length old) (length new).
Proof.
  intros old new. rewrite notrunc_keeps_tail, app_length, skipn_length. lia.
Qed.

(* exactly when the missing truncation bites: the new text is strictly shorter *)
Lemma notrunc_exact_iff : forall old new : bytes,
  open_write NoTrunc old new = new <-> length old <= length new.
Proof.
  intros old new. split; intro H.
  - apply (f_equal (@length N)) in H. rewrite notrunc_length in H. lia.
  - rewrite notrunc_keeps_tail, skipn_all2 by lia. apply app_nil_r.
Qed.

(* "deriveXX()\n" rewritten to "derive()\n" without O_TRUNC leaves ")\n" behind *)
Definition w_old : bytes := [100;101;114;105;118;101;88;88;40;41;10]%N.
Definition w_new : bytes := [100;101;114;105;118;101;40;41;10]%N.

Lemma write_keeps_tail_refuted :
  open_write NoTrunc w_old w_new = (w_new ++ [41; 10])%N /\ open_write NoTrunc w_old w_new <> w_new.
Proof. split; [vm_compute; reflexivity | vm_compute; discriminate]. Qed.

(* non-vacuity of rewrite_exact on the same input *)
Example rewrite_exact_example : open_write Trunc w_old w_new = w_new.
Proof. vm_compute. reflexivity. Qed.

(* ---------- file system and operations ---------- *)

(* User i: the i-th loaded .go file of the package; Derived: derived.gen.go of the package
   directory; Other i: anything else in the tree (non-Go files, files excluded by build tags,
   sub-packages, sibling directories). *)
Inductive path := User (i : nat) | Derived | Other (i : nat).

Definition path_eqb (p q : path) : bool :=
  match p, q with
  | User i, User j => Nat.eqb i j
  | Derived, Derived => true
  | Other i, Other j => Nat.eqb i j
  | _, _ => false
  end.

Lemma path_eqb_eq p q : path_eqb p q = true <-> p = q.
Proof.
  destruct p, q; cbn; split; intro H; try discriminate; try reflexivity;
    try (apply Nat.eqb_eq in H; congruence);
    try (inversion H; subst; apply Nat.eqb_refl).
Qed.

Lemma path_eqb_refl p : path_eqb p p = true.
Proof. apply path_eqb_eq. reflexivity. Qed.

Definition fs := path -> option bytes.

Definition upd (s : fs) (p : path) (v : option bytes) : fs :=
  fun q => if path_eqb q p then v else s q.

Inductive op :=
| OWrite (m : wmode) (p : path) (new : bytes)   (* os.OpenFile(p, O_WRONLY[|O_TRUNC]); write new *)
| OCreate (p : path) (new : bytes)              (* os.Create(p); write new *)
| ORemove (p : path).                           (* os.Remove(p) *)

Definition op_path (o : op) : path :=
  match o with OWrite _ p _ => p | OCreate p _ => p | ORemove p => p end.

Definition apply_op (s : fs) (o : op) : fs :=
  match o with
  | OWrite m p new =>
      match s p with
      | Some old => upd s p (Some (open_write m old new))
      | None => s                       (* no O_CREATE: opening a missing file fails *)
      end
  | OCreate p new => upd s p (Some new)
  | ORemove p => upd s p None
  end.

Definition apply_ops (ops : list op) (s : fs) : fs := fold_left apply_op ops s.

Definition touched (ops : list op) : list path := map op_path ops.

Lemma apply_op_other s o q : op_path o <> q -> apply_op s o q = s q.
Proof.
  intro H. destruct o as [m p new|p new|p]; cbn in *.
  - destruct (s p); [|reflexivity]. unfold upd.
    destruct (path_eqb q p) eqn:E; [apply path_eqb_eq in E; congruence|reflexivity].
  - unfold upd. destruct (path_eqb q p) eqn:E; [apply path_eqb_eq in E; congruence|reflexivity].
  - unfold upd. destruct (path_eqb q p) eqn:E; [apply path_eqb_eq in E; congruence|reflexivity].
Qed.

(* the meaning of "touched": every other path keeps its contents (or its absence) *)
Lemma frame : forall ops s q, ~ In q (touched ops) -> apply_ops ops s q = s q.
Proof.
  induction ops as [|o ops IH]; intros s q H; cbn in *; [reflexivity|].
  unfold apply_ops in *. cbn. rewrite IH by tauto. apply apply_op_other. tauto.
Qed.

Lemma apply_ops_app a b s : apply_ops (a ++ b) s = apply_ops b (apply_ops a s).
Proof. unfold apply_ops. apply fold_left_app. Qed.

(* a truncating write into an existing file that is not touched afterwards decides its contents *)
Lemma write_then_frame : forall before p new after s old,
  apply_ops before s p = Some old ->
  ~ In p (touched after) ->
  apply_ops (before ++ OWrite Trunc p new :: after) s p = Some new.
Proof.
  intros before p new after s old Hold Hafter.
  rewrite apply_ops_app. change (OWrite Trunc p new :: after) with ([OWrite Trunc p new] ++ after).
  rewrite apply_ops_app, frame by assumption.
  cbn. rewrite Hold. unfold upd. rewrite path_eqb_refl, rewrite_exact. reflexivity.
Qed.
