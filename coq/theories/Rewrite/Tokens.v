(* Rewrite/Tokens.v — C10: a source file as a list of tokens and the renaming that
   newPackage performs on it (call.Expr.Fun = <identifier with the new name>).
   The printer (go/format.Node) is trusted library behaviour and stays abstract; what is
   proved here is that the renaming changes the renamed identifiers and nothing else. *)
From Verif Require Import Base.
From Verif.Rewrite Require Import Files.

Inductive token :=
| TIdent (s : bytes)      (* identifier *)
| TOther (s : bytes)      (* keyword, operator, literal, punctuation *)
| TComment (s : bytes).   (* comment text *)

Definition is_ident (t : token) : bool := match t with TIdent _ => true | _ => false end.
Definition is_comment (t : token) : bool := match t with TComment _ => true | _ => false end.
Definition kind (t : token) : nat := match t with TIdent _ => 0 | TOther _ => 1 | TComment _ => 2 end.
Definition text (t : token) : bytes := match t with TIdent s | TOther s | TComment s => s end.

Definition token_eqb (a b : token) : bool :=
  Nat.eqb (kind a) (kind b) && bytes_eqb (text a) (text b).

Lemma token_eqb_eq a b : token_eqb a b = true <-> a = b.
Proof.
  unfold token_eqb. rewrite andb_true_iff, Nat.eqb_eq, bytes_eqb_eq.
  destruct a, b; cbn; split; intro H; try (destruct H; congruence); try discriminate;
    inversion H; auto.
Qed.

(* a substitution: token position -> new identifier *)
Definition subst := list (nat * bytes).

Fixpoint lookup (i : nat) (sg : subst) : option bytes :=
  match sg with
  | [] => None
  | (j, n) :: r => if Nat.eqb i j then Some n else lookup i r
  end.

Definition rename_tok (sg : subst) (i : nat) (t : token) : token :=
  match t, lookup i sg with
  | TIdent _, Some n => TIdent n
  | _, _ => t
  end.

Fixpoint rename_from (k : nat) (sg : subst) (f : list token) : list token :=
  match f with
  | [] => []
  | t :: r => rename_tok sg k t :: rename_from (S k) sg r
  end.

Definition rename (sg : subst) (f : list token) : list token := rename_from 0 sg f.

Lemma rename_from_length k sg f : length (rename_from k sg f) = length f.
Proof. revert k; induction f as [|t r IH]; intro k; cbn; [reflexivity|]. rewrite IH. reflexivity. Qed.

Lemma rename_from_nth k sg f i :
  nth_error (rename_from k sg f) i = option_map (rename_tok sg (k + i)) (nth_error f i).
Proof.
  revert k i; induction f as [|t r IH]; intros k [|i]; cbn; try reflexivity.
  - rewrite Nat.add_0_r. reflexivity.
  - rewrite IH. replace (S k + i) with (k + S i) by lia. reflexivity.
Qed.

Lemma rename_length sg f : length (rename sg f) = length f.
Proof. apply rename_from_length. Qed.

Lemma rename_nth sg f i :
  nth_error (rename sg f) i = option_map (rename_tok sg i) (nth_error f i).
Proof. unfold rename. rewrite rename_from_nth. reflexivity. Qed.

Lemma rename_tok_kind sg i t : kind (rename_tok sg i t) = kind t.
Proof. unfold rename_tok. destruct t; cbn; try reflexivity. destruct (lookup i sg); reflexivity. Qed.

Lemma rename_from_kinds k sg f : map kind (rename_from k sg f) = map kind f.
Proof.
  revert k; induction f as [|t r IH]; intro k; cbn; [reflexivity|].
  rewrite rename_tok_kind, IH. reflexivity.
Qed.

Lemma rename_from_filter_nonident k sg f :
  filter (fun t => negb (is_ident t)) (rename_from k sg f) = filter (fun t => negb (is_ident t)) f.
Proof.
  revert k; induction f as [|t r IH]; intro k; cbn; [reflexivity|].
  destruct t as [s|s|s].
  - unfold rename_tok. destruct (lookup k sg); cbn; apply IH.
  - cbn. rewrite IH. reflexivity.
  - cbn. rewrite IH. reflexivity.
Qed.

Lemma rename_from_comments k sg f :
  filter is_comment (rename_from k sg f) = filter is_comment f.
Proof.
  revert k; induction f as [|t r IH]; intro k; cbn; [reflexivity|].
  destruct t as [s|s|s].
  - unfold rename_tok. destruct (lookup k sg); cbn; apply IH.
  - cbn. rewrite IH. reflexivity.
  - cbn. rewrite IH. reflexivity.
Qed.

(* The statement of C10's token-level half: same number of tokens, same kinds in the same
   order; every token that is not a renamed identifier is unchanged at its position (in
   particular every comment, keyword, literal and every other identifier); each renamed
   position holds the new identifier; the sequence of comments and the sequence of all
   non-identifier tokens are retained. *)
Theorem rename_preserves_other_tokens : forall (sg : subst) (f : list token),
  length (rename sg f) = length f /\
  map kind (rename sg f) = map kind f /\
  (forall i t, nth_error f i = Some t -> is_ident t = false \/ lookup i sg = None ->
               nth_error (rename sg f) i = Some t) /\
  (forall i old n, nth_error f i = Some (TIdent old) -> lookup i sg = Some n ->
               nth_error (rename sg f) i = Some (TIdent n)) /\
  filter is_comment (rename sg f) = filter is_comment f /\
  filter (fun t => negb (is_ident t)) (rename sg f) = filter (fun t => negb (is_ident t)) f.
Proof.
  intros sg f. split; [apply rename_length|]. split; [apply rename_from_kinds|].
  split; [|split; [|split]].
  - intros i t H Hc. rewrite rename_nth, H. cbn. f_equal. unfold rename_tok.
    destruct Hc as [Hc|Hc].
    + destruct t; cbn in Hc; try discriminate; reflexivity.
    + rewrite Hc. destruct t; reflexivity.
  - intros i old n H Hl. rewrite rename_nth, H. cbn. unfold rename_tok. rewrite Hl. reflexivity.
  - apply rename_from_comments.
  - apply rename_from_filter_nonident.
Qed.

Lemma rename_nil f : rename [] f = f.
Proof.
  unfold rename. generalize 0. induction f as [|t r IH]; intro k; cbn; [reflexivity|].
  rewrite IH. destruct t; reflexivity.
Qed.

(* non-vacuity: `x := f(a) // c` with f at position 2 renamed to g *)
Example rename_example :
  rename [(2, [103]%N)]
    [TIdent [120]; TOther [58;61]; TIdent [102]; TOther [40]; TIdent [97]; TOther [41]; TComment [47;47;99]]%N
  = [TIdent [120]; TOther [58;61]; TIdent [103]; TOther [40]; TIdent [97]; TOther [41]; TComment [47;47;99]]%N.
Proof. vm_compute. reflexivity. Qed.
