(* Rewrite/Names.v — C10: the part of typesMap (derive/typesmap.go) that decides whether a
   derive call keeps its name: SetFuncName, GetFuncName, newName, nameOf.
   Argument types are abstracted to class ids (nat): two argument lists have the same id
   iff `eq` (pairwise AssignableTo) relates them; the correspondence harness only uses
   pairwise non-assignable named types, for which that is an equivalence.
   funcToTyps (a Go map) is kept as an association list; [name_of_perm] shows that under the
   invariant maintained by SetFuncName its iteration order is irrelevant. *)
From Coq Require Import Permutation.
From Verif Require Import Base.
From Verif.Rewrite Require Import Files.

Record flags := { autoname : bool; dedup : bool }.

Definition name := bytes.

Record tmap := { tm_prefix : name; tm_f2t : list (name * nat) }.

(* nameOf: `for name, ts := range tm.funcToTyps { if eq(typs, ts) { return name, true } }` *)
Definition name_of_list (l : list (name * nat)) (ty : nat) : option name :=
  option_map fst (find (fun e => Nat.eqb (snd e) ty) l).
Definition name_of (tm : tmap) (ty : nat) : option name := name_of_list (tm_f2t tm) ty.

(* `ts, ok := tm.funcToTyps[funcName]` *)
Definition types_of (tm : tmap) (n : name) : option nat :=
  option_map snd (find (fun e => bytes_eqb (fst e) n) (tm_f2t tm)).

(* `tm.funcToTyps[funcName] = typs; tm.typss = append(tm.typss, typs)` *)
Definition register (tm : tmap) (n : name) (ty : nat) : tmap :=
  {| tm_prefix := tm_prefix tm; tm_f2t := tm_f2t tm ++ [(n, ty)] |}.

(* strconv.Itoa on a non-negative int *)
Fixpoint itoa_aux (fuel : nat) (n : N) (acc : bytes) : bytes :=
  match fuel with
  | 0 => acc
  | S f => let acc' := (48 + n mod 10)%N :: acc in
           if (n / 10 =? 0)%N then acc' else itoa_aux f (n / 10)%N acc'
  end.
Definition itoa (i : nat) : bytes := itoa_aux (S i) (N.of_nat i) [].

(* newName's loop body:
     if i > len(name) { funcName = prefix + "_" + name + strconv.Itoa(i) }
     else             { funcName = prefix + "_" + name[:i] } *)
Definition candidate (prefix base : name) (i : nat) : name :=
  if Nat.ltb (length base) i then prefix ++ [95%N] ++ base ++ itoa i
  else prefix ++ [95%N] ++ firstn i base.

Definition taken (tm : tmap) (reserved : list name) (n : name) : bool :=
  existsb (bytes_eqb n) (map fst (tm_f2t tm)) || existsb (bytes_eqb n) reserved.

(* `for exists || isreserved { funcName = candidate i; i++ }`, on fuel *)
Fixpoint new_name_loop (fuel : nat) (tm : tmap) (reserved : list name) (base cur : name) (i : nat)
  : option name :=
  if taken tm reserved cur then
    match fuel with
    | 0 => None
    | S f => new_name_loop f tm reserved base (candidate (tm_prefix tm) base i) (S i)
    end
  else Some cur.

Definition new_name (tm : tmap) (reserved : list name) (base : name) : option name :=
  new_name_loop (S (length (tm_f2t tm) + length reserved)) tm reserved base (tm_prefix tm) 0.

Inductive sres :=
| SOk (n : name) (tm : tmap)
| SErr (ambiguous : bool)     (* "ambigious function names" / "conflicting function names" *)
| SFuel.                      (* the model's fuel for newName ran out (never observed) *)

(* SetFuncName(funcName, typs...).  [base] is what newName derives from typs[0]
   (the name of a named type, the spelling of a basic type, "" otherwise). *)
Definition set_func_name (fl : flags) (reserved : list name) (tm : tmap)
           (fname : name) (ty : nat) (base : name) : sres :=
  match name_of tm ty with
  | Some f =>
      if bytes_eqb f fname then SOk fname tm
      else if dedup fl then SOk f tm
      else SErr true
  | None =>
      match types_of tm fname with
      | Some ts =>
          if Nat.eqb ts ty then SOk fname tm
          else if autoname fl then
            (* GetFuncName: nameOf fails again, so newName, then SetFuncName(newName, typs)
               which registers it (inner_set_registers) *)
            match new_name tm reserved base with
            | Some n => SOk n (register tm n ty)
            | None => SFuel
            end
          else SErr false
      | None => SOk fname (register tm fname ty)
      end
  end.

(* ---------- the name changes only under a flag ---------- *)

Theorem rename_needs_flag : forall fl reserved tm fname ty base n tm',
  set_func_name fl reserved tm fname ty base = SOk n tm' ->
  n <> fname ->
  autoname fl = true \/ dedup fl = true.
Proof.
  intros fl reserved tm fname ty base n tm' H Hne. unfold set_func_name in H.
  destruct (name_of tm ty) as [f|].
  - destruct (bytes_eqb f fname); [inversion H; congruence|].
    destruct (dedup fl); [right; reflexivity|discriminate].
  - destruct (types_of tm fname) as [ts|]; [|inversion H; congruence].
    destruct (Nat.eqb ts ty); [inversion H; congruence|].
    destruct (autoname fl); [left; reflexivity|discriminate].
Qed.

Corollary noflags_keeps_name : forall reserved tm fname ty base n tm',
  set_func_name {| autoname := false; dedup := false |} reserved tm fname ty base = SOk n tm' ->
  n = fname.
Proof.
  intros reserved tm fname ty base n tm' H.
  destruct (bytes_eqb n fname) eqn:E; [apply bytes_eqb_eq; exact E|].
  apply bytes_eqb_neq in E. destruct (rename_needs_flag _ _ _ _ _ _ _ _ H E); discriminate.
Qed.

(* the three ways a name does change, each needing its flag *)
Lemma rename_dedup_only : forall fl reserved tm fname ty base n tm',
  set_func_name fl reserved tm fname ty base = SOk n tm' -> n <> fname ->
  name_of tm ty = Some n /\ dedup fl = true /\ tm' = tm
  \/ name_of tm ty = None /\ autoname fl = true /\ new_name tm reserved base = Some n
     /\ tm' = register tm n ty.
Proof.
  intros fl reserved tm fname ty base n tm' H Hne. unfold set_func_name in H.
  destruct (name_of tm ty) as [f|].
  - destruct (bytes_eqb f fname); [inversion H; congruence|].
    destruct (dedup fl); [|discriminate]. inversion H; subst. left. auto.
  - destruct (types_of tm fname) as [ts|]; [|inversion H; congruence].
    destruct (Nat.eqb ts ty); [inversion H; congruence|].
    destruct (autoname fl); [|discriminate].
    destruct (new_name tm reserved base) as [m|]; [|discriminate].
    inversion H; subst. right. auto.
Qed.

(* ---------- newName returns a fresh, unreserved name ---------- *)

Lemma new_name_loop_fresh fuel tm reserved base cur i n :
  new_name_loop fuel tm reserved base cur i = Some n -> taken tm reserved n = false.
Proof.
  revert cur i; induction fuel as [|f IH]; intros cur i H; cbn in H.
  - destruct (taken tm reserved cur) eqn:E; [discriminate|]. inversion H; subst. exact E.
  - destruct (taken tm reserved cur) eqn:E; [eauto|]. inversion H; subst. exact E.
Qed.

Lemma new_name_fresh tm reserved base n :
  new_name tm reserved base = Some n -> taken tm reserved n = false.
Proof. apply new_name_loop_fresh. Qed.

Lemma existsb_bytes_false n l : existsb (bytes_eqb n) l = false <-> ~ In n l.
Proof.
  split.
  - intros H Hin. assert (existsb (bytes_eqb n) l = true); [|congruence].
    apply existsb_exists. exists n. split; [assumption|apply bytes_eqb_refl].
  - intro H. destruct (existsb (bytes_eqb n) l) eqn:E; [|reflexivity].
    apply existsb_exists in E as [x [Hx Hb]]. apply bytes_eqb_eq in Hb. subst. contradiction.
Qed.

Lemma taken_false tm reserved n :
  taken tm reserved n = false <-> ~ In n (map fst (tm_f2t tm)) /\ ~ In n reserved.
Proof. unfold taken. rewrite orb_false_iff, !existsb_bytes_false. tauto. Qed.

(* ---------- the invariant that makes the Go map's iteration order irrelevant ---------- *)

Definition tm_wf (tm : tmap) : Prop :=
  NoDup (map fst (tm_f2t tm)) /\ NoDup (map snd (tm_f2t tm)).

Lemma name_of_list_none l ty : name_of_list l ty = None <-> ~ In ty (map snd l).
Proof.
  unfold name_of_list. induction l as [|[n t] r IH]; cbn; [tauto|].
  destruct (Nat.eqb t ty) eqn:E; cbn.
  - apply Nat.eqb_eq in E. split; [discriminate|]. intro H. exfalso. apply H. left. exact E.
  - apply Nat.eqb_neq in E. rewrite IH. tauto.
Qed.

Lemma types_of_none tm n : types_of tm n = None <-> ~ In n (map fst (tm_f2t tm)).
Proof.
  unfold types_of. induction (tm_f2t tm) as [|[m t] r IH]; cbn; [tauto|].
  destruct (bytes_eqb m n) eqn:E; cbn.
  - apply bytes_eqb_eq in E. split; [discriminate|]. intro H. exfalso. apply H. left. exact E.
  - apply bytes_eqb_neq in E. rewrite IH. tauto.
Qed.

Lemma NoDup_snoc {A} (l : list A) (x : A) : NoDup l -> ~ In x l -> NoDup (l ++ [x]).
Proof.
  intros H Hx. eapply Permutation_NoDup; [apply Permutation_cons_append|].
  constructor; assumption.
Qed.

Lemma register_wf tm n ty :
  tm_wf tm -> ~ In n (map fst (tm_f2t tm)) -> ~ In ty (map snd (tm_f2t tm)) -> tm_wf (register tm n ty).
Proof.
  intros [H1 H2] Hn Ht. unfold tm_wf, register; cbn. rewrite !map_app; cbn.
  split; apply NoDup_snoc; assumption.
Qed.

Theorem set_func_name_wf : forall fl reserved tm fname ty base n tm',
  tm_wf tm -> set_func_name fl reserved tm fname ty base = SOk n tm' -> tm_wf tm'.
Proof.
  intros fl reserved tm fname ty base n tm' Hwf H. unfold set_func_name in H.
  destruct (name_of tm ty) as [f|] eqn:Hn.
  - destruct (bytes_eqb f fname); [inversion H; subst; assumption|].
    destruct (dedup fl); [inversion H; subst; assumption|discriminate].
  - apply name_of_list_none in Hn.
    destruct (types_of tm fname) as [ts|] eqn:Ht.
    + destruct (Nat.eqb ts ty); [inversion H; subst; assumption|].
      destruct (autoname fl); [|discriminate].
      destruct (new_name tm reserved base) as [m|] eqn:Hm; [|discriminate].
      inversion H; subst. apply new_name_fresh, taken_false in Hm as [Hm _].
      apply register_wf; assumption.
    + inversion H; subst. apply types_of_none in Ht. apply register_wf; assumption.
Qed.

(* with at most one entry per type class, every iteration order gives the same answer *)
Lemma name_of_list_in l ty n :
  NoDup (map snd l) -> In (n, ty) l -> name_of_list l ty = Some n.
Proof.
  unfold name_of_list. induction l as [|[m t] r IH]; cbn; intros Hnd Hin; [contradiction|].
  inversion Hnd as [|? ? Hnotin Hnd']; subst.
  destruct Hin as [Heq|Hin].
  - inversion Heq; subst. rewrite Nat.eqb_refl. reflexivity.
  - destruct (Nat.eqb t ty) eqn:E.
    + apply Nat.eqb_eq in E. subst. exfalso. apply Hnotin.
      change ty with (snd (n, ty)). apply in_map. exact Hin.
    + apply IH; assumption.
Qed.

Theorem name_of_perm : forall l l' ty,
  NoDup (map snd l) -> Permutation l l' -> name_of_list l ty = name_of_list l' ty.
Proof.
  intros l l' ty Hnd Hp.
  destruct (name_of_list l ty) as [n|] eqn:E.
  - symmetry. apply name_of_list_in.
    + eapply Permutation_NoDup; [apply Permutation_map; exact Hp|exact Hnd].
    + eapply Permutation_in; [exact Hp|].
      unfold name_of_list in E. destruct (find _ l) as [[m t]|] eqn:F; [|discriminate].
      cbn in E. inversion E; subst. apply find_some in F as [F1 F2]. cbn in F2.
      apply Nat.eqb_eq in F2. subst. exact F1.
  - symmetry. apply name_of_list_none. apply name_of_list_none in E.
    intro H. apply E. eapply Permutation_in; [apply Permutation_sym, Permutation_map; exact Hp|exact H].
Qed.

(* the inner SetFuncName of GetFuncName registers the fresh name, as inlined above *)
Lemma inner_set_registers : forall fl reserved tm n ty base,
  name_of tm ty = None -> types_of tm n = None ->
  set_func_name fl reserved tm n ty base = SOk n (register tm n ty).
Proof. intros. unfold set_func_name. rewrite H, H0. reflexivity. Qed.

(* ---------- non-vacuity ---------- *)
Definition bE : name := [100;101;114;105;118;101;69]%N.          (* "deriveE" *)
Definition tmE : tmap := register {| tm_prefix := bE; tm_f2t := [] |} bE 1.

(* a second type under the same name: conflict; renamed to "deriveE_" only with -autoname *)
Example conflict_noflag :
  set_func_name {| autoname := false; dedup := false |} [] tmE bE 2 [] = SErr false.
Proof. vm_compute. reflexivity. Qed.
Example conflict_autoname :
  set_func_name {| autoname := true; dedup := false |} [] tmE bE 2 []
  = SOk (bE ++ [95])%N (register tmE (bE ++ [95])%N 2).
Proof. vm_compute. reflexivity. Qed.
(* the same type under another name: duplicate; renamed to the first name only with -dedup *)
Example duplicate_noflag :
  set_func_name {| autoname := true; dedup := false |} [] tmE (bE ++ [88])%N 1 [] = SErr true.
Proof. vm_compute. reflexivity. Qed.
Example duplicate_dedup :
  set_func_name {| autoname := false; dedup := true |} [] tmE (bE ++ [88])%N 1 [] = SOk bE tmE.
Proof. vm_compute. reflexivity. Qed.
(* newName walks prefix, prefix_, prefix_T, prefix_Ty, prefix_Ty3 ... and skips reserved names *)
Example new_name_walk :
  new_name tmE [(bE ++ [95])%N] [84;121]%N = Some (bE ++ [95;84])%N /\
  candidate bE [84;121]%N 3 = (bE ++ [95;84;121;51])%N /\ itoa 120 = [49;50;48]%N.
Proof. vm_compute. auto. Qed.
