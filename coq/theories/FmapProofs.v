(* FmapProofs.v — proofs about the C17 model. *)
From Verif Require Import Base Utf8 Fmap.

Section P.
Context {A B : Type}.
Variable f : A -> B.
Variable zeroB : B.

(* invariant of the loop: `done` already written, `rest` still zero *)
Lemma fill_enumerate (l : list A) : forall (done : list B) (log : list A) (pad : list B),
  length pad = length l ->
  fill f (enumerate_from (length done) l) (done ++ pad) log
  = Ret (done ++ map f l, log ++ l).
Proof.
  induction l as [|a t IH]; intros done log pad Hlen; cbn.
  - destruct pad; [|discriminate]. rewrite !app_nil_r. reflexivity.
  - destruct pad as [|p pad]; [discriminate|]. cbn in Hlen.
    rewrite set_nth_app. cbn.
    replace (done ++ f a :: pad) with ((done ++ [f a]) ++ pad)
      by (rewrite <- app_assoc; reflexivity).
    replace (S (length done)) with (length (done ++ [f a]))
      by (rewrite app_length; cbn; lia).
    rewrite IH by lia. rewrite <- !app_assoc. reflexivity.
Qed.

Theorem fmap_slice_spec (l : list A) :
  fmap_slice f zeroB l = Ret (map f l, l).
Proof.
  unfold fmap_slice.
  apply (fill_enumerate l [] [] (zeros zeroB (length l))).
  unfold zeros. apply repeat_length.
Qed.

Corollary fmap_slice_length (l : list A) out log :
  fmap_slice f zeroB l = Ret (out, log) -> length out = length l.
Proof. rewrite fmap_slice_spec. intros H; inversion H. apply map_length. Qed.

Corollary fmap_slice_nth (l : list A) out log i a :
  fmap_slice f zeroB l = Ret (out, log) -> nth_error l i = Some a ->
  nth_error out i = Some (f a).
Proof.
  rewrite fmap_slice_spec. intros H Hn; inversion H; subst.
  apply map_nth_error. exact Hn.
Qed.
End P.

Section S.
Context {B : Type}.
Variable f : rune -> B.
Variable zeroB : B.

(* holds for EVERY byte string: the proof never looks inside the decoder *)
Theorem fmap_string_spec (s : list byte) :
  fmap_string f zeroB s = Ret (map f (runes s), runes s).
Proof. unfold fmap_string. apply fmap_slice_spec. Qed.
End S.

(* The pinned tree's byte-offset indexing: "éa" = C3 A9 61 and "aéb" panic
   (any multi-byte rune that is not the last one pushes a later offset past the rune count). *)
Theorem fmap_string_byteidx_refuted_panic :
  fmap_string_byteidx (fun r => r) 0%N [195; 169; 97]%N = Panic.
Proof. vm_compute. reflexivity. Qed.

Theorem fmap_string_byteidx_refuted_panic2 :
  fmap_string_byteidx (fun r => r) 0%N [97; 195; 169; 98]%N = Panic.
Proof. vm_compute. reflexivity. Qed.

Section J.
Context {A : Type}.

Lemma join_loop_spec (ls : list (gslice A)) : forall res,
  join_loop ls res = res ++ concat (map slice_elems ls).
Proof.
  induction ls as [|e t IH]; intros res; cbn.
  - rewrite app_nil_r; reflexivity.
  - rewrite IH, app_assoc. reflexivity.
Qed.

Theorem join_slices_spec (ll : gslice (gslice A)) :
  join_slices ll =
  match ll with
  | SNil => SNil
  | SList ls => SList (concat (map slice_elems ls))
  end.
Proof. destruct ll as [|ls]; cbn; [reflexivity|]. rewrite join_loop_spec. reflexivity. Qed.

(* the pre-computed capacity is exactly the final length: append never reallocates, so the
   result's backing array is the fresh `make` and no input backing array is written *)
Lemma total_len_spec (ls : list (gslice A)) : forall acc,
  fold_left (fun acc e => acc + length (slice_elems e)) ls acc
  = acc + length (concat (map slice_elems ls)).
Proof.
  induction ls as [|e t IH]; intros acc; cbn; [lia|].
  rewrite IH, app_length. lia.
Qed.

Theorem join_capacity_exact (ls : list (gslice A)) :
  total_len ls = length (join_loop ls []).
Proof. unfold total_len. rewrite total_len_spec, join_loop_spec. reflexivity. Qed.

Theorem join_nil_iff (ll : gslice (gslice A)) :
  join_slices ll = SNil <-> ll = SNil.
Proof. destruct ll; cbn; split; intros H; try reflexivity; discriminate. Qed.
End J.

Theorem join_strings_spec (l : list (list byte)) : join_strings l = concat l.
Proof. reflexivity. Qed.

(* non-vacuity *)
Example fmap_slice_ex : fmap_slice (fun x => x * 2)%Z 0%Z [1; 2; 3]%Z = Ret ([2; 4; 6]%Z, [1; 2; 3]%Z).
Proof. vm_compute. reflexivity. Qed.
Example fmap_string_ex : fmap_string (fun r => r) 0%N [195; 169; 97]%N = Ret ([233; 97]%N, [233; 97]%N).
Proof. vm_compute. reflexivity. Qed.
Example join_ex : join_slices (SList [SList [1; 2]; SNil; SList []; SList [3]]) = SList [1; 2; 3].
Proof. vm_compute. reflexivity. Qed.
