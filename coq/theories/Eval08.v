(* Eval08.v — evaluation of C08 observations (stub: replaced when C08 is built). *)
From Verif Require Import Base Sexp.
Open Scope string_scope.

Definition eval08 (e : sexp) : verdict := bad_line.
