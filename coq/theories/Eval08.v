(* Eval08.v — evaluation of C08 observations.
   (ops ...)          operation sequences on one real typesMap, replayed many times: the list of
                      DISTINCT answer traces observed; the property wants exactly one, the model
                      (registration-order nameOf) predicts which.
   (sortplugins ...)  sortPlugins on one ordering of a set of distinct prefixes.
   (imports ...)      the import block printer.WriteTo emits for a table of (alias, path).
   (runs ...)         number of distinct sha256 of derived.gen.go over repeated runs / invocation
                      variants of one package. *)
From Verif Require Import Base Sexp Gen.TypesMap Gen.TmEval Gen.Determinism.
Open Scope string_scope.

Definition parse_op (e : sexp) : option (op nat) :=
  match e with
  | L [Sym "set"; Sym n; Num t] => Some (OSet n (Z.to_nat t))
  | L [Sym "get"; Num t] => Some (OGet (Z.to_nat t))
  | L [Sym "gen"; Num t] => Some (OGenerating (Z.to_nat t))
  | L [Sym "togen"] => Some OToGenerate
  | L [Sym "done"] => Some ODone
  | _ => None
  end.

Definition ans_sexp (a : ans nat) : sexp :=
  match a with
  | ASet (SOk n) => L [Sym "ok"; Sym n]
  | ASet (SDup h w) => L [Sym "err"; Sym "dup"; Sym h; Sym w]
  | ASet (SConflict n) => L [Sym "err"; Sym "conflict"; Sym n]
  | ASet SFuel => L [Sym "fuel"]
  | AGet (Some n) => L [Sym "name"; Sym n]
  | AGet None => L [Sym "fuel"]
  | AGenerating true => L [Sym "ok"]
  | AGenerating false => L [Sym "panic"]
  | AToGenerate l => L (map of_nat l)
  | ADone b => of_bool b
  end.

(* an error message the harness could not classify matches any model error *)
Fixpoint trace_match (m real : list sexp) : bool :=
  match m, real with
  | [], [] => true
  | x :: m', y :: r' =>
      (sexp_eqb x y ||
       match x, y with
       | L (Sym "err" :: _), L [Sym "err"; Sym "unknown"] => true
       | _, _ => false
       end) && trace_match m' r'
  | _, _ => false
  end.

(* does some look-up of this operation see more than one matching entry?  (the inputs on which
   the pinned nameOf was nondeterministic) *)
Definition nmatch (c : ctx) (t : list (name * nat)) (q : nat) : nat :=
  List.length (filter (fun e => teq_of c q (snd e)) t).
Definition multi (c : ctx) (s : tm nat) (x : op nat) : bool :=
  match x with
  | OSet _ q | OGet q | OGenerating q => Nat.ltb 1 (nmatch c (tbl s) q)
  | OToGenerate | ODone => existsb (fun q => Nat.ltb 1 (nmatch c (tbl s) q)) (map snd (tbl s))
  end.

Fixpoint any_multi (c : ctx) (s : tm nat) (ops : list (op nat)) : bool :=
  match ops with
  | [] => false
  | x :: r =>
      multi c s x ||
      any_multi c (fst (step nat (teq_of c) (hint_of c) in_order s x)) r
  end.

Definition eval_ops (ce fl opse reals : sexp) : verdict :=
  match parse_ctx ce, fl, opse, reals with
  | Some c, L [Sym "flags"; fa; fd], L ol, L (Sym "answers" :: traces) =>
      match get_bool fa, get_bool fd, map_opt parse_op ol, map_opt get_list traces with
      | Some a, Some d, Some ops, Some trs =>
          let s0 := init (nth 0 (c_prefixes c) "") (c_reserved c) a d in
          let m := map ans_sexp (snd (run nat (teq_of c) (hint_of c) in_order s0 ops)) in
          {| v_known := true;
             v_model_ok := forallb (trace_match m) trs && negb (Nat.eqb (List.length trs) 0);
             v_spec_ok := Nat.eqb (List.length trs) 1;
             v_guard := true;
             v_model := L m;
             v_tag := "ops/" ++ (if any_multi c s0 ops then "multi-match" else "unique-match") ++
                      (if teq_is_identity c then "/identity" else "/assignable") ++
                      (if a then "/autoname" else "") ++ (if d then "/dedup" else "") |}
      | _, _, _, _ => bad_line
      end
  | _, _, _, _ => bad_line
  end.

Fixpoint sortedb (less : string -> string -> bool) (l : list string) : bool :=
  match l with
  | [] => true
  | x :: r => forallb (fun y => negb (less y x)) r && sortedb less r
  end.

Definition syms_sexp (l : list string) : sexp := L (map Sym l).
Fixpoint list_eqb (a b : list string) : bool :=
  match a, b with
  | [], [] => true
  | x :: a', y :: b' => String.eqb x y && list_eqb a' b'
  | _, _ => false
  end.

Definition eval_sortplugins (ie re : sexp) : verdict :=
  match get_syms ie, get_syms re with
  | Some input, Some real =>
      let m := isort less input in
      {| v_known := true;
         v_model_ok := list_eqb m real;
         v_spec_ok := sortedb less real && list_eqb (isort sless real) (isort sless input);
         v_guard := nodupb String.eqb input;
         v_model := syms_sexp m;
         v_tag := "sortplugins/" ++ (if list_eqb input m then "already-sorted" else "shuffled") |}
  | _, _ => bad_line
  end.

Definition parse_pair (e : sexp) : option (string * string) :=
  match e with L [Sym a; Sym p] => Some (a, p) | _ => None end.
Definition line_sexp (l : string * string) : sexp :=
  match l with
  | ("", p) => L [Sym p]
  | (a, p) => L [Sym a; Sym p]
  end.

Definition eval_imports (ie re : sexp) : verdict :=
  match ie, re with
  | L il, L rl =>
      match map_opt parse_pair il with
      | Some im =>
          let m := L (map line_sexp (write_to (isort sless) im)) in
          {| v_known := true;
             v_model_ok := sexp_eqb m re;
             v_spec_ok := sexp_eqb m re;   (* sorted by path, one line per pair: the model IS the specification here *)
             v_guard := nodupb String.eqb (map snd im) && nodupb String.eqb (map fst im);
             v_model := m;
             v_tag := "imports/" ++ len_code (List.length im) ++
                      (if existsb (fun '(a, p) => String.eqb a p) im then "/plain" else "/aliased") |}
      | None => bad_line
      end
  | _, _ => bad_line
  end.

Definition eval08 (e : sexp) : verdict :=
  match e with
  | L [Sym "ops"; ce; fl; ops; reals] => eval_ops ce fl ops reals
  | L [Sym "sortplugins"; ie; re] => eval_sortplugins ie re
  | L [Sym "imports"; ie; re] => eval_imports ie re
  | L [Sym "runs"; Sym cls; Num n; Num distinct] =>
      {| v_known := true; v_model_ok := Z.eqb distinct 1; v_spec_ok := Z.eqb distinct 1;
         v_guard := true; v_model := Num 1; v_tag := "runs/" ++ cls |}
  | _ => bad_line
  end.
