(* Copy/Top.v — the three top-level forms of deriveDeepCopy(dst, src) and deriveClone. *)
From Verif Require Import Go.Ty Go.Val Go.Equal Go.EqualProofs Go.CompareSpec Go.Canon
  Copy.Model Copy.Erase Copy.Proofs Copy.Main.
From Coq Require Import Lia.
Open Scope nat_scope.
Open Scope list_scope.

(* what holds of the destination after deriveDeepCopy(dst, src) *)
Definition top_post (e : tenv) (t : ty) (dst src : val) (n : N) (r : val) (n' : N) : Prop :=
  erase r = erase src /\ (n <= n')%N /\ has_type e t r = true /\
  forall l, In l (labels r) -> fresh_or n n' (labels dst) l.

Theorem top_good e t dst src n :
  has_type e t src = true -> has_type e t dst = true -> top_guard src dst = true ->
  good (top_post e t dst src n) (deepcopy_top e t dst src n).
Proof.
  intros Hs Hd G. pose proof Hs as Hs0. pose proof Hd as Hd0. unfold deepcopy_top.
  rewrite has_type_unfold in Hs, Hd. destruct (resolve e t) as [r|] eqn:R; [|discriminate].
  rewrite (can_copy_node _ _ _ R). cbn zeta in Hs, Hd |- *.
  destruct src; try discriminate G; destruct dst; try discriminate G;
  destruct (r_node r) eqn:Nd; try discriminate Hs; cbn [can_equal].
  all: try (cbn in Hs; destruct k; discriminate).
  - (* pointer form *)
    destruct (ptr_body_good' src (r_env r) t0 (Some dst) n Hs Hd)
      as [U|(v & n' & E & E1 & M1 & T1 & L1)]; rewrite ?U, ?E; cbn [rbind]; [left; reflexivity|].
    right. exists (VPtr l0 v), n'. split; [reflexivity|].
    split; [cbn; rewrite E1; reflexivity|]. split; [exact M1|].
    split; [rewrite has_type_unfold, R; cbn zeta; rewrite Nd; exact T1|].
    intros x Hx. cbn in Hx. destruct Hx as [<-|Hx]; [right; left; reflexivity|].
    destruct (L1 x Hx) as [H|H]; [left; exact H| right; right; exact H].
  - (* nil slices *)
    cbn [slice_elems]. right. exists VNilS, n. split; [destruct (can_copy t0); reflexivity|].
    split; [reflexivity|]. split; [lia|]. split; [exact Hd0|]. intros x [].
  - (* slices of equal length *)
    cbn [slice_elems]. cbn in G. apply Nat.eqb_eq in G.
    apply andb_prop in Hs as [Hs _]. apply andb_prop in Hd as [Hd1 Hd2].
    destruct (can_copy t0) eqn:C0.
    + right. eexists; eexists; split; [reflexivity|].
      rewrite G, Nat.min_id. rewrite <- G at 1. rewrite firstn_all, skipn_all, app_nil_r.
      split; [reflexivity|]. split; [lia|].
      split; [rewrite has_type_unfold, R; cbn zeta; rewrite Nd, Hs, Hd2; reflexivity|].
      intros x Hx. cbn in Hx. destruct Hx as [<-|Hx]; [right; left; reflexivity|].
      apply in_app_or in Hx as [Hx|Hx].
      * exfalso. rewrite flat_map_nil in Hx; [destruct Hx|].
        apply forallb_Forall in Hs. rewrite Forall_forall in *. intros a Ha.
        apply (can_copy_no_labels a (r_env r) t0 C0). apply Hs; exact Ha.
      * right. cbn. right. apply in_or_app. right; exact Hx.
    + replace (length es0 <? length es) with false by (symmetry; apply Nat.ltb_ge; lia).
      rewrite andb_false_r.
      assert (HF : Forall P es) by (rewrite Forall_forall; intros a _; apply (all_Q a)).
      destruct (copy_elems_good (fun a q m => dcf (r_env r) t0 a q m) (has_type (r_env r) t0) (prior_ok (r_env r) t0) es
                  (elems_premise _ _ _ HF Hs) (map Some es0) n ltac:(rewrite map_length; lia)
                  (Forall_map_Some _ (has_type (r_env r) t0) es0 (fun d Hd' => Hd') Hd1))
        as [U|(vs & n' & E & E1 & M1 & T1 & L1)]; rewrite ?U, ?E; cbn [rbind]; [left; reflexivity|].
      right. eexists; eexists; split; [reflexivity|]. cbn [fst snd].
      rewrite G, skipn_all, app_nil_r.
      split; [cbn; rewrite E1; reflexivity|]. split; [exact M1|].
      split; [rewrite has_type_unfold, R; cbn zeta; rewrite Nd, T1, Hd2; reflexivity|].
      intros x Hx. cbn in Hx. destruct Hx as [<-|Hx]; [right; left; reflexivity|].
      apply in_app_or in Hx as [Hx|Hx].
      * destruct (L1 x Hx) as [H|H]; [left; exact H|]. right. cbn. right. apply in_or_app. left.
        rewrite flat_olabels_some in H. exact H.
      * right. cbn. right. apply in_or_app. right; exact Hx.
  - (* nil maps *)
    destruct (negb (can_copy t0_1)); [left; reflexivity|].
    right. exists VNilM, n. split; [reflexivity|]. split; [reflexivity|]. split; [lia|]. split; [exact Hd0|]. intros x [].
  - (* into an empty map *)
    destruct kvs0; [|discriminate G].
    apply andb_prop in Hs as [Hs Tkv]. apply andb_prop in Hs as [Ck Kd].
    unfold can_copy at 1. rewrite Ck. cbn [negb].
    assert (HF : Forall (fun kv => P (fst kv) /\ P (snd kv)) kvs)
      by (rewrite Forall_forall; intros kv _; split; apply all_Q).
    destruct (copy_entries_good (fun a q m => dcf (r_env r) t0_2 a q m) (nullable t0_2) (local_value (r_env r) t0_2)
                (r_env r) t0_1 t0_2 kvs Ck
                (entries_premise _ _ _ HF (forallb_snd_typed _ _ _ _ Tkv)) Tkv Kd [] n)
      as [U|(m & n' & E & m' & Em & Kf & Ee & M1 & T1 & L1)]; rewrite ?U, ?E; cbn [rbind]; [intros a k []|left; reflexivity|].
    cbn [app] in Em. subst m'.
    right. exists (VMap l0 m), n'. split; [reflexivity|].
    split; [cbn; fold (emap m); fold (emap kvs); rewrite Ee; reflexivity|]. split; [exact M1|].
    split; [rewrite has_type_unfold, R; cbn zeta; rewrite Nd, Ck, Kf, Kd, T1; reflexivity|].
    intros x Hx. cbn in Hx. destruct Hx as [<-|Hx]; [right; left; reflexivity|]. left. apply L1; exact Hx.
Qed.

(* what holds of the value returned by deriveClone(src) *)
Definition clone_post (e : tenv) (t : ty) (src : val) (n : N) (r : val) (n' : N) : Prop :=
  erase r = erase src /\ (n <= n')%N /\ has_type e t r = true /\
  forall l, In l (labels r) -> (n <= l < n')%N.

Lemma clone_default e t src n : has_type e t src = true ->
  good (clone_post e t src n) (ptr_body dcf e t src None (N.succ n)).
Proof.
  intros Hs. destruct (ptr_body_good' src e t None (N.succ n) Hs I)
    as [U|(v & n' & E & E1 & M1 & T1 & L1)]; [left; exact U|].
  right. exists v, n'. split; [exact E|]. split; [exact E1|]. split; [lia|]. split; [exact T1|].
  intros x Hx. destruct (L1 x Hx) as [H|[]]. lia.
Qed.

Theorem clone_good e t src n : has_type e t src = true ->
  good (clone_post e t src n) (clone_model e t src n).
Proof.
  intros Hs. pose proof Hs as Hs0. unfold clone_model.
  rewrite has_type_unfold in Hs. destruct (resolve e t) as [r|] eqn:R; [|discriminate].
  cbn zeta in Hs |- *.
  destruct (r_node r) eqn:Nd; destruct src; try discriminate Hs;
  try (apply clone_default; exact Hs0).
  all: try (cbn in Hs; destruct k; discriminate).
  - right. exists VNilP, n. split; [reflexivity|]. split; [reflexivity|]. split; [lia|]. split; [exact Hs0|]. intros x [].
  - destruct (ptr_body_good' src (r_env r) t0 None (N.succ n) Hs I)
      as [U|(v & n' & E & E1 & M1 & T1 & L1)]; rewrite ?U, ?E; cbn [rbind]; [left; reflexivity|].
    right. exists (VPtr n v), n'. split; [reflexivity|].
    split; [cbn; rewrite E1; reflexivity|]. split; [lia|].
    split; [rewrite has_type_unfold, R; cbn zeta; rewrite Nd; exact T1|].
    intros x Hx. cbn in Hx. destruct Hx as [<-|Hx]; [lia|]. destruct (L1 x Hx) as [H|[]]. lia.
  - right. exists VNilS, n. split; [reflexivity|]. split; [reflexivity|]. split; [lia|]. split; [exact Hs0|]. intros x [].
  - apply andb_prop in Hs as [Hs _]. destruct (can_copy t0) eqn:C0.
    + right. exists (VSl n es []), (N.succ n). split; [reflexivity|]. split; [reflexivity|]. split; [lia|].
      split; [rewrite has_type_unfold, R; cbn zeta; rewrite Nd, Hs; reflexivity|].
      intros x Hx. cbn in Hx. rewrite app_nil_r in Hx. destruct Hx as [<-|Hx]; [lia|].
      exfalso. rewrite flat_map_nil in Hx; [destruct Hx|].
      apply forallb_Forall in Hs. rewrite Forall_forall in *. intros a Ha.
      apply (can_copy_no_labels a (r_env r) t0 C0). apply Hs; exact Ha.
    + assert (HF : Forall P es) by (rewrite Forall_forall; intros a _; apply (all_Q a)).
      destruct (copy_elems_good (fun a q m => dcf (r_env r) t0 a q m) (has_type (r_env r) t0) (prior_ok (r_env r) t0) es
                  (elems_premise _ _ _ HF Hs) (repeat None (length es)) (N.succ n) (repeat_length _ _)
                  (Forall_repeat_none _ _ I))
        as [U|(vs & n' & E & E1 & M1 & T1 & L1)]; rewrite ?U, ?E; cbn [rbind]; [left; reflexivity|].
      right. exists (VSl n vs []), n'. split; [reflexivity|].
      split; [cbn; rewrite E1; reflexivity|]. split; [lia|].
      split; [rewrite has_type_unfold, R; cbn zeta; rewrite Nd, T1; reflexivity|].
      intros x Hx. cbn in Hx. rewrite app_nil_r in Hx. destruct Hx as [<-|Hx]; [lia|].
      destruct (L1 x Hx) as [H|H]; [lia|]. rewrite flat_olabels_none in H. destruct H.
  - right. exists VNilM, n. split; [reflexivity|]. split; [reflexivity|]. split; [lia|]. split; [exact Hs0|]. intros x [].
  - apply andb_prop in Hs as [Hs Tkv]. apply andb_prop in Hs as [Ck Kd].
    unfold can_copy at 1. rewrite Ck. cbn [negb].
    assert (HF : Forall (fun kv => P (fst kv) /\ P (snd kv)) kvs)
      by (rewrite Forall_forall; intros kv _; split; apply all_Q).
    destruct (copy_entries_good (fun a q m => dcf (r_env r) t0_2 a q m) (nullable t0_2) (local_value (r_env r) t0_2)
                (r_env r) t0_1 t0_2 kvs Ck
                (entries_premise _ _ _ HF (forallb_snd_typed _ _ _ _ Tkv)) Tkv Kd [] (N.succ n))
      as [U|(m & n' & E & m' & Em & Kf & Ee & M1 & T1 & L1)]; rewrite ?U, ?E; cbn [rbind]; [intros a k []|left; reflexivity|].
    cbn [app] in Em. subst m'.
    right. exists (VMap n m), n'. split; [reflexivity|].
    split; [cbn; fold (emap m); fold (emap kvs); rewrite Ee; reflexivity|]. split; [lia|].
    split; [rewrite has_type_unfold, R; cbn zeta; rewrite Nd, Ck, Kf, Kd, T1; reflexivity|].
    intros x Hx. cbn in Hx. destruct Hx as [<-|Hx]; [lia|]. specialize (L1 x Hx). lia.
Qed.
