(* Copy/Frame.v — the frame reading of labels, as far as it can be said inside the value model.
   A write through a reference changes the object at one address.  On labelled values: [upd l f v]
   applies an arbitrary change [f] to every node of [v] that carries label [l] (the pointer target /
   backing array incl. spare capacity / map stored at address l), everywhere in v.  A value in
   which l does not occur is not affected.  That values with the same label denote the same
   object and values with different labels different objects is the meaning of labels (Go/Val.v);
   it is an assumption of the modelling, not a theorem. *)
From Verif Require Import Go.Ty Go.Val Copy.Model.
Open Scope list_scope.

Fixpoint upd (l : N) (f : val -> val) (v : val) {struct v} : val :=
  match v with
  | VPtr a x =>
      let v' := VPtr a (upd l f x) in if N.eqb a l then f v' else v'
  | VSl a es sp =>
      let v' := VSl a (map (upd l f) es) (map (upd l f) sp) in if N.eqb a l then f v' else v'
  | VMap a kvs =>
      let v' := VMap a (map (fun kv => (upd l f (fst kv), upd l f (snd kv))) kvs) in
      if N.eqb a l then f v' else v'
  | VArr es => VArr (map (upd l f) es)
  | VSt es => VSt (map (upd l f) es)
  | _ => v
  end.

Lemma map_id_on {A} (g : A -> A) (xs : list A) : (forall x, In x xs -> g x = x) -> map g xs = xs.
Proof.
  induction xs as [|x xs IH]; intros H; cbn; [reflexivity|].
  rewrite (H x (or_introl eq_refl)), IH; [reflexivity|]. intros y Hy. apply H. right; exact Hy.
Qed.

Lemma in_flat {A B} (g : A -> list B) (xs : list A) x b : In x xs -> In b (g x) -> In b (flat_map g xs).
Proof. intros Hx Hb. apply in_flat_map. exists x. split; assumption. Qed.

(* a write to an object that is not part of v is not visible through v *)
Theorem upd_absent l f : forall v, ~ In l (labels v) -> upd l f v = v.
Proof.
  induction v using val_ind'; intros Hn; try reflexivity.
  - cbn in Hn |- *. destruct (N.eqb_spec l0 l) as [->|_]; [exfalso; apply Hn; left; reflexivity|].
    rewrite IHv; [reflexivity|]. intros H. apply Hn. right; exact H.
  - cbn in Hn |- *. destruct (N.eqb_spec l0 l) as [->|_]; [exfalso; apply Hn; left; reflexivity|].
    rewrite !map_id_on; [reflexivity| |].
    + intros x Hx. rewrite Forall_forall in H0. apply (H0 x Hx). intros Hl. apply Hn. right.
      apply in_or_app. right. eapply in_flat; eassumption.
    + intros x Hx. rewrite Forall_forall in H. apply (H x Hx). intros Hl. apply Hn. right.
      apply in_or_app. left. eapply in_flat; eassumption.
  - cbn in Hn |- *. destruct (N.eqb_spec l0 l) as [->|_]; [exfalso; apply Hn; left; reflexivity|].
    rewrite map_id_on; [reflexivity|].
    intros [k x] Hx. rewrite Forall_forall in H. destruct (H (k, x) Hx) as [Hk Hv]. cbn in *.
    rewrite Hk, Hv; [reflexivity| |]; intros Hl; apply Hn; right;
    apply (in_flat (fun kv => labels (fst kv) ++ labels (snd kv)) kvs (k, x)); try assumption;
    cbn; apply in_or_app; [right|left]; exact Hl.
  - cbn in Hn |- *. rewrite map_id_on; [reflexivity|].
    intros x Hx. rewrite Forall_forall in H. apply (H x Hx). intros Hl. apply Hn. eapply in_flat; eassumption.
  - cbn in Hn |- *. rewrite map_id_on; [reflexivity|].
    intros x Hx. rewrite Forall_forall in H. apply (H x Hx). intros Hl. apply Hn. eapply in_flat; eassumption.
Qed.

(* values without a common label: no write through one is visible through the other *)
Corollary disjoint_frames a b :
  (forall l, In l (labels a) -> ~ In l (labels b)) ->
  (forall l f, In l (labels a) -> upd l f b = b) /\ (forall l f, In l (labels b) -> upd l f a = a).
Proof.
  intros D. split; intros l f Hl; apply upd_absent.
  - apply D; exact Hl.
  - intros Ha. exact (D l Ha Hl).
Qed.
