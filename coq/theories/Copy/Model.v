(* Copy/Model.v — model of the code emitted by plugin/deepcopy and plugin/clone (C05).

   The model follows the generator's case analysis:
     [dcf]          = genField      (statement copying one component  src -> dst),
     [ptr_body]     = genStatement, case *types.Pointer (body of the helper deriveDeepCopy( *T )),
     [copy_elems]   = genStatement, case *types.Slice / *types.Array (element loop),
     [copy_entries] = genStatement, case *types.Map (entry loop),
     [deepcopy_top] = genFunc: the three top-level forms  deriveDeepCopy(dst, src),
     [clone_model]  = plugin/clone genFuncFor.

   Memory.  Values carry address labels (Go/Val.v).  The source is an argument of the model
   and is never written.  The destination location's prior contents are [p : option val]:
   [None] stands for freshly allocated (zeroed) memory — new(T), make([]T, n), an absent
   map entry — so that the zero value of a type never has to be materialised: every
   location allocated by the emitted code is overwritten completely (len(dst) = len(src)
   after the length adjustment) before it becomes part of the result.
   Allocation is a counter [n : N]: new/make return label [n] and continue with [N.succ n].

   User-declared DeepCopy methods are not part of the model. *)
From Verif Require Export Go.Val.
Open Scope nat_scope.
Open Scope list_scope.

(* plugin/deepcopy canCopy is the same function as canEqual: basic types, and arrays and
   structs of those (through named types). *)
Definition can_copy (t : ty) : bool := can_equal t.

(* plugin/deepcopy nullable: a type switch on the type itself, NOT its underlying type *)
Definition nullable (t : ty) : bool :=
  match t with TP _ | TSl _ | TM _ _ => true | _ => false end.

Definition is_nilv (v : val) : bool :=
  match v with VNilP | VNilS | VNilM => true | _ => false end.

(* ---------- labels (addresses) occurring in a value ---------- *)
Fixpoint labels (v : val) : list N :=
  match v with
  | VPtr l v' => l :: labels v'
  | VSl l es sp => l :: flat_map labels es ++ flat_map labels sp
  | VMap l kvs => l :: flat_map (fun kv => labels (fst kv) ++ labels (snd kv)) kvs
  | VArr es => flat_map labels es
  | VSt es => flat_map labels es
  | _ => []
  end.

Definition olabels (p : option val) : list N :=
  match p with Some v => labels v | None => [] end.

(* ---------- prior contents of the components of a destination ---------- *)
Definition field_priors (p : option val) (k : nat) : res (list (option val)) :=
  match p with
  | None => Ok (repeat None k)
  | Some (VSt ps) => Ok (map Some ps)
  | Some _ => Stuck
  end.
Definition elem_priors (p : option val) (k : nat) : res (list (option val)) :=
  match p with
  | None => Ok (repeat None k)
  | Some (VArr ps) => Ok (map Some ps)
  | Some _ => Stuck
  end.

(* m[k] = v.  An existing entry with an == key is overwritten; the runtime also stores the
   new key for key types where == does not imply identical bits (floats, strings), and for
   the other key types the two keys are indistinguishable. *)
Fixpoint map_set (k v : val) (m : list (val * val)) : list (val * val) :=
  match m with
  | [] => [(k, v)]
  | kv :: m' => if go_eqeq (fst kv) k then (k, v) :: m' else kv :: map_set k v m'
  end.

(* genField, case *types.Slice: which backing array the destination slice has before the
   elements are copied.  Result: (label, prior contents of the len(src) elements, spare
   elements behind them, allocation counter). *)
Definition slice_target (p : option val) (k : nat) (n : N)
  : res (N * list (option val) * list val * N) :=
  match p with
  | None | Some VNilS =>                                   (* dst == nil: make *)
      Ok (n, repeat None k, [], N.succ n)
  | Some (VSl ld des dsp) =>
      if length des <? k then                              (* len(src) > len(dst) *)
        if k <=? length des + length dsp then              (* cap(dst) >= len(src): dst[:len(src)] *)
          Ok (ld, map Some (firstn k (des ++ dsp)), skipn k (des ++ dsp), n)
        else Ok (n, repeat None k, [], N.succ n)           (* make *)
      else if k <? length des then                         (* len(src) < len(dst): dst[:len(src)] *)
        Ok (ld, map Some (firstn k des), skipn k des ++ dsp, n)
      else Ok (ld, map Some des, dsp, n)                   (* equal lengths: keep *)
  | Some _ => Stuck
  end.

Section Loops.
Variable f : val -> option val -> N -> res (val * N).   (* copy one component *)

(* for i, v := range src { dst[i] <- copy v }: index out of range when dst is shorter *)
Fixpoint copy_elems (ss : list val) (ps : list (option val)) (n : N) {struct ss}
  : res (list val * N) :=
  match ss with
  | [] => Ok ([], n)
  | s :: ss' =>
      match ps with
      | [] => Pan
      | p :: ps' =>
          rdo r1 <- f s p n;
          rdo r2 <- copy_elems ss' ps' (snd r1);
          Ok (fst r1 :: fst r2, snd r2)
      end
  end.

(* for k, v := range src { [if v == nil { dst[k] = nil }]; dst[k] <- copy v }
   [loc]: the value type is an array that is not assignable; an array inside a map is not
   addressable, so the emitted code fills a zeroed local `var dst_value [n]T` and then stores
   it: dst[k] = dst_value  (the prior entry plays no role). *)
Variable nul : bool.
Variable loc : bool.
Fixpoint copy_entries (kvs : list (val * val)) (m : list (val * val)) (n : N) {struct kvs}
  : res (list (val * val) * N) :=
  match kvs with
  | [] => Ok (m, n)
  | kv :: kvs' =>
      let m1 := if (nul && is_nilv (snd kv))%bool then map_set (fst kv) (snd kv) m else m in
      rdo r1 <- f (snd kv) (if loc then None else map_get (fst kv) m1) n;
      copy_entries kvs' (map_set (fst kv) (fst r1) m1) (snd r1)
  end.
End Loops.

Section Fields.
Variable f : ty -> val -> option val -> N -> res (val * N).
(* dst.F0 <- copy src.F0; dst.F1 <- copy src.F1; ... *)
Fixpoint copy_fields (fs : list (bool * ty)) (ss : list val) (ps : list (option val)) (n : N)
  {struct ss} : res (list val * N) :=
  match fs, ss, ps with
  | [], [], [] => Ok ([], n)
  | fd :: fs', s :: ss', p :: ps' =>
      rdo r1 <- f (snd fd) s p n;
      rdo r2 <- copy_fields fs' ss' ps' (snd r1);
      Ok (fst r1 :: fst r2, snd r2)
  | _, _, _ => Stuck
  end.
End Fields.

(* genStatement, case *types.Map: is the value type an array that has to be copied element-wise? *)
Definition local_value (e : tenv) (vt : ty) : bool :=
  (negb (can_copy vt) &&
   match resolve e vt with
   | Some r => match r_node r with TAr _ _ => true | _ => false end
   | None => false
   end)%bool.

(* genStatement, case *types.Pointer: body of deriveDeepCopy(dst, src *rt) for non-nil
   arguments; [sv] = *src, [p] = prior *dst; the result is the new *dst.
   [rec] is genField. *)
Definition ptr_body (rec : tenv -> ty -> val -> option val -> N -> res (val * N))
  (e : tenv) (rt : ty) (sv : val) (p : option val) (n : N) : res (val * N) :=
  match resolve e rt with
  | None => Stuck
  | Some rr =>
      match r_node rr with
      | TSt fs =>
          if is_named rr then
            match sv with
            | VSt svs =>
                rdo ps <- field_priors p (length svs);
                rdo r <- copy_fields (rec (r_env rr)) fs svs ps n;
                Ok (VSt (fst r), snd r)
            | _ => Stuck
            end
          else Unsup                       (* "unsupported deepcopy type": unnamed struct *)
      | _ => rec e rt sv p n               (* genField(reftyp, *src, *dst) *)
      end
  end.

(* genField(t, src, dst): the new contents of the destination location *)
Fixpoint dcf (e : tenv) (t : ty) (s : val) (p : option val) (n : N) {struct s} : res (val * N) :=
  if can_copy t then Ok (s, n) else                        (* dst = src *)
  match resolve e t with
  | None => Stuck
  | Some r =>
      let e' := r_env r in
      match r_node r, s with
      | TP _, VNilP => Ok (VNilP, n)                        (* dst = nil *)
      | TP rt, VPtr _ sv =>
          (* dst = new(rt) *)
          if can_copy rt then Ok (VPtr n sv, N.succ n)      (* *dst = *src *)
          else
            (* deriveDeepCopy(dst, src) for the pointer type, on the zeroed new memory *)
            rdo r1 <- ptr_body dcf e' rt sv None (N.succ n);
            Ok (VPtr n (fst r1), snd r1)
      | TAr _ et, VArr ses =>
          rdo ps <- elem_priors p (length ses);
          rdo r1 <- copy_elems (fun a q m => dcf e' et a q m) ses ps n;
          Ok (VArr (fst r1), snd r1)
      | TSl _, VNilS => Ok (VNilS, n)
      | TSl et, VSl _ ses _ =>
          rdo tg <- slice_target p (length ses) n;
          let '(l, ps, sp, n1) := tg in
          if can_copy et then Ok (VSl l ses sp, n1)         (* copy(dst, src), len(dst) = len(src) *)
          else
            rdo r1 <- copy_elems (fun a q m => dcf e' et a q m) ses ps n1;
            Ok (VSl l (fst r1) sp, snd r1)
      | TM _ _, VNilM => Ok (VNilM, n)
      | TM kt vt, VMap _ kvs =>
          (* a key that cannot be assigned is "copied" into an undeclared variable: the
             emitted code does not compile (C01's subject) *)
          if negb (can_copy kt) then Unsup else
          (* dst = make(map, len(src)); deriveDeepCopy(dst, src) *)
          rdo r1 <- copy_entries (fun a q m => dcf e' vt a q m) (nullable vt) (local_value e' vt) kvs [] (N.succ n);
          Ok (VMap n (fst r1), snd r1)
      | TSt fs, VSt svs =>
          (* field := new(T); deriveDeepCopy(field, &src); dst = *field *)
          if is_named r then
            rdo r1 <- copy_fields (fun ft a q m => dcf e' ft a q m) fs svs
                        (repeat None (length svs)) (N.succ n);
            Ok (VSt (fst r1), snd r1)
          else Unsup
      | _, _ => Stuck
      end
  end.

(* types without data: struct{}, [0]T, and arrays/structs of those (through names) *)
Fixpoint zero_size (t : ty) : bool :=
  match t with
  | TN _ _ u => zero_size u
  | TAr n et => (Nat.eqb n 0 || zero_size et)%bool
  | TSt fs => (fix go (l : list (bool * ty)) : bool :=
                 match l with [] => true | f :: l' => (zero_size (snd f) && go l')%bool end) fs
  | _ => false
  end.

(* arrays without elements ([0]T, [n][0]T, ...): the element loop of such a type has no iteration *)
Fixpoint empty_array (t : ty) : bool :=
  match t with
  | TN _ _ u => empty_array u
  | TAr n et => (Nat.eqb n 0 || empty_array et)%bool
  | _ => false
  end.

Definition slice_elems (v : val) : option (list val) :=
  match v with VNilS => Some [] | VSl _ es _ => Some es | _ => None end.

(* genFunc: deriveDeepCopy(dst, src t) as seen by the caller: the new value of dst (the
   reference itself is passed by value and cannot change). *)
Definition deepcopy_top (e : tenv) (t : ty) (dst src : val) (n : N) : res (val * N) :=
  if can_copy t then Ok (dst, n) else          (* `dst = src` assigns the parameter only *)
  match resolve e t with
  | None => Stuck
  | Some r =>
      let e' := r_env r in
      match r_node r with
      | TP rt =>
          match src, dst with
          | VPtr _ sv, VPtr ld dv =>
              rdo r1 <- ptr_body dcf e' rt sv (Some dv) n;
              Ok (VPtr ld (fst r1), snd r1)
          | VNilP, (VNilP | VPtr _ _) | VPtr _ _, VNilP =>
              (* the emitted statements dereference src and assign through dst: nil pointer
                 dereference.  For a referent of size zero no statement may execute at all
                 (struct{}, [0]T): not modelled. *)
              if zero_size rt then Stuck else Pan
          | _, _ => Stuck
          end
      | TSl et =>
          match slice_elems src, dst with
          | Some ses, VNilS =>
              if can_copy et then Ok (VNilS, n)            (* copy(nil, src) copies nothing *)
              else match ses with
                   | [] => Ok (VNilS, n)
                   | _ => if empty_array et then Stuck else Pan     (* dst[i]: index out of range *)
                   end
          | Some ses, VSl ld des dsp =>
              if can_copy et then
                let m := Nat.min (length ses) (length des) in
                Ok (VSl ld (firstn m ses ++ skipn m des) dsp, n)
              else if (empty_array et && (length des <? length ses))%bool then
                (* a shorter destination makes dst[i] panic when it is evaluated; for elements
                   that are arrays without elements it never is: not modelled *)
                Stuck
              else
                rdo r1 <- copy_elems (fun a q m => dcf e' et a q m) ses (map Some des) n;
                Ok (VSl ld (fst r1 ++ skipn (length ses) des) dsp, snd r1)
          | _, _ => Stuck
          end
      | TM kt vt =>
          if negb (can_copy kt) then Unsup else
          match src with
          | VNilM => match dst with VNilM | VMap _ _ => Ok (dst, n) | _ => Stuck end
          | VMap _ kvs =>
              match dst with
              | VMap ld dm =>
                  rdo r1 <- copy_entries (fun a q m => dcf e' vt a q m) (nullable vt) (local_value e' vt) kvs dm n;
                  Ok (VMap ld (fst r1), snd r1)
              | VNilM =>
                  match kvs with
                  | [] => Ok (dst, n)
                  | _ :: _ => Pan                           (* assignment to entry in nil map *)
                  end
              | _ => Stuck
              end
          | _ => Stuck
          end
      | TSt _ => Unsup                          (* "unsupported deepcopy underlying type" *)
      | _ => Stuck                              (* arrays by value: not a form of the property *)
      end
  end.

(* the destinations the property speaks about: a non-nil pointer (from a non-nil source), a
   slice of equal length, an empty map.  The reference itself is passed by value, so whether it
   is nil is the caller's choice and has to agree with the source. *)
Definition top_guard (src dst : val) : bool :=
  match src, dst with
  | VPtr _ _, VPtr _ _ => true
  | VNilS, VNilS => true
  | VSl _ a _, VSl _ b _ => Nat.eqb (length a) (length b)
  | VNilM, VNilM => true
  | VMap _ _, VMap _ [] => true
  | _, _ => false
  end.

(* plugin/clone genFuncFor *)
Definition clone_model (e : tenv) (t : ty) (src : val) (n : N) : res (val * N) :=
  match resolve e t with
  | None => Stuck
  | Some r =>
      let e' := r_env r in
      match r_node r, src with
      | TP _, VNilP => Ok (VNilP, n)
      | TP rt, VPtr _ sv =>
          (* dst := new(rt); deriveDeepCopy(dst, src); return dst *)
          rdo r1 <- ptr_body dcf e' rt sv None (N.succ n);
          Ok (VPtr n (fst r1), snd r1)
      | TSl _, VNilS => Ok (VNilS, n)
      | TSl et, VSl _ ses _ =>
          (* dst := make(T, len(src)); deriveDeepCopy(dst, src); return dst *)
          if can_copy et then Ok (VSl n ses [], N.succ n)
          else
            rdo r1 <- copy_elems (fun a q m => dcf e' et a q m) ses (repeat None (length ses)) (N.succ n);
            Ok (VSl n (fst r1) [], snd r1)
      | TM _ _, VNilM => Ok (VNilM, n)
      | TM kt vt, VMap _ kvs =>
          if negb (can_copy kt) then Unsup else
          rdo r1 <- copy_entries (fun a q m => dcf e' vt a q m) (nullable vt) (local_value e' vt) kvs [] (N.succ n);
          Ok (VMap n (fst r1), snd r1)
      | (TP _ | TSl _ | TM _ _), _ => Stuck
      | _, _ =>
          (* dst := new(T); deriveDeepCopy(dst, &src); return *dst *)
          ptr_body dcf e t src None (N.succ n)
      end
  end.
