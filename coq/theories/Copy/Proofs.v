(* Copy/Proofs.v — the copy computed by the model of plugin/deepcopy is, for EVERY type, source
   value and prior destination: well defined (no panic), of the same shape as the source up to
   labels and spare capacity (hence structurally equal, nil-ness included), well typed, and
   built only from freshly allocated memory and memory of the prior destination. *)
From Verif Require Import Go.Ty Go.Val Go.Equal Go.EqualProofs Go.CompareSpec Go.Canon Copy.Model Copy.Erase.
From Coq Require Import Lia.
Open Scope nat_scope.
Open Scope list_scope.

Lemma dcf_unfold e t s p n :
  dcf e t s p n =
  if can_copy t then Ok (s, n) else
  match resolve e t with
  | None => Stuck
  | Some r =>
      let e' := r_env r in
      match r_node r, s with
      | TP _, VNilP => Ok (VNilP, n)
      | TP rt, VPtr _ sv =>
          if can_copy rt then Ok (VPtr n sv, N.succ n)
          else
            rdo r1 <- ptr_body dcf e' rt sv None (N.succ n);
            Ok (VPtr n (fst r1), snd r1)
      | TAr _ et, VArr ses =>
          rdo ps <- elem_priors p (length ses);
          rdo r1 <- copy_elems (fun a q m => dcf e' et a q m) ses ps n;
          Ok (VArr (fst r1), snd r1)
      | TSl _, VNilS => Ok (VNilS, n)
      | TSl et, VSl _ ses _ =>
          rdo tg <- slice_target p (length ses) n;
          let '(l, ps, sp, n1) := tg in
          if can_copy et then Ok (VSl l ses sp, n1)
          else
            rdo r1 <- copy_elems (fun a q m => dcf e' et a q m) ses ps n1;
            Ok (VSl l (fst r1) sp, snd r1)
      | TM _ _, VNilM => Ok (VNilM, n)
      | TM kt vt, VMap _ kvs =>
          if negb (can_copy kt) then Unsup else
          rdo r1 <- copy_entries (fun a q m => dcf e' vt a q m) (nullable vt) (local_value e' vt) kvs [] (N.succ n);
          Ok (VMap n (fst r1), snd r1)
      | TSt fs, VSt svs =>
          if is_named r then
            rdo r1 <- copy_fields (fun ft a q m => dcf e' ft a q m) fs svs
                        (repeat None (length svs)) (N.succ n);
            Ok (VSt (fst r1), snd r1)
          else Unsup
      | _, _ => Stuck
      end
  end.
Proof. destruct s; reflexivity. Qed.

(* ---------- what is established for every call ---------- *)
Definition prior_ok (e : tenv) (t : ty) (p : option val) : Prop :=
  match p with None => True | Some d => has_type e t d = true end.

(* a label is either allocated by this call (n <= l < n') or one of A *)
Definition fresh_or (n n' : N) (A : list N) (l : N) : Prop := (n <= l < n')%N \/ In l A.

Definition post1 (ht : val -> bool) (s : val) (p : option val) (n : N) (r : val) (n' : N) : Prop :=
  erase r = erase s /\ (n <= n')%N /\ ht r = true /\
  forall l, In l (labels r) -> fresh_or n n' (olabels p) l.

Definition post (e : tenv) (t : ty) := post1 (has_type e t).

(* the generator refuses the type, or the call returns normally with Q *)
Definition good {A} (Q : A -> N -> Prop) (o : res (A * N)) : Prop :=
  o = Unsup \/ exists r n', o = Ok (r, n') /\ Q r n'.

Definition P (s : val) : Prop := forall e t p n,
  has_type e t s = true -> prior_ok e t p -> good (post e t s p n) (dcf e t s p n).

Lemma fresh_or_widen n n' m m' A B l :
  (m <= n)%N -> (n' <= m')%N -> (forall x, In x A -> In x B) -> fresh_or n n' A l -> fresh_or m m' B l.
Proof. intros H1 H2 H3 [H|H]; [left; lia| right; apply H3; exact H]. Qed.

Lemma flat_olabels_none k : flat_map olabels (repeat None k) = [].
Proof. induction k; cbn; [reflexivity| exact IHk]. Qed.
Lemma flat_olabels_some ps : flat_map olabels (map Some ps) = flat_map labels ps.
Proof. induction ps as [|a ps IH]; cbn; [reflexivity|]. rewrite IH. reflexivity. Qed.

(* ---------- element loop ---------- *)
Definition posts (ht : val -> bool) (ss : list val) (ps : list (option val)) (n : N)
  (vs : list val) (n' : N) : Prop :=
  map erase vs = map erase ss /\ (n <= n')%N /\ forallb ht vs = true /\
  forall l, In l (flat_map labels vs) -> fresh_or n n' (flat_map olabels ps) l.

Lemma copy_elems_good f (ht : val -> bool) (pok : option val -> Prop) ss :
  Forall (fun s => forall p n, pok p -> good (post1 ht s p n) (f s p n)) ss ->
  forall ps n, length ps = length ss -> Forall pok ps ->
  good (posts ht ss ps n) (copy_elems f ss ps n).
Proof.
  induction 1 as [|s ss Hs Hss IH]; intros ps n Hl Hp.
  - right. exists [], n. cbn. split; [reflexivity|]. repeat split; try reflexivity; try lia. intros l [].
  - destruct ps as [|p ps]; [discriminate|]. cbn in Hl. inversion Hp as [|? ? Hp1 Hp2]; subst.
    cbn [copy_elems]. destruct (Hs p n Hp1) as [U|(r & n1 & E & E1 & M1 & T1 & L1)]; rewrite ?U, ?E; cbn [rbind]; [left; reflexivity|].
    cbn [snd fst]. destruct (IH ps n1 ltac:(lia) Hp2) as [U|(vs & n2 & E2 & E3 & M2 & T2 & L2)]; rewrite ?U, ?E2; cbn [rbind]; [left; reflexivity|].
    right. exists (r :: vs), n2. split; [reflexivity|]. cbn [snd fst].
    split; [cbn; rewrite E1, E3; reflexivity|]. split; [lia|]. split; [cbn; rewrite T1, T2; reflexivity|].
    intros l Hin. cbn in Hin. apply in_app_or in Hin as [Hin|Hin].
    + apply (fresh_or_widen n n1 n n2 (olabels p)); try lia; [|apply L1; exact Hin].
      intros x Hx. cbn. apply in_or_app. left; exact Hx.
    + apply (fresh_or_widen n1 n2 n n2 (flat_map olabels ps)); try lia; [|apply L2; exact Hin].
      intros x Hx. cbn. apply in_or_app. right; exact Hx.
Qed.

(* ---------- field loop ---------- *)
Section FieldLoop.
Variable ht : ty -> val -> bool.
Variable pok : ty -> option val -> Prop.

Fixpoint fpriors_ok (fs : list (bool * ty)) (ps : list (option val)) : Prop :=
  match fs, ps with
  | [], [] => True
  | fd :: fs', p :: ps' => pok (snd fd) p /\ fpriors_ok fs' ps'
  | _, _ => False
  end.

Definition posts_f (fs : list (bool * ty)) (ss : list val) (ps : list (option val)) (n : N)
  (vs : list val) (n' : N) : Prop :=
  map erase vs = map erase ss /\ (n <= n')%N /\ fields_ok ht fs vs = true /\
  forall l, In l (flat_map labels vs) -> fresh_or n n' (flat_map olabels ps) l.

Lemma copy_fields_good f ss :
  Forall (fun s => forall ft p n, ht ft s = true -> pok ft p -> good (post1 (ht ft) s p n) (f ft s p n)) ss ->
  forall fs ps n, fields_ok ht fs ss = true -> fpriors_ok fs ps ->
  good (posts_f fs ss ps n) (copy_fields f fs ss ps n).
Proof.
  induction 1 as [|s ss Hs Hss IH]; intros fs ps n Ht Hp.
  - destruct fs; [|discriminate]. destruct ps; [|destruct Hp].
    right. exists [], n. cbn. split; [reflexivity|]. repeat split; try reflexivity; try lia. intros l [].
  - destruct fs as [|fd fs]; [discriminate|]. destruct ps as [|p ps]; [destruct Hp|].
    cbn in Ht. apply andb_prop in Ht as [Ht1 Ht2]. destruct Hp as [Hp1 Hp2].
    cbn [copy_fields]. destruct (Hs (snd fd) p n Ht1 Hp1) as [U|(r & n1 & E & E1 & M1 & T1 & L1)]; rewrite ?U, ?E; cbn [rbind]; [left; reflexivity|].
    cbn [snd fst]. destruct (IH fs ps n1 Ht2 Hp2) as [U|(vs & n2 & E2 & E3 & M2 & T2 & L2)]; rewrite ?U, ?E2; cbn [rbind]; [left; reflexivity|].
    right. exists (r :: vs), n2. split; [reflexivity|]. cbn [snd fst].
    split; [cbn; rewrite E1, E3; reflexivity|]. split; [lia|]. split; [cbn; rewrite T1, T2; reflexivity|].
    intros l Hin. cbn in Hin. apply in_app_or in Hin as [Hin|Hin].
    + apply (fresh_or_widen n n1 n n2 (olabels p)); try lia; [|apply L1; exact Hin].
      intros x Hx. cbn. apply in_or_app. left; exact Hx.
    + apply (fresh_or_widen n1 n2 n n2 (flat_map olabels ps)); try lia; [|apply L2; exact Hin].
      intros x Hx. cbn. apply in_or_app. right; exact Hx.
Qed.

Lemma fpriors_none fs ss : fields_ok ht fs ss = true -> (forall ft, pok ft None) ->
  fpriors_ok fs (repeat None (length ss)).
Proof.
  intros H Hn. revert ss H. induction fs as [|fd fs IH]; intros [|s ss] H; cbn in H; try discriminate; cbn; [exact I|].
  apply andb_prop in H as [_ H]. split; [apply Hn| apply IH; exact H].
Qed.

Lemma fpriors_some fs ds : fields_ok ht fs ds = true -> (forall ft d, ht ft d = true -> pok ft (Some d)) ->
  fpriors_ok fs (map Some ds).
Proof.
  intros H Hs. revert ds H. induction fs as [|fd fs IH]; intros [|d ds] H; cbn in H; try discriminate; cbn; [exact I|].
  apply andb_prop in H as [H1 H]. split; [apply Hs; exact H1| apply IH; exact H].
Qed.
End FieldLoop.

(* ---------- map entry loop, into a map that has none of the source's keys ---------- *)
Lemma map_get_miss k acc m : (forall a, In a (map fst acc) -> go_eqeq a k = false) ->
  map_get k (acc ++ m) = map_get k m.
Proof.
  induction acc as [|[a v] acc IH]; intros H; cbn; [reflexivity|].
  rewrite (H a (or_introl eq_refl)). apply IH. intros a' Ha'. apply H. right; exact Ha'.
Qed.

Lemma map_set_miss k x acc m : (forall a, In a (map fst acc) -> go_eqeq a k = false) ->
  map_set k x (acc ++ m) = acc ++ map_set k x m.
Proof.
  induction acc as [|[a v] acc IH]; intros H; cbn; [reflexivity|].
  rewrite (H a (or_introl eq_refl)). f_equal. apply IH. intros a' Ha'. apply H. right; exact Ha'.
Qed.

Lemma is_nilv_labels v : is_nilv v = true -> labels v = [].
Proof. destruct v; cbn; intros H; try discriminate; reflexivity. Qed.

Definition entries_post (e' : tenv) (kt vt : ty) (kvs acc : list (val * val)) (n : N)
  (m : list (val * val)) (n' : N) : Prop :=
  exists m', m = acc ++ m' /\ map fst m' = map fst kvs /\ emap m' = emap kvs /\ (n <= n')%N
    /\ forallb (fun kv => has_type e' kt (fst kv) && has_type e' vt (snd kv)) m' = true
    /\ forall l, In l (flat_map (fun kv => labels (fst kv) ++ labels (snd kv)) m') -> (n <= l < n')%N.

Lemma copy_entries_good f (nul loc : bool) (e' : tenv) (kt vt : ty) kvs :
  can_equal kt = true ->
  Forall (fun kv => forall p n, prior_ok e' vt p -> good (post1 (has_type e' vt) (snd kv) p n) (f (snd kv) p n)) kvs ->
  forallb (fun kv => has_type e' kt (fst kv) && has_type e' vt (snd kv)) kvs = true ->
  keys_distinct (map fst kvs) = true ->
  forall acc n,
    (forall a k, In a (map fst acc) -> In k (map fst kvs) -> go_eqeq a k = false) ->
    good (entries_post e' kt vt kvs acc n) (copy_entries f nul loc kvs acc n).
Proof.
  intros Ck HF. induction HF as [|[k v] kvs Hkv Hkvs IH]; intros Ht Hd acc n Hm.
  - right. exists acc, n. split; [reflexivity|]. exists []. rewrite app_nil_r.
    split; [reflexivity|]. split; [reflexivity|]. split; [reflexivity|]. split; [lia|].
    split; [reflexivity|]. intros l Hl. destruct Hl.
  - cbn in Ht. apply andb_prop in Ht as [Ht1 Ht]. apply andb_prop in Ht1 as [Tk Tv].
    cbn in Hd. apply andb_prop in Hd as [Hd1 Hd]. apply negb_true_iff in Hd1.
    assert (Hk : forall a, In a (map fst acc) -> go_eqeq a k = false).
    { intros a Ha. apply Hm; [exact Ha| left; reflexivity]. }
    pose proof (go_eqeq_refl e' kt k Ck Tk) as Rk.
    cbn [copy_entries fst snd].
    (* the prior contents of dst[k], after the optional `dst[k] = nil` *)
    assert (Es : forall x, map_set k x acc = acc ++ [(k, x)]).
    { intros x. rewrite <- (app_nil_r acc) at 1. rewrite (map_set_miss k x acc [] Hk). reflexivity. }
    assert (Es2 : forall x y, map_set k x (acc ++ [(k, y)]) = acc ++ [(k, x)]).
    { intros x y. rewrite (map_set_miss k x acc _ Hk). cbn. rewrite Rk. reflexivity. }
    assert (exists q, prior_ok e' vt q /\ olabels q = [] /\
              (let m1 := if (nul && is_nilv v)%bool then map_set k v acc else acc in
               (if loc then None else map_get k m1) = q /\ forall x, map_set k x m1 = acc ++ [(k, x)])) as (q & Hq & Lq & Gq & Sq).
    { destruct (nul && is_nilv v)%bool eqn:B; cbn zeta.
      - rewrite Es. destruct loc.
        + exists None. split; [exact I|]. split; [reflexivity|]. split; [reflexivity|]. intros x. apply Es2.
        + exists (Some v). split; [exact Tv|].
          split; [apply is_nilv_labels; apply andb_prop in B as [_ B]; exact B|].
          split; [rewrite (map_get_miss k acc _ Hk); cbn; rewrite Rk; reflexivity|]. intros x. apply Es2.
      - exists None. split; [exact I|]. split; [reflexivity|].
        split; [|exact Es]. destruct loc; [reflexivity|].
        rewrite <- (app_nil_r acc). rewrite (map_get_miss k acc [] Hk). reflexivity. }
    cbn zeta in Gq, Sq. rewrite Gq.
    destruct (Hkv q n Hq) as [U|(v' & n1 & E & E1 & M1 & T1 & L1)]; cbn [snd] in *; rewrite ?U, ?E; cbn [rbind]; [left; reflexivity|].
    cbn [fst snd]. rewrite Sq.
    assert (Hm' : forall a k', In a (map fst (acc ++ [(k, v')])) -> In k' (map fst kvs) -> go_eqeq a k' = false).
    { intros a k' Ha Hk'. rewrite map_app in Ha. apply in_app_or in Ha as [Ha|Ha].
      - apply Hm; [exact Ha| right; exact Hk'].
      - cbn in Ha. destruct Ha as [<-|[]].
        destruct (go_eqeq k k') eqn:G; [|reflexivity].
        assert (existsb (go_eqeq k) (map fst kvs) = true) as X by (apply existsb_exists; exists k'; split; assumption).
        congruence. }
    destruct (IH Ht Hd (acc ++ [(k, v')]) n1 Hm') as [U|(m & n2 & E2 & m' & Em & Kf & Ee & M2 & T2 & L2)]; rewrite ?U, ?E2; [left; reflexivity|].
    right. exists m, n2. split; [reflexivity|]. exists ((k, v') :: m').
    split; [rewrite Em, <- app_assoc; reflexivity|].
    split; [cbn; rewrite Kf; reflexivity|].
    split; [unfold emap in *; cbn; rewrite E1, Ee; reflexivity|].
    split; [lia|].
    split; [cbn; rewrite Tk, T1, T2; reflexivity|].
    intros l Hin. cbn in Hin. rewrite (can_copy_no_labels k e' kt Ck Tk) in Hin. cbn in Hin.
    apply in_app_or in Hin as [Hin|Hin].
    + destruct (L1 l Hin) as [H|H]; [lia|]. rewrite Lq in H. destruct H.
    + specialize (L2 l Hin). lia.
Qed.

(* ---------- the destination slice's backing array ---------- *)
Lemma firstn_skipn_forallb {A} (f : A -> bool) k l : forallb f l = true ->
  forallb f (firstn k l) = true /\ forallb f (skipn k l) = true.
Proof.
  intros H. rewrite <- (firstn_skipn k l) in H. rewrite forallb_app in H. apply andb_prop in H. exact H.
Qed.

Lemma Forall_map_Some (pk : option val -> Prop) (f : val -> bool) l :
  (forall d, f d = true -> pk (Some d)) -> forallb f l = true -> Forall pk (map Some l).
Proof.
  intros H. induction l as [|a l IH]; cbn; intros Hf; [constructor|].
  apply andb_prop in Hf as [H1 H2]. constructor; [apply H; exact H1| apply IH; exact H2].
Qed.

Lemma Forall_repeat_none (pk : option val -> Prop) k : pk None -> Forall pk (repeat None k).
Proof. intros H. induction k; cbn; constructor; assumption. Qed.

Lemma in_flat_firstn {A B} (f : A -> list B) k l x : In x (flat_map f (firstn k l)) -> In x (flat_map f l).
Proof.
  intros H. rewrite <- (firstn_skipn k l). rewrite flat_map_app. apply in_or_app. left; exact H.
Qed.
Lemma in_flat_skipn {A B} (f : A -> list B) k l x : In x (flat_map f (skipn k l)) -> In x (flat_map f l).
Proof.
  intros H. rewrite <- (firstn_skipn k l). rewrite flat_map_app. apply in_or_app. right; exact H.
Qed.

Lemma slice_target_ok (ht : val -> bool) (p : option val) (k : nat) (n : N) :
  match p with
  | None | Some VNilS => True
  | Some (VSl _ des dsp) => forallb ht des = true /\ forallb ht dsp = true
  | Some _ => False
  end ->
  exists l ps sp n1, slice_target p k n = Ok (l, ps, sp, n1)
    /\ length ps = k
    /\ Forall (fun q => match q with None => True | Some d => ht d = true end) ps
    /\ forallb ht sp = true
    /\ (n <= n1)%N
    /\ fresh_or n n1 (olabels p) l
    /\ forall x, In x (flat_map olabels ps ++ flat_map labels sp) -> In x (olabels p).
Proof.
  intros Hp.
  assert (Mk : exists l ps sp n1, Ok (n, repeat (@None val) k, @nil val, N.succ n) = Ok (l, ps, sp, n1)
    /\ length ps = k
    /\ Forall (fun q => match q with None => True | Some d => ht d = true end) ps
    /\ forallb ht sp = true /\ (n <= n1)%N /\ fresh_or n n1 (olabels p) l
    /\ forall x, In x (flat_map olabels ps ++ flat_map labels sp) -> In x (olabels p)).
  { exists n, (repeat None k), [], (N.succ n). split; [reflexivity|]. split; [apply repeat_length|].
    split; [apply Forall_repeat_none; exact I|]. split; [reflexivity|]. split; [lia|].
    split; [left; lia|]. intros x Hx. rewrite flat_olabels_none in Hx. destruct Hx. }
  destruct p as [d|]; [|exact Mk]. destruct d; try destruct Hp; try exact Mk.
  rename es into des. rename spare into dsp. rename H into Hd. rename H0 into Hs.
  unfold slice_target.
  assert (Hall : forallb ht (des ++ dsp) = true) by (rewrite forallb_app, Hd, Hs; reflexivity).
  destruct (Nat.ltb_spec (length des) k) as [L1|L1].
  - destruct (Nat.leb_spec k (length des + length dsp)) as [L2|L2]; [|exact Mk].
    destruct (firstn_skipn_forallb ht k _ Hall) as [F1 F2].
    exists l, (map Some (firstn k (des ++ dsp))), (skipn k (des ++ dsp)), n.
    split; [reflexivity|]. split; [rewrite map_length, firstn_length, app_length; lia|].
    split; [apply (Forall_map_Some _ ht); [intros d Hd'; exact Hd'| exact F1]|].
    split; [exact F2|]. split; [lia|]. split; [right; left; reflexivity|].
    intros x Hx. cbn [olabels labels]. right. rewrite <- flat_map_app.
    apply in_app_or in Hx as [Hx|Hx].
    + rewrite flat_olabels_some in Hx. eapply in_flat_firstn; exact Hx.
    + eapply in_flat_skipn; exact Hx.
  - destruct (Nat.ltb_spec k (length des)) as [L2|L2].
    + destruct (firstn_skipn_forallb ht k _ Hd) as [F1 F2].
      exists l, (map Some (firstn k des)), (skipn k des ++ dsp), n.
      split; [reflexivity|]. split; [rewrite map_length, firstn_length; lia|].
      split; [apply (Forall_map_Some _ ht); [intros d Hd'; exact Hd'| exact F1]|].
      split; [rewrite forallb_app, F2, Hs; reflexivity|]. split; [lia|]. split; [right; left; reflexivity|].
      intros x Hx. cbn [olabels labels]. right. apply in_or_app.
      apply in_app_or in Hx as [Hx|Hx].
      * rewrite flat_olabels_some in Hx. left. eapply in_flat_firstn; exact Hx.
      * rewrite flat_map_app in Hx. apply in_app_or in Hx as [Hx|Hx]; [left; eapply in_flat_skipn; exact Hx| right; exact Hx].
    + exists l, (map Some des), dsp, n.
      split; [reflexivity|]. split; [rewrite map_length; lia|].
      split; [apply (Forall_map_Some _ ht); [intros d Hd'; exact Hd'| exact Hd]|].
      split; [exact Hs|]. split; [lia|]. split; [right; left; reflexivity|].
      intros x Hx. cbn [olabels labels]. right. rewrite flat_olabels_some in Hx. exact Hx.
Qed.
