(* Copy/Main.v — the induction over source values, and the theorems about the three top-level
   forms of deriveDeepCopy and about deriveClone. *)
From Verif Require Import Go.Ty Go.Val Go.Equal Go.EqualProofs Go.CompareSpec Go.Canon
  Copy.Model Copy.Erase Copy.Proofs.
From Coq Require Import Lia.
Open Scope nat_scope.
Open Scope list_scope.

Lemma can_copy_node e t r : resolve e t = Some r -> can_copy t = can_equal (r_node r).
Proof. apply can_equal_resolve. Qed.

Lemma good_copy e t s p n : can_copy t = true -> has_type e t s = true -> post e t s p n s n.
Proof.
  intros C T. split; [reflexivity|]. split; [lia|]. split; [exact T|].
  intros l Hl. rewrite (can_copy_no_labels s e t C T) in Hl. destruct Hl.
Qed.

(* ---------- body of the helper for a pointer type ---------- *)
Lemma ptr_body_good sv : P sv -> (forall svs, sv = VSt svs -> Forall P svs) ->
  forall e rt p n, has_type e rt sv = true -> prior_ok e rt p ->
  good (post e rt sv p n) (ptr_body dcf e rt sv p n).
Proof.
  intros HP HF e rt p n Ht Hp. unfold ptr_body. pose proof Ht as Ht0.
  rewrite has_type_unfold in Ht. destruct (resolve e rt) as [rr|] eqn:R; [|discriminate]. cbn zeta in Ht.
  destruct (r_node rr) eqn:Nd; try (apply HP; assumption).
  destruct sv as [| | | | | | | | | | | |svs]; try discriminate.
  destruct (is_named rr); [|left; reflexivity].
  assert (exists ps, field_priors p (length svs) = Ok ps
            /\ fpriors_ok (prior_ok (r_env rr)) fs ps
            /\ forall x, In x (flat_map olabels ps) -> In x (olabels p)) as (ps & Eps & Fps & Lps).
  { destruct p as [d|]; cbn in Hp |- *.
    - rewrite has_type_unfold, R in Hp. cbn zeta in Hp. rewrite Nd in Hp.
      destruct d; try discriminate. eexists; split; [reflexivity|].
      split; [apply (fpriors_some (has_type (r_env rr))); [exact Hp| intros ft d Hd; exact Hd]|].
      intros x Hx. rewrite flat_olabels_some in Hx. exact Hx.
    - eexists; split; [reflexivity|].
      split; [apply (fpriors_none (has_type (r_env rr))); [exact Ht| intros ft; exact I]|].
      intros x Hx. rewrite flat_olabels_none in Hx. destruct Hx. }
  rewrite Eps. cbn [rbind].
  pose proof (copy_fields_good (has_type (r_env rr)) (prior_ok (r_env rr)) (dcf (r_env rr)) svs) as G.
  destruct (G ltac:(
      pose proof (HF svs eq_refl) as F; rewrite Forall_forall in *; intros s Hs ft q m Hts Hq;
      apply (F s Hs); assumption) fs ps n Ht Fps)
    as [U|(vs & n' & E & E1 & M1 & T1 & L1)]; rewrite ?U, ?E; cbn [rbind]; [left; reflexivity|].
  right. exists (VSt vs), n'. split; [reflexivity|].
  split; [cbn; rewrite E1; reflexivity|]. split; [exact M1|].
  split; [rewrite has_type_unfold, R; cbn zeta; rewrite Nd; exact T1|].
  intros l Hl. cbn in Hl. eapply fresh_or_widen; [| | |apply L1; exact Hl]; try lia. exact Lps.
Qed.

(* ---------- the cases of genField ---------- *)
Ltac start Ht C R Nd :=
  rewrite dcf_unfold; destruct (can_copy _) eqn:C;
  [right; eexists; eexists; split; [reflexivity| apply good_copy; assumption]|];
  pose proof Ht as Ht0; rewrite has_type_unfold in Ht;
  destruct (resolve _ _) as [r|] eqn:R; [|discriminate]; cbn zeta in Ht |- *;
  rewrite (can_copy_node _ _ _ R) in C;
  destruct (r_node r) eqn:Nd; try discriminate; cbn in C; try discriminate.

Lemma P_leaf s : labels s = [] -> (forall e t, has_type e t s = true -> can_copy t = true) -> P s.
Proof.
  intros _ H e t p n Ht Hp. rewrite dcf_unfold, (H e t Ht).
  right; eexists; eexists; split; [reflexivity| apply good_copy; [apply (H e t Ht)| exact Ht]].
Qed.

Lemma leaf_can_copy s : match s with VBool _ | VInt _ | VF _ _ | VC _ _ _ _ | VStr _ => True | _ => False end ->
  forall e t, has_type e t s = true -> can_copy t = true.
Proof.
  intros Hs e t Ht. rewrite has_type_unfold in Ht. destruct (resolve e t) as [r|] eqn:R; [|discriminate].
  rewrite (can_copy_node _ _ _ R). cbn zeta in Ht.
  destruct (r_node r); try reflexivity; destruct s; try destruct Hs; discriminate.
Qed.

Lemma P_nilp : P VNilP.
Proof.
  intros e t p n Ht Hp. start Ht C R Nd.
  right. exists VNilP, n. split; [reflexivity|]. split; [reflexivity|]. split; [lia|]. split; [exact Ht0|]. intros l [].
Qed.
Lemma P_nils : P VNilS.
Proof.
  intros e t p n Ht Hp. start Ht C R Nd.
  right. exists VNilS, n. split; [reflexivity|]. split; [reflexivity|]. split; [lia|]. split; [exact Ht0|]. intros l [].
Qed.
Lemma P_nilm : P VNilM.
Proof.
  intros e t p n Ht Hp. start Ht C R Nd.
  right. exists VNilM, n. split; [reflexivity|]. split; [reflexivity|]. split; [lia|]. split; [exact Ht0|]. intros l [].
Qed.

Lemma P_ptr l sv : P sv -> (forall svs, sv = VSt svs -> Forall P svs) -> P (VPtr l sv).
Proof.
  intros HP HF e t p n Ht Hp. start Ht C R Nd.
  destruct (can_copy t0) eqn:C0.
  - right. exists (VPtr n sv), (N.succ n). split; [reflexivity|]. split; [reflexivity|]. split; [lia|].
    split; [rewrite has_type_unfold, R; cbn zeta; rewrite Nd; exact Ht|].
    intros x Hx. cbn in Hx. rewrite (can_copy_no_labels sv (r_env r) t0 C0 Ht) in Hx.
    destruct Hx as [<-|[]]. left; lia.
  - destruct (ptr_body_good sv HP HF (r_env r) t0 None (N.succ n) Ht I)
      as [U|(v & n' & E & E1 & M1 & T1 & L1)]; rewrite ?U, ?E; cbn [rbind]; [left; reflexivity|].
    right. exists (VPtr n v), n'. split; [reflexivity|].
    split; [cbn; rewrite E1; reflexivity|]. split; [lia|].
    split; [rewrite has_type_unfold, R; cbn zeta; rewrite Nd; exact T1|].
    intros x Hx. cbn in Hx. destruct Hx as [<-|Hx]; [left; lia|].
    destruct (L1 x Hx) as [H|[]]. left; lia.
Qed.

Lemma elems_premise e' et es : Forall P es -> forallb (has_type e' et) es = true ->
  Forall (fun s => forall p n, prior_ok e' et p ->
            good (post1 (has_type e' et) s p n) (dcf e' et s p n)) es.
Proof.
  intros HF Ht. apply forallb_Forall in Ht. rewrite Forall_forall in *.
  intros s Hs p n Hp. apply (HF s Hs); [apply Ht; exact Hs| exact Hp].
Qed.

Lemma map_erase_length vs ss : map erase vs = map erase ss -> length vs = length ss.
Proof. intros H. apply (f_equal (@length val)) in H. rewrite !map_length in H. exact H. Qed.

Lemma P_arr es : Forall P es -> P (VArr es).
Proof.
  intros HF e t p n Ht Hp. start Ht C R Nd.
  apply andb_prop in Ht as [Hlen Ht]. apply Nat.eqb_eq in Hlen.
  assert (exists ps, elem_priors p (length es) = Ok ps /\ length ps = length es
            /\ Forall (prior_ok (r_env r) t0) ps
            /\ forall x, In x (flat_map olabels ps) -> In x (olabels p)) as (ps & Eps & Lps & Fps & Ips).
  { destruct p as [d|]; cbn in Hp |- *.
    - rewrite has_type_unfold, R in Hp. cbn zeta in Hp. rewrite Nd in Hp.
      destruct d; try discriminate. apply andb_prop in Hp as [Hl Hp]. apply Nat.eqb_eq in Hl.
      eexists; split; [reflexivity|]. split; [rewrite map_length; lia|].
      split; [apply (Forall_map_Some _ (has_type (r_env r) t0)); [intros d Hd; exact Hd| exact Hp]|].
      intros x Hx. rewrite flat_olabels_some in Hx. exact Hx.
    - eexists; split; [reflexivity|]. split; [apply repeat_length|].
      split; [apply Forall_repeat_none; exact I|].
      intros x Hx. rewrite flat_olabels_none in Hx. destruct Hx. }
  rewrite Eps. cbn [rbind].
  destruct (copy_elems_good (fun a q m => dcf (r_env r) t0 a q m) (has_type (r_env r) t0) (prior_ok (r_env r) t0) es
              (elems_premise _ _ _ HF Ht) ps n Lps Fps)
    as [U|(vs & n' & E & E1 & M1 & T1 & L1)]; rewrite ?U, ?E; cbn [rbind]; [left; reflexivity|].
  right. exists (VArr vs), n'. split; [reflexivity|].
  split; [cbn; rewrite E1; reflexivity|]. split; [exact M1|].
  split; [rewrite has_type_unfold, R; cbn zeta; rewrite Nd, T1, (map_erase_length _ _ E1), Hlen, Nat.eqb_refl; reflexivity|].
  intros x Hx. cbn in Hx. eapply fresh_or_widen; [| | |apply L1; exact Hx]; try lia. exact Ips.
Qed.

Lemma P_sl l es sp : Forall P es -> P (VSl l es sp).
Proof.
  intros HF e t p n Ht Hp. start Ht C R Nd.
  apply andb_prop in Ht as [Ht _].
  destruct (slice_target_ok (has_type (r_env r) t0) p (length es) n) as (l' & ps & sp' & n1 & Etg & Lps & Fps & Tsp & M0 & Ll & Ips).
  { destruct p as [d|]; [|exact I]. cbn in Hp. rewrite has_type_unfold, R in Hp. cbn zeta in Hp. rewrite Nd in Hp.
    destruct d; try discriminate; [exact I|]. apply andb_prop in Hp. exact Hp. }
  rewrite Etg. cbn [rbind].
  destruct (can_copy t0) eqn:C0.
  - right. exists (VSl l' es sp'), n1. split; [reflexivity|]. split; [reflexivity|]. split; [exact M0|].
    split; [rewrite has_type_unfold, R; cbn zeta; rewrite Nd, Ht, Tsp; reflexivity|].
    intros x Hx. cbn in Hx. destruct Hx as [<-|Hx]; [exact Ll|].
    apply in_app_or in Hx as [Hx|Hx].
    + exfalso. rewrite flat_map_nil in Hx; [destruct Hx|].
      apply forallb_Forall in Ht. rewrite Forall_forall in *. intros a Ha.
      apply (can_copy_no_labels a (r_env r) t0 C0). apply Ht; exact Ha.
    + right. apply Ips. apply in_or_app. right; exact Hx.
  - assert (Fps' : Forall (prior_ok (r_env r) t0) ps).
    { rewrite Forall_forall in *. intros q Hq. specialize (Fps q Hq). destruct q; exact Fps. }
    destruct (copy_elems_good (fun a q m => dcf (r_env r) t0 a q m) (has_type (r_env r) t0) (prior_ok (r_env r) t0) es
                (elems_premise _ _ _ HF Ht) ps n1 Lps Fps')
      as [U|(vs & n' & E & E1 & M1 & T1 & L1)]; rewrite ?U, ?E; cbn [rbind]; [left; reflexivity|].
    right. exists (VSl l' vs sp'), n'. split; [reflexivity|].
    split; [cbn; rewrite E1; reflexivity|]. split; [lia|].
    split; [rewrite has_type_unfold, R; cbn zeta; rewrite Nd, T1, Tsp; reflexivity|].
    intros x Hx. cbn in Hx. destruct Hx as [<-|Hx].
    + eapply fresh_or_widen; [| | |exact Ll]; try lia. intros y Hy; exact Hy.
    + apply in_app_or in Hx as [Hx|Hx].
      * eapply fresh_or_widen; [| | |apply L1; exact Hx]; try lia.
        intros y Hy. apply Ips. apply in_or_app. left; exact Hy.
      * right. apply Ips. apply in_or_app. right; exact Hx.
Qed.

Lemma entries_premise e' vt kvs :
  Forall (fun kv => P (fst kv) /\ P (snd kv)) kvs ->
  forallb (fun kv => has_type e' vt (snd kv)) kvs = true ->
  Forall (fun kv => forall p n, prior_ok e' vt p ->
            good (post1 (has_type e' vt) (snd kv) p n) (dcf e' vt (snd kv) p n)) kvs.
Proof.
  intros HF Ht. apply forallb_Forall in Ht. rewrite Forall_forall in *.
  intros kv Hkv p n Hp. destruct (HF kv Hkv) as [_ H]. apply H; [apply Ht; exact Hkv| exact Hp].
Qed.

Lemma forallb_snd_typed e' kt vt (kvs : list (val * val)) :
  forallb (fun kv => has_type e' kt (fst kv) && has_type e' vt (snd kv)) kvs = true ->
  forallb (fun kv => has_type e' vt (snd kv)) kvs = true.
Proof.
  induction kvs as [|kv kvs IH]; cbn; [reflexivity|]. intros H.
  apply andb_prop in H as [H1 H2]. apply andb_prop in H1 as [_ H1]. rewrite H1, (IH H2). reflexivity.
Qed.

Lemma P_map l kvs : Forall (fun kv => P (fst kv) /\ P (snd kv)) kvs -> P (VMap l kvs).
Proof.
  intros HF e t p n Ht Hp. start Ht C R Nd.
  apply andb_prop in Ht as [Ht Tkv]. apply andb_prop in Ht as [Ck Kd].
  unfold can_copy at 1. rewrite Ck. cbn [negb].
  destruct (copy_entries_good (fun a q m => dcf (r_env r) t0_2 a q m) (nullable t0_2) (local_value (r_env r) t0_2)
              (r_env r) t0_1 t0_2 kvs Ck
              (entries_premise _ _ _ HF (forallb_snd_typed _ _ _ _ Tkv)) Tkv Kd [] (N.succ n))
    as [U|(m & n' & E & m' & Em & Kf & Ee & M1 & T1 & L1)]; rewrite ?U, ?E; cbn [rbind]; [intros a k []|left; reflexivity|].
  cbn [app] in Em. subst m'.
  right. exists (VMap n m), n'. split; [reflexivity|].
  split; [cbn; fold (emap m); fold (emap kvs); rewrite Ee; reflexivity|]. split; [lia|].
  split; [rewrite has_type_unfold, R; cbn zeta; rewrite Nd, Ck, Kf, Kd, T1; reflexivity|].
  intros x Hx. cbn in Hx. destruct Hx as [<-|Hx]; [left; lia|]. left. specialize (L1 x Hx). lia.
Qed.

Lemma P_st svs : Forall P svs -> P (VSt svs).
Proof.
  intros HF e t p n Ht Hp. start Ht C R Nd.
  destruct (is_named r); [|left; reflexivity].
  pose proof (copy_fields_good (has_type (r_env r)) (prior_ok (r_env r)) (fun ft a q m => dcf (r_env r) ft a q m) svs) as G.
  destruct (G ltac:(
      rewrite Forall_forall in *; intros s Hs ft q m Hts Hq; apply (HF s Hs); assumption)
      fs (repeat None (length svs)) (N.succ n) Ht
      (fpriors_none (has_type (r_env r)) (prior_ok (r_env r)) fs svs Ht (fun ft => I)))
    as [U|(vs & n' & E & E1 & M1 & T1 & L1)]; rewrite ?U, ?E; cbn [rbind]; [left; reflexivity|].
  right. exists (VSt vs), n'. split; [reflexivity|].
  split; [cbn; rewrite E1; reflexivity|]. split; [lia|].
  split; [rewrite has_type_unfold, R; cbn zeta; rewrite Nd; exact T1|].
  intros x Hx. cbn in Hx. destruct (L1 x Hx) as [H|H]; [left; lia|].
  rewrite flat_olabels_none in H. destruct H.
Qed.

(* P for a value together with P for the fields of a struct value (the helper for a pointer to a
   named struct copies the referent's fields directly) *)
Definition Q (s : val) : Prop :=
  P s /\ match s with VSt svs => Forall P svs | _ => True end.

Lemma Q_fields sv : Q sv -> forall svs, sv = VSt svs -> Forall P svs.
Proof. intros [_ H] svs ->. exact H. Qed.

Lemma Forall_Q_P l : Forall Q l -> Forall P l.
Proof. intros H. rewrite Forall_forall in *. intros x Hx. apply (H x Hx). Qed.

Theorem all_Q : forall s, Q s.
Proof.
  induction s using val_ind'.
  - split; [|exact I]. apply P_leaf; [reflexivity| apply leaf_can_copy; exact I].
  - split; [|exact I]. apply P_leaf; [reflexivity| apply leaf_can_copy; exact I].
  - split; [|exact I]. apply P_leaf; [reflexivity| apply leaf_can_copy; exact I].
  - split; [|exact I]. apply P_leaf; [reflexivity| apply leaf_can_copy; exact I].
  - split; [|exact I]. apply P_leaf; [reflexivity| apply leaf_can_copy; exact I].
  - split; [apply P_nilp| exact I].
  - split; [|exact I]. apply P_ptr; [apply IHs| apply Q_fields; exact IHs].
  - split; [apply P_nils| exact I].
  - split; [|exact I]. apply P_sl. apply Forall_Q_P; assumption.
  - split; [apply P_nilm| exact I].
  - split; [|exact I]. apply P_map. rewrite Forall_forall in *. intros kv Hkv.
    destruct (H kv Hkv) as [[H1 _] [H2 _]]. split; assumption.
  - split; [|exact I]. apply P_arr. apply Forall_Q_P; assumption.
  - split; [apply P_st; apply Forall_Q_P; assumption| apply Forall_Q_P; assumption].
Qed.

(* ================= genField: one component, arbitrary prior contents ================= *)
Theorem dcf_good : forall s e t p n, has_type e t s = true -> prior_ok e t p ->
  good (post e t s p n) (dcf e t s p n).
Proof. intros s. apply (all_Q s). Qed.

Theorem ptr_body_good' : forall sv e rt p n, has_type e rt sv = true -> prior_ok e rt p ->
  good (post e rt sv p n) (ptr_body dcf e rt sv p n).
Proof. intros sv. apply ptr_body_good; [apply (all_Q sv)| apply Q_fields; apply all_Q]. Qed.
