(* Copy/Examples.v — the model on concrete inputs (non-vacuity of the theorems' hypotheses and
   regression of the interesting arms). *)
From Verif Require Import Go.Ty Go.Val Go.Equal Copy.Model Copy.Frame.
From Coq Require Import Lia.
Open Scope N_scope.

Definition tint : ty := TB (KInt 64 true).
(* type T struct { A []*int; B map[string][]int; C *int } *)
Definition exT : ty :=
  TN 1 false (TSt [(false, TSl (TP tint)); (false, TM (TB KStr) (TSl tint)); (false, TP tint)]).

(* source: A has two elements, B has an entry with a non-nil EMPTY slice and a nil one, C is nil *)
Definition ex_src : val :=
  VPtr 1 (VSt [VSl 2 [VPtr 3 (VInt 7); VNilP] [];
               VMap 4 [(VStr [97], VSl 5 [] []); (VStr [98], VNilS)];
               VNilP]).
(* prior destination: A shorter with spare capacity (1 element + 2 spare), B populated,
   C non-nil where the source has nil *)
Definition ex_dst : val :=
  VPtr 11 (VSt [VSl 12 [VPtr 13 (VInt 1)] [VPtr 14 (VInt 2); VNilP];
                VMap 15 [(VStr [97], VSl 16 [VInt 9] []); (VStr [122], VNilS)];
                VPtr 17 (VInt 5)]).

Example ex_typed : has_type [] (TP exT) ex_src = true /\ has_type [] (TP exT) ex_dst = true.
Proof. split; vm_compute; reflexivity. Qed.

(* the backing array 12 of dst.A is reused (len 1 -> 2 out of the spare capacity), its pointer
   elements are replaced by new ones; the map is re-made (entry "z" is gone), the empty slice stays
   non-nil and empty, the nil one nil; dst.C becomes nil *)
Example ex_result :
  deepcopy_top [] (TP exT) ex_dst ex_src 100 =
  Ok (VPtr 11 (VSt [VSl 12 [VPtr 100 (VInt 7); VNilP] [VNilP];
                    VMap 101 [(VStr [97], VSl 102 [] []); (VStr [98], VNilS)];
                    VNilP]), 103).
Proof. vm_compute. reflexivity. Qed.

Example ex_equal :
  match deepcopy_top [] (TP exT) ex_dst ex_src 100 with
  | Ok (r, _) => spec_eq [] (TP exT) ex_src r = Some true
  | _ => False
  end.
Proof. vm_compute. reflexivity. Qed.

Example ex_clone :
  clone_model [] (TP exT) ex_src 100 =
  Ok (VPtr 100 (VSt [VSl 101 [VPtr 102 (VInt 7); VNilP] [];
                     VMap 103 [(VStr [97], VSl 104 [] []); (VStr [98], VNilS)];
                     VNilP]), 105).
Proof. vm_compute. reflexivity. Qed.

(* growing beyond the capacity allocates; shrinking keeps the array and turns the tail into spare *)
Example ex_grow_make :
  dcf [] (TSl (TP tint)) (VSl 2 [VNilP; VNilP; VNilP] []) (Some (VSl 12 [VNilP] [VNilP])) 100
  = Ok (VSl 100 [VNilP; VNilP; VNilP] [], 101).
Proof. vm_compute. reflexivity. Qed.
Example ex_shrink :
  dcf [] (TSl (TP tint)) (VSl 2 [VNilP] []) (Some (VSl 12 [VPtr 13 (VInt 1); VPtr 14 (VInt 2)] [VNilP])) 100
  = Ok (VSl 12 [VNilP] [VPtr 14 (VInt 2); VNilP], 100).
Proof. vm_compute. reflexivity. Qed.

(* nil source pointer at top level: the emitted code dereferences it *)
Example ex_nil_src : deepcopy_top [] (TP exT) ex_dst VNilP 100 = Pan.
Proof. vm_compute. reflexivity. Qed.
(* an unnamed struct that is not assignable is refused by the generator *)
Example ex_unsup :
  dcf [] (TSt [(false, TP tint)]) (VSt [VNilP]) None 100 = Unsup.
Proof. vm_compute. reflexivity. Qed.

(* ---------- the hypotheses of the theorems are satisfiable on this input ---------- *)
Example ex_guard : top_guard ex_src ex_dst = true.
Proof. reflexivity. Qed.
Example ex_fresh_new : forall l, In l (labels ex_src) -> (l < 100)%N.
Proof. cbn. intros l H. repeat (destruct H as [<-|H]; [lia|]). destruct H. Qed.
Example ex_disjoint : forall l, In l (labels ex_src) -> ~ In l (labels ex_dst).
Proof.
  cbn. intros l H H'.
  repeat (destruct H as [<-|H]; [repeat (destruct H' as [H'|H']; [discriminate H'|]); destruct H'|]).
  destruct H.
Qed.
(* the result reuses memory of the prior destination (11, 12) beside fresh memory (100..102), and
   nothing of the source (1..5) *)
Example ex_result_labels :
  match deepcopy_top [] (TP exT) ex_dst ex_src 100 with
  | Ok (r, _) => labels r = [11; 12; 100; 101; 102]%N
  | _ => False
  end.
Proof. vm_compute. reflexivity. Qed.
Example ex_clone_labels :
  match clone_model [] (TP exT) ex_src 100 with
  | Ok (r, _) => labels r = [100; 101; 102; 103; 104]%N
  | _ => False
  end.
Proof. vm_compute. reflexivity. Qed.
(* a slice of equal length and an empty map as destinations *)
Example ex_slice_form :
  deepcopy_top [] (TSl (TP tint)) (VSl 12 [VPtr 13 (VInt 1); VNilP] [VPtr 14 (VInt 2)])
                                 (VSl 2 [VNilP; VPtr 3 (VInt 7)] []) 100
  = Ok (VSl 12 [VNilP; VPtr 100 (VInt 7)] [VPtr 14 (VInt 2)], 101%N).
Proof. vm_compute. reflexivity. Qed.
Example ex_map_form :
  deepcopy_top [] (TM (TB KStr) (TSl tint)) (VMap 15 [])
                  (VMap 4 [(VStr [97%N], VSl 5 [] []); (VStr [98%N], VNilS)]) 100
  = Ok (VMap 15 [(VStr [97%N], VSl 100 [] []); (VStr [98%N], VNilS)], 101%N).
Proof. vm_compute. reflexivity. Qed.
(* map[string][2]*int: the array is filled in a zeroed local and stored; a populated prior
   destination entry is not reused (outside the property's guard, shown for the arm) *)
Example ex_map_array :
  deepcopy_top [] (TM (TB KStr) (TAr 2 (TP tint))) (VMap 15 [(VStr [97%N], VArr [VPtr 16 (VInt 1); VNilP])])
                  (VMap 4 [(VStr [97%N], VArr [VNilP; VPtr 5 (VInt 3)])]) 100
  = Ok (VMap 15 [(VStr [97%N], VArr [VNilP; VPtr 100 (VInt 3)])], 101%N).
Proof. vm_compute. reflexivity. Qed.

(* a write to the object at label 100 (the new target of A[0]) changes the copy and not the source;
   a write to the source's object 3 changes the source and not the copy *)
Example ex_write :
  match deepcopy_top [] (TP exT) ex_dst ex_src 100 with
  | Ok (r, _) =>
      upd 100 (fun _ => VNilP) r <> r /\ upd 100 (fun _ => VNilP) ex_src = ex_src /\
      upd 3 (fun _ => VNilP) ex_src <> ex_src /\ upd 3 (fun _ => VNilP) r = r
  | _ => False
  end.
Proof. vm_compute. repeat split; try reflexivity; discriminate. Qed.
