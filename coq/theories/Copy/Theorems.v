(* Copy/Theorems.v — the statements of C05 about the model, in the form in which
   Properties/C05.v quotes them.

   Reading of the model's data: a value is a tree whose pointer targets, slice backing arrays
   and maps carry address labels; [labels v] are all of them, including those of the spare
   capacity of slices.  The model allocates label n, then n+1, ...: a call started with counter
   n that ends with counter n' has allocated exactly the labels n <= l < n'.  "Fresh labels are
   new" is the hypothesis that every label of the inputs is below n.

   Frame reading (not a Coq statement): a write through a reference changes the contents of one
   labelled object.  Two values without a common label have no common object, so no write
   through one is visible through the other.  The theorems establish the absence of common
   labels; the driver additionally overwrites every location reachable from the copy (and, in a
   second pass, from the source) and compares the other side with its snapshot. *)
From Verif Require Import Go.Ty Go.Val Go.Equal Go.EqualProofs Go.CompareSpec Go.Canon
  Copy.Model Copy.Erase Copy.Proofs Copy.Main Copy.Top Copy.Frame.
From Coq Require Import Lia.
Open Scope nat_scope.
Open Scope list_scope.

Lemma good_inv {A} (Q : A -> N -> Prop) o r n' : good Q o -> o = Ok (r, n') -> Q r n'.
Proof.
  intros [U|(r0 & n0 & E & H)] Eo; [congruence|]. rewrite E in Eo. inversion Eo; subst. exact H.
Qed.

Lemma good_total {A} (Q : A -> N -> Prop) o : good Q o -> o <> Pan /\ o <> Stuck.
Proof. intros [U|(r0 & n0 & E & H)]; rewrite ?U, ?E; split; discriminate. Qed.

Section DeepCopy.
Variables (e : tenv) (t : ty) (src dst : val) (n : N).
Hypothesis Hsrc : has_type e t src = true.
Hypothesis Hdst : has_type e t dst = true.
Hypothesis Hguard : top_guard src dst = true.

(* the emitted code runs to completion: no nil dereference, no index out of range, no write to a
   nil map (or the generator has refused the type) *)
Theorem copy_total : deepcopy_top e t dst src n <> Pan /\ deepcopy_top e t dst src n <> Stuck.
Proof. apply (good_total _ _ (top_good e t dst src n Hsrc Hdst Hguard)). Qed.

Variables (r : val) (n' : N).
Hypothesis Hrun : deepcopy_top e t dst src n = Ok (r, n').

Let post := good_inv _ _ _ _ (top_good e t dst src n Hsrc Hdst Hguard) Hrun.

(* identical to the source up to address labels and spare capacity: same nil-ness at every
   pointer, slice and map, same lengths and keys, same leaves bit for bit *)
Theorem copy_same_shape : erase r = erase src.
Proof. apply post. Qed.

Theorem copy_equal : spec_eq e t src r = Some true.
Proof. apply same_erasure_equal; [exact Hsrc| exact copy_same_shape]. Qed.

Theorem copy_nilness : is_nilv r = is_nilv src.
Proof. apply same_erasure_nilness. exact copy_same_shape. Qed.

Theorem copy_well_typed : has_type e t r = true.
Proof. apply post. Qed.

(* every object of the result was allocated by the call or belonged to the prior destination *)
Theorem copy_labels : forall l, In l (labels r) -> (n <= l < n')%N \/ In l (labels dst).
Proof. apply post. Qed.

(* hence, when the prior destination shares nothing with the source and allocation returns
   addresses that are not in use, the result shares nothing with the source *)
Theorem copy_src_label_disjoint :
  (forall l, In l (labels src) -> (l < n)%N) ->
  (forall l, In l (labels src) -> ~ In l (labels dst)) ->
  forall l, In l (labels r) -> ~ In l (labels src).
Proof.
  intros Hnew Hdis l Hl Hs. destruct (copy_labels l Hl) as [H|H].
  - specialize (Hnew l Hs). lia.
  - exact (Hdis l Hs H).
Qed.

(* under the reading of labels as addresses (Copy/Frame.v): an arbitrary write to any object of the
   result leaves the source as it is, and an arbitrary write to any object of the source leaves
   the result as it is *)
Theorem copy_writes_invisible :
  (forall l, In l (labels src) -> (l < n)%N) ->
  (forall l, In l (labels src) -> ~ In l (labels dst)) ->
  (forall l f, In l (labels r) -> upd l f src = src) /\ (forall l f, In l (labels src) -> upd l f r = r).
Proof. intros Hnew Hdis. apply disjoint_frames. apply copy_src_label_disjoint; assumption. Qed.
End DeepCopy.

Section Field.
(* the same for one component copied by genField into a location with arbitrary prior contents
   (p = None: freshly allocated memory) *)
Variables (e : tenv) (t : ty) (src : val) (p : option val) (n : N).
Hypothesis Hsrc : has_type e t src = true.
Hypothesis Hp : prior_ok e t p.

Theorem field_copy_total : dcf e t src p n <> Pan /\ dcf e t src p n <> Stuck.
Proof. apply (good_total _ _ (dcf_good src e t p n Hsrc Hp)). Qed.

Variables (r : val) (n' : N).
Hypothesis Hrun : dcf e t src p n = Ok (r, n').
Let post := good_inv _ _ _ _ (dcf_good src e t p n Hsrc Hp) Hrun.

Theorem field_copy_same_shape : erase r = erase src.
Proof. apply post. Qed.
Theorem field_copy_equal : spec_eq e t src r = Some true.
Proof. apply same_erasure_equal; [exact Hsrc| exact field_copy_same_shape]. Qed.
Theorem field_copy_labels : forall l, In l (labels r) -> (n <= l < n')%N \/ In l (olabels p).
Proof. apply post. Qed.
End Field.

Section Clone.
Variables (e : tenv) (t : ty) (src : val) (n : N).
Hypothesis Hsrc : has_type e t src = true.

Theorem clone_total : clone_model e t src n <> Pan /\ clone_model e t src n <> Stuck.
Proof. apply (good_total _ _ (clone_good e t src n Hsrc)). Qed.

Variables (r : val) (n' : N).
Hypothesis Hrun : clone_model e t src n = Ok (r, n').
Let post := good_inv _ _ _ _ (clone_good e t src n Hsrc) Hrun.

Theorem clone_same_shape : erase r = erase src.
Proof. apply post. Qed.
Theorem clone_equal : spec_eq e t src r = Some true.
Proof. apply same_erasure_equal; [exact Hsrc| exact clone_same_shape]. Qed.
Theorem clone_nilness : is_nilv r = is_nilv src.
Proof. apply same_erasure_nilness. exact clone_same_shape. Qed.
Theorem clone_well_typed : has_type e t r = true.
Proof. apply post. Qed.
(* every object of a clone was allocated by the call *)
Theorem clone_fresh : forall l, In l (labels r) -> (n <= l < n')%N.
Proof. apply post. Qed.
Theorem clone_src_label_disjoint :
  (forall l, In l (labels src) -> (l < n)%N) -> forall l, In l (labels r) -> ~ In l (labels src).
Proof. intros Hnew l Hl Hs. specialize (Hnew l Hs). specialize (clone_fresh l Hl). lia. Qed.
Theorem clone_writes_invisible :
  (forall l, In l (labels src) -> (l < n)%N) ->
  (forall l f, In l (labels r) -> upd l f src = src) /\ (forall l f, In l (labels src) -> upd l f r = r).
Proof. intros Hnew. apply disjoint_frames. apply clone_src_label_disjoint; assumption. Qed.
End Clone.
