(* Copy/Erase.v — [erase] forgets what structural equality ignores (address labels, spare
   capacity) and nothing else; two values with the same erasure are structurally equal, with
   the same nil-ness at every pointer, slice and map, the same lengths, the same leaves bit
   for bit.  Values of assignable (canCopy) types carry no label at all. *)
From Verif Require Import Go.Ty Go.Val Go.Equal Go.EqualProofs Go.CompareSpec Go.Canon Copy.Model.
From Coq Require Import Lia.
Open Scope nat_scope.
Open Scope list_scope.

Fixpoint erase (v : val) : val :=
  match v with
  | VPtr _ v' => VPtr 0 (erase v')
  | VSl _ es _ => VSl 0 (map erase es) []
  | VMap _ kvs => VMap 0 (map (fun kv => (fst kv, erase (snd kv))) kvs)
  | VArr es => VArr (map erase es)
  | VSt es => VSt (map erase es)
  | _ => v
  end.

Definition emap (m : list (val * val)) : list (val * val) :=
  map (fun kv => (fst kv, erase (snd kv))) m.

Lemma leaf_eq_erase k x y : leaf_eq k x y = leaf_eq k (erase x) (erase y).
Proof. destruct k, x; cbn; try reflexivity; destruct y; reflexivity. Qed.

Lemma all2o_erase (f : val -> val -> option bool) xs :
  Forall (fun a => forall b, f a b = f (erase a) (erase b)) xs ->
  forall ys, all2o f xs ys = all2o f (map erase xs) (map erase ys).
Proof.
  induction 1 as [|a xs Ha Hxs IH]; intros [|b ys]; cbn; try reflexivity.
  rewrite Ha, IH. reflexivity.
Qed.

Lemma fields_o_erase (f : ty -> val -> val -> option bool) xs :
  Forall (fun a => forall ft b, f ft a b = f ft (erase a) (erase b)) xs ->
  forall fs ys, fields_o f fs xs ys = fields_o f fs (map erase xs) (map erase ys).
Proof.
  induction 1 as [|a xs Ha Hxs IH]; intros [|fd fs] [|b ys]; cbn; try reflexivity.
  rewrite Ha, IH. reflexivity.
Qed.

Lemma map_get_emap k m : map_get k (emap m) = option_map erase (map_get k m).
Proof.
  induction m as [|[k' v] m IH]; cbn; [reflexivity|].
  destruct (go_eqeq k' k); [reflexivity| exact IH].
Qed.

Lemma entries_o_erase (f : val -> val -> option bool) xm :
  Forall (fun kv => forall b, f (snd kv) b = f (erase (snd kv)) (erase b)) xm ->
  forall ym, entries_o f xm ym = entries_o f (emap xm) (emap ym).
Proof.
  induction 1 as [|kv xm Hkv Hxm IH]; intros ym; cbn; [reflexivity|].
  rewrite map_get_emap, IH. destruct (map_get (fst kv) ym) as [v'|]; cbn; [|reflexivity].
  rewrite Hkv. reflexivity.
Qed.

(* structural equality does not look at labels or spare capacity *)
Theorem spec_eq_erase : forall x e t y, spec_eq e t x y = spec_eq e t (erase x) (erase y).
Proof.
  induction x using val_ind'; intros e t y; rewrite (spec_eq_unfold e t), (spec_eq_unfold e t (erase _));
  destruct (resolve e t) as [r|]; try reflexivity; cbn zeta;
  destruct (r_node r) eqn:N; try (destruct y; reflexivity);
  try (apply leaf_eq_erase).
  - (* VPtr *) destruct y; try reflexivity. cbn [erase]. apply IHx.
  - (* VSl *) destruct y; try reflexivity. cbn [erase]. apply all2o_erase.
    rewrite Forall_forall in *. intros a Ha b. apply H; exact Ha.
  - (* VMap *) destruct y; try reflexivity. cbn [erase]. fold (emap kvs). fold (emap kvs0).
    unfold emap at 1 2. rewrite !map_length.
    destruct (Nat.eqb (length kvs) (length kvs0)); [|reflexivity].
    apply entries_o_erase. rewrite Forall_forall in *. intros kv Hkv b. apply (H kv Hkv).
  - (* VArr *) destruct y; try reflexivity. cbn [erase]. apply all2o_erase.
    rewrite Forall_forall in *. intros a Ha b. apply H; exact Ha.
  - (* VSt *) destruct y; try reflexivity. cbn [erase]. apply fields_o_erase.
    rewrite Forall_forall in *. intros a Ha ft b. apply H; exact Ha.
Qed.

Corollary same_erasure_equal e t x y : has_type e t x = true -> erase y = erase x ->
  spec_eq e t x y = Some true.
Proof.
  intros Hx E. rewrite spec_eq_erase, E, <- spec_eq_erase. apply spec_eq_refl. exact Hx.
Qed.

(* nil-ness is part of the erasure *)
Lemma same_erasure_nilness x y : erase y = erase x -> is_nilv y = is_nilv x.
Proof. destruct x, y; cbn; intros H; try reflexivity; discriminate. Qed.

(* ---------- values of assignable types carry no label ---------- *)
Lemma flat_map_nil {A B} (f : A -> list B) l : Forall (fun a => f a = []) l -> flat_map f l = [].
Proof. induction 1 as [|a l Ha Hl IH]; cbn; [reflexivity|]. rewrite Ha, IH. reflexivity. Qed.

Lemma can_equal_struct_fields fs :
  can_equal (TSt fs) = true -> Forall (fun f => can_equal (snd f) = true) fs.
Proof.
  induction fs as [|f fs IH]; intros H; [constructor|].
  cbn in H. apply andb_prop in H as [H1 H2]. constructor; [exact H1| apply IH; exact H2].
Qed.

Theorem can_copy_no_labels : forall v e t, can_copy t = true -> has_type e t v = true -> labels v = [].
Proof.
  unfold can_copy.
  induction v using val_ind'; intros e t Hc Ht; try reflexivity;
  rewrite has_type_unfold in Ht; destruct (resolve e t) as [r|] eqn:R; try discriminate;
  rewrite (can_equal_resolve _ _ _ R) in Hc; cbn zeta in Ht;
  destruct (r_node r) eqn:N; try discriminate; cbn in Hc; try discriminate.
  all: try (cbn in Ht; destruct k; discriminate).
  - (* VArr *)
    apply andb_prop in Ht as [_ Ht]. cbn [labels]. apply flat_map_nil.
    apply forallb_Forall in Ht. rewrite Forall_forall in *. intros a Ha.
    apply (H a Ha (r_env r) t0 Hc). apply Ht; exact Ha.
  - (* VSt *)
    cbn [labels]. apply flat_map_nil.
    pose proof (can_equal_struct_fields fs0) as Hf. cbn in Hf. specialize (Hf Hc).
    clear Hc N R. revert fs0 Ht Hf. induction H as [|a fs Ha Hfs IH]; intros [|fd fs0] Ht Hf; cbn in Ht; try discriminate; constructor.
    + apply andb_prop in Ht as [Ht _]. inversion Hf; subst. apply (Ha (r_env r) (snd fd)); assumption.
    + apply andb_prop in Ht as [_ Ht]. inversion Hf; subst. apply (IH fs0); assumption.
Qed.

(* == on a well-typed (NaN-free) value of a comparable type is reflexive *)
Lemma go_eqeq_refl e t k : can_equal t = true -> has_type e t k = true -> go_eqeq k k = true.
Proof.
  intros Hc Hk. pose proof (go_eqeq_spec t Hc e k k Hk Hk) as S.
  rewrite (spec_eq_refl e t k Hk) in S. inversion S. reflexivity.
Qed.
