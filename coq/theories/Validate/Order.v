(* Validate/Order.v — the order in which the packages of one run are generated
   (derive/generate.go dependenciesFirst), round 5.

   The packages named on the command line are numbered in the order of pkgInfos; [imp i j] says that
   package j is one of initialImports(i): another package of the run that i imports, directly or
   indirectly (never i itself).  dependenciesFirst is a depth-first walk with a [done] set: a package is
   marked BEFORE the packages it imports are visited.  With AllowErrors the loader hands over programs
   whose packages import each other (an import cycle is a type error of the user's program, not of
   goderive), so [imp] is an arbitrary relation — termination may not depend on it being acyclic.

   [visit] recurses on fuel; [None] = fuel exhausted = the walk does not return (in Go: the stack
   overflows).  Theorem [deps_first_terminates]: with more fuel than there are packages the walk returns,
   whatever [imp] is.  [visit_late] marks a package only after the packages it imports (the "tidy"
   variant): on two packages that import each other it does not return with any amount of fuel. *)
From Verif Require Import Base.
From Coq Require Import Bool List Arith Lia.
Import ListNotations.

Fixpoint fold_opt {A S : Type} (v : A -> S -> option S) (l : list A) (s : S) : option S :=
  match l with
  | [] => Some s
  | a :: r => match v a s with Some s' => fold_opt v r s' | None => None end
  end.

Section Order.
Variable imp : nat -> nat -> bool.
Variable pkgs : list nat.

Definition ost := (list nat * list nat)%type.          (* done, ordered *)
Definition is_done (d : list nat) (i : nat) : bool := existsb (Nat.eqb i) d.

Fixpoint visit (fuel : nat) (i : nat) (s : ost) : option ost :=
  match fuel with
  | O => None
  | S f =>
      if is_done (fst s) i then Some s else
      match fold_opt (visit f) (filter (imp i) pkgs) (i :: fst s, snd s) with   (* done[info] = true; for other ... *)
      | Some s2 => Some (fst s2, snd s2 ++ [i])                                 (* ordered = append(ordered, info) *)
      | None => None
      end
  end.

Definition deps_first (fuel : nat) : option (list nat) :=
  option_map snd (fold_opt (visit fuel) pkgs ([], [])).

(* the variant that marks a package when it is appended *)
Fixpoint visit_late (fuel : nat) (i : nat) (s : ost) : option ost :=
  match fuel with
  | O => None
  | S f =>
      if is_done (fst s) i then Some s else
      match fold_opt (visit_late f) (filter (imp i) pkgs) s with
      | Some s2 => Some (i :: fst s2, snd s2 ++ [i])
      | None => None
      end
  end.

(* ---- termination ---- *)
Definition undone (d : list nat) : nat := length (filter (fun x => negb (is_done d x)) pkgs).
Definition grows (d d' : list nat) : Prop := forall x, is_done d x = true -> is_done d' x = true.

Lemma filter_len_le {A} (p q : A -> bool) (l : list A) :
  (forall x, q x = true -> p x = true) -> length (filter q l) <= length (filter p l).
Proof.
  intros H. induction l as [|a l IH]; cbn; [lia|].
  destruct (q a) eqn:Q.
  - rewrite (H a Q). cbn. lia.
  - destruct (p a); cbn; lia.
Qed.

Lemma filter_len_lt {A} (p q : A -> bool) (l : list A) (a : A) :
  (forall x, q x = true -> p x = true) -> In a l -> p a = true -> q a = false ->
  length (filter q l) < length (filter p l).
Proof.
  intros H. induction l as [|b l IH]; cbn; [tauto|].
  intros [->|I] P Q.
  - rewrite P, Q. cbn. pose proof (filter_len_le p q l H). lia.
  - specialize (IH I P Q). destruct (q b) eqn:Qb.
    + rewrite (H b Qb). cbn. lia.
    + destruct (p b); cbn; lia.
Qed.

Lemma undone_grows d d' : grows d d' -> undone d' <= undone d.
Proof.
  intros G. unfold undone. apply filter_len_le. intros x Hx.
  destruct (is_done d x) eqn:E; [|reflexivity].
  rewrite (G x E) in Hx. discriminate.
Qed.

Lemma undone_mark d i : In i pkgs -> is_done d i = false -> undone (i :: d) < undone d.
Proof.
  intros I D. unfold undone. apply filter_len_lt with (a := i); auto.
  - intros x Hx. destruct (is_done d x) eqn:E; [|reflexivity].
    unfold is_done in Hx. cbn in Hx. unfold is_done in E. rewrite E in Hx. rewrite orb_true_r in Hx. discriminate.
  - rewrite D. reflexivity.
  - unfold is_done. cbn. rewrite Nat.eqb_refl. reflexivity.
Qed.

Lemma grows_refl d : grows d d. Proof. intros x H; exact H. Qed.
Lemma grows_trans a b c : grows a b -> grows b c -> grows a c.
Proof. intros H1 H2 x H. auto. Qed.
Lemma grows_cons d i : grows d (i :: d).
Proof. intros x H. unfold is_done in *. cbn. rewrite H. apply orb_true_r. Qed.

Lemma fold_visit_total f :
  (forall i s, In i pkgs -> undone (fst s) < f -> exists s', visit f i s = Some s' /\ grows (fst s) (fst s')) ->
  forall l s, (forall x, In x l -> In x pkgs) -> undone (fst s) < f ->
  exists s', fold_opt (visit f) l s = Some s' /\ grows (fst s) (fst s').
Proof.
  intros IH l. induction l as [|a l IHl]; intros s Sub U; cbn.
  - exists s. split; [reflexivity|apply grows_refl].
  - destruct (IH a s (Sub a (or_introl eq_refl)) U) as [s1 [E1 G1]]. rewrite E1.
    assert (U1 : undone (fst s1) < f) by (pose proof (undone_grows _ _ G1); lia).
    destruct (IHl s1 (fun x Hx => Sub x (or_intror Hx)) U1) as [s2 [E2 G2]].
    exists s2. split; [exact E2|eapply grows_trans; eauto].
Qed.

Lemma visit_total : forall fuel i s, In i pkgs -> undone (fst s) < fuel ->
  exists s', visit fuel i s = Some s' /\ grows (fst s) (fst s').
Proof.
  induction fuel as [|f IH]; intros i s I U; [lia|]. cbn [visit].
  destruct (is_done (fst s) i) eqn:D.
  - exists s. split; [reflexivity|apply grows_refl].
  - pose proof (undone_mark _ _ I D) as M.
    assert (U1 : undone (fst (i :: fst s, snd s)) < f) by (cbn [fst]; lia).
    destruct (fold_visit_total f IH (filter (imp i) pkgs) (i :: fst s, snd s)) as [s2 [E2 G2]].
    + intros x Hx. apply filter_In in Hx. tauto.
    + exact U1.
    + rewrite E2. exists (fst s2, snd s2 ++ [i]). split; [reflexivity|].
      cbn [fst] in *. eapply grows_trans; [apply grows_cons|exact G2].
Qed.

Theorem deps_first_terminates : forall fuel, length pkgs < fuel -> deps_first fuel <> None.
Proof.
  intros fuel L. unfold deps_first.
  assert (U : undone (fst (([], []) : ost)) < fuel).
  { unfold undone. cbn [fst]. pose proof (filter_len_le (fun _ => true) (fun x => negb (is_done [] x)) pkgs (fun _ _ => eq_refl)) as H.
    assert (length (filter (fun _ : nat => true) pkgs) = length pkgs) as E.
    { clear. induction pkgs; cbn; congruence. }
    lia. }
  destruct (fold_visit_total fuel (visit_total fuel) pkgs ([], []) (fun x H => H) U) as [s' [E _]].
  rewrite E. discriminate.
Qed.
End Order.

(* ---- the variant that marks late does not return on an import cycle ---- *)
Definition imp2 (i j : nat) : bool := negb (i =? j).     (* two packages that import each other *)

Lemma visit_late_cycle : forall fuel i o, i < 2 -> visit_late imp2 [0; 1] fuel i ([], o) = None.
Proof.
  induction fuel as [|f IH]; intros i o I; [reflexivity|].
  cbn [visit_late is_done existsb fst].
  destruct i as [|[|i]]; [| |lia]; cbn [filter imp2 Nat.eqb negb fold_opt].
  - rewrite (IH 1 o) by lia. reflexivity.
  - rewrite (IH 0 o) by lia. reflexivity.
Qed.

Definition deps_first_late imp pkgs fuel : option (list nat) :=
  option_map snd (fold_opt (visit_late imp pkgs fuel) pkgs ([], [])).

Theorem deps_first_late_refuted : forall fuel, deps_first_late imp2 [0; 1] fuel = None.
Proof.
  intros fuel. unfold deps_first_late. cbn [fold_opt].
  rewrite visit_late_cycle by lia. reflexivity.
Qed.

(* satisfiable and non-trivial: the same two packages are ordered by the real walk, and a diamond with a back edge too *)
Example deps_first_cycle2 : deps_first imp2 [0; 1] 3 = Some [1; 0].
Proof. vm_compute. reflexivity. Qed.
Definition imp_diamond_back (i j : nat) : bool :=
  negb (i =? j).   (* 0 -> 1, 0 -> 2, 1 -> 3, 2 -> 3, 3 -> 0: everything reaches everything *)
Example deps_first_diamond_back : deps_first imp_diamond_back [0; 1; 2; 3] 5 = Some [3; 2; 1; 0].
Proof. vm_compute. reflexivity. Qed.
Example deps_first_chain : deps_first (fun i j => i <? j) [0; 1; 2] 4 = Some [2; 1; 0].
Proof. vm_compute. reflexivity. Qed.
