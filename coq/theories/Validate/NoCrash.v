(* Validate/NoCrash.v — no Add and no Generate of any plugin ever indexes out of range or
   fails an unchecked type assertion, for ALL argument lists (case analysis over the list
   shapes, no enumeration); the pre-fix mem.Add is the refuted counterpart. *)
From Verif Require Import Base.
From Verif.Validate Require Import Aty Add Gen.
From Coq Require Import Bool List Arith NArith Lia.
Import ListNotations.

Lemma anth_some l i : i < alen l -> exists t, anth l i = Some t.
Proof.
  revert i; induction l as [|t r IH]; intros i H; cbn in *; [lia|].
  destruct i; [eauto|]. apply IH; lia.
Qed.

Lemma at_last_nocrash l k :
  alen l <> 0 -> (forall t, k t <> Crash) -> at_ l (alen l - 1) k <> Crash.
Proof.
  intros H K. unfold at_. destruct (anth_some l (alen l - 1)) as [t ->]; [lia|]. apply K.
Qed.

Lemma at_nocrash l i k :
  i < alen l -> (forall t, k t <> Crash) -> at_ l i k <> Crash.
Proof.
  intros H K. unfold at_. destruct (anth_some l i H) as [t ->]. apply K.
Qed.

Lemma need_nocrash b k : k <> Crash -> need b k <> Crash.
Proof. destruct b; cbn; congruence. Qed.

Lemma gseq_nocrash a b : a <> Crash -> b <> Crash -> a ;; b <> Crash.
Proof. destruct a, b; cbn; congruence. Qed.

(* destructs the argument list far enough for every arity test to compute *)
Ltac split_args typs :=
  destruct typs as [|?a [|?b [|?c ?l]]]; cbn [length Nat.eqb negb orb andb need idx nth_error].

Ltac step :=
  match goal with
  | |- Err <> Crash => discriminate
  | |- Ok <> Crash => discriminate
  | |- need ?b _ <> Crash => destruct b eqn:?; cbn [need]; [|discriminate]
  | |- _ ;; _ <> Crash => apply gseq_nocrash
  | |- at_ ?l 0 _ <> Crash =>
      destruct l as [|? ?]; cbn [alen Nat.eqb Nat.leb at_ anth need negb] in *; try congruence
  | |- at_ ?l 1 _ <> Crash =>
      destruct l as [|? [|? ?]]; cbn [alen Nat.eqb Nat.leb at_ anth need negb] in *; try congruence
  | |- (if ?b then _ else _) <> Crash => destruct b eqn:?
  | |- match ?x with _ => _ end <> Crash => destruct x eqn:?
  end.

Ltac crush := repeat (cbn [need idx at_ anth nth_error alen Nat.eqb Nat.leb negb] in *; step).

Lemma add_pred_nocrash typs : add_pred typs <> Crash.
Proof. unfold add_pred. split_args typs; crush. Qed.

Lemma add_apply_nocrash typs : add_apply typs <> Crash.
Proof.
  unfold add_apply. split_args typs; try discriminate.
  destruct a; try discriminate.
  destruct variadic; cbn [negb need]; [discriminate|].
  destruct (1 <=? alen ps) eqn:E; cbn [need]; [|discriminate].
  apply Nat.leb_le in E. apply at_last_nocrash; [lia|]. intros t. crush.
Qed.

Lemma add_one_nocrash typs : add_one typs <> Crash.
Proof. unfold add_one. split_args typs; crush. Qed.

Lemma add_one_typed_nocrash typs : add_one_typed typs <> Crash.
Proof. unfold add_one_typed. split_args typs; crush. Qed.

Lemma add_one_or_two_nocrash typs : add_one_or_two typs <> Crash.
Proof. unfold add_one_or_two. split_args typs; crush. Qed.

Lemma compose_sigs_nocrash typs : compose_sigs typs <> inr Crash /\ compose_sigs typs <> inl None.
Proof.
  induction typs as [|t r [IH1 IH2]]; cbn; [split; discriminate|].
  destruct t; try (split; discriminate).
  destruct variadic; [split; discriminate|].
  destruct (alen rs =? 0) eqn:E; [split; discriminate|].
  apply Nat.eqb_neq in E.
  destruct (anth_some rs (alen rs - 1)) as [e ->]; [lia|].
  destruct (is_error e); [|split; discriminate].
  destruct (compose_sigs r) as [[l|]|g]; try (split; discriminate); try congruence.
  split; [|discriminate]. destruct g; try discriminate. congruence.
Qed.

Lemma compose_chain_nocrash l prev : compose_chain prev l <> Crash.
Proof.
  revert prev; induction l as [|[ps rs] r IH]; intros prev; cbn; [discriminate|].
  repeat apply need_nocrash. apply IH.
Qed.

Lemma add_compose_nocrash typs : add_compose typs <> Crash.
Proof.
  unfold add_compose.
  destruct (2 <=? length typs) eqn:E; cbn [need]; [|discriminate].
  destruct typs as [|a r]; [discriminate|]. cbn [idx nth_error].
  destruct a; try discriminate.
  unfold compose_errorType. rewrite E. cbn [need].
  pose proof (compose_sigs_nocrash (ASig ps rs variadic :: r)) as [H1 H2].
  destruct (compose_sigs (ASig ps rs variadic :: r)) as [[[|[p0 r0] l]|]|g]; try discriminate; try congruence.
  all: try apply compose_chain_nocrash.
  all: try (destruct g; try discriminate; congruence).
Qed.

Lemma add_contains_nocrash typs : add_contains typs <> Crash.
Proof. unfold add_contains. split_args typs; crush. Qed.

Lemma add_curry_nocrash typs : add_curry typs <> Crash.
Proof. unfold add_curry. split_args typs; crush. Qed.

Lemma add_deepcopy_nocrash typs : add_deepcopy typs <> Crash.
Proof. unfold add_deepcopy. split_args typs; crush. Qed.

Lemma do_errorOut_nocrash t : do_errorOut t <> Crash.
Proof.
  unfold do_errorOut. destruct t; try discriminate.
  destruct (alen ps =? 0); cbn [need]; [|discriminate].
  destruct rs as [|r1 [|r2 [|r3 rs]]]; cbn; try discriminate. crush.
Qed.

Lemma add_do_nocrash typs : add_do typs <> Crash.
Proof.
  unfold add_do. apply need_nocrash.
  induction typs as [|t r IH]; cbn; [discriminate|].
  apply gseq_nocrash; [apply do_errorOut_nocrash | exact IH].
Qed.

Lemma add_dup_nocrash typs : add_dup typs <> Crash.
Proof. unfold add_dup. split_args typs; crush. Qed.

Lemma fmap_fn1_nocrash t e : fmap_fn1 t e <> Crash.
Proof. unfold fmap_fn1. crush. Qed.

Lemma fmap_errorInOut_nocrash t0 t1 : fmap_errorInOut t0 t1 <> Crash.
Proof.
  unfold fmap_errorInOut. destruct t1; try discriminate.
  destruct (alen ps =? 0); cbn [need]; [|discriminate].
  destruct rs as [|r1 [|r2 [|r3 rs]]]; cbn; try discriminate. crush.
Qed.

Lemma add_fmap_nocrash typs : add_fmap typs <> Crash.
Proof.
  unfold add_fmap. split_args typs; try discriminate.
  destruct b; try discriminate;
    try apply fmap_fn1_nocrash; try apply fmap_errorInOut_nocrash.
  all: apply need_nocrash, fmap_fn1_nocrash.
Qed.

Lemma add_setop_nocrash typs : add_setop typs <> Crash.
Proof. unfold add_setop. split_args typs; crush. Qed.

Lemma join_errorType_nocrash typs : join_errorType typs <> Crash.
Proof.
  unfold join_errorType. split_args typs; try discriminate.
  destruct a; try discriminate.
  apply need_nocrash, need_nocrash.
  destruct (alen rs =? 0) eqn:E; cbn [negb need]; [discriminate|].
  apply Nat.eqb_neq in E. apply at_last_nocrash; [exact E|]. intros t; crush.
Qed.

Lemma join_chans_nocrash typs prev : join_chans prev typs <> Crash.
Proof.
  revert prev; induction typs as [|t r IH]; intros prev; cbn; [discriminate|].
  destruct t; try discriminate. apply need_nocrash.
  destruct prev; [apply need_nocrash|]; apply IH.
Qed.

Lemma add_join_nocrash typs : add_join typs <> Crash.
Proof.
  unfold add_join. destruct typs as [|a r]; cbn [length Nat.eqb negb need idx nth_error]; [discriminate|].
  destruct a; try discriminate.
  - destruct a; try discriminate; repeat apply need_nocrash; discriminate.
  - apply join_errorType_nocrash.
  - destruct a; try (apply need_nocrash; first [discriminate | apply join_chans_nocrash]).
    repeat apply need_nocrash. discriminate.
  - destruct ts as [|t1 [|t2 [|t3 ts]]]; cbn [alen Nat.eqb at_ anth]; try discriminate.
    apply join_errorType_nocrash.
Qed.

Lemma add_minmax_nocrash typs : add_minmax typs <> Crash.
Proof. unfold add_minmax. split_args typs; crush. Qed.

Lemma add_mem_nocrash typs : add_mem typs <> Crash.
Proof. unfold add_mem. split_args typs; crush. Qed.

Lemma funcInChanOut_nocrash t ro : funcInChanOut t ro <> inr Crash /\ funcInChanOut t ro <> inl None.
Proof.
  unfold funcInChanOut. destruct t; try (split; discriminate).
  destruct variadic; [split; discriminate|].
  destruct ps as [|p1 [|p2 ps]]; cbn; try (split; discriminate).
  destruct rs as [|r1 [|r2 rs]]; cbn; try (split; discriminate).
  destruct r1; try (split; discriminate).
  destruct (is_send d); [split; discriminate|].
  destruct (ro && negb (is_recv d)); split; discriminate.
Qed.

Lemma add_pipeline_nocrash typs : add_pipeline typs <> Crash.
Proof.
  unfold add_pipeline. split_args typs; try discriminate.
  pose proof (funcInChanOut_nocrash a false) as [A1 A2].
  pose proof (funcInChanOut_nocrash b true) as [B1 B2].
  destruct (funcInChanOut a false) as [[[x y]|]|g]; try congruence.
  all: try (destruct g; congruence).
  destruct (funcInChanOut b true) as [[[x' y']|]|g]; try congruence.
  all: try (destruct g; congruence).
  apply need_nocrash; discriminate.
Qed.

Lemma add_toerror_nocrash typs : add_toerror typs <> Crash.
Proof.
  unfold add_toerror. split_args typs; try discriminate.
  apply need_nocrash. destruct b; try discriminate.
  apply need_nocrash.
  destruct (alen rs =? 0) eqn:E; cbn [negb need]; [discriminate|].
  apply Nat.eqb_neq in E. apply at_last_nocrash; [exact E|]. intros t; crush.
Qed.

Lemma add_traverse_nocrash typs : add_traverse typs <> Crash.
Proof.
  unfold add_traverse. split_args typs; try discriminate.
  destruct b; try discriminate. destruct a; try discriminate.
  destruct variadic; cbn [negb need]; [discriminate|].
  destruct ps as [|p1 [|p2 ps]]; cbn; try discriminate.
  apply need_nocrash.
  destruct rs as [|r1 [|r2 [|r3 rs]]]; cbn; try discriminate. crush.
Qed.

Lemma add_tuple_nocrash typs : add_tuple typs <> Crash.
Proof.
  unfold add_tuple. apply need_nocrash.
  destruct typs as [|[] [|? ?]]; try discriminate; apply need_nocrash; discriminate.
Qed.

Lemma add_uncurry_nocrash typs : add_uncurry typs <> Crash.
Proof.
  unfold add_uncurry. split_args typs; try discriminate.
  destruct a; try discriminate.
  apply need_nocrash.
  destruct rs as [|r1 [|r2 rs]]; cbn; try discriminate. crush.
Qed.

Theorem no_crash : forall p typs, add_model p typs <> Crash.
Proof.
  intros p typs; destruct p; cbn [add_model];
    first [ apply add_pred_nocrash | apply add_apply_nocrash | apply add_one_nocrash
          | apply add_one_typed_nocrash | apply add_one_or_two_nocrash | apply add_compose_nocrash | apply add_contains_nocrash
          | apply add_curry_nocrash | apply add_deepcopy_nocrash | apply add_do_nocrash
          | apply add_dup_nocrash | apply add_fmap_nocrash | apply add_setop_nocrash
          | apply add_join_nocrash | apply add_minmax_nocrash | apply add_mem_nocrash
          | apply add_pipeline_nocrash | apply add_toerror_nocrash | apply add_traverse_nocrash
          | apply add_tuple_nocrash | apply add_uncurry_nocrash ].
Qed.

(* the code before commit 4a8b872 *)
Theorem mem_index_refuted : add_mem_prefix [ABasic KInt] = Crash.
Proof. reflexivity. Qed.

(* ---------- the generators never crash either ---------- *)
(* the fields of a struct type: needed as a separate conjunct because a named struct is
   generated through its fields whatever genStatement says about the bare struct literal *)
Definition sx (F : atys -> gres) (t : aty) : Prop :=
  match t with AStruct fs => F fs <> Crash | _ => True end.

Ltac gen_nocrash_tac :=
  repeat match goal with
         | |- _ /\ _ => split
         | |- (if ?b then _ else _) <> Crash => destruct b
         | |- match ?x with _ => _ end <> Crash => destruct x
         | |- _ ;; _ <> Crash => apply gseq_nocrash
         end;
  cbn in *; intuition (try discriminate; auto using gseq_nocrash).

Lemma eq_nocrash_both :
  (forall t, eq_stmt t <> Crash /\ eq_field t <> Crash /\ sx eq_fields t) /\ (forall l, eq_fields l <> Crash).
Proof. apply aty_atys_ind; intros; cbn [eq_stmt eq_field eq_fields sx]; gen_nocrash_tac. Qed.

Lemma cmp_nocrash_both :
  (forall t, cmp_stmt t <> Crash /\ sx cmp_fields t) /\ (forall l, cmp_fields l <> Crash).
Proof.
  assert (B : forall k, cmp_basic k <> Crash) by (intros k; destruct k; cbn; discriminate).
  apply aty_atys_ind; intros; cbn [cmp_stmt cmp_fields sx]; gen_nocrash_tac.
  all: eapply B; eassumption.
Qed.

Lemma hash_nocrash_both :
  (forall t, hash_stmt t <> Crash /\ sx hash_fields t) /\ (forall l, hash_fields l <> Crash).
Proof.
  pose proof cmp_nocrash_both as [C _].
  assert (B : forall k, hash_basic_field k <> Crash) by (intros k; destruct k; cbn; discriminate).
  apply aty_atys_ind; intros; cbn [hash_stmt hash_fields sx]; gen_nocrash_tac.
  all: try (eapply B; eassumption).
  all: try (eapply C; eassumption).
Qed.

Lemma dc_nocrash_both :
  (forall t, dc_stmt t <> Crash /\ dc_field t <> Crash /\ sx dc_fields t) /\ (forall l, dc_fields l <> Crash).
Proof.
  assert (C : forall l, can_equal_all l = true -> dc_fields l = Ok).
  { induction l as [|t r IH]; cbn; [reflexivity|]. intros H; apply andb_prop in H as [H1 H2].
    assert (F : dc_field t = Ok) by (destruct t; cbn [dc_field]; rewrite H1; reflexivity).
    rewrite F. cbn. auto. }
  apply aty_atys_ind; intros; cbn [dc_stmt dc_field dc_fields sx]; gen_nocrash_tac.
  all: match goal with
       | H : dc_fields ?fs = Crash |- _ =>
           destruct (can_equal_all fs) eqn:E; [rewrite (C fs E) in H; discriminate | auto]
       end.
Qed.

Lemma gs_nocrash_both :
  (forall t, gs_stmt t <> Crash /\ gs_field t <> Crash /\ sx gs_fields t) /\ (forall l, gs_fields l <> Crash).
Proof. apply aty_atys_ind; intros; cbn [gs_stmt gs_field gs_fields sx]; gen_nocrash_tac. Qed.

Lemma eq_stmt_nocrash t : eq_stmt t <> Crash. Proof. apply eq_nocrash_both. Qed.
Lemma cmp_stmt_nocrash t : cmp_stmt t <> Crash. Proof. apply cmp_nocrash_both. Qed.
Lemma hash_stmt_nocrash t : hash_stmt t <> Crash. Proof. apply hash_nocrash_both. Qed.
Lemma dc_stmt_nocrash t : dc_stmt t <> Crash. Proof. apply dc_nocrash_both. Qed.
Lemma gs_stmt_nocrash t : gs_stmt t <> Crash. Proof. apply gs_nocrash_both. Qed.

Lemma clone_gen_nocrash t : clone_gen t <> Crash.
Proof. unfold clone_gen. destruct (under t); apply dc_stmt_nocrash. Qed.
Lemma sort_gen_nocrash t : sort_gen t <> Crash.
Proof.
  unfold sort_gen. destruct t; try discriminate. unfold cmp_sort.
  assert (B : forall k, sort_basic k <> Crash) by (intros k; destruct k; cbn; discriminate).
  destruct t; try discriminate; try apply B; try apply cmp_stmt_nocrash.
  destruct t; try discriminate; try apply B; try apply cmp_stmt_nocrash.
Qed.
Lemma keys_gen_nocrash t : keys_gen t <> Crash.
Proof. unfold keys_gen. destruct (under t); discriminate. Qed.
Lemma set_gen_nocrash t : set_gen t <> Crash.
Proof. destruct t; try discriminate. cbn. destruct (go_comparable t); discriminate. Qed.
Lemma contains_gen_nocrash t : contains_gen t <> Crash.
Proof. destruct t; try discriminate. cbn. destruct (can_equal t); [discriminate|apply eq_stmt_nocrash]. Qed.
Lemma unique_gen_nocrash t : unique_gen t <> Crash.
Proof.
  destruct t; try discriminate. cbn. destruct (can_equal t); [discriminate|].
  apply gseq_nocrash; [apply hash_stmt_nocrash | apply eq_stmt_nocrash].
Qed.
Lemma setop_gen_nocrash t : setop_gen t <> Crash.
Proof. destruct t; try discriminate. apply contains_gen_nocrash. Qed.
Lemma minmax_elem_nocrash t : minmax_elem t <> Crash.
Proof.
  destruct t; try apply cmp_stmt_nocrash. unfold minmax_elem.
  destruct (is_ordered k); [discriminate|apply cmp_stmt_nocrash].
Qed.
Lemma minmax_gen_nocrash a b : minmax_gen a b <> Crash.
Proof.
  unfold minmax_gen. destruct (identical a b); [apply minmax_elem_nocrash|].
  destruct a; try discriminate. apply minmax_elem_nocrash.
Qed.
Lemma mem_gen_nocrash t : mem_gen t <> Crash.
Proof.
  destruct t; try discriminate. cbn.
  destruct ps as [|p [|q ps]]; try discriminate.
  - destruct (can_equal p); [discriminate|].
    apply gseq_nocrash; [apply hash_stmt_nocrash | apply eq_stmt_nocrash].
  - destruct (can_equal_all _); [discriminate|].
    apply gseq_nocrash; [apply hash_nocrash_both | apply eq_nocrash_both].
Qed.

(* a whole run (Add, then Generate on the registered types) never crashes *)
Theorem run_no_crash : forall p typs, run_model p typs <> Crash.
Proof.
  intros p typs. unfold run_model.
  destruct (add_model p typs) eqn:A; cbn [gseq]; try discriminate; [|exfalso; exact (no_crash p typs A)].
  destruct p; cbn [gen_model]; try discriminate;
    cbn [add_model] in A;
    unfold add_one, add_one_typed, add_one_or_two, add_deepcopy, add_contains, add_setop, add_minmax, add_mem in A;
    destruct typs as [|a [|b [|c l]]]; cbn [length Nat.eqb orb need idx nth_error] in A; try discriminate;
    cbn [idx nth_error];
    first [ apply eq_stmt_nocrash | apply cmp_stmt_nocrash | apply hash_stmt_nocrash | apply dc_stmt_nocrash
          | apply gs_stmt_nocrash | apply clone_gen_nocrash | apply sort_gen_nocrash | apply keys_gen_nocrash
          | apply set_gen_nocrash | apply contains_gen_nocrash | apply unique_gen_nocrash
          | apply setop_gen_nocrash | apply minmax_gen_nocrash | apply mem_gen_nocrash ].
Qed.
