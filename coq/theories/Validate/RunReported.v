(* Validate/RunReported.v — the run-level statement of `unsupported_reported`: whenever the
   specification says that an argument list is outside the plugin's supported set
   ([must_report], defined in Spec.v without reference to the code), the modelled run ends
   with an error: never Ok, never a crash.  For every plugin and ALL argument lists. *)
From Verif Require Import Base.
From Verif.Validate Require Import Aty Add Gen Spec NoCrash Exact Reported.
From Coq Require Import Bool List Arith NArith Lia.
Import ListNotations.

Lemma run_err_of_gen p typs : gen_model p typs = Err -> run_model p typs = Err.
Proof.
  intros G. unfold run_model. rewrite G.
  pose proof (no_crash p typs). destruct (add_model p typs); cbn; congruence.
Qed.
Lemma run_err_of_add p typs : add_model p typs = Err -> run_model p typs = Err.
Proof. intros A. unfold run_model. rewrite A. reflexivity. Qed.

Lemma run_err_of_add_not_ok p typs : add_model p typs <> Ok -> run_model p typs = Err.
Proof.
  intros A. apply run_err_of_add. pose proof (no_crash p typs).
  destruct (add_model p typs); congruence.
Qed.

(* a send only channel among the arguments of the variadic deriveJoin is refused *)
Lemma join_chans_sendonly typs : forall prev,
  existsb is_sendonly typs = true -> join_chans prev typs <> Ok.
Proof.
  induction typs as [|t r IH]; intros prev E; cbn in E; [discriminate|].
  cbn [join_chans]. destruct t; try discriminate.
  destruct d; cbn [is_send negb need]; try discriminate; cbn in E;
    (destruct prev; [destruct (identical t a); cbn [need]; [|discriminate]|]; apply IH; exact E).
Qed.

Lemma join_sendonly d a r :
  existsb is_sendonly (AChan d a :: r) = true -> add_join (AChan d a :: r) <> Ok.
Proof.
  intros E. unfold add_join. cbn [length Nat.eqb negb need idx nth_error].
  destruct a.
  9: { destruct r; cbn [length Nat.eqb need]; [|discriminate].
       cbn in E. rewrite orb_false_r in E. destruct d; try discriminate E. discriminate. }
  all: match goal with |- need ?c _ <> Ok => destruct c end; cbn [need]; [|discriminate];
    apply join_chans_sendonly; exact E.
Qed.

Lemma minmax_elem_unsup a : has_unsup true true a = true -> minmax_elem a = Err.
Proof.
  destruct a; intros H; unfold minmax_elem; try exact (unsupported_reported_compare _ H).
  cbn in H. apply bkind_eqb_eq in H; subst. reflexivity.
Qed.

Lemma gseq_r_err a : a <> Crash -> a ;; Err = Err.
Proof. destruct a; cbn; congruence. Qed.

Theorem unsupported_reported : forall p typs, must_report p typs = true -> run_model p typs = Err.
Proof.
  intros p typs M. destruct p; cbn [must_report] in M; try discriminate.
  - (* all: a variadic predicate *)
    apply run_err_of_add_not_ok. cbn [add_model]. intros A.
    apply validate_exact_pred in A as (t & ->). discriminate M.
  - (* any *)
    apply run_err_of_add_not_ok. cbn [add_model]. intros A.
    apply validate_exact_pred in A as (t & ->). discriminate M.
  - (* apply *)
    destruct typs as [|[] [|? [|? ?]]]; try discriminate. subst. apply run_err_of_add. reflexivity.
  - (* clone *)
    destruct typs as [|t [|? ?]]; try discriminate. apply run_err_of_gen. cbn.
    assert (M' : has_unsup true false (default_ty t) = true) by (destruct t; exact M).
    unfold clone_gen. destruct (under (default_ty t)); try (apply unsupported_reported_deepcopy; exact M').
  - (* compare *)
    destruct typs as [|t r]; try discriminate.
    destruct (add_model PCompare (t :: r)) eqn:A; [|apply run_err_of_add; exact A| exfalso; exact (no_crash _ _ A)].
    apply run_err_of_gen. cbn. apply unsupported_reported_compare; exact M.
  - (* contains *)
    destruct typs as [|[] [|? [|? ?]]]; try discriminate. apply run_err_of_gen. cbn.
    rewrite (unsup_not_can_equal false _ M). apply unsupported_reported_equal; exact M.
  - (* curry *)
    destruct typs as [|[] [|? ?]]; try discriminate. subst. apply run_err_of_add. reflexivity.
  - (* deepcopy *)
    destruct typs as [|t [|? [|? ?]]]; try discriminate. apply run_err_of_gen. cbn.
    apply unsupported_reported_deepcopy; exact M.
  - (* dup: a send only channel *)
    destruct typs as [|c [|? ?]]; try discriminate. destruct c; try discriminate.
    destruct d; try discriminate. apply run_err_of_add. reflexivity.
  - (* equal *)
    destruct typs as [|t r]; try discriminate.
    apply run_err_of_gen. cbn. apply unsupported_reported_equal; exact M.
  - (* filter *)
    apply run_err_of_add_not_ok. cbn [add_model]. intros A.
    apply validate_exact_pred in A as (t & ->). discriminate M.
  - (* flip *)
    destruct typs as [|[] [|? ?]]; try discriminate. subst. apply run_err_of_add. reflexivity.
  - (* fmap: a variadic function, a send only channel *)
    apply run_err_of_add_not_ok. cbn [add_model]. intros A.
    apply validate_exact_fmap in A
      as [(e & r & ->)|[(k & r & -> & K)|[(e & rs & er & v' & -> & E)|(e & r & d & -> & N)]]];
      cbn in M; try discriminate M.
    destruct d; try discriminate M. congruence.
  - (* gostring *)
    destruct typs as [|t [|? ?]]; try discriminate.
    destruct (is_unil t) eqn:U.
    + destruct t as [[]| | | | | | | | | | |]; try discriminate U. apply run_err_of_add. reflexivity.
    + cbn [orb] in M. apply run_err_of_gen. cbn.
      apply unsupported_reported_gostring; exact M.
  - (* hash *)
    destruct typs as [|t [|? ?]]; try discriminate.
    destruct (is_unil t) eqn:U.
    + destruct t as [[]| | | | | | | | | | |]; try discriminate U. apply run_err_of_add. reflexivity.
    + cbn [orb] in M. apply run_err_of_gen. cbn.
      apply unsupported_reported_hash; exact M.
  - (* intersect *)
    destruct typs as [|[] [|? [|? ?]]]; try discriminate. apply run_err_of_gen. cbn.
    rewrite (unsup_not_can_equal false _ M). apply unsupported_reported_equal; exact M.
  - (* join: channels that cannot be received from *)
    apply run_err_of_add_not_ok. cbn [add_model].
    destruct typs as [|a r]; try discriminate M. destruct a; try discriminate M.
    + destruct r; try discriminate M. destruct a; try discriminate M. destruct d; try discriminate M.
      discriminate.
    + destruct a; try (apply join_sendonly; exact M).
      destruct r; [|apply join_sendonly; exact M].
      destruct d, d0; cbn in M; try discriminate M; discriminate.
  - (* max *)
    destruct typs as [|a [|b [|? ?]]]; try discriminate. apply run_err_of_gen. cbn. unfold minmax_gen.
    destruct (identical a b); [apply minmax_elem_unsup; exact M|].
    destruct a; try discriminate. apply minmax_elem_unsup. exact M.
  - (* mem *)
    destruct typs as [|[] [|? ?]]; try discriminate.
    destruct variadic; [apply run_err_of_add; reflexivity|]. cbn in M.
    apply andb_prop in M as [C U]. apply negb_true_iff in C.
    apply run_err_of_gen. cbn.
    destruct ps as [|p [|q ps]]; try discriminate.
    + cbn in C, U. rewrite andb_true_r in C. rewrite orb_false_r in U. rewrite C.
      rewrite (unsupported_reported_equal _ U). apply gseq_r_err, hash_stmt_nocrash.
    + rewrite C. rewrite (eq_fields_unsup _ U). apply gseq_r_err, hash_nocrash_both.
  - (* min *)
    destruct typs as [|a [|b [|? ?]]]; try discriminate. apply run_err_of_gen. cbn. unfold minmax_gen.
    destruct (identical a b); [apply minmax_elem_unsup; exact M|].
    destruct a; try discriminate. apply minmax_elem_unsup. exact M.
  - (* pipeline: a variadic function / the first function's channel is send only / the second one's is not receive only *)
    apply run_err_of_add_not_ok. cbn [add_model]. intros A.
    apply validate_exact_pipeline in A as (a & b & c & d1 & -> & N).
    cbn in M. destruct d1; try discriminate M. congruence.
  - (* set *)
    destruct typs as [|[] [|? ?]]; try discriminate. apply run_err_of_gen. cbn.
    apply negb_true_iff in M. rewrite M. reflexivity.
  - (* sort *)
    destruct typs as [|[] [|? ?]]; try discriminate. apply run_err_of_gen. cbn.
    pose proof (unsupported_reported_compare _ M) as C.
    unfold cmp_sort. destruct t; try reflexivity; try exact C.
    + cbn in M. try rewrite andb_true_l in M. apply bkind_eqb_eq in M; subst. reflexivity.
    + destruct t; try reflexivity; try exact C.
      cbn in M. try rewrite andb_true_l in M. apply bkind_eqb_eq in M; subst. reflexivity.
  - (* takewhile *)
    apply run_err_of_add_not_ok. cbn [add_model]. intros A.
    apply validate_exact_pred in A as (t & ->). discriminate M.
  - (* toerror *)
    destruct typs as [|e [|[] [|? ?]]]; try discriminate. subst.
    apply run_err_of_add. cbn. destruct (is_error e); reflexivity.
  - (* traverse: a variadic function *)
    apply run_err_of_add_not_ok. cbn [add_model]. intros A.
    apply validate_exact_traverse in A as (t & r & e & -> & E). discriminate M.
  - (* tuple: an untyped nil among the arguments *)
    apply run_err_of_add_not_ok. cbn [add_model]. intros A.
    apply validate_exact_tuple in A as [_ A]. apply existsb_unil_false in A.
    change is_untyped_nil with is_unil in A.
    destruct typs as [|[] [|? ?]]; try discriminate M; congruence.
  - (* union *)
    destruct typs as [|[] [|? [|? ?]]]; try discriminate. apply run_err_of_gen. cbn.
    rewrite (unsup_not_can_equal false _ M). apply unsupported_reported_equal; exact M.
  - (* unique *)
    destruct typs as [|[] [|? ?]]; try discriminate. apply run_err_of_gen. cbn.
    rewrite (unsup_not_can_equal false _ M), (unsupported_reported_equal _ M).
    apply gseq_r_err, hash_stmt_nocrash.
Qed.

Example unsupported_reported_instances :
  must_report PJoin [AChan DRecv (ABasic KInt); AChan DBoth (ABasic KInt); AChan DSend (ABasic KInt)] = true /\
  must_report PJoin [AChan DRecv (ABasic KInt); AChan DBoth (ABasic KInt)] = false /\
  run_model PJoin [AChan DRecv (ABasic KInt); AChan DBoth (ABasic KInt)] = Ok /\
  must_report PJoin [AChan DBoth (AChan DBoth (ABasic KInt))] = true /\
  must_report PJoin [AChan DBoth (AChan DRecv (ABasic KInt))] = false /\
  run_model PJoin [AChan DBoth (AChan DRecv (ABasic KInt))] = Ok /\
  must_report PTuple [ABasic KInt; ABasic KUNil] = true /\
  (* a variadic function whose parameter type fits the list / the channel / the next function *)
  must_report PFmap [ASig (TCons (ASlice (ABasic KInt)) TNil) (TCons (ABasic KString) TNil) true; ASlice (ASlice (ABasic KInt))] = true /\
  must_report PFmap [ASig (TCons (ASlice (ABasic KInt)) TNil) (TCons (ABasic KString) TNil) false; ASlice (ASlice (ABasic KInt))] = false /\
  run_model PFmap [ASig (TCons (ASlice (ABasic KInt)) TNil) (TCons (ABasic KString) TNil) false; ASlice (ASlice (ABasic KInt))] = Ok /\
  must_report PFilter [ASig (TCons (ASlice (ABasic KInt)) TNil) (TCons (ABasic KBool) TNil) true; ASlice (ASlice (ABasic KInt))] = true /\
  must_report PTraverse [ASig (TCons (ASlice (ABasic KInt)) TNil) (TCons (ABasic KString) (TCons AErr TNil)) true; ASlice (ASlice (ABasic KInt))] = true /\
  must_report PPipeline [ASig (TCons (ASlice (ABasic KInt)) TNil) (TCons (AChan DRecv (ABasic KInt)) TNil) true;
                         ASig (TCons (ABasic KInt) TNil) (TCons (AChan DRecv (ABasic KString)) TNil) false] = true /\
  must_report PPipeline [ASig (TCons (ABasic KInt) TNil) (TCons (AChan DRecv (ASlice (ABasic KInt))) TNil) false;
                         ASig (TCons (ASlice (ABasic KInt)) TNil) (TCons (AChan DRecv (ABasic KString)) TNil) true] = true /\
  run_model PPipeline [ASig (TCons (ABasic KInt) TNil) (TCons (AChan DRecv (ASlice (ABasic KInt))) TNil) false;
                       ASig (TCons (ASlice (ABasic KInt)) TNil) (TCons (AChan DRecv (ABasic KString)) TNil) false] = Ok /\
  (* a variadic function that is only passed through keeps working *)
  run_model PTuple [ASig (TCons (ASlice (ABasic KInt)) TNil) (TCons (ABasic KBool) TNil) true; ABasic KString] = Ok /\
  run_model PTuple [ABasic KUInt; ABasic KUString] = Ok /\
  must_report PHash [ABasic KUNil] = true /\ run_model PHash [ABasic KUInt] = Ok /\
  run_model PClone [ABasic KUString] = Ok /\
  must_report PMin [ABasic KUnsafePtr; ABasic KUnsafePtr] = true /\
  must_report PSort [ASlice (AChan DBoth (ABasic KInt))] = true /\
  must_report PMem [ASig (TCons (ASlice (AIface 0)) TNil) (TCons (ABasic KInt) TNil) false] = true /\
  must_report PEqual [ASlice (ABasic KInt); ASlice (ABasic KInt)] = false /\
  run_model PEqual [ASlice (ABasic KInt); ASlice (ABasic KInt)] = Ok.
Proof. vm_compute. repeat split. Qed.
