(* Validate/Reported.v — `unsupported_reported`: for each type-recursive generator, a type
   with a chan / func / interface (/ unsafe.Pointer where `<` or a uint64 conversion is needed)
   constituent at a position the generator has to look at yields a Generator Error — by
   induction on the type, for ALL types.  Plus the refutation witnesses of the code before
   the fixes. *)
From Verif Require Import Base.
From Verif.Validate Require Import Aty Add Gen Spec NoCrash.
From Coq Require Import Bool List Arith NArith Lia.
Import ListNotations.

Lemma gseq_err_l b : Err ;; b = Err. Proof. reflexivity. Qed.
Lemma gseq_err_r a : a <> Crash -> a ;; Err = Err.
Proof. destruct a; cbn; congruence. Qed.

(* a type with an unsupported constituent is never comparable / copyable by assignment *)
Lemma unsup_not_can_equal_both keys :
  (forall t, has_unsup keys false t = true -> can_equal t = false) /\
  (forall l, has_unsup_any keys false l = true -> can_equal_all l = false).
Proof.
  apply aty_atys_ind; intros; cbn in *; try discriminate; try reflexivity; auto.
  apply orb_prop in H1 as [A|A]; [rewrite (H A) | rewrite (H0 A), andb_false_r]; reflexivity.
Qed.
Lemma unsup_not_can_equal keys t : has_unsup keys false t = true -> can_equal t = false.
Proof. apply unsup_not_can_equal_both. Qed.
Lemma unsup_not_can_equal_all keys l : has_unsup_any keys false l = true -> can_equal_all l = false.
Proof. apply unsup_not_can_equal_both. Qed.

(* fields component of a struct literal, see NoCrash.sx *)
Definition sxe (keys up : bool) (F : atys -> gres) (t : aty) : Prop :=
  match t with AStruct fs => has_unsup_any keys up fs = true -> F fs = Err | _ => True end.

(* ---------------- Ok implies no unsupported constituent at a visited position ---------------- *)
Lemma can_equal_clean keys t : can_equal t = true -> has_unsup keys false t = false.
Proof.
  intros H. destruct (has_unsup keys false t) eqn:E; [|reflexivity].
  apply unsup_not_can_equal in E. congruence.
Qed.
Lemma can_equal_all_clean keys l : can_equal_all l = true -> has_unsup_any keys false l = false.
Proof.
  intros H. destruct (has_unsup_any keys false l) eqn:E; [|reflexivity].
  apply unsup_not_can_equal_all in E. congruence.
Qed.

Definition sxo (keys up : bool) (F : atys -> gres) (t : aty) : Prop :=
  match t with AStruct fs => F fs = Ok -> has_unsup_any keys up fs = false | _ => True end.

(* one unfolding of the generator at the head constructor, then case analysis on the tests it
   makes (bounded: the recursive calls on the components stay folded and meet the induction
   hypotheses) *)
Ltac rep_step :=
  match goal with
  | H : Err = Ok |- _ => discriminate H
  | H : (if ?b then _ else _) = Ok |- _ => destruct b eqn:?
  | H : match ?x with _ => _ end = Ok |- _ => destruct x; try discriminate H
  | H : _ ;; _ = Ok |- _ => apply gseq_ok in H as [? ?]
  end.
Ltac rep_fin :=
  cbn [has_unsup has_unsup_any andb orb] in *;
  repeat match goal with
  | |- _ || _ = false => apply orb_false_intro
  end;
  try reflexivity; try discriminate;
  try match goal with
      | H : is_byte_slice_elem ?t = true |- _ =>
          destruct t as [[]| | | | | | | | | | |]; try discriminate H; reflexivity
      end;
  eauto using can_equal_clean, can_equal_all_clean;
  repeat match goal with
  | H : ?A -> _, H' : ?A |- _ => specialize (H H')
  | H : _ || _ = false |- _ => apply orb_false_elim in H as [? ?]
  end; auto.
Ltac rep_tac unf :=
  try match goal with H : _ (TCons _ _) = Ok |- _ => revert H end;
  try match goal with H : _ TNil = Ok |- _ => revert H end;
  repeat match goal with
  | H : _ /\ _ |- _ => destruct H
  | |- _ /\ _ => split
  end;
  try exact I;
  try (intros HOk; unf HOk; repeat rep_step; rep_fin).

Lemma eq_ok_clean_both :
  (forall t, (eq_stmt t = Ok -> has_unsup false false t = false) /\
             (eq_field t = Ok -> has_unsup false false t = false) /\ sxo false false eq_fields t) /\
  (forall l, eq_fields l = Ok -> has_unsup_any false false l = false).
Proof.
  apply aty_atys_ind; intros; cbn [sxo];
    rep_tac ltac:(fun H => cbn [eq_stmt eq_field eq_fields] in H).
Qed.

Ltac basic_tac :=
  try match goal with
  | k : bkind |- _ => destruct k; cbn in *; try discriminate; reflexivity
  end.

Lemma cmp_ok_clean_both :
  (forall t, (cmp_stmt t = Ok -> has_unsup true true t = false) /\ sxo true true cmp_fields t) /\
  (forall l, cmp_fields l = Ok -> has_unsup_any true true l = false).
Proof.
  apply aty_atys_ind; intros; cbn [sxo];
    rep_tac ltac:(fun H => cbn [cmp_stmt cmp_fields] in H); basic_tac.
Qed.

Lemma hash_ok_clean_both :
  (forall t, (hash_stmt t = Ok -> has_unsup true true t = false) /\ sxo true true hash_fields t) /\
  (forall l, hash_fields l = Ok -> has_unsup_any true true l = false).
Proof.
  apply aty_atys_ind; intros; cbn [sxo];
    rep_tac ltac:(fun H => cbn [hash_stmt hash_fields] in H); basic_tac.
Qed.

Lemma dc_ok_clean_both :
  (forall t, (dc_stmt t = Ok -> has_unsup true false t = false) /\
             (dc_field t = Ok -> has_unsup true false t = false) /\ sxo true false dc_fields t) /\
  (forall l, dc_fields l = Ok -> has_unsup_any true false l = false).
Proof.
  apply aty_atys_ind; intros; cbn [sxo];
    rep_tac ltac:(fun H => cbn [dc_stmt dc_field dc_fields] in H).
Qed.

Lemma gs_ok_clean_both :
  (forall t, (gs_stmt t = Ok -> has_unsup true false t = false) /\
             (gs_field t = Ok -> has_unsup true false t = false) /\ sxo true false gs_fields t) /\
  (forall l, gs_fields l = Ok -> has_unsup_any true false l = false).
Proof.
  apply aty_atys_ind; intros; cbn [sxo];
    rep_tac ltac:(fun H => cbn [gs_stmt gs_field gs_fields] in H).
  all: repeat match goal with
       | H : _ && _ = true |- _ => apply andb_prop in H as [? ?]
       end.
  all: match goal with
       | H : is_basic ?t = true |- has_unsup true false ?t = false =>
           destruct t; try discriminate H; reflexivity
       end.
Qed.


Lemma not_ok_err r : r <> Ok -> r <> Crash -> r = Err.
Proof. destruct r; congruence. Qed.

(* unsupported_reported, per generator: for ALL types *)
Theorem unsupported_reported_equal t : has_unsup false false t = true -> eq_stmt t = Err.
Proof.
  intros U. apply not_ok_err; [|apply eq_stmt_nocrash].
  intros O. apply eq_ok_clean_both in O. congruence.
Qed.
Theorem unsupported_reported_compare t : has_unsup true true t = true -> cmp_stmt t = Err.
Proof.
  intros U. apply not_ok_err; [|apply cmp_stmt_nocrash].
  intros O. apply cmp_ok_clean_both in O. congruence.
Qed.
Theorem unsupported_reported_hash t : has_unsup true true t = true -> hash_stmt t = Err.
Proof.
  intros U. apply not_ok_err; [|apply hash_stmt_nocrash].
  intros O. apply hash_ok_clean_both in O. congruence.
Qed.
Theorem unsupported_reported_deepcopy t : has_unsup true false t = true -> dc_stmt t = Err.
Proof.
  intros U. apply not_ok_err; [|apply dc_stmt_nocrash].
  intros O. apply dc_ok_clean_both in O. congruence.
Qed.
Theorem unsupported_reported_gostring t : has_unsup true false t = true -> gs_stmt t = Err.
Proof.
  intros U. apply not_ok_err; [|apply gs_stmt_nocrash].
  intros O. apply gs_ok_clean_both in O. congruence.
Qed.
Lemma eq_fields_unsup l : has_unsup_any false false l = true -> eq_fields l = Err.
Proof.
  intros U. apply not_ok_err; [|apply eq_nocrash_both].
  intros O. apply eq_ok_clean_both in O. congruence.
Qed.

(* non-vacuity: the hypotheses are satisfiable on non-trivial inputs, and the conclusion is
   not the constant Err *)
Example unsupported_reported_nonvacuous :
  has_unsup false false (AMap (ABasic KString) (APtr (ANamed 3 false (AStruct (TCons (ABasic KInt) (TCons (AChan DRecv (ABasic KInt)) TNil)))))) = true
  /\ eq_stmt (AMap (ABasic KString) (APtr (ANamed 3 false (AStruct (TCons (ABasic KInt) (TCons (ASlice (ABasic KInt)) TNil)))))) = Ok
  /\ has_unsup true true (ASlice (ABasic KUnsafePtr)) = true /\ cmp_stmt (ASlice (ABasic KFloat64)) = Ok
  /\ has_unsup false false (AMap (AChan DBoth (ABasic KInt)) (ABasic KInt)) = false
  /\ eq_stmt (AMap (AChan DBoth (ABasic KInt)) (ABasic KInt)) = Ok.
Proof. vm_compute. repeat split. Qed.

(* ---------------- witnesses: the code before the fixes ---------------- *)
Definition t_chan_field : aty := ANamed 1 false (AStruct (TCons (AChan DBoth (ABasic KInt)) TNil)).

(* 9ee22df: equal / hash swallowed the generator error *)
Lemma equal_swallow_refuted_w :
  has_unsup false false t_chan_field = true /\ equal_run_prefix [t_chan_field; t_chan_field] = Ok
  /\ run_model PEqual [t_chan_field; t_chan_field] = Err.
Proof. vm_compute. auto. Qed.
Lemma hash_swallow_refuted_w :
  has_unsup true true t_chan_field = true /\ hash_run_prefix [t_chan_field] = Ok
  /\ run_model PHash [t_chan_field] = Err.
Proof. vm_compute. auto. Qed.

(* equal.field on an unnamed non-comparable struct in element position never returned *)
Definition t_struct_in_slice : aty :=
  AStruct (TCons (ASlice (ABasic KInt)) (TCons (ABasic KInt) TNil)).
Lemma eq_field_prefix_diverges : forall fuel, eq_field_prefix fuel t_struct_in_slice = None.
Proof.
  assert (H : forall fuel, eq_field_prefix fuel t_struct_in_slice = None
                           /\ eq_field_prefix fuel (APtr t_struct_in_slice) = None).
  { induction fuel as [|f [IH1 IH2]]; [split; reflexivity|].
    split; cbn [eq_field_prefix]; cbn [can_equal can_equal_all t_struct_in_slice andb negb bkind_eqb].
    - exact IH2.
    - exact IH1. }
  intros fuel; apply H.
Qed.
(* ... while the fixed field() is a structurally recursive (hence total) function and reports
   the struct's own unsupported members *)
Lemma eq_field_fixed_struct_in_slice :
  eq_stmt (ASlice t_struct_in_slice) = Ok /\
  eq_stmt (ASlice (AStruct (TCons (AChan DBoth (ABasic KInt)) (TCons (ABasic KInt) TNil)))) = Err.
Proof. vm_compute. auto. Qed.

(* deepcopy.genField dropped the error of an array's genStatement *)
Lemma deepcopy_array_swallow_refuted_w :
  dc_array_field_prefix (AChan DBoth (ABasic KInt)) = Ok /\
  dc_field (AArray 2 (AChan DBoth (ABasic KInt))) = Err.
Proof. vm_compute. auto. Qed.
(* gostring.genStatement ignored the error of genField for a pointer target *)
Lemma gostring_ptr_swallow_refuted_w :
  gs_ptr_prefix (AChan DBoth (ABasic KInt)) = Ok /\ gs_stmt (APtr (AChan DBoth (ABasic KInt))) = Err.
Proof. vm_compute. auto. Qed.
(* min/max emitted `a < b` for every basic type: bool (repaired upstream by f31a48b, which sends
   it through deriveCompare) and unsafe.Pointer (now reported) *)
Lemma minmax_unordered_refuted_w :
  minmax_elem_prefix (ABasic KBool) = Ok /\ is_ordered KBool = false /\
  minmax_elem_prefix (ABasic KUnsafePtr) = Ok /\
  must_report PMin [ABasic KUnsafePtr; ABasic KUnsafePtr] = true
  /\ run_model PMin [ABasic KUnsafePtr; ABasic KUnsafePtr] = Err
  /\ run_model PMin [ABasic KBool; ABasic KBool] = Ok.
Proof. vm_compute. repeat split. Qed.
(* C09-fix-send-only-channel: dup.Add accepted every channel, the generated function receives
   from a `chan T` parameter and the user's call with a chan<- T does not type-check *)
Lemma sendonly_chan_refuted_w :
  add_dup_prefix [AChan DSend (ABasic KInt)] = Ok /\
  must_report PDup [AChan DSend (ABasic KInt)] = true /\
  run_model PDup [AChan DSend (ABasic KInt)] = Err /\
  run_model PDup [AChan DRecv (ABasic KInt)] = Ok.
Proof. vm_compute. repeat split. Qed.
(* C09-fix-variadic-function-arguments: the parameter of `func(xs ...int) R` has the type []int, so
   the Add functions of pipeline, fmap and the predicate plugins accepted it next to arguments over
   []int, and the generated code declares `func([]int) R` / calls f with a slice.
   w1: derivePipeline(func(...int) <-chan int, func(int) <-chan string);
   w2: deriveFmap(func(...int) string, [][]int); w3: deriveFilter(func(...int) bool, [][]int) *)
Definition vw_pipeline : list aty :=
  [ASig (TCons (ASlice (ABasic KInt)) TNil) (TCons (AChan DRecv (ABasic KInt)) TNil) true;
   ASig (TCons (ABasic KInt) TNil) (TCons (AChan DRecv (ABasic KString)) TNil) false].
Definition vw_fmap (v : bool) : list aty :=
  [ASig (TCons (ASlice (ABasic KInt)) TNil) (TCons (ABasic KString) TNil) v; ASlice (ASlice (ABasic KInt))].
Definition vw_filter (v : bool) : list aty :=
  [ASig (TCons (ASlice (ABasic KInt)) TNil) (TCons (ABasic KBool) TNil) v; ASlice (ASlice (ABasic KInt))].
Lemma variadic_argument_refuted_w :
  add_pipeline_prefix vw_pipeline = Ok /\ must_report PPipeline vw_pipeline = true /\
  run_model PPipeline vw_pipeline = Err /\
  (match vw_fmap true with [f; ASlice e] => fmap_fn1_prefix f e | _ => Err end) = Ok /\
  must_report PFmap (vw_fmap true) = true /\ run_model PFmap (vw_fmap true) = Err /\
  run_model PFmap (vw_fmap false) = Ok /\
  add_pred_prefix (vw_filter true) = Ok /\ must_report PFilter (vw_filter true) = true /\
  run_model PFilter (vw_filter true) = Err /\ run_model PFilter (vw_filter false) = Ok.
Proof. vm_compute. repeat split. Qed.
(* C09-fix-untyped-constant-argument: hash.Add was add_one, and the generator has a case for the
   untyped nil: deriveHash(nil) went through and printed `untyped nil` as the parameter type *)
Lemma untyped_nil_refuted_w :
  add_one [ABasic KUNil] = Ok /\ hash_stmt (ABasic KUNil) = Ok /\
  must_report PHash [ABasic KUNil] = true /\ run_model PHash [ABasic KUNil] = Err /\
  run_model PHash [ABasic KUInt] = Ok.
Proof. vm_compute. repeat split. Qed.
(* FieldStrings on a struct with a single field *)
Lemma fieldstrings_single_refuted_w : fieldstrings_prefix 1 = Crash.
Proof. reflexivity. Qed.
