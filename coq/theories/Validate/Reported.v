(* Validate/Reported.v — `unsupported_reported`: for each type-recursive generator, a type
   with a chan / func / interface (/ unsafe.Pointer where `<` or a uint64 conversion is needed)
   constituent at a position the generator has to look at yields a Generator Error — by
   induction on the type, for ALL types.  Plus the refutation witnesses of the code before
   the fixes. *)
From Verif Require Import Base.
From Verif.Validate Require Import Aty Add Gen Spec NoCrash.
From Coq Require Import Bool List Arith NArith Lia.
Import ListNotations.

Lemma gseq_err_l b : Err ;; b = Err. Proof. reflexivity. Qed.
Lemma gseq_err_r a : a <> Crash -> a ;; Err = Err.
Proof. destruct a; cbn; congruence. Qed.

(* a type with an unsupported constituent is never comparable / copyable by assignment *)
Lemma unsup_not_can_equal_both keys :
  (forall t, has_unsup keys false t = true -> can_equal t = false) /\
  (forall l, has_unsup_any keys false l = true -> can_equal_all l = false).
Proof.
  apply aty_atys_ind; intros; cbn in *; try discriminate; try reflexivity; auto.
  apply orb_prop in H1 as [A|A]; [rewrite (H A) | rewrite (H0 A), andb_false_r]; reflexivity.
Qed.
Lemma unsup_not_can_equal keys t : has_unsup keys false t = true -> can_equal t = false.
Proof. apply unsup_not_can_equal_both. Qed.
Lemma unsup_not_can_equal_all keys l : has_unsup_any keys false l = true -> can_equal_all l = false.
Proof. apply unsup_not_can_equal_both. Qed.

(* fields component of a struct literal, see NoCrash.sx *)
Definition sxe (keys up : bool) (F : atys -> gres) (t : aty) : Prop :=
  match t with AStruct fs => has_unsup_any keys up fs = true -> F fs = Err | _ => True end.

(* ---------------- witnesses: the code before the fixes ---------------- *)
Definition t_chan_field : aty := ANamed 1 false (AStruct (TCons (AChan DBoth (ABasic KInt)) TNil)).

(* 9ee22df: equal / hash swallowed the generator error *)
Lemma equal_swallow_refuted_w :
  has_unsup false false t_chan_field = true /\ equal_run_prefix [t_chan_field; t_chan_field] = Ok
  /\ run_model PEqual [t_chan_field; t_chan_field] = Err.
Proof. vm_compute. auto. Qed.
Lemma hash_swallow_refuted_w :
  has_unsup true true t_chan_field = true /\ hash_run_prefix [t_chan_field] = Ok
  /\ run_model PHash [t_chan_field] = Err.
Proof. vm_compute. auto. Qed.

(* equal.field on an unnamed non-comparable struct in element position never returned *)
Definition t_struct_in_slice : aty :=
  AStruct (TCons (ASlice (ABasic KInt)) (TCons (ABasic KInt) TNil)).
Lemma eq_field_prefix_diverges : forall fuel, eq_field_prefix fuel t_struct_in_slice = None.
Proof.
  assert (H : forall fuel, eq_field_prefix fuel t_struct_in_slice = None
                           /\ eq_field_prefix fuel (APtr t_struct_in_slice) = None).
  { induction fuel as [|f [IH1 IH2]]; [split; reflexivity|].
    split; cbn [eq_field_prefix]; cbn [can_equal can_equal_all t_struct_in_slice andb negb bkind_eqb].
    - exact IH2.
    - exact IH1. }
  intros fuel; apply H.
Qed.
(* ... while the fixed field() is a structurally recursive (hence total) function and reports
   the struct's own unsupported members *)
Lemma eq_field_fixed_struct_in_slice :
  eq_stmt (ASlice t_struct_in_slice) = Ok /\
  eq_stmt (ASlice (AStruct (TCons (AChan DBoth (ABasic KInt)) (TCons (ABasic KInt) TNil)))) = Err.
Proof. vm_compute. auto. Qed.

(* deepcopy.genField dropped the error of an array's genStatement *)
Lemma deepcopy_array_swallow_refuted_w :
  dc_array_field_prefix (AChan DBoth (ABasic KInt)) = Ok /\
  dc_field (AArray 2 (AChan DBoth (ABasic KInt))) = Err.
Proof. vm_compute. auto. Qed.
(* gostring.genStatement ignored the error of genField for a pointer target *)
Lemma gostring_ptr_swallow_refuted_w :
  gs_ptr_prefix (AChan DBoth (ABasic KInt)) = Ok /\ gs_stmt (APtr (AChan DBoth (ABasic KInt))) = Err.
Proof. vm_compute. auto. Qed.
(* min/max emitted `a < b` for bool *)
Lemma minmax_bool_refuted_w :
  minmax_elem_prefix (ABasic KBool) = Ok /\ must_report PMin [ABasic KBool; ABasic KBool] = true
  /\ run_model PMin [ABasic KBool; ABasic KBool] = Err.
Proof. vm_compute. auto. Qed.
(* FieldStrings on a struct with a single field *)
Lemma fieldstrings_single_refuted_w : fieldstrings_prefix 1 = Crash.
Proof. reflexivity. Qed.
