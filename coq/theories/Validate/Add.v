(* Validate/Add.v — the `Add` method of each of the 33 plugins, transcribed line by line:
   arity tests, type assertions, Identical / AssignableTo / IsError tests, and every index
   expression (typs[i], Tuple.At(i)) — an index out of range or a failed unchecked type
   assertion is the outcome [Crash].  The code modelled is /repo with the C09 fix patches (incl. C09-fix-send-only-channel and
   C09-fix-untyped-constant-argument, C09-fix-variadic-function-arguments). *)
From Verif Require Import Base.
From Verif.Validate Require Import Aty.
From Coq Require Import Bool List Arith NArith.
Import ListNotations.

(* typs[i] : panics when out of range *)
Definition idx (l : list aty) (i : nat) (k : aty -> gres) : gres :=
  match nth_error l i with Some t => k t | None => Crash end.
(* tuple.At(i) : panics when out of range *)
Definition at_ (l : atys) (i : nat) (k : aty -> gres) : gres :=
  match anth l i with Some t => k t | None => Crash end.
(* if !cond { return error } *)
Definition need (b : bool) (k : gres) : gres := if b then k else Err.

Inductive plugin :=
| PAll | PAny | PApply | PClone | PCompare | PCompose | PContains | PCurry | PDeepcopy | PDo | PDup
| PEqual | PFilter | PFlip | PFmap | PGostring | PHash | PIntersect | PJoin | PKeys | PMax | PMem | PMin
| PPipeline | PSet | PSort | PTakewhile | PToerror | PTraverse | PTuple | PUncurry | PUnion | PUnique.

Definition all_plugins : list plugin :=
  [PAll; PAny; PApply; PClone; PCompare; PCompose; PContains; PCurry; PDeepcopy; PDo; PDup;
   PEqual; PFilter; PFlip; PFmap; PGostring; PHash; PIntersect; PJoin; PKeys; PMax; PMem; PMin;
   PPipeline; PSet; PSort; PTakewhile; PToerror; PTraverse; PTuple; PUncurry; PUnion; PUnique].

(* ---- all, any, filter, takewhile: (func(T) bool, []T); fixed: a variadic function is refused
        (its parameter type is the slice type []T, the generated parameter was `func([]T) bool`) ---- *)
Definition add_pred (typs : list aty) : gres :=
  need (length typs =? 2) (
  idx typs 1 (fun t1 =>
  match t1 with
  | ASlice elem =>
      idx typs 0 (fun t0 =>
      match t0 with
      | ASig ps rs v =>
          need (negb v) (
          need (alen ps =? 1) (
          at_ ps 0 (fun inTyp =>
          need (identical inTyp elem) (
          need (alen rs =? 1) (
          at_ rs 0 (fun outTyp => need (identical outTyp (ABasic KBool)) Ok))))))
      | _ => Err
      end)
  | _ => Err
  end)).

(* the code before C09-fix-variadic-function-arguments: the variadic flag is not looked at *)
Definition add_pred_prefix (typs : list aty) : gres :=
  need (length typs =? 2) (
  idx typs 1 (fun t1 =>
  match t1 with
  | ASlice elem =>
      idx typs 0 (fun t0 =>
      match t0 with
      | ASig ps rs _ =>
          need (alen ps =? 1) (
          at_ ps 0 (fun inTyp =>
          need (identical inTyp elem) (
          need (alen rs =? 1) (
          at_ rs 0 (fun outTyp => need (identical outTyp (ABasic KBool)) Ok)))))
      | _ => Err
      end)
  | _ => Err
  end)).

(* ---- apply: (f func(..., B) R, b B) ---- *)
Definition add_apply (typs : list aty) : gres :=
  need (length typs =? 2) (
  idx typs 0 (fun t0 =>
  match t0 with
  | ASig ps _ v =>
      need (negb v) (                      (* fixed: variadic functions are refused *)
      need (1 <=? alen ps) (
      at_ ps (alen ps - 1) (fun lastArg =>
      idx typs 1 (fun t1 => need (assignable t1 lastArg) Ok))))
  | _ => Err
  end)).

(* channel directions: `chanType.Dir() == types.SendOnly`, `chanType.Dir() != types.RecvOnly` *)
Definition is_send (d : cdir) : bool := match d with DSend => true | _ => false end.
Definition is_recv (d : cdir) : bool := match d with DRecv => true | _ => false end.
(* the argument is a types.Basic of kind types.UntypedNil *)
Definition is_untyped_nil (t : aty) : bool := match t with ABasic KUNil => true | _ => false end.

(* ---- clone, keys, set, sort, unique: one argument of any type (clone registers
        types.Default of it, see Gen.gen_model) ---- *)
Definition add_one (typs : list aty) : gres :=
  need (length typs =? 1) (idx typs 0 (fun _ => Ok)).
(* ---- gostring, hash: one argument, which is not the untyped nil (fixed: its type would be
        printed as the type of a parameter) ---- *)
Definition add_one_typed (typs : list aty) : gres :=
  need (length typs =? 1) (idx typs 0 (fun t => need (negb (is_untyped_nil t)) Ok)).

(* ---- compare, equal: one argument (curried) or two identical ones ---- *)
Definition add_one_or_two (typs : list aty) : gres :=
  need ((length typs =? 1) || (length typs =? 2)) (
  if length typs =? 2 then
    idx typs 0 (fun a => idx typs 1 (fun b => need (identical a b) Ok))
  else Ok).

(* ---- compose: f0, f1, ... where each returns (..., error) and results feed the next ---- *)
(* per function: (params, results without the error) *)
Fixpoint compose_sigs (typs : list aty) : option (list (atys * atys)) + gres :=
  match typs with
  | [] => inl (Some [])
  | t :: rest =>
      match t with
      | ASig ps rs v =>
          if v then inr Err else           (* fixed: variadic functions are refused *)
          if alen rs =? 0 then inr Err else
          match anth rs (alen rs - 1) with
          | None => inr Crash
          | Some e =>
              if is_error e then
                match compose_sigs rest with
                | inl (Some l) => inl (Some ((ps, ainit rs) :: l))
                | r => r
                end
              else inr Err
          end
      | _ => inr Err
      end
  end.
Fixpoint assignable_all (rs ps : atys) : bool :=
  match rs, ps with
  | TNil, TNil => true
  | TCons r rs', TCons p ps' => assignable r p && assignable_all rs' ps'
  | _, _ => false
  end.
Fixpoint compose_chain (prev : atys) (l : list (atys * atys)) : gres :=
  match l with
  | [] => Ok
  | (ps, rs) :: rest =>
      need (alen prev =? alen ps) (need (assignable_all prev ps) (compose_chain rs rest))
  end.
Definition compose_errorType (typs : list aty) : gres :=
  need (2 <=? length typs) (
  match compose_sigs typs with
  | inr r => r
  | inl None => Crash
  | inl (Some []) => Ok
  | inl (Some ((_, rs0) :: rest)) => compose_chain rs0 rest
  end).
Definition add_compose (typs : list aty) : gres :=
  need (2 <=? length typs) (
  idx typs 0 (fun t0 =>
  match t0 with
  | ASig _ _ _ => compose_errorType typs
  | _ => Err
  end)).

(* ---- contains: ([]T, T) ---- *)
Definition add_contains (typs : list aty) : gres :=
  need (length typs =? 2) (
  idx typs 0 (fun t0 =>
  match t0 with
  | ASlice elem => idx typs 1 (fun t1 => need (assignable t1 elem) Ok)
  | _ => idx typs 1 (fun _ => Err)        (* the message prints typs[1] *)
  end)).

(* ---- curry, flip: a function with at least two parameters ---- *)
Definition add_curry (typs : list aty) : gres :=
  need (length typs =? 1) (
  idx typs 0 (fun t0 =>
  match t0 with
  | ASig ps _ v => need (negb v) (need (2 <=? alen ps) Ok)   (* fixed: variadic refused *)
  | _ => Err
  end)).

(* ---- deepcopy: two identical arguments ---- *)
Definition add_deepcopy (typs : list aty) : gres :=
  need (length typs =? 2) (
  idx typs 0 (fun a => idx typs 1 (fun b => need (identical a b) Ok))).

(* ---- do: at least two func() (T, error) ---- *)
Definition do_errorOut (t : aty) : gres :=
  match t with
  | ASig ps rs _ =>
      need (alen ps =? 0) (need (alen rs =? 2) (at_ rs 1 (fun e => need (is_error e) Ok)))
  | _ => Err
  end.
Fixpoint do_all (typs : list aty) : gres :=
  match typs with [] => Ok | t :: r => do_errorOut t ;; do_all r end.
Definition add_do (typs : list aty) : gres :=
  need (2 <=? length typs) (do_all typs).

(* ---- dup: one channel that can be received from (fixed: chanOut refuses chan<- T) ---- *)
Definition add_dup (typs : list aty) : gres :=
  need (length typs =? 1) (
  idx typs 0 (fun t0 => match t0 with AChan d _ => need (negb (is_send d)) Ok | _ => Err end)).

(* the code before C09-fix-send-only-channel: any channel *)
Definition add_dup_prefix (typs : list aty) : gres :=
  need (length typs =? 1) (
  idx typs 0 (fun t0 => match t0 with AChan _ _ => Ok | _ => Err end)).

(* ---- fmap; fixed: sliceInOut, stringOut, chanInOut and errorInOut refuse a variadic function ---- *)
Definition fmap_fn1 (t0 : aty) (elem : aty) : gres :=     (* f func(elem) R, exactly one result *)
  match t0 with
  | ASig ps rs v =>
      need (negb v) (
      need (alen ps =? 1) (
      at_ ps 0 (fun inTyp => need (identical inTyp elem) (need (alen rs =? 1) (at_ rs 0 (fun _ => Ok))))))
  | _ => Err
  end.
(* the code before the fix *)
Definition fmap_fn1_prefix (t0 : aty) (elem : aty) : gres :=
  match t0 with
  | ASig ps rs _ =>
      need (alen ps =? 1) (
      at_ ps 0 (fun inTyp => need (identical inTyp elem) (need (alen rs =? 1) (at_ rs 0 (fun _ => Ok)))))
  | _ => Err
  end.
Definition fmap_errorInOut (t0 t1 : aty) : gres :=
  match t1 with
  | ASig eps ers _ =>
      need (alen eps =? 0) (
      need (alen ers =? 2) (
      at_ ers 1 (fun e =>
      need (is_error e) (
      at_ ers 0 (fun elem =>
      match t0 with
      | ASig ps _ v =>
          need (negb v) (need (alen ps =? 1) (at_ ps 0 (fun inTyp => need (identical inTyp elem) Ok)))
      | _ => Err
      end)))))
  | _ => Err
  end.
Definition add_fmap (typs : list aty) : gres :=
  need (length typs =? 2) (
  idx typs 1 (fun t1 =>
  idx typs 0 (fun t0 =>
  match t1 with
  | ASlice elem => fmap_fn1 t0 elem
  | ABasic k => need (bkind_eqb (default_kind k) KString) (fmap_fn1 t0 (ABasic KInt32))
  | ASig _ _ _ => fmap_errorInOut t0 t1
  | AChan d elem => need (negb (is_send d)) (fmap_fn1 t0 elem)   (* fixed: chanInOut refuses chan<- T *)
  | _ => Err
  end))).

(* ---- intersect, union: two identical slices or map[T]struct{} ---- *)
Definition add_setop (typs : list aty) : gres :=
  need (length typs =? 2) (
  idx typs 0 (fun a => idx typs 1 (fun b =>
  need (identical a b) (
  match a with
  | ASlice _ => Ok
  | AMap _ v => need (identical v (AStruct TNil)) Ok
  | _ => Err
  end)))).

(* ---- join ---- *)
Definition join_errorType (typs : list aty) : gres :=
  need (length typs =? 2) (
  idx typs 0 (fun t0 =>
  match t0 with
  | ASig ps rs _ =>
      idx typs 1 (fun t1 =>
      need (is_error t1) (
      need (alen ps =? 0) (
      need (negb (alen rs =? 0)) (
      at_ rs (alen rs - 1) (fun last => need (is_error last) Ok)))))
  | _ => Err
  end)).
Fixpoint join_chans (prev : option aty) (typs : list aty) : gres :=
  match typs with
  | [] => Ok
  | AChan d e :: r =>
      need (negb (is_send d)) (             (* fixed: chanVariantTypes refuses chan<- T *)
      match prev with
      | Some p => need (identical e p) (join_chans (Some e) r)
      | None => join_chans (Some e) r
      end)
  | _ :: _ => Err
  end.
Definition add_join (typs : list aty) : gres :=
  need (negb (length typs =? 0)) (
  idx typs 0 (fun t0 =>
  match t0 with
  | ASlice e =>
      match e with
      | ASlice _ => need (length typs =? 1) Ok
      | ABasic k => need (length typs =? 1) (need (bkind_eqb k KString) Ok)
      | AChan d _ => need (length typs =? 1) (need (negb (is_send d)) Ok)   (* fixed: sliceOfChanType *)
      | _ => Err
      end
  | ASig _ _ _ => join_errorType typs
  | ATuple ts =>
      if alen ts =? 2 then at_ ts 0 (fun a => at_ ts 1 (fun b => join_errorType [a; b])) else Err
  | AChan d e =>
      match e with
      | AChan d' _ =>                       (* fixed: chanType wants (chan | <-chan) of <-chan T *)
          need (length typs =? 1) (need (negb (is_send d)) (need (is_recv d') Ok))
      | _ => need (2 <=? length typs) (join_chans None typs)
      end
  | _ => Err
  end)).

(* ---- max, min: (T, T) or ([]T, T) ---- *)
Definition add_minmax (typs : list aty) : gres :=
  need (length typs =? 2) (
  idx typs 0 (fun a => idx typs 1 (fun b =>
  if identical a b then Ok else
  match a with
  | ASlice elem => need (assignable b elem) Ok
  | _ => Err
  end))).

(* ---- mem: one function (fixed code: the check is made before anything is indexed, and a
        variadic function is refused) ---- *)
Definition add_mem (typs : list aty) : gres :=
  need (length typs =? 1) (
  idx typs 0 (fun t0 => match t0 with ASig _ _ v => need (negb v) Ok | _ => Err end)).
(* the code before commit 4a8b872: the message of the not-a-function error printed typs[1] *)
Definition add_mem_prefix (typs : list aty) : gres :=
  need (length typs =? 1) (
  idx typs 0 (fun t0 => match t0 with ASig _ _ _ => Ok | _ => idx typs 1 (fun _ => Err) end)).

(* ---- pipeline: (func(A) <-chan B, func(B) <-chan C); fixed: the resulting channel of the first
        function may not be send only, that of the second one has to be receive only; neither
        function may be variadic ---- *)
Definition funcInChanOut (t : aty) (recvOnly : bool) : option (aty * aty) + gres :=
  match t with
  | ASig ps rs v =>
      if v then inr Err else               (* fixed: variadic functions are refused *)
      if negb (alen ps =? 1) then inr Err else
      if negb (alen rs =? 1) then inr Err else
      match anth rs 0, anth ps 0 with
      | Some (AChan d e), Some p =>
          if is_send d then inr Err else
          if recvOnly && negb (is_recv d) then inr Err else inl (Some (p, e))
      | Some _, Some _ => inr Err
      | _, _ => inr Crash
      end
  | _ => inr Err
  end.
Definition add_pipeline (typs : list aty) : gres :=
  need (length typs =? 2) (
  idx typs 0 (fun t0 =>
  match funcInChanOut t0 false with
  | inr r => r
  | inl None => Crash
  | inl (Some (_, b1)) =>
      idx typs 1 (fun t1 =>
      match funcInChanOut t1 true with
      | inr r => r
      | inl None => Crash
      | inl (Some (b2, _)) => need (identical b1 b2) Ok
      end)
  end)).

(* the code before C09-fix-variadic-function-arguments: the variadic flag is not looked at *)
Definition funcInChanOut_prefix (t : aty) (recvOnly : bool) : option (aty * aty) + gres :=
  match t with
  | ASig ps rs _ =>
      if negb (alen ps =? 1) then inr Err else
      if negb (alen rs =? 1) then inr Err else
      match anth rs 0, anth ps 0 with
      | Some (AChan d e), Some p =>
          if is_send d then inr Err else
          if recvOnly && negb (is_recv d) then inr Err else inl (Some (p, e))
      | Some _, Some _ => inr Err
      | _, _ => inr Crash
      end
  | _ => inr Err
  end.
Definition add_pipeline_prefix (typs : list aty) : gres :=
  need (length typs =? 2) (
  idx typs 0 (fun t0 =>
  match funcInChanOut_prefix t0 false with
  | inr r => r
  | inl None => Crash
  | inl (Some (_, b1)) =>
      idx typs 1 (fun t1 =>
      match funcInChanOut_prefix t1 true with
      | inr r => r
      | inl None => Crash
      | inl (Some (b2, _)) => need (identical b1 b2) Ok
      end)
  end)).

(* ---- toerror: (error, func(...) (..., bool)); fixed code refuses variadic functions ---- *)
Definition add_toerror (typs : list aty) : gres :=
  need (length typs =? 2) (
  idx typs 0 (fun e =>
  need (is_error e) (
  idx typs 1 (fun f =>
  match f with
  | ASig _ rs v =>
      need (negb v) (
      need (negb (alen rs =? 0)) (
      at_ rs (alen rs - 1) (fun last => need (identical last (ABasic KBool)) Ok)))
  | _ => Err
  end)))).

(* ---- traverse: (func(A) (B, error), []A); fixed: a variadic function is refused ---- *)
Definition add_traverse (typs : list aty) : gres :=
  need (length typs =? 2) (
  idx typs 1 (fun t1 =>
  match t1 with
  | ASlice elem =>
      idx typs 0 (fun t0 =>
      match t0 with
      | ASig ps rs v =>
          need (negb v) (
          need (alen ps =? 1) (
          at_ ps 0 (fun inTyp =>
          need (identical inTyp elem) (
          need (alen rs =? 2) (
          at_ rs 1 (fun e => need (is_error e) (at_ rs 0 (fun _ => Ok))))))))
      | _ => Err
      end)
  | _ => Err
  end)).

(* ---- tuple: at least one argument; a single multi-valued call is unpacked; (fixed) no
        argument is the untyped nil ---- *)
Definition add_tuple (typs : list aty) : gres :=
  need (negb (length typs =? 0)) (
  match typs with
  | [ATuple _] => Ok
  | _ => need (negb (existsb is_untyped_nil typs)) Ok
  end).

(* ---- uncurry: func(A) func(B) C ---- *)
Definition add_uncurry (typs : list aty) : gres :=
  need (length typs =? 1) (
  idx typs 0 (fun t0 =>
  match t0 with
  | ASig ps rs v =>
      need (alen ps =? 1) (
      need (alen rs =? 1) (
      at_ rs 0 (fun r => match r with ASig _ _ v' => need (negb (v || v')) Ok (* fixed *) | _ => Err end)))
  | _ => Err
  end)).

Definition add_model (p : plugin) (typs : list aty) : gres :=
  match p with
  | PAll | PAny | PFilter | PTakewhile => add_pred typs
  | PApply => add_apply typs
  | PClone | PKeys | PSet | PSort | PUnique => add_one typs
  | PGostring | PHash => add_one_typed typs
  | PCompare | PEqual => add_one_or_two typs
  | PCompose => add_compose typs
  | PContains => add_contains typs
  | PCurry | PFlip => add_curry typs
  | PDeepcopy => add_deepcopy typs
  | PDo => add_do typs
  | PDup => add_dup typs
  | PFmap => add_fmap typs
  | PIntersect | PUnion => add_setop typs
  | PJoin => add_join typs
  | PMax | PMin => add_minmax typs
  | PMem => add_mem typs
  | PPipeline => add_pipeline typs
  | PToerror => add_toerror typs
  | PTraverse => add_traverse typs
  | PTuple => add_tuple typs
  | PUncurry => add_uncurry typs
  end.
