(* Validate/TParam.v — the type parameter of an enclosing generic function as an unsupported
   constituent (round 5; /repo ec9c759 "a derive call whose argument type mentions a type parameter is
   reported").

   pkg.Add (derive/generate.go) asks call.TypeParam() before the plugin's own Add: when the type of an
   argument mentions a type parameter the call is refused with an Add error that names the call and the
   type parameter; the plugin is not consulted.

   Encoding in the grammar [aty]: go/types gives a type parameter an identity and, as underlying type,
   its constraint interface — it is a named type with an id from a reserved range ([is_tparam_id]).  An
   instance G[X] of a generic type is a named type whose underlying type is the instantiated definition.
   typeParamIn looks at the TYPE ARGUMENTS of a named type, not at its definition; in this grammar the
   type arguments occur in the instantiated definition (the harness's generic type uses its parameter), and
   the definition of a type that is not generic cannot mention a type parameter of the function that
   contains the call (types are declared at package level), so "the id is reserved, or the underlying type
   mentions one" decides the same thing on everything the harness writes. *)
From Verif Require Import Base.
From Verif.Validate Require Import Aty Add Gen Spec NoCrash RunReported.
From Coq Require Import Bool List NArith.
Import ListNotations.

Definition is_tparam_id (id : N) : bool := (N.leb 9900 id) && (N.ltb id 10000).

(* derive/find.go typeParamIn, case by case (an interface type is not looked into) *)
Fixpoint mentions_tparam (t : aty) : bool :=
  match t with
  | ABasic _ | AIface _ | AErr => false
  | ANamed id _ u => is_tparam_id id || mentions_tparam u
  | APtr e | ASlice e | AArray _ e | AChan _ e => mentions_tparam e
  | AMap k v => mentions_tparam k || mentions_tparam v
  | AStruct fs | ATuple fs => mentions_tparam_any fs
  | ASig ps rs _ => mentions_tparam_any ps || mentions_tparam_any rs
  end
with mentions_tparam_any (l : atys) : bool :=
  match l with TNil => false | TCons t r => mentions_tparam t || mentions_tparam_any r end.

(* call.TypeParam() <> nil *)
Definition call_tparam (typs : list aty) : bool := existsb mentions_tparam typs.

(* pkg.Add with the gate in front of the plugin, then Generate *)
Definition add_model_tp (p : plugin) (typs : list aty) : gres :=
  if call_tparam typs then Err else add_model p typs.
Definition run_model_tp (p : plugin) (typs : list aty) : gres :=
  add_model_tp p typs ;; gen_model p typs.

(* the specification: a call that mentions a type parameter has to be reported by every plugin *)
Definition must_report_tp (p : plugin) (typs : list aty) : bool :=
  call_tparam typs || must_report p typs.

Lemma run_model_tp_gate p typs : call_tparam typs = true -> run_model_tp p typs = Err.
Proof. intros H. unfold run_model_tp, add_model_tp. rewrite H. reflexivity. Qed.

Lemma run_model_tp_conservative p typs : call_tparam typs = false -> run_model_tp p typs = run_model p typs.
Proof. intros H. unfold run_model_tp, add_model_tp, run_model. rewrite H. reflexivity. Qed.

Theorem tparam_reported : forall p typs, call_tparam typs = true -> run_model_tp p typs = Err.
Proof. exact run_model_tp_gate. Qed.

Theorem unsupported_reported_tp : forall p typs, must_report_tp p typs = true -> run_model_tp p typs = Err.
Proof.
  intros p typs H. unfold must_report_tp in H.
  destruct (call_tparam typs) eqn:E.
  - now apply run_model_tp_gate.
  - cbn in H. rewrite run_model_tp_conservative by exact E. now apply unsupported_reported.
Qed.

Theorem run_tp_no_crash : forall p typs, run_model_tp p typs <> Crash.
Proof.
  intros p typs. destruct (call_tparam typs) eqn:E.
  - rewrite run_model_tp_gate by exact E. discriminate.
  - rewrite run_model_tp_conservative by exact E. apply run_no_crash.
Qed.

(* before ec9c759 there was no gate: deriveSet([]T), deriveKeys(map[K]V), deriveTuple(a A, b B) were accepted
   (exit 0 and a derived.gen.go that mentions the undefined T) — the finding C09-type-parameter-argument *)
Definition tp (k : N) : aty := ANamed (9900 + k) false (AIface 0).
Example tparam_refuted_before_fix :
  run_model PSet [ASlice (tp 0)] = Ok /\ must_report_tp PSet [ASlice (tp 0)] = true /\
  run_model PKeys [AMap (tp 1) (tp 0)] = Ok /\ must_report_tp PKeys [AMap (tp 1) (tp 0)] = true /\
  run_model PTuple [tp 0; tp 1] = Ok /\ must_report_tp PTuple [tp 0; tp 1] = true.
Proof. vm_compute. repeat split; reflexivity. Qed.

(* the hypotheses are satisfiable on non-trivial inputs; instances of generic types are not affected *)
Definition g_inst (x : aty) : aty := ANamed 9800 false (AStruct (TCons x (TCons (APtr x) TNil))).
Example tparam_witnesses :
  run_model_tp PSet [ASlice (tp 0)] = Err /\
  run_model_tp PFmap [ASig (TCons (tp 0) TNil) (TCons (tp 1) TNil) false; ASlice (tp 0)] = Err /\
  run_model_tp PEqual [APtr (g_inst (tp 0)); APtr (g_inst (tp 0))] = Err /\
  call_tparam [AStruct (TCons (ABasic KInt) (TCons (tp 0) TNil))] = true /\
  call_tparam [APtr (g_inst (ABasic KInt))] = false /\
  run_model_tp PEqual [APtr (g_inst (ABasic KInt)); APtr (g_inst (ABasic KInt))] = Ok /\
  run_model_tp PSet [ASlice (g_inst (ABasic KString))] = Ok.
Proof. vm_compute. repeat split; reflexivity. Qed.
