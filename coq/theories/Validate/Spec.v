(* Validate/Spec.v — the specification side of C09, stated without reference to the plugins'
   code: which argument lists each Add is documented to accept ([accepted_*]), which types
   contain a constituent that a type-recursive plugin cannot handle at a position it has to
   look at ([has_unsup]), and the classes used by the evaluator (findings that belong to C01,
   open findings of C09). *)
From Verif Require Import Base.
From Verif.Validate Require Import Aty Add Gen.
From Coq Require Import Bool List Arith NArith String.
Import ListNotations.
Open Scope string_scope.

(* a chan, func, interface (incl. error) or tuple constituent reachable through pointer
   targets, slice/array elements, map values, struct fields, named types' underlying types,
   and map keys when [keys]; [up]: unsafe.Pointer counts as well (plugins that need < or a
   conversion to uint64). *)
Fixpoint has_unsup (keys up : bool) (t : aty) : bool :=
  match t with
  | ABasic k => up && bkind_eqb k KUnsafePtr
  | ANamed _ _ u => has_unsup keys up u
  | APtr e | ASlice e | AArray _ e => has_unsup keys up e
  | AMap k v => (keys && has_unsup keys up k) || has_unsup keys up v
  | AStruct fs => has_unsup_any keys up fs
  | ASig _ _ _ | AChan _ _ | AIface _ | AErr | ATuple _ => true
  end
with has_unsup_any (keys up : bool) (l : atys) : bool :=
  match l with TNil => false | TCons t r => has_unsup keys up t || has_unsup_any keys up r end.

(* the element type a delegating plugin hands to equal / compare / hash *)
Definition slice_elem (t : aty) : option aty := match t with ASlice e => Some e | _ => None end.

(* "outside the supported set, must be reported": independent of the model.  Only claims
   for well-formed calls (the shape accepted by Add); everything else is reported by Add. *)
(* the untyped nil has no type that could be printed as the type of a parameter *)
Definition is_unil (t : aty) : bool := match t with ABasic KUNil => true | _ => false end.
(* a channel that cannot be received from *)
Definition is_sendonly (t : aty) : bool := match t with AChan DSend _ => true | _ => false end.
(* a channel that is not a receive only channel *)
Definition chan_not_recvonly (t : aty) : bool :=
  match t with AChan (DBoth | DSend) _ => true | _ => false end.

Definition must_report (p : plugin) (typs : list aty) : bool :=
  match p, typs with
  | PEqual, t :: _ => has_unsup false false t
  | PCompare, t :: _ => has_unsup true true t
  | PHash, [t] => is_unil t || has_unsup true true t
  | PDeepcopy, [t; _] => has_unsup true false t
  | PClone, [t] => has_unsup true false t
  | PGostring, [t] => is_unil t || has_unsup true false t
  | PTuple, [ATuple _] => false
  | PTuple, _ => existsb is_unil typs
  (* the combinators that receive from their channel arguments: a send only channel; join's
     channel of channels hands out <-chan T, and channel element types have to be identical *)
  | PDup, [c] => is_sendonly c
  (* a variadic function where the plugin calls the function with one element (its parameter has
     the slice type, the generated code would declare `func([]T) R`) *)
  | PFmap, [ASig _ _ v; c] => v || is_sendonly c
  | PFmap, [_; c] => is_sendonly c
  | (PAll | PAny | PFilter | PTakewhile | PTraverse), [ASig _ _ v; _] => v
  | PJoin, [ASlice c] => is_sendonly c
  | PJoin, [AChan d (AChan d' e)] => is_sendonly (AChan d (AChan d' e)) || chan_not_recvonly (AChan d' e)
  | PJoin, AChan _ _ :: _ => existsb is_sendonly typs
  | PPipeline, [ASig _ rs1 v1; ASig _ rs2 v2] =>
      v1 || v2 ||
      match rs1, rs2 with
      | TCons c1 TNil, TCons c2 TNil => is_sendonly c1 || chan_not_recvonly c2
      | _, _ => false
      end
  | PSort, [ASlice e] => has_unsup true true e
  | (PMin | PMax), [a; b] =>
      if identical a b then has_unsup true true a
      else match a with
           | ASlice e => has_unsup true true e
           | _ => false
           end
  | PContains, [ASlice e; _] => has_unsup false false e
  | (PUnion | PIntersect), [ASlice e; _] => has_unsup false false e
  | PUnique, [ASlice e] => has_unsup false false e
  | PMem, [ASig ps _ v] => v || (negb (can_equal_all ps) && has_unsup_any false false ps)
  | PToerror, [_; ASig _ _ v] => v
  | (PCurry | PFlip), [ASig _ _ v] => v
  | PApply, [ASig _ _ v; _] => v
  | PSet, [ASlice e] => negb (go_comparable e)
  | _, _ => false
  end.

(* ---- classes that are findings of C01 (a supported type whose output does not compile) ---- *)
(* deepcopy of a map whose key type is not copyable: `dst_key` undefined *)
Fixpoint has_noncopy_mapkey (t : aty) : bool :=
  match t with
  | ANamed _ _ u => has_noncopy_mapkey u
  | APtr e | ASlice e | AArray _ e | AChan _ e => has_noncopy_mapkey e
  | AMap k v => negb (can_equal k) || has_noncopy_mapkey k || has_noncopy_mapkey v
  | AStruct fs | ATuple fs => has_noncopy_mapkey_any fs
  | ASig ps rs _ => has_noncopy_mapkey_any ps || has_noncopy_mapkey_any rs
  | _ => false
  end
with has_noncopy_mapkey_any (l : atys) : bool :=
  match l with TNil => false | TCons t r => has_noncopy_mapkey t || has_noncopy_mapkey_any r end.

(* a named type over bool/complex as map key or sorted element: deriveSort passes N to
   deriveCompare(bool, bool) *)
Definition named_boolish (t : aty) : bool :=
  match t with
  | ANamed _ _ (ABasic (KBool | KComplex64 | KComplex128)) => true
  | _ => false
  end.
Fixpoint has_named_boolish_key (t : aty) : bool :=
  match t with
  | ANamed _ _ u => has_named_boolish_key u
  | APtr e | ASlice e | AArray _ e | AChan _ e => has_named_boolish_key e
  | AMap k v => named_boolish k || has_named_boolish_key k || has_named_boolish_key v
  | AStruct fs | ATuple fs => has_named_boolish_key_any fs
  | ASig ps rs _ => has_named_boolish_key_any ps || has_named_boolish_key_any rs
  | _ => false
  end
with has_named_boolish_key_any (l : atys) : bool :=
  match l with TNil => false | TCons t r => has_named_boolish_key t || has_named_boolish_key_any r end.

Definition c01_class (p : plugin) (typs : list aty) : bool :=
  match p with
  | PDeepcopy | PClone => existsb has_noncopy_mapkey typs
  (* (sorting a named bool/complex key passed N to deriveCompare(bool,bool): repaired upstream by
     1d2766b, no longer a class) *)
  | PDup =>     (* `chan <-chan T` is printed without parentheses and reads as `chan<- chan T` *)
      match typs with [AChan _ (AChan DRecv _)] => true | _ => false end
  | _ => false
  end.

(* ---- open findings of C09 (known_findings.d/C09.json), identified narrowly ---- *)
(* none at present: the former classes "untyped-arg" (hash/gostring/tuple of nil, clone of an
   untyped constant) and "sendonly-chan" (join/fmap/dup of chan<- T) were repaired by
   C09-fix-untyped-constant-argument and C09-fix-send-only-channel; they are now part of
   [must_report] (nil, send only channels) or supported (clone of a constant). *)
Definition known_class (p : plugin) (typs : list aty) : string := "".

(* coverage tag: the shape class of the first argument *)
Definition shape_tag (t : aty) : string :=
  match t with
  | ABasic k => if is_untyped k then "untyped" else if bkind_eqb k KUnsafePtr then "unsafeptr" else "basic"
  | ANamed _ _ (AStruct _) => "named-struct"
  | ANamed _ _ _ => "named"
  | APtr _ => "ptr" | ASlice _ => "slice" | AArray _ _ => "array" | AMap _ _ => "map"
  | AStruct _ => "struct" | ASig _ _ true => "variadic" | ASig _ _ false => "func"
  | AChan _ _ => "chan" | AIface _ => "iface" | AErr => "error" | ATuple _ => "tuple"
  end.
Definition arm_tag (p : plugin) (typs : list aty) : string :=
  match add_model p typs with
  | Err => "add/" ++ (match typs with [] => "noargs" | t :: _ => shape_tag t end)
  | Crash => "add-crash"
  | Ok => "gen/" ++ (match typs with
                     | [] => "noargs"
                     | [t] => shape_tag t
                     | t :: u :: _ => match p with
                                      | PAll | PAny | PFilter | PTakewhile | PFmap | PTraverse | PToerror => shape_tag u
                                      | _ => shape_tag t
                                      end
                     end)
  end.
