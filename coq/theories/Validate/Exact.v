(* Validate/Exact.v — `validate_exact_<plugin>`: each Add accepts exactly the documented
   argument shapes.  The accepted set is stated independently of the code (as an existential
   over shapes), for all argument lists. *)
From Verif Require Import Base.
From Verif.Validate Require Import Aty Add.
From Coq Require Import Bool List Arith NArith Lia.
Import ListNotations.

Notation t1 x := (TCons x TNil).
Notation t2 x y := (TCons x (TCons y TNil)).

(* peel one test off a hypothesis [... = Ok] *)
Ltac inv_step H :=
  match type of H with
  | Err = Ok => discriminate H
  | Crash = Ok => discriminate H
  | need ?b _ = Ok => destruct b eqn:?; cbn [need] in H; [|discriminate H]
  | (if ?b then _ else _) = Ok => destruct b eqn:?
  | at_ ?l _ _ = Ok =>
      first [ is_var l; destruct l as [|? ?]; unfold at_ in H; cbn [anth alen] in H; try discriminate H
            | unfold at_ in H; cbn [anth] in H ]
  | match ?x with _ => _ end = Ok => destruct x eqn:?; try discriminate H
  end.
Ltac inv_ok H := repeat (cbn [need idx at_ anth nth_error alen length Nat.eqb negb] in H; inv_step H).

Ltac peel H :=
  repeat (cbn in H;
          match type of H with
          | need ?b _ = Ok => destruct b eqn:?; [|discriminate H]
          | (if ?b then _ else _) = Ok => destruct b eqn:?; try discriminate H
          end).

Ltac split_args typs :=
  destruct typs as [|?a [|?b [|?c ?l]]]; cbn [length Nat.eqb negb orb andb need idx nth_error].

Ltac reflect_all :=
  repeat match goal with
  | H : aty_eqb _ _ = true |- _ => apply aty_eqb_eq in H; subst
  | H : identical _ _ = true |- _ => apply aty_eqb_eq in H; subst
  | H : (_ =? _) = true |- _ => apply Nat.eqb_eq in H
  | H : (_ <=? _) = true |- _ => apply Nat.leb_le in H
  | H : negb _ = true |- _ => apply negb_true_iff in H
  | H : bkind_eqb _ _ = true |- _ => apply bkind_eqb_eq in H; subst
  end.

Lemma alen0 l : alen l = 0 -> l = TNil.
Proof. destruct l; cbn; congruence. Qed.
Lemma alen1 l : alen l = 1 -> exists t, l = (t1 (t)).
Proof. destruct l as [|t [|u r]]; cbn; try discriminate; eauto. Qed.
Lemma alen2 l : alen l = 2 -> exists t u, l = (t2 (t) (u)).
Proof. destruct l as [|t [|u [|w r]]]; cbn; try discriminate; eauto. Qed.

Ltac fix_lens :=
  cbn [alen] in *;
  repeat match goal with
  | E : S _ = S _ |- _ => apply Nat.succ_inj in E
  | E : alen ?l = 0 |- _ => apply alen0 in E; subst l
  | E : alen ?l = 1 |- _ => apply alen1 in E as (? & ->)
  | E : alen ?l = 2 |- _ => apply alen2 in E as (? & ? & ->)
  end.

(* ---- all, any, filter, takewhile ---- *)
Definition accepted_pred (typs : list aty) : Prop :=
  exists t v, typs = [ASig (t1 (t)) (t1 (ABasic KBool)) v; ASlice t].

Theorem validate_exact_pred typs : add_pred typs = Ok <-> accepted_pred typs.
Proof.
  unfold accepted_pred; split.
  - unfold add_pred. split_args typs; intros H; try discriminate H.
    destruct b; try discriminate H. destruct a; try discriminate H.
    destruct ps as [|p1 [|p2 ps]]; try discriminate H.
    destruct rs as [|r1 [|r2 rs]]; cbn in H; try discriminate H.
    all: peel H; try discriminate H. reflect_all. eauto.
  - intros (t & v & ->). unfold add_pred, identical. cbn. rewrite !aty_eqb_refl. reflexivity.
Qed.

(* ---- clone, gostring, hash, keys, set, sort, unique ---- *)
Theorem validate_exact_one typs : add_one typs = Ok <-> exists t, typs = [t].
Proof.
  split.
  - unfold add_one. split_args typs; intros H; try discriminate H. eauto.
  - intros (t & ->). reflexivity.
Qed.

(* ---- compare, equal ---- *)
Theorem validate_exact_one_or_two typs :
  add_one_or_two typs = Ok <-> (exists t, typs = [t]) \/ (exists t, typs = [t; t]).
Proof.
  split.
  - unfold add_one_or_two. split_args typs; intros H; try discriminate H; [left; eauto|].
    inv_ok H. reflect_all. right; eauto.
  - intros [(t & ->)|(t & ->)]; unfold add_one_or_two, identical; cbn; rewrite ?aty_eqb_refl; reflexivity.
Qed.

(* ---- deepcopy ---- *)
Theorem validate_exact_deepcopy typs : add_deepcopy typs = Ok <-> exists t, typs = [t; t].
Proof.
  split.
  - unfold add_deepcopy. split_args typs; intros H; try discriminate H.
    inv_ok H. reflect_all. eauto.
  - intros (t & ->). unfold add_deepcopy, identical; cbn. rewrite aty_eqb_refl. reflexivity.
Qed.

(* ---- curry, flip ---- *)
Theorem validate_exact_curry typs :
  add_curry typs = Ok <-> exists p1 p2 ps rs, typs = [ASig (TCons p1 (TCons p2 ps)) rs false].
Proof.
  split.
  - unfold add_curry. split_args typs; intros H; try discriminate H.
    destruct a; try discriminate H. destruct variadic; try discriminate H.
    destruct ps as [|p1 [|p2 ps]]; cbn in *; try discriminate. do 4 eexists; reflexivity.
  - intros (p1 & p2 & ps & rs & ->). reflexivity.
Qed.

(* ---- dup ---- *)
Theorem validate_exact_dup typs : add_dup typs = Ok <-> exists d t, typs = [AChan d t].
Proof.
  split.
  - unfold add_dup. split_args typs; intros H; try discriminate H. inv_ok H. eauto.
  - intros (d & t & ->). reflexivity.
Qed.

(* ---- mem (fixed code) ---- *)
Theorem validate_exact_mem typs : add_mem typs = Ok <-> exists ps rs, typs = [ASig ps rs false].
Proof.
  split.
  - unfold add_mem. split_args typs; intros H; try discriminate H. inv_ok H.
    reflect_all. subst. eauto.
  - intros (ps & rs & ->). reflexivity.
Qed.

(* ---- tuple ---- *)
Theorem validate_exact_tuple typs : add_tuple typs = Ok <-> typs <> [].
Proof. unfold add_tuple. destruct typs; cbn; split; congruence. Qed.

(* ---- uncurry ---- *)
Theorem validate_exact_uncurry typs :
  add_uncurry typs = Ok <-> exists a ps rs, typs = [ASig (t1 (a)) (t1 (ASig ps rs false)) false].
Proof.
  split.
  - unfold add_uncurry. split_args typs; intros H; try discriminate H.
    destruct a; try discriminate H.
    destruct ps as [|p1 [|p2 ps]]; try discriminate H.
    destruct rs as [|r1 [|r2 rs]]; cbn in H; try discriminate H.
    destruct r1; try discriminate H.
    destruct variadic, variadic0; try discriminate H.
    do 3 eexists; reflexivity.
  - intros (a & ps & rs & ->). reflexivity.
Qed.

(* ---- union, intersect ---- *)
Theorem validate_exact_setop typs :
  add_setop typs = Ok <->
  (exists t, typs = [ASlice t; ASlice t]) \/ (exists k, typs = [AMap k (AStruct TNil); AMap k (AStruct TNil)]).
Proof.
  split.
  - unfold add_setop. split_args typs; intros H; try discriminate H. inv_ok H; reflect_all; eauto.
  - intros [(t & ->)|(k & ->)]; unfold add_setop, identical; cbn; rewrite ?aty_eqb_refl; reflexivity.
Qed.

(* ---- min, max ---- *)
Theorem validate_exact_minmax typs :
  add_minmax typs = Ok <->
  (exists t, typs = [t; t]) \/ (exists e b, typs = [ASlice e; b] /\ assignable b e = true).
Proof.
  split.
  - unfold add_minmax. split_args typs; intros H; try discriminate H. inv_ok H; reflect_all; eauto.
  - intros [(t & ->)|(e & b & -> & A)]; unfold add_minmax, identical; cbn.
    + rewrite aty_eqb_refl. reflexivity.
    + rewrite A. cbn. destruct b; try reflexivity. destruct (aty_eqb e b); reflexivity.
Qed.

(* ---- contains ---- *)
Theorem validate_exact_contains typs :
  add_contains typs = Ok <-> exists e b, typs = [ASlice e; b] /\ assignable b e = true.
Proof.
  split.
  - unfold add_contains. split_args typs; intros H; try discriminate H. inv_ok H; eauto.
  - intros (e & b & -> & A). unfold add_contains; cbn. rewrite A. reflexivity.
Qed.

(* ---- traverse ---- *)
Theorem validate_exact_traverse typs :
  add_traverse typs = Ok <->
  exists t r e v, typs = [ASig (t1 (t)) (t2 (r) (e)) v; ASlice t] /\ is_error e = true.
Proof.
  split.
  - unfold add_traverse. split_args typs; intros H; try discriminate H.
    destruct b; try discriminate H. destruct a; try discriminate H.
    destruct ps as [|p1 [|p2 ps]]; try discriminate H.
    destruct rs as [|r1 [|r2 [|r3 rs]]]; cbn in H; try discriminate H.
    all: peel H; try discriminate H. reflect_all. do 4 eexists; split; [reflexivity|assumption].
  - intros (t & r & e & v & -> & E). unfold add_traverse, identical; cbn.
    rewrite aty_eqb_refl. cbn. rewrite E. reflexivity.
Qed.

(* ---- pipeline ---- *)
Theorem validate_exact_pipeline typs :
  add_pipeline typs = Ok <->
  exists a b c d1 d2 v1 v2, typs = [ASig (t1 (a)) (t1 (AChan d1 b)) v1; ASig (t1 (b)) (t1 (AChan d2 c)) v2].
Proof.
  split.
  - unfold add_pipeline, funcInChanOut. split_args typs; intros H; try discriminate H.
    destruct a; try discriminate H.
    destruct ps as [|p1 [|p2 ps]]; cbn in H; try discriminate H.
    destruct rs as [|r1 [|r2 rs]]; cbn in H; try discriminate H.
    destruct r1; try discriminate H.
    destruct b; try discriminate H.
    destruct ps as [|q1 [|q2 ps]]; cbn in H; try discriminate H.
    destruct rs as [|s1 [|s2 rs]]; cbn in H; try discriminate H.
    destruct s1; try discriminate H.
    inv_ok H. reflect_all. do 7 eexists; reflexivity.
  - intros (a & b & c & d1 & d2 & v1 & v2 & ->). unfold add_pipeline, identical; cbn.
    rewrite aty_eqb_refl. reflexivity.
Qed.

(* ---- toerror (fixed code) ---- *)
Theorem validate_exact_toerror typs :
  add_toerror typs = Ok <->
  exists e ps rs, typs = [e; ASig ps rs false] /\ is_error e = true /\ alast rs = Some (ABasic KBool).
Proof.
  assert (L : forall rs, alen rs <> 0 -> anth rs (alen rs - 1) = alast rs).
  { induction rs as [|t r IH]; cbn; [congruence|]. intros _.
    destruct r as [|u r']; [reflexivity|]. cbn [alen] in *. rewrite <- IH by discriminate.
    cbn. rewrite Nat.sub_0_r. reflexivity. }
  split.
  - unfold add_toerror. split_args typs; intros H; try discriminate H.
    destruct (is_error a) eqn:E; cbn [need] in H; [|discriminate H].
    destruct b; try discriminate H.
    destruct variadic; cbn [negb need] in H; [discriminate H|].
    destruct (alen rs =? 0) eqn:Z; cbn [negb need] in H; [discriminate H|].
    apply Nat.eqb_neq in Z. unfold at_ in H. rewrite (L rs Z) in H.
    destruct (alast rs) as [last|] eqn:A; [|discriminate H].
    destruct (identical last (ABasic KBool)) eqn:I; cbn [need] in H; [|discriminate H].
    apply aty_eqb_eq in I; subst. do 3 eexists; repeat split; eauto.
  - intros (e & ps & rs & -> & E & A). unfold add_toerror; cbn. rewrite E. cbn.
    destruct (alen rs =? 0) eqn:Z.
    + apply Nat.eqb_eq in Z. apply alen0 in Z; subst; discriminate.
    + apply Nat.eqb_neq in Z. cbn. unfold at_. rewrite (L rs Z), A. reflexivity.
Qed.
