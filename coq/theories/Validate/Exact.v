(* Validate/Exact.v — `validate_exact_<plugin>`: each Add accepts exactly the documented
   argument shapes.  The accepted set is stated independently of the code (as an existential
   over shapes), for all argument lists. *)
From Verif Require Import Base.
From Verif.Validate Require Import Aty Add.
From Coq Require Import Bool List Arith NArith Lia.
Import ListNotations.

Notation t1 x := (TCons x TNil).
Notation t2 x y := (TCons x (TCons y TNil)).

(* peel one test off a hypothesis [... = Ok] *)
Ltac inv_step H :=
  match type of H with
  | Err = Ok => discriminate H
  | Crash = Ok => discriminate H
  | need ?b _ = Ok => destruct b eqn:?; cbn [need] in H; [|discriminate H]
  | (if ?b then _ else _) = Ok => destruct b eqn:?
  | at_ ?l _ _ = Ok =>
      first [ is_var l; destruct l as [|? ?]; unfold at_ in H; cbn [anth alen] in H; try discriminate H
            | unfold at_ in H; cbn [anth] in H ]
  | match ?x with _ => _ end = Ok => destruct x eqn:?; try discriminate H
  end.
Ltac inv_ok H := repeat (cbn [need idx at_ anth nth_error alen length Nat.eqb negb] in H; inv_step H).

Ltac peel H :=
  repeat (cbn in H;
          match type of H with
          | need ?b _ = Ok => destruct b eqn:?; [|discriminate H]
          | (if ?b then _ else _) = Ok => destruct b eqn:?; try discriminate H
          end).

Ltac split_args typs :=
  destruct typs as [|?a [|?b [|?c ?l]]]; cbn [length Nat.eqb negb orb andb need idx nth_error].

Ltac reflect_all :=
  repeat match goal with
  | H : aty_eqb _ _ = true |- _ => apply aty_eqb_eq in H; subst
  | H : identical _ _ = true |- _ => apply aty_eqb_eq in H; subst
  | H : (_ =? _) = true |- _ => apply Nat.eqb_eq in H
  | H : (_ <=? _) = true |- _ => apply Nat.leb_le in H
  | H : negb _ = true |- _ => apply negb_true_iff in H
  | H : bkind_eqb _ _ = true |- _ => apply bkind_eqb_eq in H; subst
  end.

Lemma alen0 l : alen l = 0 -> l = TNil.
Proof. destruct l; cbn; congruence. Qed.
Lemma alen1 l : alen l = 1 -> exists t, l = (t1 (t)).
Proof. destruct l as [|t [|u r]]; cbn; try discriminate; eauto. Qed.
Lemma alen2 l : alen l = 2 -> exists t u, l = (t2 (t) (u)).
Proof. destruct l as [|t [|u [|w r]]]; cbn; try discriminate; eauto. Qed.

Ltac fix_lens :=
  cbn [alen] in *;
  repeat match goal with
  | E : S _ = S _ |- _ => apply Nat.succ_inj in E
  | E : alen ?l = 0 |- _ => apply alen0 in E; subst l
  | E : alen ?l = 1 |- _ => apply alen1 in E as (? & ->)
  | E : alen ?l = 2 |- _ => apply alen2 in E as (? & ? & ->)
  end.

(* ---- all, any, filter, takewhile (fixed code: the predicate is not variadic) ---- *)
Definition accepted_pred (typs : list aty) : Prop :=
  exists t, typs = [ASig (t1 (t)) (t1 (ABasic KBool)) false; ASlice t].

Theorem validate_exact_pred typs : add_pred typs = Ok <-> accepted_pred typs.
Proof.
  unfold accepted_pred; split.
  - unfold add_pred. split_args typs; intros H; try discriminate H.
    destruct b; try discriminate H. destruct a; try discriminate H.
    destruct variadic; [discriminate H|]. cbn [negb need] in H.
    destruct ps as [|p1 [|p2 ps]]; try discriminate H.
    destruct rs as [|r1 [|r2 rs]]; cbn in H; try discriminate H.
    all: peel H; try discriminate H. reflect_all. eauto.
  - intros (t & ->). unfold add_pred, identical. cbn. rewrite !aty_eqb_refl. reflexivity.
Qed.

(* the code before C09-fix-variadic-function-arguments accepted a variadic predicate whose
   parameter type (the slice type) is the element type of the list *)
Example pred_prefix_accepts_variadic :
  add_pred_prefix [ASig (t1 (ASlice (ABasic KInt))) (t1 (ABasic KBool)) true; ASlice (ASlice (ABasic KInt))] = Ok /\
  add_pred [ASig (t1 (ASlice (ABasic KInt))) (t1 (ABasic KBool)) true; ASlice (ASlice (ABasic KInt))] = Err /\
  add_pred [ASig (t1 (ASlice (ABasic KInt))) (t1 (ABasic KBool)) false; ASlice (ASlice (ABasic KInt))] = Ok.
Proof. vm_compute. repeat split. Qed.

(* ---- clone, keys, set, sort, unique ---- *)
Theorem validate_exact_one typs : add_one typs = Ok <-> exists t, typs = [t].
Proof.
  split.
  - unfold add_one. split_args typs; intros H; try discriminate H. eauto.
  - intros (t & ->). reflexivity.
Qed.

(* ---- gostring, hash (fixed code): the argument has a type ---- *)
Theorem validate_exact_one_typed typs :
  add_one_typed typs = Ok <-> exists t, typs = [t] /\ t <> ABasic KUNil.
Proof.
  split.
  - unfold add_one_typed. split_args typs; intros H; try discriminate H.
    exists a; split; [reflexivity|]. intros ->. discriminate H.
  - intros (t & -> & N). unfold add_one_typed; cbn.
    destruct t as [[]| | | | | | | | | | |]; try reflexivity. congruence.
Qed.

(* ---- compare, equal ---- *)
Theorem validate_exact_one_or_two typs :
  add_one_or_two typs = Ok <-> (exists t, typs = [t]) \/ (exists t, typs = [t; t]).
Proof.
  split.
  - unfold add_one_or_two. split_args typs; intros H; try discriminate H; [left; eauto|].
    inv_ok H. reflect_all. right; eauto.
  - intros [(t & ->)|(t & ->)]; unfold add_one_or_two, identical; cbn; rewrite ?aty_eqb_refl; reflexivity.
Qed.

(* ---- deepcopy ---- *)
Theorem validate_exact_deepcopy typs : add_deepcopy typs = Ok <-> exists t, typs = [t; t].
Proof.
  split.
  - unfold add_deepcopy. split_args typs; intros H; try discriminate H.
    inv_ok H. reflect_all. eauto.
  - intros (t & ->). unfold add_deepcopy, identical; cbn. rewrite aty_eqb_refl. reflexivity.
Qed.

(* ---- curry, flip ---- *)
Theorem validate_exact_curry typs :
  add_curry typs = Ok <-> exists p1 p2 ps rs, typs = [ASig (TCons p1 (TCons p2 ps)) rs false].
Proof.
  split.
  - unfold add_curry. split_args typs; intros H; try discriminate H.
    destruct a; try discriminate H. destruct variadic; try discriminate H.
    destruct ps as [|p1 [|p2 ps]]; cbn in *; try discriminate. do 4 eexists; reflexivity.
  - intros (p1 & p2 & ps & rs & ->). reflexivity.
Qed.

(* ---- dup (fixed code): a channel that can be received from ---- *)
Theorem validate_exact_dup typs :
  add_dup typs = Ok <-> exists d t, typs = [AChan d t] /\ d <> DSend.
Proof.
  split.
  - unfold add_dup. split_args typs; intros H; try discriminate H.
    destruct a; try discriminate H. destruct d; try discriminate H; do 2 eexists; split; eauto; discriminate.
  - intros (d & t & -> & N). destruct d; try reflexivity. congruence.
Qed.

(* ---- mem (fixed code) ---- *)
Theorem validate_exact_mem typs : add_mem typs = Ok <-> exists ps rs, typs = [ASig ps rs false].
Proof.
  split.
  - unfold add_mem. split_args typs; intros H; try discriminate H. inv_ok H.
    reflect_all. subst. eauto.
  - intros (ps & rs & ->). reflexivity.
Qed.

(* ---- tuple (fixed code): at least one argument, none of them the untyped nil ---- *)
Lemma existsb_unil_false l : existsb is_untyped_nil l = false <-> ~ In (ABasic KUNil) l.
Proof.
  induction l as [|t r IH]; cbn; [tauto|].
  rewrite orb_false_iff, IH. split.
  - intros [A B] [C|C]; [subst; discriminate A | tauto].
  - intros N. split; [|tauto].
    destruct t as [[]| | | | | | | | | | |]; try reflexivity. exfalso; apply N; left; reflexivity.
Qed.
Theorem validate_exact_tuple typs :
  add_tuple typs = Ok <-> typs <> [] /\ ~ In (ABasic KUNil) typs.
Proof.
  unfold add_tuple. destruct typs as [|t r]; cbn [length Nat.eqb negb need].
  - split; [discriminate | intros [N _]; congruence].
  - rewrite <- existsb_unil_false.
    assert (E : (match t :: r with [ATuple _] => Ok | _ => need (negb (existsb is_untyped_nil (t :: r))) Ok end) = Ok
                <-> existsb is_untyped_nil (t :: r) = false).
    { assert (N : forall b, need (negb b) Ok = Ok <-> b = false) by (intros []; cbn; split; congruence).
      destruct t; try apply N. destruct r; [cbn; split; reflexivity | apply N]. }
    rewrite E. split; [intros H; split; [discriminate|exact H] | tauto].
Qed.

(* ---- uncurry ---- *)
Theorem validate_exact_uncurry typs :
  add_uncurry typs = Ok <-> exists a ps rs, typs = [ASig (t1 (a)) (t1 (ASig ps rs false)) false].
Proof.
  split.
  - unfold add_uncurry. split_args typs; intros H; try discriminate H.
    destruct a; try discriminate H.
    destruct ps as [|p1 [|p2 ps]]; try discriminate H.
    destruct rs as [|r1 [|r2 rs]]; cbn in H; try discriminate H.
    destruct r1; try discriminate H.
    destruct variadic, variadic0; try discriminate H.
    do 3 eexists; reflexivity.
  - intros (a & ps & rs & ->). reflexivity.
Qed.

(* ---- union, intersect ---- *)
Theorem validate_exact_setop typs :
  add_setop typs = Ok <->
  (exists t, typs = [ASlice t; ASlice t]) \/ (exists k, typs = [AMap k (AStruct TNil); AMap k (AStruct TNil)]).
Proof.
  split.
  - unfold add_setop. split_args typs; intros H; try discriminate H. inv_ok H; reflect_all; eauto.
  - intros [(t & ->)|(k & ->)]; unfold add_setop, identical; cbn; rewrite ?aty_eqb_refl; reflexivity.
Qed.

(* ---- min, max ---- *)
Theorem validate_exact_minmax typs :
  add_minmax typs = Ok <->
  (exists t, typs = [t; t]) \/ (exists e b, typs = [ASlice e; b] /\ assignable b e = true).
Proof.
  split.
  - unfold add_minmax. split_args typs; intros H; try discriminate H. inv_ok H; reflect_all; eauto.
  - intros [(t & ->)|(e & b & -> & A)]; unfold add_minmax, identical; cbn.
    + rewrite aty_eqb_refl. reflexivity.
    + rewrite A. cbn. destruct b; try reflexivity. destruct (aty_eqb e b); reflexivity.
Qed.

(* ---- contains ---- *)
Theorem validate_exact_contains typs :
  add_contains typs = Ok <-> exists e b, typs = [ASlice e; b] /\ assignable b e = true.
Proof.
  split.
  - unfold add_contains. split_args typs; intros H; try discriminate H. inv_ok H; eauto.
  - intros (e & b & -> & A). unfold add_contains; cbn. rewrite A. reflexivity.
Qed.

(* ---- traverse ---- *)
Theorem validate_exact_traverse typs :
  add_traverse typs = Ok <->
  exists t r e, typs = [ASig (t1 (t)) (t2 (r) (e)) false; ASlice t] /\ is_error e = true.
Proof.
  split.
  - unfold add_traverse. split_args typs; intros H; try discriminate H.
    destruct b; try discriminate H. destruct a; try discriminate H.
    destruct variadic; [discriminate H|]. cbn [negb need] in H.
    destruct ps as [|p1 [|p2 ps]]; try discriminate H.
    destruct rs as [|r1 [|r2 [|r3 rs]]]; cbn in H; try discriminate H.
    all: peel H; try discriminate H. reflect_all. do 3 eexists; split; [reflexivity|assumption].
  - intros (t & r & e & -> & E). unfold add_traverse, identical; cbn.
    rewrite aty_eqb_refl. cbn. rewrite E. reflexivity.
Qed.

(* ---- pipeline ---- *)
Theorem validate_exact_pipeline typs :
  add_pipeline typs = Ok <->
  exists a b c d1,
    typs = [ASig (t1 (a)) (t1 (AChan d1 b)) false; ASig (t1 (b)) (t1 (AChan DRecv c)) false] /\ d1 <> DSend.
Proof.
  split.
  - unfold add_pipeline, funcInChanOut. split_args typs; intros H; try discriminate H.
    destruct a; try discriminate H.
    destruct variadic; [discriminate H|].
    destruct ps as [|p1 [|p2 ps]]; cbn in H; try discriminate H.
    destruct rs as [|r1 [|r2 rs]]; cbn in H; try discriminate H.
    destruct r1; try discriminate H.
    destruct d; cbn in H; try discriminate H.
    all: destruct b; try discriminate H.
    all: destruct variadic; [discriminate H|].
    all: destruct ps as [|q1 [|q2 ps]]; cbn in H; try discriminate H.
    all: destruct rs as [|s1 [|s2 rs]]; cbn in H; try discriminate H.
    all: destruct s1; try discriminate H.
    all: destruct d; cbn in H; try discriminate H.
    all: inv_ok H; reflect_all; do 4 eexists; (split; [reflexivity|discriminate]).
  - intros (a & b & c & d1 & -> & N). unfold add_pipeline, identical; cbn.
    destruct d1; try congruence; cbn; rewrite aty_eqb_refl; reflexivity.
Qed.

(* ---- toerror (fixed code) ---- *)
Theorem validate_exact_toerror typs :
  add_toerror typs = Ok <->
  exists e ps rs, typs = [e; ASig ps rs false] /\ is_error e = true /\ alast rs = Some (ABasic KBool).
Proof.
  assert (L : forall rs, alen rs <> 0 -> anth rs (alen rs - 1) = alast rs).
  { induction rs as [|t r IH]; cbn; [congruence|]. intros _.
    destruct r as [|u r']; [reflexivity|]. cbn [alen] in *. rewrite <- IH by discriminate.
    cbn. rewrite Nat.sub_0_r. reflexivity. }
  split.
  - unfold add_toerror. split_args typs; intros H; try discriminate H.
    destruct (is_error a) eqn:E; cbn [need] in H; [|discriminate H].
    destruct b; try discriminate H.
    destruct variadic; cbn [negb need] in H; [discriminate H|].
    destruct (alen rs =? 0) eqn:Z; cbn [negb need] in H; [discriminate H|].
    apply Nat.eqb_neq in Z. unfold at_ in H. rewrite (L rs Z) in H.
    destruct (alast rs) as [last|] eqn:A; [|discriminate H].
    destruct (identical last (ABasic KBool)) eqn:I; cbn [need] in H; [|discriminate H].
    apply aty_eqb_eq in I; subst. do 3 eexists; repeat split; eauto.
  - intros (e & ps & rs & -> & E & A). unfold add_toerror; cbn. rewrite E. cbn.
    destruct (alen rs =? 0) eqn:Z.
    + apply Nat.eqb_eq in Z. apply alen0 in Z; subst; discriminate.
    + apply Nat.eqb_neq in Z. cbn. unfold at_. rewrite (L rs Z), A. reflexivity.
Qed.

(* ---- fmap (with the fixed channel form) ---- *)
Lemma fmap_fn1_exact f elem : fmap_fn1 f elem = Ok <-> exists r, f = ASig (t1 (elem)) (t1 (r)) false.
Proof.
  split.
  - unfold fmap_fn1. intros H. destruct f; try discriminate H.
    destruct variadic; [discriminate H|]. cbn [negb need] in H.
    destruct ps as [|p1 [|p2 ps]]; try discriminate H.
    destruct rs as [|r1 [|r2 rs]]; cbn in H; try discriminate H.
    all: peel H; try discriminate H. reflect_all. eauto.
  - intros (r & ->). unfold fmap_fn1, identical. cbn. rewrite aty_eqb_refl. reflexivity.
Qed.

Lemma fmap_errorInOut_exact f g :
  fmap_errorInOut f g = Ok <->
  exists e rs er v', f = ASig (t1 (e)) rs false /\ g = ASig TNil (t2 (e) (er)) v' /\ is_error er = true.
Proof.
  split.
  - unfold fmap_errorInOut. intros H. destruct g; try discriminate H.
    destruct ps as [|q1 qs]; try discriminate H.
    destruct rs as [|r1 [|r2 [|r3 rs]]]; cbn in H; try discriminate H.
    destruct (is_error r2) eqn:E; cbn in H; try discriminate H.
    destruct f as [| | | | | | |fps frs fv| | | |]; try discriminate H.
    destruct fv; [discriminate H|]. cbn [negb need] in H.
    destruct fps as [|p1 [|p2 ps]]; cbn in H; try discriminate H.
    peel H; try discriminate H. reflect_all. do 4 eexists; repeat split; eauto.
  - intros (e & rs & er & v' & -> & -> & E). unfold fmap_errorInOut, identical. cbn.
    rewrite E. cbn. rewrite aty_eqb_refl. reflexivity.
Qed.

Theorem validate_exact_fmap typs :
  add_fmap typs = Ok <->
  (exists e r, typs = [ASig (t1 (e)) (t1 (r)) false; ASlice e]) \/
  (exists k r, typs = [ASig (t1 (ABasic KInt32)) (t1 (r)) false; ABasic k] /\ default_kind k = KString) \/
  (exists e rs er v', typs = [ASig (t1 (e)) rs false; ASig TNil (t2 (e) (er)) v'] /\ is_error er = true) \/
  (exists e r d, typs = [ASig (t1 (e)) (t1 (r)) false; AChan d e] /\ d <> DSend).
Proof.
  split.
  - unfold add_fmap. split_args typs; intros H; try discriminate H.
    destruct b; try discriminate H.
    + destruct (bkind_eqb (default_kind k) KString) eqn:K; cbn [need] in H; [|discriminate H].
      apply bkind_eqb_eq in K. apply fmap_fn1_exact in H as (r & ->).
      right; left. do 2 eexists; split; eauto.
    + apply fmap_fn1_exact in H as (r & ->). left. eauto.
    + apply fmap_errorInOut_exact in H as (e & rs' & er & v' & -> & G & E).
      injection G as -> -> ->. right; right; left. do 4 eexists; split; eauto.
    + destruct d; cbn [is_send negb need] in H; try discriminate H;
        apply fmap_fn1_exact in H as (r & ->); right; right; right;
        do 3 eexists; (split; [reflexivity|discriminate]).
  - intros [(e & r & ->)|[(k & r & -> & K)|[(e & rs & er & v' & -> & E)|(e & r & d & -> & N)]]];
      unfold add_fmap; cbn [length Nat.eqb need idx nth_error].
    + apply fmap_fn1_exact; eauto.
    + rewrite K. cbn [bkind_eqb need]. apply fmap_fn1_exact; eauto.
    + apply fmap_errorInOut_exact. do 4 eexists; repeat split; eauto.
    + destruct d; try congruence; cbn [is_send negb need]; apply fmap_fn1_exact; eauto.
Qed.

(* the code before C09-fix-variadic-function-arguments: deriveFmap(func(xs ...int) string, [][]int) *)
Example fmap_prefix_accepts_variadic :
  fmap_fn1_prefix (ASig (t1 (ASlice (ABasic KInt))) (t1 (ABasic KString)) true) (ASlice (ABasic KInt)) = Ok /\
  add_fmap [ASig (t1 (ASlice (ABasic KInt))) (t1 (ABasic KString)) true; ASlice (ASlice (ABasic KInt))] = Err /\
  add_fmap [ASig (t1 (ASlice (ABasic KInt))) (t1 (ABasic KString)) false; ASlice (ASlice (ABasic KInt))] = Ok.
Proof. vm_compute. repeat split. Qed.

(* ---- join (with the fixed channel forms) ---- *)
Lemma anth_last rs : alen rs <> 0 -> anth rs (alen rs - 1) = alast rs.
Proof.
  induction rs as [|t r IH]; cbn; [congruence|]. intros _.
  destruct r as [|u r']; [reflexivity|]. cbn [alen] in *. rewrite <- IH by discriminate.
  cbn. rewrite Nat.sub_0_r. reflexivity.
Qed.

(* (func() (T, ..., error), error) *)
Definition accepted_join_error (a b : aty) : Prop :=
  exists rs v l, a = ASig TNil rs v /\ is_error b = true /\ alast rs = Some l /\ is_error l = true.

Lemma join_errorType_exact typs :
  join_errorType typs = Ok <-> exists a b, typs = [a; b] /\ accepted_join_error a b.
Proof.
  unfold accepted_join_error. split.
  - unfold join_errorType. split_args typs; intros H; try discriminate H.
    destruct a; try discriminate H.
    destruct (is_error b) eqn:E; cbn [need] in H; [|discriminate H].
    destruct ps; cbn [alen Nat.eqb need] in H; [|discriminate H].
    destruct (alen rs =? 0) eqn:Z; cbn [negb need] in H; [discriminate H|].
    apply Nat.eqb_neq in Z. unfold at_ in H. rewrite (anth_last rs Z) in H.
    destruct (alast rs) as [l|] eqn:A; [|discriminate H].
    destruct (is_error l) eqn:EL; cbn [need] in H; [|discriminate H].
    do 2 eexists; split; [reflexivity|]. do 3 eexists; repeat split; eauto.
  - intros (a & b & -> & rs & v & l & -> & E & A & EL). unfold join_errorType; cbn.
    rewrite E. cbn.
    destruct (alen rs =? 0) eqn:Z.
    + apply Nat.eqb_eq in Z. apply alen0 in Z; subst; discriminate.
    + apply Nat.eqb_neq in Z. cbn. unfold at_. rewrite (anth_last rs Z), A, EL. reflexivity.
Qed.

(* c0, c1, ...: channels over one element type, none of them send only *)
Lemma join_chans_some_exact typs : forall p,
  join_chans (Some p) typs = Ok <-> exists ds, typs = map (fun d => AChan d p) ds /\ ~ In DSend ds.
Proof.
  induction typs as [|t r IH]; intros p; cbn [join_chans].
  - split; [intros _; exists []; split; [reflexivity|intros []] | reflexivity].
  - split.
    + intros H. destruct t; try discriminate H.
      destruct (is_send d) eqn:S; cbn [negb need] in H; [discriminate H|].
      destruct (identical t p) eqn:I; cbn [need] in H; [|discriminate H].
      apply aty_eqb_eq in I; subst t. apply IH in H as (ds & -> & N).
      exists (d :: ds). split; [reflexivity|]. intros [->|C]; [discriminate S|tauto].
    + intros (ds & E & N). destruct ds as [|d ds]; [discriminate E|]. cbn in E. injection E as -> ->.
      assert (S : is_send d = false) by (destruct d; try reflexivity; exfalso; apply N; left; reflexivity).
      rewrite S. cbn [negb need]. unfold identical. rewrite aty_eqb_refl. cbn [need].
      apply IH. exists ds. split; [reflexivity|]. intros C; apply N; right; exact C.
Qed.

Lemma join_chans_none_exact d e r :
  join_chans None (AChan d e :: r) = Ok <->
  exists ds, AChan d e :: r = map (fun d => AChan d e) ds /\ ~ In DSend ds.
Proof.
  cbn [join_chans]. split.
  - intros H. destruct (is_send d) eqn:S; cbn [negb need] in H; [discriminate H|].
    apply join_chans_some_exact in H as (ds & -> & N).
    exists (d :: ds). split; [reflexivity|]. intros [->|C]; [discriminate S|tauto].
  - intros (ds & E & N). destruct ds as [|d' ds]; [discriminate E|]. cbn in E. injection E as E1 E2. subst d' r.
    assert (S : is_send d = false) by (destruct d; try reflexivity; exfalso; apply N; left; reflexivity).
    rewrite S. cbn [negb need]. apply join_chans_some_exact.
    exists ds. split; [reflexivity|]. intros C; apply N; right; exact C.
Qed.

Definition not_chan (e : aty) : Prop := forall d t, e <> AChan d t.

Definition accepted_join (typs : list aty) : Prop :=
  (exists t, typs = [ASlice (ASlice t)]) \/
  typs = [ASlice (ABasic KString)] \/
  (exists d t, typs = [ASlice (AChan d t)] /\ d <> DSend) \/
  (exists a b, (typs = [a; b] \/ exists r, typs = ATuple (t2 (a) (b)) :: r) /\ accepted_join_error a b) \/
  (exists d t, typs = [AChan d (AChan DRecv t)] /\ d <> DSend) \/
  (exists e ds, typs = map (fun d => AChan d e) ds /\ 2 <= length ds /\ ~ In DSend ds /\ not_chan e).

Theorem validate_exact_join typs : add_join typs = Ok <-> accepted_join typs.
Proof.
  unfold accepted_join. split.
  - unfold add_join. destruct typs as [|a r]; cbn [length Nat.eqb negb need idx nth_error]; [discriminate|].
    intros H. destruct a; try discriminate H.
    + (* slice *)
      destruct a; try discriminate H;
        destruct r; cbn [length Nat.eqb need] in H; try discriminate H.
      * destruct (bkind_eqb k KString) eqn:K; [|discriminate H]. apply bkind_eqb_eq in K; subst. tauto.
      * left; eauto.
      * destruct d; cbn in H; try discriminate H; right; right; left; do 2 eexists; (split; [reflexivity|discriminate]).
    + (* function, error *)
      apply join_errorType_exact in H as (a & b & E & A). right; right; right; left.
      exists a, b. split; [left; exact E|exact A].
    + (* channels *)
      destruct a.
      9: { destruct r; cbn [length Nat.eqb need] in H; try discriminate H.
           destruct d; cbn in H; try discriminate H; destruct d0; cbn in H; try discriminate H;
             right; right; right; right; left; do 2 eexists; (split; [reflexivity|discriminate]). }
      all: match type of H with need ?c _ = Ok => destruct c eqn:L end; cbn [need] in H; [|discriminate H];
        apply Nat.leb_le in L;
        apply join_chans_none_exact in H as (ds & E & N);
        right; right; right; right; right; do 2 eexists; split; [exact E|];
        (split; [assert (LL := f_equal (@length aty) E); rewrite map_length in LL;
                 cbn [length] in LL; rewrite <- LL; exact L|]); (split; [exact N|]);
        intros ? ?; discriminate.
    + (* a multi-valued call *)
      destruct ts as [|x [|y [|z ts]]]; cbn [alen Nat.eqb at_ anth] in H; try discriminate H.
      unfold at_ in H; cbn [anth] in H.
      apply join_errorType_exact in H as (a & b & E & A). injection E as -> ->.
      right; right; right; left. exists a, b. split; [right; eauto|exact A].
  - intros [(t & ->)|[->|[(d & t & -> & N)|[(a & b & [->|(r & ->)] & A)|[(d & t & -> & N)|(e & ds & -> & L & N & C)]]]]].
    + reflexivity.
    + reflexivity.
    + destruct d; try congruence; reflexivity.
    + pose proof A as (rs & v & l & -> & _). unfold add_join; cbn [length Nat.eqb negb need idx nth_error].
      apply join_errorType_exact. eauto.
    + unfold add_join; cbn [length Nat.eqb negb need idx nth_error alen at_ anth].
      apply join_errorType_exact. eauto.
    + destruct d; try congruence; reflexivity.
    + destruct ds as [|d ds]; [cbn in L; lia|]. cbn [map].
      unfold add_join; cbn [length Nat.eqb negb need idx nth_error].
      assert (G : (2 <=? length (AChan d e :: map (fun d => AChan d e) ds)) = true).
      { apply Nat.leb_le. cbn [length] in *. rewrite map_length. exact L. }
      assert (J : join_chans None (AChan d e :: map (fun d => AChan d e) ds) = Ok).
      { apply join_chans_none_exact. exists (d :: ds). split; [reflexivity|exact N]. }
      cbn [length] in G.
      destruct e; try (rewrite G; cbn [need]; exact J).
      exfalso. eapply C. reflexivity.
Qed.

(* ---- apply (fixed code): a non-variadic function with a last parameter the second argument is
        assignable to ---- *)
Theorem validate_exact_apply typs :
  add_apply typs = Ok <->
  exists ps rs b last, typs = [ASig ps rs false; b] /\ alast ps = Some last /\ assignable b last = true.
Proof.
  split.
  - unfold add_apply. split_args typs; intros H; try discriminate H.
    destruct a; try discriminate H.
    destruct variadic; cbn [negb need] in H; [discriminate H|].
    destruct (1 <=? alen ps) eqn:L; cbn [need] in H; [|discriminate H].
    apply Nat.leb_le in L. unfold at_ in H. rewrite anth_last in H by lia.
    destruct (alast ps) as [last|] eqn:A; [|discriminate H].
    destruct (assignable b last) eqn:S; cbn [need] in H; [|discriminate H].
    do 4 eexists; repeat split; eauto.
  - intros (ps & rs & b & last & -> & A & S). unfold add_apply; cbn.
    destruct ps as [|p ps']; [discriminate A|].
    cbn [alen Nat.leb need]. unfold at_. rewrite anth_last by (cbn; lia). rewrite A, S. reflexivity.
Qed.

(* ---- do: two or more func() (T, error) ---- *)
Definition do_fn (t : aty) : Prop := exists r e v, t = ASig TNil (t2 (r) (e)) v /\ is_error e = true.

Lemma do_errorOut_exact t : do_errorOut t = Ok <-> do_fn t.
Proof.
  unfold do_fn. split.
  - unfold do_errorOut. intros H. destruct t; try discriminate H.
    destruct ps; cbn [alen Nat.eqb need] in H; [|discriminate H].
    destruct rs as [|r1 [|r2 [|r3 rs]]]; cbn in H; try discriminate H.
    destruct (is_error r2) eqn:E; [|discriminate H]. do 3 eexists; split; eauto.
  - intros (r & e & v & -> & E). cbn. rewrite E. reflexivity.
Qed.

Lemma do_all_exact typs : do_all typs = Ok <-> Forall do_fn typs.
Proof.
  induction typs as [|t r IH]; cbn [do_all].
  - split; [constructor|reflexivity].
  - split.
    + intros H. destruct (do_errorOut t) eqn:D; cbn in H; try discriminate H.
      constructor; [apply do_errorOut_exact; exact D|apply IH; exact H].
    + intros F. inversion F as [|? ? F1 F2]; subst.
      apply do_errorOut_exact in F1. rewrite F1. cbn. apply IH; exact F2.
Qed.

Theorem validate_exact_do typs : add_do typs = Ok <-> 2 <= length typs /\ Forall do_fn typs.
Proof.
  unfold add_do. destruct (2 <=? length typs) eqn:L; cbn [need].
  - apply Nat.leb_le in L. rewrite do_all_exact. tauto.
  - apply Nat.leb_gt in L. split; [discriminate|intros [A _]; lia].
Qed.

(* ---- compose (fixed code): two or more non-variadic functions, each returning an error last,
        the other results of each assignable to the parameters of the next ---- *)
Definition compose_fn (t : aty) (ps rs : atys) : Prop :=
  exists e, t = ASig ps rs false /\ alast rs = Some e /\ is_error e = true.

(* the chain condition, stated on the list of (parameters, results) *)
Fixpoint compose_links (l : list (atys * atys)) : Prop :=
  match l with
  | (_, rs) :: (((ps', _) :: _) as r) => assignable_all (ainit rs) ps' = true /\ compose_links r
  | _ => True
  end.

Definition accepted_compose (typs : list aty) : Prop :=
  2 <= length typs /\
  exists l, Forall2 (fun t pr => compose_fn t (fst pr) (snd pr)) typs l /\ compose_links l.

Lemma assignable_all_len rs ps : assignable_all rs ps = true -> alen rs = alen ps.
Proof.
  revert ps. induction rs as [|r rs IH]; intros [|p ps] H; cbn in *; try discriminate; try reflexivity.
  apply andb_prop in H as [_ H]. f_equal. apply IH; exact H.
Qed.

(* compose_sigs collects (params, results without the error) of functions that satisfy compose_fn *)
Lemma compose_sigs_exact typs : forall l,
  compose_sigs typs = inl (Some l) <->
  exists l0, Forall2 (fun t pr => compose_fn t (fst pr) (snd pr)) typs l0 /\
             l = map (fun pr => (fst pr, ainit (snd pr))) l0.
Proof.
  induction typs as [|t r IH]; intros l; cbn [compose_sigs].
  - split.
    + intros H. injection H as <-. exists []. split; [constructor|reflexivity].
    + intros (l0 & F & ->). inversion F; subst. reflexivity.
  - split.
    + intros H. destruct t; try discriminate H.
      destruct variadic; [discriminate H|].
      destruct (alen rs =? 0) eqn:Z; [discriminate H|]. apply Nat.eqb_neq in Z.
      rewrite (anth_last rs Z) in H.
      destruct (alast rs) as [e|] eqn:A; [|discriminate H].
      destruct (is_error e) eqn:E; [|discriminate H].
      destruct (compose_sigs r) as [[l'|]|g] eqn:C; try discriminate H.
      injection H as <-.
      destruct (proj1 (IH l') eq_refl) as (l0 & F & ->).
      exists ((ps, rs) :: l0). split; [|reflexivity].
      constructor; [exists e; cbn; auto|exact F].
    + intros (l0 & F & ->). inversion F as [|? pr ? l0' (e & -> & A & E) F']; subst.
      destruct pr as [ps rs]; cbn [fst snd] in *.
      assert (Z : alen rs <> 0) by (destruct rs; [discriminate A|cbn; lia]).
      destruct (alen rs =? 0) eqn:Z'; [apply Nat.eqb_eq in Z'; contradiction|].
      rewrite (anth_last rs Z), A, E.
      rewrite (proj2 (IH (map (fun pr => (fst pr, ainit (snd pr))) l0'))) by eauto.
      reflexivity.
Qed.

Lemma compose_sigs_not_ok typs : compose_sigs typs <> inr Ok.
Proof.
  induction typs as [|t r IH]; cbn [compose_sigs]; [discriminate|].
  destruct t; try discriminate. destruct variadic; [discriminate|].
  destruct (alen rs =? 0); [discriminate|].
  destruct (anth rs (alen rs - 1)); [|discriminate].
  destruct (is_error a); [|discriminate].
  destruct (compose_sigs r) as [[l|]|g]; try discriminate. exact IH.
Qed.

Lemma compose_chain_exact l0 : forall ps rs,
  compose_chain (ainit rs) (map (fun pr => (fst pr, ainit (snd pr))) l0) = Ok <->
  compose_links ((ps, rs) :: l0).
Proof.
  induction l0 as [|[ps' rs'] l0 IH]; intros ps rs; cbn [map compose_chain fst snd].
  - cbn. tauto.
  - cbn [compose_links]. rewrite <- (IH ps' rs'). split.
    + intros H. destruct (alen (ainit rs) =? alen ps'); cbn [need] in H; [|discriminate H].
      destruct (assignable_all (ainit rs) ps') eqn:S; cbn [need] in H; [|discriminate H]. tauto.
    + intros [S H]. rewrite (assignable_all_len _ _ S), Nat.eqb_refl, S. cbn [need]. exact H.
Qed.

Theorem validate_exact_compose typs : add_compose typs = Ok <-> accepted_compose typs.
Proof.
  unfold accepted_compose, add_compose, compose_errorType.
  destruct (2 <=? length typs) eqn:L; cbn [need].
  2:{ apply Nat.leb_gt in L. split; [discriminate|intros [A _]; lia]. }
  apply Nat.leb_le in L.
  destruct typs as [|t0 r]; [cbn in L; lia|]. cbn [idx nth_error].
  split.
  - intros H. split; [exact L|].
    destruct t0; try discriminate H.
    destruct (compose_sigs (ASig ps rs variadic :: r)) as [[l|]|g] eqn:C; try discriminate H.
    + apply compose_sigs_exact in C as (l0 & F & ->).
      exists l0. split; [exact F|].
      destruct l0 as [|[ps0 rs0] l0]; [inversion F|]. cbn [map fst snd] in H.
      apply (compose_chain_exact l0 ps0 rs0). exact H.
    + subst g. exfalso. exact (compose_sigs_not_ok _ C).
  - intros (_ & l0 & F & K).
    assert (C : compose_sigs (t0 :: r) = inl (Some (map (fun pr => (fst pr, ainit (snd pr))) l0)))
      by (apply compose_sigs_exact; eauto).
    inversion F as [|? [ps0 rs0] ? l0' (e & -> & A & E) F']; subst.
    rewrite C. cbn [map fst snd]. apply (compose_chain_exact l0' ps0 rs0). exact K.
Qed.

Example compose_accepts :
  add_compose [ASig (t1 (ABasic KInt)) (t2 (ABasic KString) (AErr)) false;
               ASig (t1 (ABasic KString)) (t2 (ABasic KFloat64) (AErr)) false] = Ok /\
  add_compose [ASig (t1 (ABasic KInt)) (t2 (ABasic KString) (AErr)) false;
               ASig (t1 (ABasic KInt)) (t2 (ABasic KFloat64) (AErr)) false] = Err /\
  add_compose [ASig (t1 (ASlice (ABasic KInt))) (t2 (ABasic KString) (AErr)) true;
               ASig (t1 (ABasic KString)) (t2 (ABasic KFloat64) (AErr)) false] = Err.
Proof. vm_compute. repeat split. Qed.
