(* Go/ListOrder.v — the lexicographic order on integer lists ([lexcmp], Base.v) and "aligned"
   pairs of lists: neither is a proper prefix of the other, so that comparing concatenations
   is comparing component by component.  Stdlib only. *)
From Verif Require Import Base.
From Coq Require Import Lia.
Open Scope Z_scope.

Lemma lexcmp_refl a : lexcmp a a = 0.
Proof. induction a as [|x a IH]; cbn; [reflexivity|]. rewrite Z.compare_refl. exact IH. Qed.

Lemma lexcmp_range a b : lexcmp a b = -1 \/ lexcmp a b = 0 \/ lexcmp a b = 1.
Proof.
  revert b; induction a as [|x a IH]; intros [|y b]; cbn; auto.
  destruct (Z.compare x y); auto.
Qed.

Lemma lexcmp_antisym a b : lexcmp b a = - lexcmp a b.
Proof.
  revert b; induction a as [|x a IH]; intros [|y b]; cbn; try reflexivity.
  rewrite (Z.compare_antisym x y). destruct (Z.compare x y); cbn; auto.
Qed.

Lemma lexcmp_eq a b : lexcmp a b = 0 <-> a = b.
Proof.
  split; [|intros ->; apply lexcmp_refl].
  revert b; induction a as [|x a IH]; intros [|y b]; cbn; try discriminate; try reflexivity.
  destruct (Z.compare_spec x y); try discriminate. intros H'. subst. f_equal. apply IH; exact H'.
Qed.

Lemma lexcmp_lt_trans a b c : lexcmp a b = -1 -> lexcmp b c = -1 -> lexcmp a c = -1.
Proof.
  revert b c; induction a as [|x a IH]; intros [|y b] [|z c]; cbn; try discriminate; try reflexivity.
  destruct (Z.compare_spec x y) as [E1|L1|G1]; destruct (Z.compare_spec y z) as [E2|L2|G2];
  intros H1 H2; try discriminate.
  - subst. rewrite Z.compare_refl. eapply IH; eassumption.
  - subst. rewrite (proj2 (Z.compare_lt_iff y z) L2). reflexivity.
  - subst. rewrite (proj2 (Z.compare_lt_iff x z) L1). reflexivity.
  - rewrite (proj2 (Z.compare_lt_iff x z)) by lia. reflexivity.
Qed.

(* <= is transitive, and 0 means interchangeable *)
Lemma lexcmp_le_trans a b c : lexcmp a b <= 0 -> lexcmp b c <= 0 -> lexcmp a c <= 0.
Proof.
  intros H1 H2.
  destruct (lexcmp_range a b) as [E1|[E1|E1]]; try lia;
  destruct (lexcmp_range b c) as [E2|[E2|E2]]; try lia.
  - rewrite (lexcmp_lt_trans a b c E1 E2). lia.
  - apply lexcmp_eq in E2. subst. lia.
  - apply lexcmp_eq in E1. subst. lia.
  - apply lexcmp_eq in E1. apply lexcmp_eq in E2. subst. rewrite lexcmp_refl. lia.
Qed.

(* aligned: comparing a++r with b++s is comparing a with b first, then r with s *)
Definition AL (a b : list Z) : Prop :=
  forall r s, lexcmp (a ++ r) (b ++ s) = if Z.eqb (lexcmp a b) 0 then lexcmp r s else lexcmp a b.

Lemma AL_refl a : AL a a.
Proof.
  intros r s. rewrite lexcmp_refl. cbn. induction a as [|x a IH]; cbn; [reflexivity|].
  rewrite Z.compare_refl. exact IH.
Qed.

Lemma AL_nil : AL [] [].
Proof. apply AL_refl. Qed.

Lemma AL_single x y : AL [x] [y].
Proof.
  intros r s. cbn. destruct (Z.compare_spec x y); cbn; reflexivity.
Qed.

Lemma AL_cons x y a b : (x = y -> AL a b) -> AL (x :: a) (y :: b).
Proof.
  intros H r s. cbn. destruct (Z.compare_spec x y); cbn; try reflexivity.
  apply H; assumption.
Qed.

Lemma AL_app a b a' b' : AL a b -> AL a' b' -> AL (a ++ a') (b ++ b').
Proof.
  intros H1 H2 r s. rewrite <- !app_assoc. rewrite (H1 (a' ++ r) (b' ++ s)), (H1 a' b').
  destruct (Z.eqb (lexcmp a b) 0) eqn:E; [apply H2|].
  rewrite E. reflexivity.
Qed.

Lemma AL_sym a b : AL a b -> AL b a.
Proof.
  intros H r s. rewrite (lexcmp_antisym (a ++ s) (b ++ r)), (H s r), (lexcmp_antisym a b), (lexcmp_antisym r s).
  destruct (Z.eqb_spec (lexcmp a b) 0) as [E|E].
  - rewrite E. cbn. lia.
  - destruct (Z.eqb_spec (- lexcmp a b) 0); [lia|reflexivity].
Qed.

(* unique decomposition of concatenations of aligned lists *)
Lemma AL_app_inj a b r s : AL a b -> a ++ r = b ++ s -> a = b /\ r = s.
Proof.
  intros H E. pose proof (H r s) as L. rewrite E, lexcmp_refl in L.
  destruct (Z.eqb_spec (lexcmp a b) 0) as [Z0|NZ].
  - apply lexcmp_eq in Z0. subst. split; [reflexivity|]. symmetry in L. apply lexcmp_eq in L. exact L.
  - exfalso. apply NZ. symmetry. exact L.
Qed.

(* byte strings: b+1 ... terminated by 0 *)
Definition str_enc (s : list N) : list Z := (map (fun b => Z.of_N b + 1) s ++ [0])%list.

Lemma AL_str s1 s2 : AL (str_enc s1) (str_enc s2).
Proof.
  unfold str_enc. revert s2; induction s1 as [|x s1 IH]; intros [|y s2]; cbn.
  - apply AL_refl.
  - apply AL_cons. intros E. exfalso. lia.
  - apply AL_cons. intros E. exfalso. lia.
  - apply AL_cons. intros _. apply IH.
Qed.
