(* Go/Hash.v — model of the code emitted by plugin/hash (with sort/keys for maps).  C04.
   Helper calls are calls of generated functions with body genStatement of the component type,
   so field and genStatement coincide except at the leaves, which are transcribed below.
   All arithmetic is uint64 (mod 2^64).  User Hash methods are outside the model. *)
From Verif Require Export Go.Val Go.Compare.
Open Scope N_scope.

Definition M64 : N := 18446744073709551616.  (* 2^64 *)
Definition wrap (n : N) : N := n mod M64.
(* h = 31*h + c *)
Definition step (h c : N) : N := wrap (31 * h + c).

(* uint64(x) for a signed or unsigned integer: two's complement *)
Definition u64_of_Z (z : Z) : N := Z.to_N (z mod 18446744073709551616)%Z.

(* math.Float64bits(x+0) / uint64(math.Float32bits(x+0)): -0 becomes +0 (fix 805fd63) *)
Definition fbits (w : N) (neg : bool) (mag : N) : N :=
  if N.eqb mag 0 then 0 else if neg then mag + 2 ^ (w - 1) else mag.
(* the pinned tree hashed the raw bit pattern *)
Definition fbits_old (w : N) (neg : bool) (mag : N) : N :=
  if neg then mag + 2 ^ (w - 1) else mag.

(* for _, c := range s { h = 31*h + uint64(c) } over the runes of s *)
Definition hash_string (s : list N) : N := fold_left step (runes s) 0.

Definition leaf_hash (k : bkind) (x : val) : option N :=
  match k, x with
  | KBool, VBool b => Some (if b then 1 else 0)
  | KInt _ _, VInt z => Some (u64_of_Z z)
  | KF32, VF n m => Some (fbits 32 n m)
  | KF64, VF n m => Some (fbits 64 n m)
  | KC64, VC a b c d => Some (wrap (31 * wrap (31 * 17 + fbits 32 a b) + fbits 32 c d))
  | KC128, VC a b c d => Some (wrap (31 * wrap (31 * 17 + fbits 64 a b) + fbits 64 c d))
  | KStr, VStr s => Some (hash_string s)
  | _, _ => None
  end.

Definition rmap {A B} (f : A -> B) (r : res A) : res B := rbind r (fun a => Ok (f a)).

Section HashComb.
Variable f : val -> res N.
(* h := 17; for each element h = 31*h + hash(elem) *)
Fixpoint elems_h (h : N) (xs : list val) {struct xs} : res N :=
  match xs with
  | [] => Ok h
  | a :: xs' => rdo c <- f a; elems_h (step h c) xs'
  end.
End HashComb.
Section HashComb2.
Variable f : ty -> val -> res N.
(* fields in order; unexported fields of imported structs are skipped *)
Fixpoint fields_h (skip_priv : bool) (h : N) (fs : list (bool * ty)) (xs : list val) {struct xs} : res N :=
  match fs, xs with
  | [], [] => Ok h
  | fd :: fs', a :: xs' =>
      if (skip_priv && fst fd)%bool then fields_h skip_priv h fs' xs'
      else rdo c <- f (snd fd) a; fields_h skip_priv (step h c) fs' xs'
  | _, _ => Stuck
  end.
End HashComb2.

Definition struct_hash (f : ty -> val -> res N) (skip : bool) (fs : list (bool * ty)) (xs : list val) : res N :=
  match fs, xs with
  | [], [] => Ok 17
  | _, _ => fields_h f skip 17 fs xs
  end.

(* entries (key, hash of key, hash of value) in sorted key order *)
Fixpoint entries_h (h : N) (es : list (val * (res N * res N))) : res N :=
  match es with
  | [] => Ok h
  | (_, (hk, hv)) :: es' =>
      rdo a <- hk; rdo b <- hv; entries_h (step (step h a) b) es'
  end.

Fixpoint hashm (e : tenv) (t : ty) (x : val) {struct x} : res N :=
  match resolve e t with
  | None => Stuck
  | Some r =>
      let e' := r_env r in
      match r_node r with
      | TB k => of_option (leaf_hash k x)
      | TP rt =>
          match x with
          | VNilP => match resolve e' rt with Some _ => Ok 0 | None => Stuck end
          | VPtr _ x' =>
              match resolve e' rt with
              | None => Stuck
              | Some rr =>
                  match r_node rr, is_named rr, x' with
                  | TSt fs, true, VSt xs =>
                      struct_hash (fun ft a => hashm (r_env rr) ft a) (is_ext rr) fs xs
                  | TSt _, true, _ => Stuck
                  | _, _, _ => rmap (fun c => wrap (31 * 17 + c)) (hashm e' rt x')
                  end
              end
          | _ => Stuck
          end
      | TSt fs =>
          match x with
          | VSt xs => struct_hash (fun ft a => hashm e' ft a) (is_named r && is_ext r) fs xs
          | _ => Stuck
          end
      | TSl et =>
          match x with
          | VNilS => Ok 0
          | VSl _ xs _ => elems_h (fun a => hashm e' et a) 17 xs
          | _ => Stuck
          end
      | TAr _ et =>
          match x with
          | VArr xs => elems_h (fun a => hashm e' et a) 17 xs
          | _ => Stuck
          end
      | TM kt vt =>
          match x with
          | VNilM => Ok 0
          | VMap _ xm =>
              if negb (key_sup kt) then Unsup
              else
                let es := map (fun kv => (fst kv, (hashm e' kt (fst kv), hashm e' vt (snd kv)))) xm in
                entries_h 17 (sort_by fst es)
          | _ => Stuck
          end
      | _ => Stuck
      end
  end.

Definition hash_model (t : ty) (x : val) : res N := hashm [] t x.

(* types derived Hash accepts: everything in the grammar whose map keys can be sorted *)
Fixpoint hash_sup (t : ty) : bool :=
  match t with
  | TB _ | TRef _ => true
  | TN _ _ u => hash_sup u
  | TP rt => hash_sup rt
  | TSl et => hash_sup et
  | TAr _ et => hash_sup et
  | TM k v => (key_sup k && hash_sup v)%bool
  | TSt fs => (fix go (l : list (bool * ty)) : bool :=
                 match l with [] => true | f :: l' => hash_sup (snd f) && go l' end)%bool fs
  end.
