(* Go/Invariance.v — structural equality (hence derived Equal, Compare = 0 and Hash) does not see
   pointer identity, spare capacity or the order in which map entries are listed (C02, C04). *)
From Verif Require Import Go.Ty Go.Val Go.Equal Go.EqualProofs Go.Compare Go.CompareSpec
  Go.ListOrder Go.KeyOrder Go.SortLemmas Go.CompareProofs Go.MapLemmas Go.Canon.
From Coq Require Import Lia Permutation.

(* forget every address label and every spare-capacity element *)
Fixpoint erase (v : val) : val :=
  match v with
  | VPtr _ x => VPtr 0 (erase x)
  | VSl _ es _ => VSl 0 (map erase es) []
  | VMap _ kvs => VMap 0 (map (fun kv => (erase (fst kv), erase (snd kv))) kvs)
  | VArr es => VArr (map erase es)
  | VSt fs => VSt (map erase fs)
  | _ => v
  end.

(* values of comparable types carry no labels *)
Lemma erase_comparable : forall t, can_equal t = true -> forall e x, has_type e t x = true -> erase x = x.
Proof.
  induction t using ty_ind'; intros Hc e x Hx; cbn in Hc; try discriminate;
  rewrite has_type_unfold in Hx; cbn [resolve] in Hx.
  - cbn in Hx. destruct k, x; cbn in Hx; try discriminate; reflexivity.
  - destruct (is_namedish t) eqn:En; [discriminate|]. cbn [r_env r_node] in Hx.
    apply (IHt Hc ((id, (ext, t)) :: e)). rewrite has_type_unfold, (resolve_plain _ t En). exact Hx.
  - cbn in Hx. destruct x; try discriminate. apply andb_prop in Hx as [_ Hx].
    cbn. f_equal. apply forallb_Forall in Hx. induction Hx as [|a l Ha Hl IH]; cbn; [reflexivity|].
    rewrite (IHt Hc e a Ha), IH. reflexivity.
  - cbn in Hx. destruct x; try discriminate. cbn. f_equal.
    revert fs0 Hx Hc. induction H as [|fd fs Hfd Hfs IH]; intros [|a xs] Hx Hc; cbn in Hx; try discriminate; [reflexivity|].
    apply andb_prop in Hx as [Ha Hx]. apply andb_prop in Hc as [Hc1 Hc2].
    cbn. rewrite (Hfd Hc1 e a Ha), (IH xs Hx Hc2). reflexivity.
Qed.

Lemma forallb_map_erase (f : val -> bool) l :
  Forall (fun a => f a = true -> f (erase a) = true) l -> forallb f l = true -> forallb f (map erase l) = true.
Proof.
  induction 1 as [|a l Ha Hl IH]; cbn; [reflexivity|]. intros H. apply andb_prop in H as [H1 H2].
  rewrite (Ha H1), (IH H2). reflexivity.
Qed.

Theorem erase_typed_enc : forall x e t, has_type e t x = true ->
  has_type e t (erase x) = true /\ enc e t (erase x) = enc e t x.
Proof.
  induction x using val_ind'; intros e t Hx0; pose proof Hx0 as Hx;
  rewrite has_type_unfold in Hx; rewrite has_type_unfold, !enc_unfold;
  destruct (resolve e t) as [r|] eqn:R; try discriminate; cbn zeta in *;
  destruct (r_node r) eqn:N; try discriminate; cbn [erase].
  1-5: (split; [exact Hx| reflexivity]).
  all: try (cbn in Hx; destruct k; discriminate).
  - split; [exact Hx| reflexivity].
  - destruct (IHx _ _ Hx) as [T E]. split; [exact T| rewrite E; reflexivity].
  - split; reflexivity.
  - apply andb_prop in Hx as [Hx _]. apply forallb_Forall in Hx. rewrite Forall_forall in *.
    split.
    + cbn. rewrite Bool.andb_true_r. apply forallb_forall. intros a Ha.
      apply in_map_iff in Ha as [b [<- Hb]]. apply (H b Hb). apply Hx; exact Hb.
    + rewrite map_length, map_map. do 2 f_equal. apply map_ext_in. intros a Ha. apply (H a Ha). apply Hx; exact Ha.
  - split; reflexivity.
  - (* maps: keys are unchanged, values erased *)
    apply andb_prop in Hx as [Hxa Hx]. apply andb_prop in Hxa as [Ck Dx].
    apply forallb_Forall in Hx. rewrite Forall_forall in *.
    assert (KE : forall kv, In kv kvs -> erase (fst kv) = fst kv).
    { intros kv Hkv. specialize (Hx kv Hkv). cbn in Hx. apply andb_prop in Hx as [Hk _].
      apply (erase_comparable t0_1 Ck (r_env r)). exact Hk. }
    assert (ME : map (fun kv => (erase (fst kv), erase (snd kv))) kvs = map (fun kv => (fst kv, erase (snd kv))) kvs).
    { apply map_ext_in. intros kv Hkv. rewrite (KE kv Hkv). reflexivity. }
    rewrite ME. split.
    + rewrite Ck.
      replace (map fst (map (fun kv : val * val => (fst kv, erase (snd kv))) kvs)) with (map fst kvs)
        by (rewrite map_map; apply map_ext; reflexivity).
      rewrite Dx. cbn [andb].
      apply forallb_forall. intros kv' Hkv'. apply in_map_iff in Hkv' as [kv [<- Hkv]]. cbn [fst snd].
      specialize (Hx kv Hkv). cbn in Hx. apply andb_prop in Hx as [Hk Hv]. rewrite Hk. cbn [andb].
      destruct (H kv Hkv) as [_ IHv]. apply (IHv _ _ Hv).
    + rewrite map_length, map_map. cbn [fst snd]. do 4 f_equal.
      apply map_ext_in. intros kv Hkv. f_equal. f_equal.
      specialize (Hx kv Hkv). cbn in Hx. apply andb_prop in Hx as [_ Hv].
      destruct (H kv Hkv) as [_ IHv]. apply (IHv _ _ Hv).
  - apply andb_prop in Hx as [Lx Hx]. apply forallb_Forall in Hx. rewrite Forall_forall in *.
    split.
    + rewrite map_length, Lx. cbn [andb]. apply forallb_forall. intros a Ha.
      apply in_map_iff in Ha as [b [<- Hb]]. apply (H b Hb). apply Hx; exact Hb.
    + rewrite map_map. f_equal. apply map_ext_in. intros a Ha. apply (H a Ha). apply Hx; exact Ha.
  - (* structs *)
    clear N Hx0. revert fs0 Hx. induction H as [|a xs Ha Hxs IH]; intros [|fd fs0] Hx; cbn in Hx; try discriminate.
    + split; reflexivity.
    + apply andb_prop in Hx as [H1 H2]. destruct (Ha _ _ H1) as [T1 E1]. destruct (IH fs0 H2) as [T2 E2].
      cbn [map fields_ok fields_enc]. rewrite T1, E1. cbn [andb]. split; [exact T2|].
      cbn [fields_enc] in E2. rewrite E2. reflexivity.
Qed.

(* Equal does not depend on addresses or spare capacity *)
Theorem spec_eq_erase e t x y : has_type e t x = true -> has_type e t y = true ->
  spec_eq e t (erase x) (erase y) = spec_eq e t x y.
Proof.
  intros Hx Hy. destruct (erase_typed_enc x e t Hx) as [Tx Ex]. destruct (erase_typed_enc y e t Hy) as [Ty Ey].
  destruct (spec_total e t x y Hx Hy) as [c1 C1]. destruct (spec_total e t _ _ Tx Ty) as [c2 C2].
  rewrite C1, C2. f_equal.
  pose proof (enc_eq_iff e t x y Hx Hy) as I1. pose proof (enc_eq_iff e t _ _ Tx Ty) as I2.
  rewrite C1 in I1. rewrite C2 in I2. rewrite Ex, Ey in I2.
  destruct c1, c2; try reflexivity.
  - destruct I1 as [_ I1]. specialize (I1 eq_refl). apply I2 in I1. discriminate.
  - destruct I2 as [_ I2]. specialize (I2 eq_refl). apply I1 in I2. discriminate.
Qed.

(* a value is Equal to any re-addressed copy of itself with different spare capacity *)
Corollary spec_eq_same_shape e t x y : has_type e t x = true -> has_type e t y = true ->
  erase x = erase y -> spec_eq e t x y = Some true.
Proof.
  intros Hx Hy E. rewrite <- (spec_eq_erase e t x y Hx Hy), E.
  apply spec_eq_refl. apply (erase_typed_enc y e t Hy).
Qed.

(* ... nor on the order in which the entries of a map are listed (insertion/iteration order) *)
Theorem spec_eq_map_perm e t l l' xm xm' :
  has_type e t (VMap l xm) = true -> has_type e t (VMap l' xm') = true ->
  Permutation xm xm' -> spec_eq e t (VMap l xm) (VMap l' xm') = Some true.
Proof.
  intros Hx Hy P. apply (enc_eq_iff e t _ _ Hx Hy).
  pose proof Hx as Hx'. pose proof Hy as Hy'. rewrite has_type_unfold in Hx', Hy'. rewrite !enc_unfold.
  destruct (resolve e t) as [r|] eqn:R; try discriminate. cbn zeta in *.
  destruct (r_node r) as [k0|id0 ext0 u0|id0|t'|t'|n0 t'|kt vt|fs0] eqn:N; try discriminate;
    try (cbn in Hx'; destruct k0; discriminate).
  apply andb_prop in Hx' as [Hxa Hx']. apply andb_prop in Hxa as [Ck Dx].
  apply andb_prop in Hy' as [Hya Hy']. apply andb_prop in Hya as [_ Dy].
  apply forallb_Forall in Hx'. apply forallb_Forall in Hy'.
  set (e' := r_env r) in *.
  set (he := fun kv : val * val => (fst kv, (enc e' kt (fst kv), enc e' vt (snd kv)))).
  rewrite (sort_by_map fst fst he (fun _ => eq_refl) xm), (sort_by_map fst fst he (fun _ => eq_refl) xm').
  rewrite (Permutation_length P).
  assert (Tx : keys_typed e' kt xm).
  { unfold keys_typed. rewrite Forall_forall in *. intros kv Hkv. specialize (Hx' kv Hkv). cbn in Hx'.
    apply andb_prop in Hx' as [Hk _]. exact Hk. }
  assert (Ty : keys_typed e' kt xm').
  { unfold keys_typed. rewrite Forall_forall in *. intros kv Hkv. specialize (Hy' kv Hkv). cbn in Hy'.
    apply andb_prop in Hy' as [Hk _]. exact Hk. }
  assert (SC : map (code e' kt (enc e' vt)) (sort_by fst xm) = map (code e' kt (enc e' vt)) (sort_by fst xm')).
  { apply (sorted_codes e' kt Ck (enc e' vt) xm xm' Tx Ty Dx Dy (Permutation_length P)).
    intros kv Hkv. exists kv. split; [apply (Permutation_in _ P); exact Hkv| reflexivity]. }
  do 2 f_equal. rewrite !map_map.
  transitivity (map ecode (map (code e' kt (enc e' vt)) (sort_by fst xm))); [rewrite map_map; reflexivity|].
  rewrite SC, map_map. reflexivity.
Qed.
