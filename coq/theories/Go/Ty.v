(* Go/Ty.v — the supported type grammar of goderive's type-recursive plugins (C01–C06, C13,
   C14, C18), as closed terms.

   A named type carries its underlying type inline ([TN id ext under]); a reference back to
   an enclosing named type (recursive and mutually recursive declarations) is [TRef id] and
   is resolved through the environment of enclosing [TN] nodes that the models thread along.
   go/types never gives a Named type a Named underlying type; [resolve] returns [None] on
   such ill-formed terms. *)
From Coq Require Import String.
From Coq Require Export List.
From Verif Require Export Base Sexp.
Export ListNotations.
Open Scope string_scope.

(* Result of running modelled code *)
Inductive res (A : Type) : Type :=
| Ok (a : A)        (* returned normally *)
| Pan               (* run-time panic of the emitted Go *)
| Unsup             (* the generator reports the type as unsupported (or does not terminate) *)
| Stuck.            (* ill-typed input: the model does not apply *)
Arguments Ok {A} a.
Arguments Pan {A}.
Arguments Unsup {A}.
Arguments Stuck {A}.

Definition rbind {A B} (r : res A) (k : A -> res B) : res B :=
  match r with Ok a => k a | Pan => Pan | Unsup => Unsup | Stuck => Stuck end.
Notation "'rdo' x <- r ; k" := (rbind r (fun x => k))
  (at level 200, x pattern, r at level 100, k at level 200, right associativity).
Definition of_option {A} (o : option A) : res A :=
  match o with Some a => Ok a | None => Stuck end.

Inductive bkind : Type :=
| KBool
| KInt (bits : N) (signed : bool)     (* int8..int64, uint8..uint64; int/uint/uintptr = 64 *)
| KF32 | KF64 | KC64 | KC128
| KStr.

Inductive ty : Type :=
| TB (k : bkind)
| TN (id : nat) (ext : bool) (under : ty)   (* named type; ext = declared in another package *)
| TRef (id : nat)                           (* back reference to an enclosing TN *)
| TP (t : ty)
| TSl (t : ty)
| TAr (n : nat) (t : ty)
| TM (k v : ty)
| TSt (fs : list (bool * ty)).              (* fields: (unexported?, type) *)

(* induction principle that reaches into struct fields *)
Section TyInd.
Variable P : ty -> Prop.
Hypothesis HB : forall k, P (TB k).
Hypothesis HN : forall id ext u, P u -> P (TN id ext u).
Hypothesis HR : forall id, P (TRef id).
Hypothesis HP : forall t, P t -> P (TP t).
Hypothesis HSl : forall t, P t -> P (TSl t).
Hypothesis HAr : forall n t, P t -> P (TAr n t).
Hypothesis HM : forall k v, P k -> P v -> P (TM k v).
Hypothesis HSt : forall fs, Forall (fun f => P (snd f)) fs -> P (TSt fs).
Fixpoint ty_ind' (t : ty) : P t :=
  match t with
  | TB k => HB k
  | TN id ext u => HN id ext u (ty_ind' u)
  | TRef id => HR id
  | TP t => HP t (ty_ind' t)
  | TSl t => HSl t (ty_ind' t)
  | TAr n t => HAr n t (ty_ind' t)
  | TM k v => HM k v (ty_ind' k) (ty_ind' v)
  | TSt fs => HSt fs ((fix go (l : list (bool * ty)) : Forall (fun f => P (snd f)) l :=
                         match l with
                         | [] => Forall_nil _
                         | f :: l' => Forall_cons f (ty_ind' (snd f)) (go l')
                         end) fs)
  end.
End TyInd.

(* environment of enclosing named types: id -> (ext, underlying) *)
Definition tenv := list (nat * (bool * ty)).
Fixpoint tlookup (id : nat) (e : tenv) : option (bool * ty) :=
  match e with
  | [] => None
  | (i, d) :: e' => if Nat.eqb i id then Some d else tlookup id e'
  end.

Definition is_namedish (t : ty) : bool :=
  match t with TN _ _ _ | TRef _ => true | _ => false end.

(* plugin/equal canEqual = derive.IsComparable: basic, and arrays/structs of those.
   A back reference can only sit below a pointer, slice or map (Go forbids by-value
   recursion), where the answer is already false, so [TRef] is never reached by value in a
   well-formed type; it answers false. *)
Fixpoint can_equal (t : ty) : bool :=
  match t with
  | TB _ => true
  | TN _ _ u => can_equal u
  | TAr _ e => can_equal e
  | TSt fs => (fix go (l : list (bool * ty)) : bool :=
                 match l with [] => true | f :: l' => can_equal (snd f) && go l' end) fs
  | _ => false
  end.

(* one resolution step: (named info, environment for the components, underlying node) *)
Record resolved := { r_named : option (nat * bool); r_env : tenv; r_node : ty }.
Definition resolve (e : tenv) (t : ty) : option resolved :=
  match t with
  | TN id ext u =>
      if is_namedish u then None
      else Some {| r_named := Some (id, ext); r_env := (id, (ext, u)) :: e; r_node := u |}
  | TRef id =>
      match tlookup id e with
      | Some (ext, u) =>
          (* a type can refer to itself only through a pointer, slice or map, so it is not
             comparable; anything else is an ill-formed term *)
          if (is_namedish u || can_equal u)%bool then None
          else Some {| r_named := Some (id, ext); r_env := e; r_node := u |}
      | None => None
      end
  | _ => Some {| r_named := None; r_env := e; r_node := t |}
  end.

Definition is_named (r : resolved) : bool :=
  match r_named r with Some _ => true | None => false end.
Definition is_ext (r : resolved) : bool :=
  match r_named r with Some (_, x) => x | None => false end.

Definition is_byte (t : ty) : bool :=
  match t with TB (KInt w s) => (N.eqb w 8 && negb s)%bool | _ => false end.
Definition is_struct (t : ty) : bool := match t with TSt _ => true | _ => false end.

(* ---------- parsing from the interchange format ---------- *)
Definition kind_of_sym (s : string) : option bkind :=
  if String.eqb s "bool" then Some KBool
  else if String.eqb s "f32" then Some KF32
  else if String.eqb s "f64" then Some KF64
  else if String.eqb s "c64" then Some KC64
  else if String.eqb s "c128" then Some KC128
  else if String.eqb s "string" then Some KStr
  else None.

Fixpoint parse_ty (e : sexp) : option ty :=
  match e with
  | Sym s => option_map TB (kind_of_sym s)
  | Num _ => None
  | L (Sym h :: args) =>
      if String.eqb h "int" then
        match args with
        | [Num w; Num s] => Some (TB (KInt (Z.to_N w) (Z.eqb s 1)))
        | _ => None
        end
      else if String.eqb h "named" then
        match args with
        | [Num id; Num x; u] => option_map (TN (Z.to_nat id) (Z.eqb x 1)) (parse_ty u)
        | _ => None
        end
      else if String.eqb h "ref" then
        match args with [Num id] => Some (TRef (Z.to_nat id)) | _ => None end
      else if String.eqb h "ptr" then
        match args with [a] => option_map TP (parse_ty a) | _ => None end
      else if String.eqb h "slice" then
        match args with [a] => option_map TSl (parse_ty a) | _ => None end
      else if String.eqb h "array" then
        match args with [Num n; a] => option_map (TAr (Z.to_nat n)) (parse_ty a) | _ => None end
      else if String.eqb h "map" then
        match args with
        | [k; v] => match parse_ty k, parse_ty v with
                    | Some k', Some v' => Some (TM k' v') | _, _ => None end
        | _ => None
        end
      else if String.eqb h "struct" then
        option_map TSt
          ((fix go (l : list sexp) : option (list (bool * ty)) :=
              match l with
              | [] => Some []
              | L [Num p; a] :: l' =>
                  match parse_ty a, go l' with
                  | Some t, Some r => Some ((Z.eqb p 1, t) :: r)
                  | _, _ => None
                  end
              | _ => None
              end) args)
      else None
  | L _ => None
  end.
