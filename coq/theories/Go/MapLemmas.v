(* Go/MapLemmas.v — maps as entry lists with pairwise different (under ==) keys of a comparable
   type: look-up is determined by the key's encoding, and two maps whose entries correspond
   have, after sorting by key, the same list of (key code, value code) pairs. *)
From Verif Require Import Go.Ty Go.Val Go.Equal Go.EqualProofs Go.Compare Go.CompareSpec
  Go.ListOrder Go.KeyOrder Go.SortLemmas Go.CompareProofs.
From Coq Require Import Lia Permutation Sorted.
Open Scope Z_scope.

Section Keys.
Variable e : tenv.
Variable kt : ty.
Hypothesis Ck : can_equal kt = true.
Notation KT k := (has_type e kt k = true).

Lemma geq_iff_enc x y : KT x -> KT y -> (go_eqeq x y = true <-> enc e kt x = enc e kt y).
Proof.
  intros Hx Hy. destruct (key_pair kt Ck e x y Hx Hy) as (a & b & Ea & Eb & K).
  rewrite Ea, Eb, (ko_eq _ _ _ _ K). split; [intros ->; reflexivity| intros H; inversion H; reflexivity].
Qed.

Lemma cmp_iff_enc x y a b : KT x -> KT y -> enc e kt x = Some a -> enc e kt y = Some b ->
  cmp_val x y = lexcmp a b.
Proof.
  intros Hx Hy Ea Eb. destruct (key_pair kt Ck e x y Hx Hy) as (a' & b' & Ea' & Eb' & K).
  rewrite Ea in Ea'. rewrite Eb in Eb'. inversion Ea'; inversion Eb'; subst. apply K.
Qed.

Definition keys_typed (m : list (val * val)) : Prop := Forall (fun kv => KT (fst kv)) m.

Lemma distinct_NoDup m : keys_typed m -> keys_distinct (map fst m) = true ->
  NoDup (map (fun kv => enc e kt (fst kv)) m).
Proof.
  induction m as [|kv m IH]; intros T D; cbn in *; [constructor|].
  inversion T as [|? ? Tk Tm]; subst. apply andb_prop in D as [D1 D2].
  constructor; [|apply IH; assumption].
  intros Hin. apply in_map_iff in Hin as [kv' [E Hin]].
  apply Bool.negb_true_iff in D1.
  assert (existsb (go_eqeq (fst kv)) (map fst m) = true); [|congruence].
  apply existsb_exists. exists (fst kv'). split; [apply in_map; exact Hin|].
  rewrite Forall_forall in Tm. apply geq_iff_enc; [exact Tk| apply Tm; exact Hin| symmetry; exact E].
Qed.

(* look-up finds the entry whose key has the same encoding *)
Lemma map_get_unique m : keys_typed m -> NoDup (map (fun kv => enc e kt (fst kv)) m) ->
  forall k k' v', KT k -> In (k', v') m -> enc e kt k' = enc e kt k -> map_get k m = Some v'.
Proof.
  induction m as [|[k0 v0] m IH]; intros T ND k k' v' Hk Hin E; [destruct Hin|].
  inversion T as [|? ? Tk Tm]; subst. inversion ND as [|? ? Nin ND']; subst. cbn [fst] in *.
  cbn [map_get]. destruct (go_eqeq k0 k) eqn:G.
  - apply (geq_iff_enc k0 k Tk Hk) in G.
    destruct Hin as [Hin|Hin]; [inversion Hin; subst; reflexivity|].
    exfalso. apply Nin. apply in_map_iff. exists (k', v'). split; [cbn; congruence| exact Hin].
  - destruct Hin as [Hin|Hin].
    + inversion Hin; subst. apply (geq_iff_enc k' k Tk Hk) in E. congruence.
    + apply (IH Tm ND' k k' v' Hk Hin E).
Qed.

Lemma map_get_key m k v : keys_typed m -> KT k -> map_get k m = Some v ->
  exists k', In (k', v) m /\ enc e kt k' = enc e kt k.
Proof.
  induction m as [|[k0 v0] m IH]; intros T Hk G; cbn in G; [discriminate|].
  inversion T as [|? ? Tk Tm]; subst. cbn [fst] in *.
  destruct (go_eqeq k0 k) eqn:Q.
  - inversion G; subst. exists k0. split; [left; reflexivity| apply (geq_iff_enc k0 k Tk Hk); exact Q].
  - destruct (IH Tm Hk G) as (k' & Hin & E). exists k'. split; [right; exact Hin| exact E].
Qed.

(* ---------- sorted entries of corresponding maps ---------- *)
Variable nu : val -> option (list Z).
Definition code (kv : val * val) : option (list Z) * option (list Z) := (enc e kt (fst kv), nu (snd kv)).

Definition code_le (p q : option (list Z) * option (list Z)) : Prop :=
  match fst p, fst q with Some a, Some b => lexcmp a b <= 0 | _, _ => False end.

Lemma sorted_codes xm ym :
  keys_typed xm -> keys_typed ym ->
  keys_distinct (map fst xm) = true -> keys_distinct (map fst ym) = true ->
  length xm = length ym ->
  (forall kv, In kv xm -> exists kv', In kv' ym /\ code kv = code kv') ->
  map code (sort_by fst xm) = map code (sort_by fst ym).
Proof.
  intros Tx Ty Dx Dy El Hincl.
  assert (KA : forall x y, KT x -> KT y -> cmp_val y x = - cmp_val x y)
    by (intros x y Hx Hy; apply (cmp_val_antisym kt e x y Ck Hx Hy)).
  assert (KTr : forall x y z, KT x -> KT y -> KT z -> cmp_val x y <= 0 -> cmp_val y z <= 0 -> cmp_val x z <= 0)
    by (intros x y z Hx Hy Hz; apply (cmp_val_le_trans kt e x y z Ck Hx Hy Hz)).
  (* sortedness of the code lists *)
  assert (SS : forall m, keys_typed m -> StronglySorted code_le (map code (sort_by fst m))).
  { intros m Tm. apply (StronglySorted_map (le_key fst) code_le).
    - intros a b Ha Hb L. apply sort_by_In in Ha. apply sort_by_In in Hb.
      unfold keys_typed in Tm. rewrite Forall_forall in Tm.
      destruct (enc_total (fst a) e kt (Tm a Ha)) as [ca Ea]. destruct (enc_total (fst b) e kt (Tm b Hb)) as [cb Eb].
      unfold code_le, code. cbn [fst]. rewrite Ea, Eb.
      unfold le_key in L. rewrite (cmp_iff_enc _ _ ca cb (Tm a Ha) (Tm b Hb) Ea Eb) in L. exact L.
    - apply (sort_by_sorted fst (fun k => KT k) KA KTr). exact Tm. }
  apply (sorted_perm_unique_gen code_le); [apply SS; exact Tx| apply SS; exact Ty| |].
  - (* the code lists are permutations of each other *)
    transitivity (map code xm); [apply Permutation_map, sort_by_perm|].
    transitivity (map code ym); [|apply Permutation_map, Permutation_sym, sort_by_perm].
    apply NoDup_Permutation_bis.
    + pose proof (distinct_NoDup xm Tx Dx) as ND.
      clear -ND. induction xm as [|kv m IH]; cbn in *; [constructor|].
      inversion ND as [|? ? Nin ND']; subst. constructor; [|apply IH; exact ND'].
      intros Hin. apply Nin. apply in_map_iff in Hin as [kv' [E Hin]].
      apply in_map_iff. exists kv'. split; [|exact Hin]. unfold code in E. inversion E. reflexivity.
    + rewrite !map_length. lia.
    + intros c Hc. apply in_map_iff in Hc as [kv [<- Hkv]].
      destruct (Hincl kv Hkv) as (kv' & Hin' & E). rewrite E. apply in_map. exact Hin'.
  - (* codes with interchangeable keys are the same code *)
    intros p q Hp Hq L1 L2.
    apply in_map_iff in Hp as [a [<- Ha]]. apply in_map_iff in Hq as [b [<- Hb]].
    apply sort_by_In in Ha. apply sort_by_In in Hb.
    unfold keys_typed in Tx. rewrite Forall_forall in Tx.
    destruct (enc_total (fst a) e kt (Tx a Ha)) as [ca Ea]. destruct (enc_total (fst b) e kt (Tx b Hb)) as [cb Eb].
    unfold code_le, code in L1, L2. cbn [fst] in L1, L2. rewrite Ea, Eb in L1, L2.
    assert (ca = cb).
    { apply lexcmp_eq. rewrite (lexcmp_antisym ca cb) in L2. lia. }
    subst cb.
    (* same key code within one map: same entry *)
    assert (a = b); [|subst; reflexivity].
    pose proof (distinct_NoDup xm (proj2 (Forall_forall _ _) Tx) Dx) as ND.
    clear -ND Ha Hb Ea Eb.
    induction xm as [|kv m IH]; [destruct Ha|]. cbn in ND. inversion ND as [|? ? Nin ND']; subst.
    destruct Ha as [->|Ha]; destruct Hb as [->|Hb]; try reflexivity.
    + exfalso. apply Nin. apply in_map_iff. exists b. split; [congruence| exact Hb].
    + exfalso. apply Nin. apply in_map_iff. exists a. split; [congruence| exact Ha].
    + apply IH; assumption.
Qed.
End Keys.
