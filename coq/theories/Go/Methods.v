(* Go/Methods.v — user-declared Equal / Compare methods on named types.

   "where a named component declares its own Equal method the answer at that component is that
   method's" (C02; likewise Compare in C03).  The theorems of EqualProofs/CompareProofs are
   about types without such methods; this file extends the two models with the generator's
   method dispatch (plugin/equal field / equalMethodInputParam, plugin/compare field /
   compareMethodInputParam) so that the correspondence run also exercises it.

   Which named types have methods is fixed by convention on the declaration id (the harness
   declares them that way):   100..199  Equal(T) bool and Compare(T) int with value receiver/param
                              200..299  Equal( *T) bool and Compare( *T) int with pointer receiver/param
   and the methods the harness writes look at the FIRST field only (so that their answer differs
   from structural equality and a dispatch that ignores them is visible):
       func (a T) Equal(b T) bool { return a.F0 == b.F0 }
       func (a *T) Equal(b *T) bool { if a == nil || b == nil { return a == nil && b == nil }; return a.F0 == b.F0 }

   A further class (C13): methods whose Compare returns a MAGNITUDE, not -1/0/+1, and whose
   order is not the field-by-field order: the first field F0 is an insignificant label, the
   SECOND field F1 (a small integer type, so that the difference cannot overflow int) decides:
                              300..349  value receiver/parameter
                              350..399  pointer receiver/parameter
       func (a T) Equal(b T) bool  { return a.F1 == b.F1 }
       func (a T) Compare(b T) int { return int(a.F1) - int(b.F1) }
       func (a *T) Compare(b *T) int { <nil first, as above>; return int(a.F1) - int(b.F1) } *)
From Verif Require Import Go.Ty Go.Val Go.Equal Go.Compare.
Open Scope Z_scope.

(* one pass over the (unary) id: id / 50 is 2, 3 for 100..199; 4, 5 for 200..299; 6 for 300..349;
   7 for 350..399 (the evaluator asks at every named node of every comparison) *)
Definition meth_kind (id : nat) : option bool :=      (* Some ptr_param *)
  match Nat.div id 50 with
  | 2%nat | 3%nat => Some false
  | 4%nat | 5%nat => Some true
  | 6%nat => Some false
  | 7%nat => Some true
  | _ => None
  end.

(* the magnitude class: the methods look at the second field and Compare returns a difference *)
Definition meth_mag (id : nat) : bool :=
  match Nat.div id 50 with 6%nat | 7%nat => true | _ => false end.

Example meth_kind_bounds :
  map meth_kind [99; 100; 199; 200; 299; 300; 349; 350; 399; 400]%nat
  = [None; Some false; Some false; Some true; Some true; Some false; Some false; Some true; Some true; None] /\
  map meth_mag [299; 300; 399; 400]%nat = [false; true; true; false].
Proof. split; reflexivity. Qed.

Definition r_meth (r : resolved) : option bool :=
  match r_named r with Some (id, _) => meth_kind id | None => None end.
Definition r_mag (r : resolved) : bool :=
  match r_named r with Some (id, _) => meth_mag id | None => false end.

Fixpoint method_free (t : ty) : bool :=
  match t with
  | TB _ => true
  | TRef id | TN id _ (TB _) => match meth_kind id with Some _ => false | None => true end
  | TN id _ u => match meth_kind id with Some _ => false | None => method_free u end
  | TP t' | TSl t' | TAr _ t' => method_free t'
  | TM k v => (method_free k && method_free v)%bool
  | TSt fs => (fix go (l : list (bool * ty)) : bool :=
                 match l with [] => true | f :: l' => method_free (snd f) && go l' end)%bool fs
  end.

(* Known finding C03-compare-ignores-value-method: for a named type whose Compare method takes a
   VALUE, plugin/compare honours the method for a value component but, at top level and behind a
   pointer, generates the field-wise helper for the pointer type ("fall through to dereferencing"
   never dereferences), whereas plugin/equal dereferences and calls the Equal method.  With
   user methods that are consistent with each other, derived Compare can then be non-zero where
   derived Equal holds.  [vm_exposed t]: t is such a type, or contains a pointer to one. *)
Definition is_vm (t : ty) : bool :=
  match t with
  | TN id _ _ | TRef id => match meth_kind id with Some false => true | _ => false end
  | _ => false
  end.
Fixpoint has_ptr_vm (t : ty) : bool :=
  match t with
  | TB _ | TRef _ => false
  | TN _ _ u => has_ptr_vm u
  | TP t' => (is_vm t' || has_ptr_vm t')%bool
  | TSl t' | TAr _ t' => has_ptr_vm t'
  | TM k v => (has_ptr_vm k || has_ptr_vm v)%bool
  | TSt fs => (fix go (l : list (bool * ty)) : bool :=
                 match l with [] => false | f :: l' => has_ptr_vm (snd f) || go l' end)%bool fs
  end.
Definition vm_exposed (t : ty) : bool := (is_vm t || has_ptr_vm t)%bool.

(* the harness' methods *)
Definition first_eq (x y : val) : res bool :=
  match x, y with
  | VSt (a :: _), VSt (b :: _) => Ok (go_eqeq a b)
  | _, _ => Stuck
  end.
Definition first_eq_ptr (x y : val) : res bool :=
  match x, y with
  | VNilP, VNilP => Ok true
  | VNilP, VPtr _ _ | VPtr _ _, VNilP => Ok false
  | VPtr _ a, VPtr _ b => first_eq a b
  | _, _ => Stuck
  end.
Definition first_cmp (x y : val) : res Z :=
  match x, y with
  | VSt (a :: _), VSt (b :: _) => Ok (cmp_val a b)
  | _, _ => Stuck
  end.
Definition first_cmp_ptr (x y : val) : res Z :=
  match x, y with
  | VNilP, VNilP => Ok 0
  | VNilP, VPtr _ _ => Ok (-1)
  | VPtr _ _, VNilP => Ok 1
  | VPtr _ a, VPtr _ b => first_cmp a b
  | _, _ => Stuck
  end.

(* the methods of the magnitude class (ids 300..399) *)
Definition second_eq (x y : val) : res bool :=
  match x, y with
  | VSt (_ :: a :: _), VSt (_ :: b :: _) => Ok (go_eqeq a b)
  | _, _ => Stuck
  end.
Definition second_eq_ptr (x y : val) : res bool :=
  match x, y with
  | VNilP, VNilP => Ok true
  | VNilP, VPtr _ _ | VPtr _ _, VNilP => Ok false
  | VPtr _ a, VPtr _ b => second_eq a b
  | _, _ => Stuck
  end.
Definition second_mag (x y : val) : res Z :=
  match x, y with
  | VSt (_ :: VInt a :: _), VSt (_ :: VInt b :: _) => Ok (a - b)
  | _, _ => Stuck
  end.
Definition second_mag_ptr (x y : val) : res Z :=
  match x, y with
  | VNilP, VNilP => Ok 0
  | VNilP, VPtr _ _ => Ok (-1)
  | VPtr _ _, VNilP => Ok 1
  | VPtr _ a, VPtr _ b => second_mag a b
  | _, _ => Stuck
  end.
(* the user's method of a named type, by class *)
Definition meth_eq (mag : bool) := if mag then second_eq else first_eq.
Definition meth_eq_ptr (mag : bool) := if mag then second_eq_ptr else first_eq_ptr.
Definition meth_cmp (mag : bool) := if mag then second_mag else first_cmp.
Definition meth_cmp_ptr (mag : bool) := if mag then second_mag_ptr else first_cmp_ptr.

(* ---------- Equal with method dispatch ---------- *)
Inductive mstrat := MPlain (s : strat) | MMeth | MMethPtr | MMethMag | MMethPtrMag.

(* canEqual of plugin/equal since the fix "a type with its own Equal method is not compared with ==":
   a type that is, or contains by value (array element, struct field), a named type with an Equal
   method is not ==-comparable for the generator, so that the method answers at that component.
   On method-free types it is [can_equal]. *)
Fixpoint has_meth_val (t : ty) : bool :=
  match t with
  | TB _ => false
  | TN id _ u => match meth_kind id with Some _ => true | None => has_meth_val u end
  | TRef id => match meth_kind id with Some _ => true | None => false end
  | TP _ | TSl _ | TM _ _ => false
  | TAr _ t' => has_meth_val t'
  | TSt fs => (fix go (l : list (bool * ty)) : bool :=
                 match l with [] => false | f :: l' => has_meth_val (snd f) || go l' end)%bool fs
  end.
Definition can_equal_m (t : ty) : bool := (can_equal t && negb (has_meth_val t))%bool.
(* the pinned behaviour (before the fix): == whenever Go allows it, methods or not *)
Definition can_equal_old (t : ty) : bool := can_equal t.

(* [Equal.strategy] with the comparability test as a parameter *)
Definition strategy_g (ce : ty -> bool) (e : tenv) (m : mode) (t : ty) : strat :=
  match resolve e t with
  | None => SStuck
  | Some r =>
      let e' := r_env r in
      match m with
      | Top =>
          match r_node r with
          | TB _ => SEqEq
          | TP rt => strat_ptr e' rt
          | TSt fs => if is_named r then SFields e' fs
                      else if ce t then SEqEq else SFields e' fs
          | TSl et => SSlice e' et
          | TAr _ et => SArray e' et
          | TM _ vt => SMap e' vt
          | _ => SStuck
          end
      | Fld =>
          if ce t then SEqEq else
          match r_node r with
          | TP rt =>
              match resolve e' rt with
              | None => SStuck
              | Some rr => if is_named rr then strat_ptr e' rt else SPtrInline e' rt
              end
          | TAr _ et => SArray e' et
          | TSl et => if is_byte et then SBytes else SSlice e' et
          | TM _ vt => SMap e' vt
          | TSt fs => SFields e' fs
          | _ => SStuck
          end
      end
  end.
Lemma strategy_g_can_equal e m t : strategy_g can_equal e m t = strategy e m t.
Proof. reflexivity. Qed.

(* plugin/equal field: the method test comes first; genStatement (Top) reaches it for a named
   struct through field(&this, &that, *T); a top-level pointer is compared field by field (that
   is what the user's method itself calls) *)
Definition strategy_mg (ce : ty -> bool) (e : tenv) (m : mode) (t : ty) : mstrat :=
  match resolve e t with
  | None => MPlain SStuck
  | Some r =>
      match r_meth r, m, r_node r with
      | Some _, Fld, _ => if r_mag r then MMethMag else MMeth
      | Some _, Top, TSt _ => if r_mag r then MMethMag else MMeth
      | _, Fld, TP rt =>
          match resolve (r_env r) rt with
          | Some rr => match r_meth rr with
                       | Some true => if r_mag rr then MMethPtrMag else MMethPtr
                       | Some false => MPlain (SPtrInline (r_env r) rt)   (* falls through to the dereference *)
                       | None => MPlain (strategy_g ce e m t)
                       end
          | None => MPlain SStuck
          end
      | _, _, _ => MPlain (strategy_g ce e m t)
      end
  end.

Fixpoint eqm_mg (ce : ty -> bool) (e : tenv) (m : mode) (t : ty) (x y : val) {struct x} : res bool :=
  match strategy_mg ce e m t with
  | MMeth => first_eq x y
  | MMethPtr => first_eq_ptr x y
  | MMethMag => second_eq x y
  | MMethPtrMag => second_eq_ptr x y
  | MPlain s =>
  match s with
  | SEqEq => Ok (go_eqeq x y)
  | SPtrNoStruct e' rt =>
      match x, y with
      | VNilP, VNilP => Ok true
      | VPtr _ x', VPtr _ y' => eqm_mg ce e' Top rt x' y'
      | VNilP, VPtr _ _ | VPtr _ _, VNilP => Ok false
      | _, _ => Stuck
      end
  | SPtrStruct e' fs =>
      match x, y with
      | VNilP, VNilP => Ok true
      | VPtr _ (VSt xs), VPtr _ (VSt ys) => fields_r (fun ft a b => eqm_mg ce e' Fld ft a b) fs xs ys
      | VNilP, VPtr _ _ | VPtr _ _, VNilP => Ok false
      | _, _ => Stuck
      end
  | SPtrInline e' rt =>
      match x, y with
      | VNilP, VNilP => Ok true
      | VPtr _ x', VPtr _ y' => eqm_mg ce e' Fld rt x' y'
      | VNilP, VPtr _ _ | VPtr _ _, VNilP => Ok false
      | _, _ => Stuck
      end
  | SBytes => bytes_equal x y
  | SSlice e' et =>
      match x, y with
      | VNilS, VNilS => Ok true
      | VNilS, VSl _ _ _ | VSl _ _ _, VNilS => Ok false
      | VSl _ xs _, VSl _ ys _ =>
          if negb (Nat.eqb (List.length xs) (List.length ys)) then Ok false
          else elems_r (fun a b => eqm_mg ce e' Fld et a b) xs ys
      | _, _ => Stuck
      end
  | SArray e' et =>
      match x, y with
      | VArr xs, VArr ys => elems_r (fun a b => eqm_mg ce e' Fld et a b) xs ys
      | _, _ => Stuck
      end
  | SMap e' vt =>
      match x, y with
      | VNilM, VNilM => Ok true
      | VNilM, VMap _ _ | VMap _ _, VNilM => Ok false
      | VMap _ xm, VMap _ ym =>
          if negb (Nat.eqb (List.length xm) (List.length ym)) then Ok false
          else entries_r (fun a b => eqm_mg ce e' Fld vt a b) xm ym
      | _, _ => Stuck
      end
  | SFields e' fs =>
      match x, y with
      | VSt xs, VSt ys => fields_r (fun ft a b => eqm_mg ce e' Fld ft a b) fs xs ys
      | _, _ => Stuck
      end
  | SUnsup => Unsup
  | SStuck => Stuck
  end
  end.

(* the current generator, and the pinned one (== wherever Go allows it) *)
Definition strategy_m := strategy_mg can_equal_m.
Definition eqm_m := eqm_mg can_equal_m.
Definition eqm_m_old := eqm_mg can_equal_old.


(* ---------- Compare with method dispatch (plugin/compare field) ---------- *)
(* [entries_c] of Go/Compare.v with the comparison of two different keys as a closure too *)
Fixpoint entries_cm (xe : list (val * ((val -> res Z) * (val -> res Z)))) (ye : list (val * val)) : res Z :=
  match xe, ye with
  | [], [] => Ok 0
  | (kx, (cx, ck)) :: xe', (ky, vy) :: ye' =>
      rdo c <- (if go_eqeq kx ky then cx vy else ck ky);
      if Z.eqb c 0 then entries_cm xe' ye' else Ok c
  | _, _ => Stuck
  end.

Fixpoint cmpm_m (top : bool) (e : tenv) (t : ty) (x y : val) {struct x} : res Z :=
  match resolve e t with
  | None => Stuck
  | Some r =>
      let e' := r_env r in
      (* a component of a type with a Compare method: the method decides; a top-level named
         struct is compared through field(&this, &that, *T), which uses a pointer-parameter method
         but generates the field-wise helper when the method takes a value *)
      match r_meth r, top with
      | Some _, false => meth_cmp (r_mag r) x y        (* field: this.F.Compare(that.F) / (&that.F) *)
      | Some true, true => if is_struct (r_node r) then meth_cmp (r_mag r) x y   (* (&this).Compare(&that) *)
                           else Stuck
      | _, _ =>
      match r_node r with
      | TB k => of_option (leaf_cmp k x y)
      | TP rt =>
          match resolve e' rt with
          | None => Stuck
          | Some rr =>
              match r_meth rr, top with
              | Some true, false => meth_cmp_ptr (r_mag rr) x y  (* this.F.Compare(that.F) *)
              | _, _ =>
                match x, y with
                | VNilP, VNilP => Ok 0
                | VNilP, VPtr _ _ => Ok (-1)
                | VPtr _ _, VNilP => Ok 1
                | VPtr _ x', VPtr _ y' =>
                    match r_node rr, is_named rr, x', y' with
                    | TSt fs, true, VSt xs, VSt ys =>
                        fields_c (fun ft a b => cmpm_m false (r_env rr) ft a b) fs xs ys
                    | TSt _, true, _, _ => Stuck
                    | _, _, _, _ => cmpm_m true e' rt x' y'
                    end
                | _, _ => Stuck
                end
              end
          end
      | TSt fs =>
          if is_named r then
            match x, y with
            | VSt xs, VSt ys => fields_c (fun ft a b => cmpm_m false e' ft a b) fs xs ys
            | _, _ => Stuck
            end
          else Unsup
      | TSl et =>
          match x, y with
          | VNilS, VNilS => Ok 0
          | VNilS, VSl _ _ _ => Ok (-1)
          | VSl _ _ _, VNilS => Ok 1
          | VSl _ xs _, VSl _ ys _ =>
              if negb (Nat.eqb (List.length xs) (List.length ys))
              then Ok (if Nat.ltb (List.length xs) (List.length ys) then -1 else 1)
              else elems_c (fun a b => cmpm_m false e' et a b) xs ys
          | _, _ => Stuck
          end
      | TAr _ et =>
          match x, y with
          | VArr xs, VArr ys =>
              if negb (Nat.eqb (List.length xs) (List.length ys))
              then Ok (if Nat.ltb (List.length xs) (List.length ys) then -1 else 1)
              else elems_c (fun a b => cmpm_m false e' et a b) xs ys
          | _, _ => Stuck
          end
      | TM kt vt =>
          match x, y with
          | VNilM, VNilM => Ok 0
          | VNilM, VMap _ _ => Ok (-1)
          | VMap _ _, VNilM => Ok 1
          | VMap _ xm, VMap _ ym =>
              if negb (Nat.eqb (List.length xm) (List.length ym))
              then Ok (if Nat.ltb (List.length xm) (List.length ym) then -1 else 1)
              else if negb (key_sup kt) then Unsup
              else if method_free kt then
                let xe := map (fun kv => (fst kv, fun vy => cmpm_m false e' vt (snd kv) vy)) xm in
                entries_c (sort_by fst xe) (sort_by fst ym)
              else
                (* a key type with a Compare method: keys that are not == are compared by
                   field(thiskey, thatkey, K), i.e. by the method; the key lists are sorted by
                   deriveSort([]K), i.e. by deriveCompare(K, K), which for a comparable K with a
                   value-parameter method is the field-wise helper (= cmp_val) *)
                let xe := map (fun kv => (fst kv, (fun vy => cmpm_m false e' vt (snd kv) vy,
                                                   fun ky => cmpm_m false e' kt (fst kv) ky))) xm in
                entries_cm (sort_by fst xe) (sort_by fst ym)
          | _, _ => Stuck
          end
      | _ => Stuck
      end
      end
  end.
