(* Go/Canon.v — the encoding is a canonical form for structural equality:
     enc x = enc y  <->  spec_eq x y = Some true        (well-typed x, y of one type)
   Consequences: structural equality is an equivalence relation, derived Compare returns 0
   exactly on structurally equal values, and (HashProofs) equal values hash alike. *)
From Verif Require Import Go.Ty Go.Val Go.Equal Go.EqualProofs Go.Compare Go.CompareSpec
  Go.ListOrder Go.KeyOrder Go.SortLemmas Go.CompareProofs Go.MapLemmas.
From Coq Require Import Lia Permutation.
Open Scope Z_scope.

Lemma enc_AL e t x y a b : has_type e t x = true -> has_type e t y = true ->
  enc e t x = Some a -> enc e t y = Some b -> AL a b.
Proof.
  intros Hx Hy Ea Eb. destruct (cmpm_enc x e t y Hx Hy) as (a' & b' & Ea' & Eb' & A & _).
  rewrite Ea in Ea'. rewrite Eb in Eb'. inversion Ea'; inversion Eb'; subst. exact A.
Qed.

Lemma spec_total e t x y : has_type e t x = true -> has_type e t y = true ->
  exists c, spec_eq e t x y = Some c.
Proof. intros Hx Hy. destruct (eqm_spec x e Top t y Hx Hy) as [T _]. exact T. Qed.

(* what the induction establishes for a pair of values of one type *)
Definition eq_ok (oa ob : option (list Z)) (s : option bool) : Prop :=
  exists a b, oa = Some a /\ ob = Some b /\ AL a b /\ (exists c, s = Some c) /\ (a = b <-> s = Some true).

Lemma oand_true p q : oand p q = Some true <-> p = Some true /\ q = Some true.
Proof.
  destruct p as [[]|], q as [[]|]; cbn; split; intros H; try discriminate; try (destruct H; discriminate); auto.
Qed.

Lemma eq_ok_app oa1 ob1 s1 oa2 ob2 s2 a1 b1 a2 b2 :
  oa1 = Some a1 -> ob1 = Some b1 -> oa2 = Some a2 -> ob2 = Some b2 ->
  eq_ok oa1 ob1 s1 -> eq_ok oa2 ob2 s2 ->
  eq_ok (Some (a1 ++ a2)%list) (Some (b1 ++ b2)%list) (oand s1 s2).
Proof.
  intros -> -> -> -> (a & b & Ea & Eb & A1 & (c1 & C1) & I1) (a' & b' & Ea' & Eb' & A2 & (c2 & C2) & I2).
  inversion Ea; inversion Eb; inversion Ea'; inversion Eb'; subst.
  exists (a ++ a')%list, (b ++ b')%list. split; [reflexivity|]. split; [reflexivity|].
  split; [apply AL_app; assumption|]. split; [cbn; eexists; reflexivity|].
  change (oand (Some c1) (Some c2)) with (oand (Some c1) (Some c2)).
  rewrite oand_true. split.
  - intros E. destruct (AL_app_inj _ _ _ _ A1 E) as [E1 E2]. split; [apply I1; exact E1| apply I2; exact E2].
  - intros [H1 H2]. apply I1 in H1. apply I2 in H2. subst. reflexivity.
Qed.

(* ---------- lists ---------- *)
Lemma elems_eq_ok (f : val -> option (list Z)) (g : val -> val -> option bool) (P : val -> Prop) xs :
  Forall (fun a => forall b, P b -> eq_ok (f a) (f b) (g a b)) xs ->
  forall ys, Forall P ys -> length xs = length ys ->
  eq_ok (oconcat (map f xs)) (oconcat (map f ys)) (all2o g xs ys).
Proof.
  induction 1 as [|a xs Ha Hxs IH]; intros [|b ys] Hys Hl; cbn in Hl; try discriminate.
  - exists [], []. cbn. split; [reflexivity|]. split; [reflexivity|]. split; [apply AL_nil|].
    split; [eexists; reflexivity| split; reflexivity].
  - inversion Hys; subst. pose proof (Ha b H1) as K1. pose proof (IH ys H2 ltac:(lia)) as K2.
    destruct K1 as (a1 & b1 & Ea & Eb & R1). destruct K2 as (a2 & b2 & Ea2 & Eb2 & R2).
    cbn [map oconcat all2o]. rewrite Ea, Eb, Ea2, Eb2.
    apply (eq_ok_app (f a) (f b) (g a b) (oconcat (map f xs)) (oconcat (map f ys)) (all2o g xs ys)); try assumption.
    + exists a1, b1. repeat (split; [assumption|]). exact R1.
    + exists a2, b2. repeat (split; [assumption|]). exact R2.
Qed.

Lemma fields_eq_ok (f : ty -> val -> option (list Z)) (g : ty -> val -> val -> option bool)
      (ht : ty -> val -> bool) xs :
  Forall (fun a => forall ft b, ht ft a = true -> ht ft b = true -> eq_ok (f ft a) (f ft b) (g ft a b)) xs ->
  forall fs ys, fields_ok ht fs xs = true -> fields_ok ht fs ys = true ->
  eq_ok (fields_enc f fs xs) (fields_enc f fs ys) (fields_o g fs xs ys).
Proof.
  induction 1 as [|a xs Ha Hxs IH]; intros [|fd fs] [|b ys] Tx Ty; cbn in Tx, Ty; try discriminate.
  - exists [], []. cbn. split; [reflexivity|]. split; [reflexivity|]. split; [apply AL_nil|].
    split; [eexists; reflexivity| split; reflexivity].
  - apply andb_prop in Tx as [Tx1 Tx]. apply andb_prop in Ty as [Ty1 Ty].
    pose proof (Ha (snd fd) b Tx1 Ty1) as K1. pose proof (IH fs ys Tx Ty) as K2.
    destruct K1 as (a1 & b1 & Ea & Eb & R1). destruct K2 as (a2 & b2 & Ea2 & Eb2 & R2).
    cbn [fields_enc fields_o]. rewrite Ea, Eb, Ea2, Eb2.
    apply (eq_ok_app (f (snd fd) a) (f (snd fd) b) (g (snd fd) a b)
                     (fields_enc f fs xs) (fields_enc f fs ys) (fields_o g fs xs ys)); try assumption.
    + exists a1, b1. repeat (split; [assumption|]). exact R1.
    + exists a2, b2. repeat (split; [assumption|]). exact R2.
Qed.

(* ---------- maps ---------- *)
Lemma entries_o_true (g : val -> val -> option bool) xm ym :
  (forall kv, In kv xm -> exists v', map_get (fst kv) ym = Some v' /\ g (snd kv) v' = Some true) ->
  entries_o g xm ym = Some true.
Proof.
  induction xm as [|kv xm IH]; intros H; cbn; [reflexivity|].
  destruct (H kv (or_introl eq_refl)) as (v' & G & T). rewrite G, T.
  rewrite IH; [reflexivity|]. intros kv' Hin. apply H. right. exact Hin.
Qed.

Lemma entries_o_true_inv (g : val -> val -> option bool) xm ym :
  entries_o g xm ym = Some true ->
  forall kv, In kv xm -> exists v', map_get (fst kv) ym = Some v' /\ g (snd kv) v' = Some true.
Proof.
  induction xm as [|kv xm IH]; intros H kv' Hin; [destruct Hin|].
  cbn in H. apply oand_true in H as [H1 H2].
  destruct Hin as [<-|Hin]; [|apply IH; assumption].
  destruct (map_get (fst kv) ym) as [v'|]; [|discriminate]. exists v'. split; [reflexivity| exact H1].
Qed.

Lemma entries_o_total (g : val -> val -> option bool) (P : val -> Prop) xm ym :
  Forall (fun kv => forall v', P v' -> exists c, g (snd kv) v' = Some c) xm ->
  Forall (fun kv => P (snd kv)) ym ->
  exists c, entries_o g xm ym = Some c.
Proof.
  induction 1 as [|kv xm Hkv Hxm IH]; intros Hy; cbn; [eexists; reflexivity|].
  destruct (IH Hy) as [c2 ->].
  destruct (map_get (fst kv) ym) as [v'|] eqn:G.
  - destruct (map_get_In _ _ _ G) as [k' Hin]. rewrite Forall_forall in Hy.
    destruct (Hkv v' (Hy _ Hin)) as [c1 ->]. eexists; reflexivity.
  - eexists; reflexivity.
Qed.

(* concatenations of pairwise aligned code lists of the same length determine the lists *)
Lemma oconcat_inj (ca cb : list (option (list Z))) :
  length ca = length cb ->
  (forall oa ob, In oa ca -> In ob cb -> exists a b, oa = Some a /\ ob = Some b /\ AL a b) ->
  forall ra rb, oconcat ca = Some ra -> oconcat cb = Some rb -> ra = rb -> ca = cb.
Proof.
  revert cb; induction ca as [|oa ca IH]; intros [|ob cb] Hl HA ra rb Ra Rb E; cbn in Hl; try discriminate.
  - reflexivity.
  - destruct (HA oa ob (or_introl eq_refl) (or_introl eq_refl)) as (a & b & -> & -> & A).
    cbn in Ra, Rb.
    destruct (oconcat ca) as [ra'|] eqn:Ra'; [|discriminate].
    destruct (oconcat cb) as [rb'|] eqn:Rb'; [|discriminate].
    inversion Ra as [Ea']; inversion Rb as [Eb']. rewrite <- Ea', <- Eb' in E.
    destruct (AL_app_inj _ _ _ _ A E) as [-> E2]. f_equal.
    apply (IH cb ltac:(lia)) with (ra := ra') (rb := rb'); try assumption; try reflexivity.
    intros oa ob Ha Hb. apply HA; right; assumption.
Qed.

(* positions: equal maps of the sorted lists relate entries pairwise *)
Lemma map_eq_partner {A B} (f : A -> B) (X Y : list A) :
  map f X = map f Y -> forall a, In a X -> exists b, In b Y /\ f a = f b.
Proof.
  revert Y; induction X as [|x X IH]; intros [|y Y] E a Hin; cbn in E; try discriminate; [destruct Hin|].
  inversion E as [[E1 E2]]. destruct Hin as [<-|Hin].
  - exists y. split; [left; reflexivity| exact E1].
  - destruct (IH Y E2 a Hin) as (b & Hb & Eb). exists b. split; [right; exact Hb| exact Eb].
Qed.

Lemma leaf_iff k x y a b : basic_ok k x = true -> basic_ok k y = true ->
  leaf_enc k x = Some a -> leaf_enc k y = Some b -> (a = b <-> leaf_eq k x y = Some true).
Proof.
  intros Hx Hy Ea Eb. destruct (leaf_key_ok k x y Hx Hy) as (a' & b' & Ea' & Eb' & K).
  rewrite Ea in Ea'. rewrite Eb in Eb'. inversion Ea'; inversion Eb'; subst.
  rewrite (leaf_go_eqeq k x y Hx Hy). rewrite <- (ko_eq _ _ _ _ K).
  split; [intros ->; reflexivity| intros H; inversion H; reflexivity].
Qed.

Lemma tag_iff (a b : list Z) (P : Prop) : (a = b <-> P) -> ((1 :: a = 1 :: b)%list <-> P).
Proof. intros [H1 H2]. split; [intros E; inversion E; auto| intros p; f_equal; auto]. Qed.

Lemma len_iff (l : nat) (a b : list Z) (P : Prop) : (a = b <-> P) ->
  ((1 :: Z.of_nat l :: a = 1 :: Z.of_nat l :: b)%list <-> P).
Proof. intros [H1 H2]. split; [intros E; inversion E; auto| intros p; do 2 f_equal; auto]. Qed.

Lemma len_ne_iff (lx ly : nat) (a b : list Z) : lx <> ly ->
  ((1 :: Z.of_nat lx :: a = 1 :: Z.of_nat ly :: b)%list <-> Some false = Some true).
Proof. intros NE. split; [intros E; inversion E; lia| discriminate]. Qed.

Definition ecode (c : option (list Z) * option (list Z)) : option (list Z) :=
  match c with (Some k, Some v) => Some (k ++ v)%list | _ => None end.

Theorem enc_spec_ok : forall x e t y,
  has_type e t x = true -> has_type e t y = true ->
  eq_ok (enc e t x) (enc e t y) (spec_eq e t x y).
Proof.
  induction x using val_ind'; intros e t y Hx0 Hy0; pose proof Hx0 as Hx; pose proof Hy0 as Hy;
  destruct (enc_total _ _ _ Hx0) as [ax EAX]; destruct (enc_total _ _ _ Hy0) as [by_ EBY];
  pose proof (enc_AL _ _ _ _ _ _ Hx0 Hy0 EAX EBY) as ALxy;
  destruct (spec_total _ _ _ _ Hx0 Hy0) as [cxy CXY];
  exists ax, by_; (split; [exact EAX|]); (split; [exact EBY|]); (split; [exact ALxy|]);
  (split; [eexists; exact CXY|]); clear CXY ALxy;
  rewrite has_type_unfold in Hx, Hy;
  rewrite enc_unfold in EAX, EBY; rewrite spec_eq_unfold;
  destruct (resolve e t) as [r|] eqn:R; try discriminate; cbn zeta in *;
  destruct (r_node r) eqn:N; try discriminate.
  1-5: (apply (leaf_iff _ _ _ _ _ Hx Hy EAX EBY)).
  all: try (cbn in Hx; destruct k; discriminate).
  - (* VNilP *)
    destruct y; try discriminate.
    + inversion EAX; inversion EBY; subst. split; reflexivity.
    + destruct (enc _ _ y) as [b'|]; [|discriminate]. inversion EAX; inversion EBY; subst.
      split; discriminate.
  - (* VPtr *)
    destruct y; try discriminate.
    + destruct (enc _ _ x) as [a'|]; [|discriminate]. inversion EAX; inversion EBY; subst. split; discriminate.
    + destruct (IHx _ _ _ Hx Hy) as (a' & b' & Ea & Eb & _ & _ & I).
      rewrite Ea in EAX. rewrite Eb in EBY. inversion EAX; inversion EBY; subst.
      apply tag_iff. exact I.
  - (* VNilS *)
    destruct y; try discriminate.
    + inversion EAX; inversion EBY; subst. split; reflexivity.
    + destruct (oconcat _) as [b'|]; [|discriminate]. inversion EAX; inversion EBY; subst. split; discriminate.
  - (* VSl *)
    destruct y; try discriminate.
    + destruct (oconcat _) as [a'|]; [|discriminate]. inversion EAX; inversion EBY; subst. split; discriminate.
    + apply andb_prop in Hx as [Hx _]. apply andb_prop in Hy as [Hy _].
      assert (HF : Forall (fun a => forall b, has_type (r_env r) t0 b = true ->
                    eq_ok (enc (r_env r) t0 a) (enc (r_env r) t0 b) (spec_eq (r_env r) t0 a b)) es).
      { apply forallb_Forall in Hx. rewrite Forall_forall in *. intros a Ha b Hb.
        apply H; [exact Ha| apply Hx; exact Ha| exact Hb]. }
      destruct (oconcat (map _ es)) as [ra|] eqn:Ra; [|discriminate].
      destruct (oconcat (map _ es0)) as [rb|] eqn:Rb; [|discriminate].
      inversion EAX; inversion EBY; subst.
      destruct (Nat.eq_dec (length es) (length es0)) as [El|Nl].
      * destruct (elems_eq_ok (fun a => enc (r_env r) t0 a) (fun a b => spec_eq (r_env r) t0 a b) (fun b => has_type (r_env r) t0 b = true) es HF es0 (forallb_Forall _ _ Hy) El)
          as (a' & b' & Ea & Eb & _ & _ & I).
        rewrite Ra in Ea. rewrite Rb in Eb. inversion Ea; inversion Eb; subst.
        rewrite El. apply len_iff. exact I.
      * rewrite (all2o_len_false _ (fun b => has_type (r_env r) t0 b = true) es); [apply len_ne_iff; exact Nl| | apply forallb_Forall; exact Hy| exact Nl].
        rewrite Forall_forall in *. intros a Ha b Hb. destruct (HF a Ha b Hb) as (_ & _ & _ & _ & _ & T & _). exact T.
  - (* VNilM *)
    destruct y; try discriminate.
    + inversion EAX; inversion EBY; subst. split; reflexivity.
    + destruct (oconcat _) as [b'|]; [|discriminate]. inversion EAX; inversion EBY; subst. split; discriminate.
  - (* VMap *)
    destruct y; try discriminate.
    + destruct (oconcat _) as [a'|]; [|discriminate]. inversion EAX; inversion EBY; subst. split; discriminate.
    + rename kvs into xm. rename kvs0 into ym.
      apply andb_prop in Hx as [Hxa Hx]. apply andb_prop in Hxa as [Ck Dx].
      apply andb_prop in Hy as [Hya Hy]. apply andb_prop in Hya as [_ Dy].
      set (e' := r_env r) in *.
      set (he := fun kv : val * val => (fst kv, (enc e' t0_1 (fst kv), enc e' t0_2 (snd kv)))) in *.
      rewrite (sort_by_map fst fst he (fun _ => eq_refl) xm) in EAX.
      rewrite (sort_by_map fst fst he (fun _ => eq_refl) ym) in EBY.
      destruct (oconcat (map entry_enc (map he (sort_by fst xm)))) as [ra|] eqn:Ra; [|discriminate].
      destruct (oconcat (map entry_enc (map he (sort_by fst ym)))) as [rb|] eqn:Rb; [|discriminate].
      inversion EAX; inversion EBY; subst. clear EAX EBY.
      apply forallb_Forall in Hx. apply forallb_Forall in Hy.
      assert (Tx : keys_typed e' t0_1 xm).
      { unfold keys_typed. rewrite Forall_forall in *. intros kv Hkv. specialize (Hx kv Hkv). cbn in Hx.
        apply andb_prop in Hx as [Hk _]. exact Hk. }
      assert (Ty : keys_typed e' t0_1 ym).
      { unfold keys_typed. rewrite Forall_forall in *. intros kv Hkv. specialize (Hy kv Hkv). cbn in Hy.
        apply andb_prop in Hy as [Hk _]. exact Hk. }
      assert (Vx : forall kv, In kv xm -> has_type e' t0_2 (snd kv) = true).
      { rewrite Forall_forall in Hx. intros kv Hkv. specialize (Hx kv Hkv). cbn in Hx. apply andb_prop in Hx as [_ Hv]. exact Hv. }
      assert (Vy : forall kv, In kv ym -> has_type e' t0_2 (snd kv) = true).
      { rewrite Forall_forall in Hy. intros kv Hkv. specialize (Hy kv Hkv). cbn in Hy. apply andb_prop in Hy as [_ Hv]. exact Hv. }
      destruct (Nat.eqb_spec (length xm) (length ym)) as [El|Nl]; [|apply len_ne_iff; exact Nl].
      rewrite El. apply len_iff. rewrite Forall_forall in H.
      assert (ENT : forall kv, In kv xm -> forall kv', In kv' ym ->
                exists ak av bk bv, enc e' t0_1 (fst kv) = Some ak /\ enc e' t0_2 (snd kv) = Some av /\
                  enc e' t0_1 (fst kv') = Some bk /\ enc e' t0_2 (snd kv') = Some bv /\ AL ak bk /\ AL av bv).
      { intros kv Hkv kv' Hkv'. unfold keys_typed in Tx, Ty. rewrite Forall_forall in Tx, Ty.
        destruct (enc_total _ _ _ (Tx kv Hkv)) as [ak Eak]. destruct (enc_total _ _ _ (Vx kv Hkv)) as [av Eav].
        destruct (enc_total _ _ _ (Ty kv' Hkv')) as [bk Ebk]. destruct (enc_total _ _ _ (Vy kv' Hkv')) as [bv Ebv].
        exists ak, av, bk, bv. repeat (split; [assumption|]).
        split; [eapply enc_AL; [apply (Tx kv Hkv)| apply (Ty kv' Hkv')| exact Eak| exact Ebk]
               | eapply enc_AL; [apply (Vx kv Hkv)| apply (Vy kv' Hkv')| exact Eav| exact Ebv]]. }
      split.
      * (* equal encodings -> every entry of x has an equal partner in y *)
        intros E.
        assert (EQL : map entry_enc (map he (sort_by fst xm)) = map entry_enc (map he (sort_by fst ym))).
        { apply (oconcat_inj _ _) with (ra := ra) (rb := rb); try assumption.
          - rewrite !map_length, !sort_by_length. exact El.
          - intros oa ob Ha Hb. apply in_map_iff in Ha as [ea [<- Ha]]. apply in_map_iff in Ha as [kv [<- Hkv]].
            apply in_map_iff in Hb as [eb [<- Hb]]. apply in_map_iff in Hb as [kv' [<- Hkv']].
            apply sort_by_In in Hkv. apply sort_by_In in Hkv'.
            destruct (ENT kv Hkv kv' Hkv') as (ak & av & bk & bv & Eak & Eav & Ebk & Ebv & Ak & Av).
            exists (ak ++ av)%list, (bk ++ bv)%list. unfold entry_enc, he. cbn [snd]. rewrite Eak, Eav, Ebk, Ebv.
            split; [reflexivity|]. split; [reflexivity|]. apply AL_app; assumption. }
        rewrite !map_map in EQL.
        apply entries_o_true. intros kv Hkv.
        destruct (map_eq_partner _ _ _ EQL kv (proj2 (sort_by_In fst xm kv) Hkv)) as (kv' & Hkv' & Ekv).
        apply sort_by_In in Hkv'.
        destruct (ENT kv Hkv kv' Hkv') as (ak & av & bk & bv & Eak & Eav & Ebk & Ebv & Ak & Av).
        unfold entry_enc, he in Ekv. cbn [snd] in Ekv. rewrite Eak, Eav, Ebk, Ebv in Ekv. inversion Ekv as [Ecat].
        destruct (AL_app_inj _ _ _ _ Ak Ecat) as [-> ->].
        exists (snd kv'). split.
        -- unfold keys_typed in Tx. rewrite Forall_forall in Tx.
           apply (map_get_unique e' t0_1 Ck ym Ty (distinct_NoDup e' t0_1 Ck ym Ty Dy) (fst kv) (fst kv') (snd kv') (Tx kv Hkv)).
           ++ destruct kv'; exact Hkv'.
           ++ congruence.
        -- destruct (H kv Hkv) as [_ IHv].
           destruct (IHv e' t0_2 (snd kv') (Vx kv Hkv) (Vy kv' Hkv')) as (a1 & b1 & E1 & E2 & _ & _ & I).
           apply I. congruence.
      * (* every entry has an equal partner -> the sorted code lists coincide *)
        intros SP.
        assert (SC : map (code e' t0_1 (enc e' t0_2)) (sort_by fst xm) = map (code e' t0_1 (enc e' t0_2)) (sort_by fst ym)).
        { apply (sorted_codes e' t0_1 Ck (enc e' t0_2) xm ym Tx Ty Dx Dy El).
          intros kv Hkv. destruct (entries_o_true_inv _ _ _ SP kv Hkv) as (v' & G & T).
          unfold keys_typed in Tx. rewrite Forall_forall in Tx.
          destruct (map_get_key e' t0_1 Ck ym (fst kv) v' Ty (Tx kv Hkv) G) as (k' & Hin & Ek).
          exists (k', v'). split; [exact Hin|]. unfold code. cbn [fst snd]. f_equal; [symmetry; exact Ek|].
          destruct (H kv Hkv) as [_ IHv].
          destruct (IHv e' t0_2 v' (Vx kv Hkv) (Vy (k', v') Hin)) as (a1 & b1 & E1 & E2 & _ & _ & I).
          apply I in T. congruence. }
        assert (EQL : map entry_enc (map he (sort_by fst xm)) = map entry_enc (map he (sort_by fst ym))).
        { rewrite !map_map.
          transitivity (map ecode (map (code e' t0_1 (enc e' t0_2)) (sort_by fst xm))); [rewrite map_map; reflexivity|].
          rewrite SC. rewrite map_map. reflexivity. }
        rewrite EQL in Ra. rewrite Ra in Rb. inversion Rb. reflexivity.
  - (* VArr *)
    destruct y; try discriminate.
    apply andb_prop in Hx as [Lx Hx]. apply andb_prop in Hy as [Ly Hy].
    apply Nat.eqb_eq in Lx. apply Nat.eqb_eq in Ly.
    destruct (elems_eq_ok (fun a => enc (r_env r) t0 a) (fun a b => spec_eq (r_env r) t0 a b)
                (fun b => has_type (r_env r) t0 b = true) es) with (ys := es0)
      as (a' & b' & Ea & Eb & _ & _ & I).
    + apply forallb_Forall in Hx. rewrite Forall_forall in *. intros a Ha b Hb.
      apply H; [exact Ha| apply Hx; exact Ha| exact Hb].
    + apply forallb_Forall; exact Hy.
    + lia.
    + rewrite EAX in Ea. rewrite EBY in Eb. inversion Ea; inversion Eb; subst. exact I.
  - (* VSt *)
    destruct y; try discriminate.
    destruct (fields_eq_ok (fun ft a => enc (r_env r) ft a) (fun ft a b => spec_eq (r_env r) ft a b)
                (has_type (r_env r)) fs) with (fs := fs0) (ys := fs1)
      as (a' & b' & Ea & Eb & _ & _ & I); try assumption.
    + rewrite Forall_forall in *. intros a Ha ft b Hta Htb. apply H; assumption.
    + rewrite EAX in Ea. rewrite EBY in Eb. inversion Ea; inversion Eb; subst. exact I.
Qed.

(* ---------- consequences ---------- *)
Corollary enc_eq_iff e t x y : has_type e t x = true -> has_type e t y = true ->
  (enc e t x = enc e t y <-> spec_eq e t x y = Some true).
Proof.
  intros Hx Hy. destruct (enc_spec_ok x e t y Hx Hy) as (a & b & Ea & Eb & _ & _ & I).
  rewrite Ea, Eb. rewrite <- I. split; [intros E; inversion E; reflexivity| intros ->; reflexivity].
Qed.

(* structural equality is an equivalence relation on the well-typed values of a type *)
Theorem spec_eq_refl e t x : has_type e t x = true -> spec_eq e t x x = Some true.
Proof. intros Hx. apply (enc_eq_iff e t x x Hx Hx). reflexivity. Qed.

Theorem spec_eq_sym e t x y : has_type e t x = true -> has_type e t y = true ->
  spec_eq e t x y = spec_eq e t y x.
Proof.
  intros Hx Hy. destruct (spec_total e t x y Hx Hy) as [c1 C1]. destruct (spec_total e t y x Hy Hx) as [c2 C2].
  rewrite C1, C2. f_equal.
  pose proof (enc_eq_iff e t x y Hx Hy) as I1. pose proof (enc_eq_iff e t y x Hy Hx) as I2.
  rewrite C1 in I1. rewrite C2 in I2.
  destruct c1, c2; try reflexivity.
  - destruct I1 as [_ I1]. specialize (I1 eq_refl). symmetry in I1. apply I2 in I1. discriminate.
  - destruct I2 as [_ I2]. specialize (I2 eq_refl). symmetry in I2. apply I1 in I2. discriminate.
Qed.

Theorem spec_eq_trans e t x y z :
  has_type e t x = true -> has_type e t y = true -> has_type e t z = true ->
  spec_eq e t x y = Some true -> spec_eq e t y z = Some true -> spec_eq e t x z = Some true.
Proof.
  intros Hx Hy Hz H1 H2. apply (enc_eq_iff e t x y Hx Hy) in H1. apply (enc_eq_iff e t y z Hy Hz) in H2.
  apply (enc_eq_iff e t x z Hx Hz). congruence.
Qed.

(* derived Compare returns 0 exactly on structurally equal values *)
Theorem compare_zero_iff_equal e t x y c :
  has_type e t x = true -> has_type e t y = true -> cmpm e t x y = Ok c ->
  (c = 0 <-> spec_eq e t x y = Some true).
Proof.
  intros Hx Hy Hc. destruct (cmpm_enc x e t y Hx Hy) as (a & b & Ea & Eb & _ & [U|R]); [congruence|].
  rewrite Hc in R. inversion R; subst.
  rewrite <- (enc_eq_iff e t x y Hx Hy), Ea, Eb, lexcmp_eq.
  split; [intros ->; reflexivity| intros E; inversion E; reflexivity].
Qed.

(* and with Equal itself: the two generated functions agree on what "equal" means *)
Theorem compare_zero_iff_derived_equal e t x y c b :
  has_type e t x = true -> has_type e t y = true ->
  cmpm e t x y = Ok c -> Equal.eqm e Top t x y = Ok b -> (c = 0 <-> b = true).
Proof.
  intros Hx Hy Hc Hb. rewrite (compare_zero_iff_equal e t x y c Hx Hy Hc).
  destruct (eqm_spec x e Top t y Hx Hy) as [[b' Hb'] [U|L]]; [congruence|].
  rewrite Hb, Hb' in L. cbn in L. inversion L; subst. rewrite Hb'.
  split; [intros E; inversion E; reflexivity| intros ->; reflexivity].
Qed.
