(* Go/HashProofs.v — values that are structurally equal (hence Equal for the generated code)
   hash alike under the model of plugin/hash (C04). *)
From Verif Require Import Go.Ty Go.Val Go.Equal Go.EqualProofs Go.Compare Go.CompareSpec
  Go.ListOrder Go.KeyOrder Go.SortLemmas Go.CompareProofs Go.MapLemmas Go.Canon Go.Hash.
From Coq Require Import Lia Permutation.

Lemma hashm_unfold e t x :
  hashm e t x =
  match resolve e t with
  | None => Stuck
  | Some r =>
      let e' := r_env r in
      match r_node r with
      | TB k => of_option (leaf_hash k x)
      | TP rt =>
          match x with
          | VNilP => match resolve e' rt with Some _ => Ok 0%N | None => Stuck end
          | VPtr _ x' =>
              match resolve e' rt with
              | None => Stuck
              | Some rr =>
                  match r_node rr, is_named rr, x' with
                  | TSt fs, true, VSt xs =>
                      struct_hash (fun ft a => hashm (r_env rr) ft a) (is_ext rr) fs xs
                  | TSt _, true, _ => Stuck
                  | _, _, _ => rmap (fun c => wrap (31 * 17 + c)) (hashm e' rt x')
                  end
              end
          | _ => Stuck
          end
      | TSt fs =>
          match x with
          | VSt xs => struct_hash (fun ft a => hashm e' ft a) (is_named r && is_ext r) fs xs
          | _ => Stuck
          end
      | TSl et =>
          match x with
          | VNilS => Ok 0%N
          | VSl _ xs _ => elems_h (fun a => hashm e' et a) 17 xs
          | _ => Stuck
          end
      | TAr _ et =>
          match x with
          | VArr xs => elems_h (fun a => hashm e' et a) 17 xs
          | _ => Stuck
          end
      | TM kt vt =>
          match x with
          | VNilM => Ok 0%N
          | VMap _ xm =>
              if negb (key_sup kt) then Unsup
              else
                let es := map (fun kv => (fst kv, (hashm e' kt (fst kv), hashm e' vt (snd kv)))) xm in
                entries_h 17 (sort_by fst es)
          | _ => Stuck
          end
      | _ => Stuck
      end
  end.
Proof. destruct x; reflexivity. Qed.

(* leaves *)
Lemma feq_fbits w n1 m1 n2 m2 : feq n1 m1 n2 m2 = true -> fbits w n1 m1 = fbits w n2 m2.
Proof.
  unfold feq, fbits. destruct (N.eqb_spec m1 0), (N.eqb_spec m2 0); cbn; try reflexivity;
  rewrite Bool.andb_true_iff, N.eqb_eq; intros [H1 H2]; subst; try contradiction.
  apply Bool.eqb_prop in H1. subst. reflexivity.
Qed.

Lemma bytes_eqb_eq' a b : bytes_eqb a b = true -> a = b.
Proof. apply bytes_eqb_eq. Qed.

Lemma leaf_hash_eq k x y : leaf_eq k x y = Some true -> leaf_hash k x = leaf_hash k y.
Proof.
  destruct k, x; cbn; try discriminate; destruct y; cbn; try discriminate; intros H; inversion H as [H'].
  - apply Bool.eqb_prop in H'. subst. reflexivity.
  - apply Z.eqb_eq in H'. subst. reflexivity.
  - rewrite (feq_fbits 32 _ _ _ _ H'). reflexivity.
  - rewrite (feq_fbits 64 _ _ _ _ H'). reflexivity.
  - apply andb_prop in H' as [H1 H2]. rewrite (feq_fbits 32 _ _ _ _ H1), (feq_fbits 32 _ _ _ _ H2). reflexivity.
  - apply andb_prop in H' as [H1 H2]. rewrite (feq_fbits 64 _ _ _ _ H1), (feq_fbits 64 _ _ _ _ H2). reflexivity.
  - apply bytes_eqb_eq' in H'. subst. reflexivity.
Qed.

(* lists *)
Lemma elems_h_eq (f : val -> res N) (g : val -> val -> option bool) (P : val -> Prop) xs : forall ys h,
  Forall (fun a => forall b, P b -> g a b = Some true -> f a = f b) xs -> Forall P ys ->
  all2o g xs ys = Some true -> elems_h f h xs = elems_h f h ys.
Proof.
  induction xs as [|a xs IH]; intros [|b ys] h HF HP G; cbn in G; try discriminate; [reflexivity|].
  inversion HF as [|? ? Ha Hxs]; subst. inversion HP as [|? ? Pb Pys]; subst. apply oand_true in G as [G1 G2].
  cbn. rewrite (Ha b Pb G1). destruct (f b); cbn; try reflexivity. apply IH; assumption.
Qed.

Lemma fields_h_eq (f : ty -> val -> res N) (g : ty -> val -> val -> option bool) (ht : ty -> val -> bool) skip xs :
  forall fs ys h,
  Forall (fun a => forall ft b, ht ft a = true -> ht ft b = true -> g ft a b = Some true -> f ft a = f ft b) xs ->
  fields_ok ht fs xs = true -> fields_ok ht fs ys = true ->
  fields_o g fs xs ys = Some true -> fields_h f skip h fs xs = fields_h f skip h fs ys.
Proof.
  induction xs as [|a xs IH]; intros [|fd fs] [|b ys] h HF Tx Ty G; cbn in G, Tx, Ty; try discriminate; [reflexivity|].
  inversion HF as [|? ? Ha Hxs]; subst. apply oand_true in G as [G1 G2].
  apply andb_prop in Tx as [Tx1 Tx]. apply andb_prop in Ty as [Ty1 Ty].
  cbn. destruct (skip && fst fd)%bool; [apply IH; assumption|].
  rewrite (Ha (snd fd) b Tx1 Ty1 G1). destruct (f (snd fd) b); cbn; try reflexivity. apply IH; assumption.
Qed.

Lemma struct_hash_eq (f : ty -> val -> res N) (g : ty -> val -> val -> option bool) (ht : ty -> val -> bool) skip xs fs ys :
  Forall (fun a => forall ft b, ht ft a = true -> ht ft b = true -> g ft a b = Some true -> f ft a = f ft b) xs ->
  fields_ok ht fs xs = true -> fields_ok ht fs ys = true ->
  fields_o g fs xs ys = Some true -> struct_hash f skip fs xs = struct_hash f skip fs ys.
Proof.
  intros HF Tx Ty G. unfold struct_hash.
  destruct fs as [|fd fs]; destruct xs as [|a xs]; destruct ys as [|b ys]; cbn in G, Tx, Ty; try discriminate; try reflexivity.
  apply (fields_h_eq f g ht skip (a :: xs) (fd :: fs) (b :: ys) 17%N HF); assumption.
Qed.

Lemma entries_h_ext h (l1 l2 : list (val * (res N * res N))) :
  map snd l1 = map snd l2 -> entries_h h l1 = entries_h h l2.
Proof.
  revert l2 h; induction l1 as [|[k1 [a1 b1]] l1 IH]; intros [|[k2 [a2 b2]] l2] h E; cbn in E; try discriminate; [reflexivity|].
  inversion E; subst. cbn. destruct a2; cbn; try reflexivity. destruct b2; cbn; try reflexivity. apply IH. assumption.
Qed.

Lemma map_transfer {A B C} (f : A -> B) (g : A -> C) (X Y : list A) :
  map f X = map f Y ->
  (forall a b, In a X -> In b Y -> f a = f b -> g a = g b) ->
  map g X = map g Y.
Proof.
  revert Y; induction X as [|x X IH]; intros [|y Y] E H; cbn in E; try discriminate; [reflexivity|].
  inversion E as [[E1 E2]]. cbn. f_equal.
  - apply H; [left; reflexivity| left; reflexivity| exact E1].
  - apply IH; [exact E2|]. intros a b Ha Hb. apply H; right; assumption.
Qed.

Theorem hash_respects_equal_gen : forall x e t y,
  has_type e t x = true -> has_type e t y = true ->
  spec_eq e t x y = Some true -> hashm e t x = hashm e t y.
Proof.
  induction x using val_ind'; intros e t y Hx0 Hy0 S; pose proof Hx0 as Hx; pose proof Hy0 as Hy;
  rewrite has_type_unfold in Hx, Hy; rewrite spec_eq_unfold in S;
  rewrite !hashm_unfold;
  destruct (resolve e t) as [r|] eqn:R; try discriminate; cbn zeta in *;
  destruct (r_node r) eqn:N; try discriminate.
  1-5: (rewrite (leaf_hash_eq _ _ _ S); reflexivity).
  all: try (cbn in Hx; destruct k; discriminate).
  - (* VNilP *) destruct y; try discriminate. reflexivity.
  - (* VPtr *)
    destruct y; try discriminate.
    assert (exists rr, resolve (r_env r) t0 = Some rr) as [rr RR].
    { rewrite has_type_unfold in Hx. destruct (resolve (r_env r) t0); [eexists; reflexivity|discriminate]. }
    rewrite RR. specialize (IHx (r_env r) t0 y Hx Hy S).
    destruct (r_node rr) eqn:NN; try (rewrite IHx; reflexivity).
    destruct (is_named rr) eqn:NM; [|rewrite IHx; reflexivity].
    rewrite !hashm_unfold, RR in IHx. cbn zeta in IHx. rewrite NN, NM in IHx. cbn [andb] in IHx.
    rewrite has_type_unfold, RR in Hx, Hy. cbn zeta in Hx, Hy. rewrite NN in Hx, Hy.
    destruct x; try discriminate. destruct y; try discriminate. exact IHx.
  - (* VNilS *) destruct y; try discriminate. reflexivity.
  - (* VSl *)
    destruct y; try discriminate.
    apply andb_prop in Hx as [Hx _]. apply andb_prop in Hy as [Hy _].
    apply (elems_h_eq _ (fun a b => spec_eq (r_env r) t0 a b) (fun b => has_type (r_env r) t0 b = true));
      [| apply forallb_Forall; exact Hy| exact S].
    apply forallb_Forall in Hx. rewrite Forall_forall in *. intros a Ha b Hb Sab.
    apply H; [exact Ha| apply Hx; exact Ha| exact Hb| exact Sab].
  - (* VNilM *) destruct y; try discriminate. reflexivity.
  - (* VMap *)
    destruct y; try discriminate. rename kvs into xm. rename kvs0 into ym.
    destruct (key_sup t0_1); cbn [negb]; [|reflexivity].
    apply andb_prop in Hx as [Hxa Hx]. apply andb_prop in Hxa as [Ck Dx].
    apply andb_prop in Hy as [Hya Hy]. apply andb_prop in Hya as [_ Dy].
    destruct (Nat.eqb_spec (length xm) (length ym)) as [El|Nl]; [|discriminate].
    set (e' := r_env r) in *.
    set (hh := fun kv : val * val => (fst kv, (hashm e' t0_1 (fst kv), hashm e' t0_2 (snd kv)))).
    rewrite (sort_by_map fst fst hh (fun _ => eq_refl) xm), (sort_by_map fst fst hh (fun _ => eq_refl) ym).
    apply entries_h_ext. rewrite !map_map.
    apply forallb_Forall in Hx. apply forallb_Forall in Hy.
    assert (Tx : keys_typed e' t0_1 xm).
    { unfold keys_typed. rewrite Forall_forall in *. intros kv Hkv. specialize (Hx kv Hkv). cbn in Hx.
      apply andb_prop in Hx as [Hk _]. exact Hk. }
    assert (Ty : keys_typed e' t0_1 ym).
    { unfold keys_typed. rewrite Forall_forall in *. intros kv Hkv. specialize (Hy kv Hkv). cbn in Hy.
      apply andb_prop in Hy as [Hk _]. exact Hk. }
    assert (Vx : forall kv, In kv xm -> has_type e' t0_2 (snd kv) = true).
    { rewrite Forall_forall in Hx. intros kv Hkv. specialize (Hx kv Hkv). cbn in Hx. apply andb_prop in Hx as [_ Hv]. exact Hv. }
    assert (Vy : forall kv, In kv ym -> has_type e' t0_2 (snd kv) = true).
    { rewrite Forall_forall in Hy. intros kv Hkv. specialize (Hy kv Hkv). cbn in Hy. apply andb_prop in Hy as [_ Hv]. exact Hv. }
    rewrite Forall_forall in H. unfold keys_typed in Tx, Ty. rewrite Forall_forall in Tx, Ty.
    assert (SC : map (code e' t0_1 (enc e' t0_2)) (sort_by fst xm) = map (code e' t0_1 (enc e' t0_2)) (sort_by fst ym)).
    { apply (sorted_codes e' t0_1 Ck (enc e' t0_2) xm ym); try assumption.
      - unfold keys_typed. apply Forall_forall. exact Tx.
      - unfold keys_typed. apply Forall_forall. exact Ty.
      - intros kv Hkv. destruct (entries_o_true_inv _ _ _ S kv Hkv) as (v' & G & T).
        destruct (map_get_key e' t0_1 Ck ym (fst kv) v' (proj2 (Forall_forall _ _) Ty) (Tx kv Hkv) G) as (k' & Hin & Ek).
        exists (k', v'). split; [exact Hin|]. unfold code. cbn [fst snd]. f_equal; [symmetry; exact Ek|].
        apply (enc_eq_iff e' t0_2 (snd kv) v' (Vx kv Hkv) (Vy (k', v') Hin)). exact T. }
    apply (map_transfer _ _ _ _ SC).
    intros a b Ha Hb Ec. apply sort_by_In in Ha. apply sort_by_In in Hb.
    unfold code in Ec. inversion Ec as [[Ek Ev]]. cbn [snd hh].
    destruct (H a Ha) as [IHk IHv]. f_equal.
    + apply IHk; [apply Tx; exact Ha| apply Ty; exact Hb|].
      rewrite (go_eqeq_spec t0_1 Ck e' (fst a) (fst b) (Tx a Ha) (Ty b Hb)). f_equal.
      apply (geq_iff_enc e' t0_1 Ck (fst a) (fst b) (Tx a Ha) (Ty b Hb)). exact Ek.
    + apply IHv; [apply Vx; exact Ha| apply Vy; exact Hb|].
      apply (enc_eq_iff e' t0_2 (snd a) (snd b) (Vx a Ha) (Vy b Hb)). exact Ev.
  - (* VArr *)
    destruct y; try discriminate.
    apply andb_prop in Hx as [_ Hx]. apply andb_prop in Hy as [_ Hy].
    apply (elems_h_eq _ (fun a b => spec_eq (r_env r) t0 a b) (fun b => has_type (r_env r) t0 b = true));
      [| apply forallb_Forall; exact Hy| exact S].
    apply forallb_Forall in Hx. rewrite Forall_forall in *. intros a Ha b Hb Sab.
    apply H; [exact Ha| apply Hx; exact Ha| exact Hb| exact Sab].
  - (* VSt *)
    destruct y; try discriminate.
    apply (struct_hash_eq _ (fun ft a b => spec_eq (r_env r) ft a b) (has_type (r_env r))); try assumption.
    rewrite Forall_forall in *. intros a Ha ft b Hta Htb Sab. apply H; assumption.
Qed.

(* the statement for the top-level function; the model is a function, so hashing is repeatable
   and cannot modify its argument *)
Corollary hash_respects_equal e t x y :
  has_type e t x = true -> has_type e t y = true ->
  spec_eq e t x y = Some true -> hashm e t x = hashm e t y.
Proof. intros Hx Hy S. apply hash_respects_equal_gen; assumption. Qed.

(* ... and with the generated Equal itself *)
Corollary hash_respects_derived_equal t x y :
  has_type [] t x = true -> has_type [] t y = true ->
  Equal.eqm [] Top t x y = Ok true -> hash_model t x = hash_model t y.
Proof.
  intros Hx Hy E. apply hash_respects_equal; try assumption.
  destruct (eqm_spec x [] Top t y Hx Hy) as [[b Hb] [U|L]]; [congruence|].
  rewrite E, Hb in L. cbn in L. inversion L; subst. exact Hb.
Qed.

(* before fix 805fd63 floats were hashed by bit pattern: +0 == -0 but the hashes differed *)
Lemma hash_negzero_old_refuted :
  spec_eq [] (TB KF64) (VF false 0) (VF true 0) = Some true
  /\ fbits_old 64 false 0 <> fbits_old 64 true 0
  /\ hash_model (TB KF64) (VF false 0) = hash_model (TB KF64) (VF true 0).
Proof. repeat split; try (vm_compute; reflexivity). vm_compute. discriminate. Qed.

(* before fix 703d315 Equal ignored the nil-ness of []byte fields while Hash does not *)
Lemma hash_bytes_old_refuted :
  bytes_equal_old VNilS (VSl 1 [] []) = Ok true
  /\ hash_model (TSt [(false, TSl (TB (KInt 8 false)))]) (VSt [VNilS])
     <> hash_model (TSt [(false, TSl (TB (KInt 8 false)))]) (VSt [VSl 1 [] []]).
Proof. split; [reflexivity| vm_compute; discriminate]. Qed.

Example hash_map_permuted :
  hash_model (TM (TB KStr) (TP (TB KF64)))
    (VMap 1 [(VStr [98%N], VNilP); (VStr [97%N], VPtr 2 (VF true 0))])
  = hash_model (TM (TB KStr) (TP (TB KF64)))
    (VMap 3 [(VStr [97%N], VPtr 4 (VF false 0)); (VStr [98%N], VNilP)]).
Proof. vm_compute. reflexivity. Qed.
