(* Go/CompareSpec.v — the specification of C03: the natural total order on values of a type,
   given as the lexicographic order of a canonical encoding into integer lists
   (false<true, numeric <, byte-wise strings, real before imaginary part, nil first, shorter
   slices and maps first, map entries in key order). *)
From Verif Require Export Go.Val Go.Compare.
Open Scope Z_scope.

Definition leaf_enc (k : bkind) (x : val) : option (list Z) :=
  match k, x with
  | KBool, VBool b => Some [if b then 1 else 0]
  | KInt _ _, VInt z => Some [z]
  | (KF32 | KF64), VF n m => Some [fkey n m]
  | (KC64 | KC128), VC a b c d => Some [fkey a b; fkey c d]
  | KStr, VStr s => Some (map (fun b => Z.of_N b + 1) s ++ [0])%list
  | _, _ => None
  end.

Fixpoint oconcat (l : list (option (list Z))) : option (list Z) :=
  match l with
  | [] => Some []
  | None :: _ => None
  | Some a :: l' => match oconcat l' with Some r => Some (a ++ r)%list | None => None end
  end.

Section EncComb.
Variable f : ty -> val -> option (list Z).
Fixpoint fields_enc (fs : list (bool * ty)) (xs : list val) {struct xs} : option (list Z) :=
  match fs, xs with
  | [], [] => Some []
  | fd :: fs', a :: xs' =>
      match f (snd fd) a, fields_enc fs' xs' with
      | Some p, Some r => Some (p ++ r)%list
      | _, _ => None
      end
  | _, _ => None
  end.
End EncComb.

Definition entry_enc (en : val * (option (list Z) * option (list Z))) : option (list Z) :=
  match snd en with
  | (Some k, Some v) => Some (k ++ v)%list
  | _ => None
  end.

Fixpoint enc (e : tenv) (t : ty) (x : val) {struct x} : option (list Z) :=
  match resolve e t with
  | None => None
  | Some r =>
      let e' := r_env r in
      match r_node r, x with
      | TB k, _ => leaf_enc k x
      | TP _, VNilP => Some [0]
      | TP rt, VPtr _ x' => option_map (cons 1) (enc e' rt x')
      | TSl _, VNilS => Some [0]
      | TSl et, VSl _ xs _ =>
          option_map (fun r => 1 :: Z.of_nat (List.length xs) :: r) (oconcat (map (fun a => enc e' et a) xs))
      | TAr _ et, VArr xs => oconcat (map (fun a => enc e' et a) xs)
      | TM _ _, VNilM => Some [0]
      | TM kt vt, VMap _ xm =>
          let es := map (fun kv => (fst kv, (enc e' kt (fst kv), enc e' vt (snd kv)))) xm in
          option_map (fun r => 1 :: Z.of_nat (List.length xm) :: r)
                     (oconcat (map entry_enc (sort_by fst es)))
      | TSt fs, VSt xs => fields_enc (fun ft a => enc e' ft a) fs xs
      | _, _ => None
      end
  end.

Definition spec_cmp (e : tenv) (t : ty) (x y : val) : option Z :=
  match enc e t x, enc e t y with
  | Some a, Some b => Some (lexcmp a b)
  | _, _ => None
  end.

(* types derived Compare accepts: no unnamed struct reached, map keys comparable by Compare *)
Fixpoint cmp_sup (named : bool) (t : ty) : bool :=
  match t with
  | TB _ | TRef _ => true
  | TN _ _ u => cmp_sup true u
  | TP rt => cmp_sup false rt
  | TSl et => cmp_sup false et
  | TAr _ et => cmp_sup false et
  | TM k v => (key_sup k && cmp_sup false v)%bool
  | TSt fs => (named && (fix go (l : list (bool * ty)) : bool :=
                 match l with [] => true | f :: l' => cmp_sup false (snd f) && go l' end) fs)%bool
  end.
