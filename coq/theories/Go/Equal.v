(* Go/Equal.v — model of the code emitted by plugin/equal, and the specification
   (type-directed structural equality).  C02.

   The model follows the generator's case analysis:
     Top  = genStatement (body of a generated deriveEqual function),
     Fld  = field        (expression comparing two components).
   Helper calls (g.GetFuncName(typ, typ)) are calls of a generated function whose body is
   genStatement of that type, i.e. [Top] on the same values.  User-declared Equal methods
   are not part of this model (types with such methods are outside its guard). *)
From Verif Require Export Go.Val.

Inductive mode := Top | Fld.

(* how the generator compares two values of type t in mode m *)
Inductive strat : Type :=
| SEqEq                                  (* this == that *)
| SPtrNoStruct (e : tenv) (rt : ty)      (* nil cases, then genStatement on the referents *)
| SPtrStruct (e : tenv) (fs : list (bool * ty))  (* pointer to named struct: field conjunction *)
| SPtrInline (e : tenv) (rt : ty)        (* ((a == nil && b == nil) || (a != nil && b != nil && field( *a, *b))) *)
| SBytes                                 (* bytes.Equal *)
| SSlice (e : tenv) (et : ty)
| SArray (e : tenv) (et : ty)
| SMap (e : tenv) (vt : ty)
| SFields (e : tenv) (fs : list (bool * ty))  (* struct value: field conjunction *)
| SUnsup
| SStuck.

(* body of the helper generated for a pointer type (genStatement, case *types.Pointer) *)
Definition strat_ptr (e' : tenv) (rt : ty) : strat :=
  match resolve e' rt with
  | None => SStuck
  | Some rr =>
      match r_node rr with
      | TSt fs => if is_named rr then SPtrStruct (r_env rr) fs else SUnsup
      | _ => SPtrNoStruct e' rt
      end
  end.

Definition strategy (e : tenv) (m : mode) (t : ty) : strat :=
  match resolve e t with
  | None => SStuck
  | Some r =>
      let e' := r_env r in
      match m with
      | Top =>
          match r_node r with
          | TB _ => SEqEq
          | TP rt => strat_ptr e' rt
          | TSt fs => if is_named r then SFields e' fs
                      else if can_equal t then SEqEq else SFields e' fs
          | TSl et => SSlice e' et
          | TAr _ et => SArray e' et
          | TM _ vt => SMap e' vt
          | _ => SStuck
          end
      | Fld =>
          if can_equal t then SEqEq else
          match r_node r with
          | TP rt =>
              match resolve e' rt with
              | None => SStuck
              | Some rr => if is_named rr then strat_ptr e' rt else SPtrInline e' rt
              end
          | TAr _ et => SArray e' et
          | TSl et => if is_byte et then SBytes else SSlice e' et
          | TM _ vt => SMap e' vt
          | TSt fs => SFields e' fs   (* named: helper for *T; unnamed: its own function (fix 79c20b1; before: endless recursion) *)
          | _ => SStuck
          end
      end
  end.

Definition bytes_of (l : list val) : list Z :=
  map (fun v => match v with VInt z => z | _ => 0 end) l.

Definition slice_elems (v : val) : option (list val) :=
  match v with VNilS => Some [] | VSl _ es _ => Some es | _ => None end.
Definition is_nil_slice (v : val) : bool := match v with VNilS => true | _ => false end.

(* bytes.Equal alone: nil and empty are the same (the pinned tree, before the fix) *)
Definition bytes_equal_old (x y : val) : res bool :=
  match slice_elems x, slice_elems y with
  | Some a, Some b => Ok (if list_eq_dec Z.eq_dec (bytes_of a) (bytes_of b) then true else false)
  | _, _ => Stuck
  end.
(* ((a == nil) == (b == nil) && bytes.Equal(a, b)) *)
Definition bytes_equal (x y : val) : res bool :=
  rdo b <- bytes_equal_old x y;
  Ok (Bool.eqb (is_nil_slice x) (is_nil_slice y) && b)%bool.

Section EqComb.
Variable f : ty -> val -> val -> res bool.
(* a.F0 == b.F0 && a.F1 == b.F1 && ... (short circuit) *)
Fixpoint fields_r (fs : list (bool * ty)) (xs ys : list val) {struct xs} : res bool :=
  match fs, xs, ys with
  | [], [], [] => Ok true
  | fd :: fs', a :: xs', b :: ys' =>
      rdo c <- f (snd fd) a b;
      if c then fields_r fs' xs' ys' else Ok false
  | _, _, _ => Stuck
  end.
End EqComb.
Section EqComb2.
Variable f : val -> val -> res bool.
(* for i := range this { if !(this[i] == that[i]) { return false } }; return true *)
Fixpoint elems_r (xs ys : list val) {struct xs} : res bool :=
  match xs, ys with
  | [], [] => Ok true
  | a :: xs', b :: ys' =>
      rdo c <- f a b;
      if c then elems_r xs' ys' else Ok false
  | _, _ => Stuck        (* lengths were checked before the loop *)
  end.
(* for k, v := range this { thatv, ok := that[k]; if !ok {return false}; if !(v == thatv) {return false} } *)
Fixpoint entries_r (kvs other : list (val * val)) {struct kvs} : res bool :=
  match kvs with
  | [] => Ok true
  | kv :: kvs' =>
      match map_get (fst kv) other with
      | None => Ok false
      | Some v' =>
          rdo c <- f (snd kv) v';
          if c then entries_r kvs' other else Ok false
      end
  end.
End EqComb2.

Fixpoint eqm (e : tenv) (m : mode) (t : ty) (x y : val) {struct x} : res bool :=
  match strategy e m t with
  | SEqEq => Ok (go_eqeq x y)
  | SPtrNoStruct e' rt =>
      match x, y with
      | VNilP, VNilP => Ok true
      | VPtr _ x', VPtr _ y' => eqm e' Top rt x' y'
      | VNilP, VPtr _ _ | VPtr _ _, VNilP => Ok false
      | _, _ => Stuck
      end
  | SPtrStruct e' fs =>
      match x, y with
      | VNilP, VNilP => Ok true
      | VPtr _ (VSt xs), VPtr _ (VSt ys) => fields_r (fun ft a b => eqm e' Fld ft a b) fs xs ys
      | VNilP, VPtr _ _ | VPtr _ _, VNilP => Ok false
      | _, _ => Stuck
      end
  | SPtrInline e' rt =>
      match x, y with
      | VNilP, VNilP => Ok true
      | VPtr _ x', VPtr _ y' => eqm e' Fld rt x' y'
      | VNilP, VPtr _ _ | VPtr _ _, VNilP => Ok false
      | _, _ => Stuck
      end
  | SBytes => bytes_equal x y
  | SSlice e' et =>
      match x, y with
      | VNilS, VNilS => Ok true
      | VNilS, VSl _ _ _ | VSl _ _ _, VNilS => Ok false
      | VSl _ xs _, VSl _ ys _ =>
          if negb (Nat.eqb (List.length xs) (List.length ys)) then Ok false
          else elems_r (fun a b => eqm e' Fld et a b) xs ys
      | _, _ => Stuck
      end
  | SArray e' et =>
      match x, y with
      | VArr xs, VArr ys => elems_r (fun a b => eqm e' Fld et a b) xs ys
      | _, _ => Stuck
      end
  | SMap e' vt =>
      match x, y with
      | VNilM, VNilM => Ok true
      | VNilM, VMap _ _ | VMap _ _, VNilM => Ok false
      | VMap _ xm, VMap _ ym =>
          if negb (Nat.eqb (List.length xm) (List.length ym)) then Ok false
          else entries_r (fun a b => eqm e' Fld vt a b) xm ym
      | _, _ => Stuck
      end
  | SFields e' fs =>
      match x, y with
      | VSt xs, VSt ys => fields_r (fun ft a b => eqm e' Fld ft a b) fs xs ys
      | _, _ => Stuck
      end
  | SUnsup => Unsup
  | SStuck => Stuck
  end.

Definition equal_model (t : ty) (x y : val) : res bool := eqm [] Top t x y.
(* the one-argument curried form has the same body (genCurriedFunc calls genStatement) *)
Definition equal_curried_model (t : ty) (x : val) : val -> res bool := fun y => eqm [] Top t x y.

(* ---------- specification: type-directed structural equality ---------- *)
Definition leaf_eq (k : bkind) (x y : val) : option bool :=
  match k, x, y with
  | KBool, VBool a, VBool b => Some (Bool.eqb a b)
  | KInt _ _, VInt a, VInt b => Some (Z.eqb a b)
  | (KF32 | KF64), VF n1 m1, VF n2 m2 => Some (feq n1 m1 n2 m2)
  | (KC64 | KC128), VC a b c d, VC a' b' c' d' => Some (feq a b a' b' && feq c d c' d')%bool
  | KStr, VStr a, VStr b => Some (bytes_eqb a b)
  | _, _, _ => None
  end.

Definition oand (a : option bool) (b : option bool) : option bool :=
  match a, b with
  | Some x, Some y => Some (x && y)%bool
  | _, _ => None
  end.

Section SpecComb.
Variable f : val -> val -> option bool.
Fixpoint all2o (xs ys : list val) {struct xs} : option bool :=
  match xs, ys with
  | [], [] => Some true
  | a :: xs', b :: ys' => oand (f a b) (all2o xs' ys')
  | _, _ => Some false
  end.
(* every entry of kvs has an entry in other with an == key and an equal value *)
Fixpoint entries_o (kvs other : list (val * val)) {struct kvs} : option bool :=
  match kvs with
  | [] => Some true
  | kv :: kvs' =>
      oand (match map_get (fst kv) other with
            | None => Some false
            | Some v' => f (snd kv) v'
            end) (entries_o kvs' other)
  end.
End SpecComb.
Section SpecComb2.
Variable f : ty -> val -> val -> option bool.
Fixpoint fields_o (fs : list (bool * ty)) (xs ys : list val) {struct xs} : option bool :=
  match fs, xs, ys with
  | [], [], [] => Some true
  | fd :: fs', a :: xs', b :: ys' => oand (f (snd fd) a b) (fields_o fs' xs' ys')
  | _, _, _ => None
  end.
End SpecComb2.

(* same nil-ness at every pointer, slice and map; same lengths and key sets; equal leaves
   and fields; labels, spare capacity and entry order play no role *)
Fixpoint spec_eq (e : tenv) (t : ty) (x y : val) {struct x} : option bool :=
  match resolve e t with
  | None => None
  | Some r =>
      let e' := r_env r in
      match r_node r, x, y with
      | TB k, _, _ => leaf_eq k x y
      | TP _, VNilP, VNilP => Some true
      | TP _, VNilP, VPtr _ _ | TP _, VPtr _ _, VNilP => Some false
      | TP rt, VPtr _ x', VPtr _ y' => spec_eq e' rt x' y'
      | TSl _, VNilS, VNilS => Some true
      | TSl _, VNilS, VSl _ _ _ | TSl _, VSl _ _ _, VNilS => Some false
      | TSl et, VSl _ xs _, VSl _ ys _ => all2o (fun a b => spec_eq e' et a b) xs ys
      | TAr _ et, VArr xs, VArr ys => all2o (fun a b => spec_eq e' et a b) xs ys
      | TM _ _, VNilM, VNilM => Some true
      | TM _ _, VNilM, VMap _ _ | TM _ _, VMap _ _, VNilM => Some false
      | TM _ vt, VMap _ xm, VMap _ ym =>
          if Nat.eqb (List.length xm) (List.length ym)
          then entries_o (fun a b => spec_eq e' vt a b) xm ym else Some false
      | TSt fs, VSt xs, VSt ys => fields_o (fun ft a b => spec_eq e' ft a b) fs xs ys
      | _, _, _ => None
      end
  end.

Definition lift (o : option bool) : res bool :=
  match o with Some b => Ok b | None => Stuck end.

(* the guard of the main theorem: no []byte in field/element position (bytes.Equal shortcut) *)
Fixpoint no_bytes_fld (t : ty) : bool :=
  match t with
  | TB _ | TRef _ => true
  | TN _ _ u => no_bytes_fld u
  | TP t' => no_bytes_fld t'
  | TSl et => (negb (is_byte et) && no_bytes_fld et)%bool
  | TAr _ et => no_bytes_fld et
  | TM k v => (no_bytes_fld k && no_bytes_fld v)%bool
  | TSt fs => (fix go (l : list (bool * ty)) : bool :=
                 match l with [] => true | f :: l' => no_bytes_fld (snd f) && go l' end)%bool fs
  end.
(* at top level a []byte is compared by the generic slice loop *)
Definition no_bytes (t : ty) : bool :=
  match t with
  | TSl et => no_bytes_fld et
  | TN _ _ (TSl et) => no_bytes_fld et
  | _ => no_bytes_fld t
  end.

(* ---------- which types the generator accepts (no SUnsup at any reachable position) ----------
   Structural on the type; a back reference is accepted here because the enclosing named
   type is examined where it is declared (named types behave alike in both modes). *)
Definition strat_ok (s : strat) : bool :=
  match s with SUnsup | SStuck => false | _ => true end.

Fixpoint eq_sup_aux (e0 : tenv) (orig : ty) (e : tenv) (m : mode) (t : ty) {struct t} : bool :=
  let s := strategy e0 m orig in
  (strat_ok s &&
   match s with
   | SEqEq => true
   | _ =>
     match t with
     | TB _ | TRef _ => true
     | TN id ext u => eq_sup_aux e0 orig ((id, (ext, u)) :: e) m u
     | TP rt =>
         match s with
         | SPtrStruct _ _ =>
             match rt with
             | TN id ext (TSt fs) =>
                 let e' := (id, (ext, TSt fs)) :: e in
                 (fix go (l : list (bool * ty)) : bool :=
                    match l with
                    | [] => true
                    | f :: l' => eq_sup_aux e' (snd f) e' Fld (snd f) && go l'
                    end) fs
             | _ => true
             end
         | SPtrInline _ _ => eq_sup_aux e rt e Fld rt
         | _ => eq_sup_aux e rt e Top rt
         end
     | TSl et => eq_sup_aux e et e Fld et
     | TAr _ et => eq_sup_aux e et e Fld et
     | TM _ vt => eq_sup_aux e vt e Fld vt
     | TSt fs => (fix go (l : list (bool * ty)) : bool :=
                    match l with
                    | [] => true
                    | f :: l' => eq_sup_aux e (snd f) e Fld (snd f) && go l'
                    end) fs
     end
   end)%bool.

Definition eq_sup (e : tenv) (m : mode) (t : ty) : bool := eq_sup_aux e t e m t.
