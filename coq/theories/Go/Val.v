(* Go/Val.v — finite (hence acyclic) Go values of the supported grammar.
   [loc] labels stand for addresses of pointer targets, slice backing arrays and maps:
   Equal/Compare/Hash ignore them, DeepCopy (C05) is about them.  [spare] is the part of a
   slice's backing array between len and cap. *)
From Coq Require Import String.
From Verif Require Export Go.Ty Utf8.
Open Scope Z_scope.

Inductive val : Type :=
| VBool (b : bool)
| VInt (z : Z)
| VF (neg : bool) (mag : N)                     (* IEEE float: sign, remaining bits *)
| VC (rneg : bool) (rmag : N) (ineg : bool) (imag : N)
| VStr (s : list N)
| VNilP
| VPtr (l : N) (v : val)
| VNilS
| VSl (l : N) (es spare : list val)
| VNilM
| VMap (l : N) (kvs : list (val * val))
| VArr (es : list val)
| VSt (fs : list val).

Section ValInd.
Variable P : val -> Prop.
Hypothesis HBool : forall b, P (VBool b).
Hypothesis HInt : forall z, P (VInt z).
Hypothesis HF : forall n m, P (VF n m).
Hypothesis HC : forall a b c d, P (VC a b c d).
Hypothesis HStr : forall s, P (VStr s).
Hypothesis HNilP : P VNilP.
Hypothesis HPtr : forall l v, P v -> P (VPtr l v).
Hypothesis HNilS : P VNilS.
Hypothesis HSl : forall l es sp, Forall P es -> Forall P sp -> P (VSl l es sp).
Hypothesis HNilM : P VNilM.
Hypothesis HMap : forall l kvs, Forall (fun kv => P (fst kv) /\ P (snd kv)) kvs -> P (VMap l kvs).
Hypothesis HArr : forall es, Forall P es -> P (VArr es).
Hypothesis HSt : forall fs, Forall P fs -> P (VSt fs).
Fixpoint val_ind' (v : val) : P v :=
  let fix go (l : list val) : Forall P l :=
    match l with [] => Forall_nil _ | x :: l' => Forall_cons x (val_ind' x) (go l') end in
  match v with
  | VBool b => HBool b | VInt z => HInt z | VF n m => HF n m | VC a b c d => HC a b c d
  | VStr s => HStr s | VNilP => HNilP | VPtr l v => HPtr l v (val_ind' v)
  | VNilS => HNilS | VSl l es sp => HSl l es sp (go es) (go sp)
  | VNilM => HNilM
  | VMap l kvs => HMap l kvs
      ((fix gom (m : list (val * val)) : Forall (fun kv => P (fst kv) /\ P (snd kv)) m :=
          match m with
          | [] => Forall_nil _
          | kv :: m' => Forall_cons kv (conj (val_ind' (fst kv)) (val_ind' (snd kv))) (gom m')
          end) kvs)
  | VArr es => HArr es (go es)
  | VSt fs => HSt fs (go fs)
  end.
End ValInd.

(* ---------- leaves ---------- *)
Definition feq (n1 : bool) (m1 : N) (n2 : bool) (m2 : N) : bool :=
  if (N.eqb m1 0 && N.eqb m2 0)%bool then true else (Bool.eqb n1 n2 && N.eqb m1 m2)%bool.
Definition fkey (n : bool) (m : N) : Z := if n then - Z.of_N m else Z.of_N m.
Definition flt (n1 : bool) (m1 : N) (n2 : bool) (m2 : N) : bool := fkey n1 m1 <? fkey n2 m2.

Fixpoint bytes_eqb (a b : list N) : bool :=
  match a, b with
  | [], [] => true
  | x :: a', y :: b' => (N.eqb x y && bytes_eqb a' b')%bool
  | _, _ => false
  end.

(* strings.Compare / bytes.Compare: lexicographic on bytes, result -1/0/1 *)
Fixpoint bytes_cmp (a b : list N) : Z :=
  match a, b with
  | [], [] => 0
  | [], _ :: _ => -1
  | _ :: _, [] => 1
  | x :: a', y :: b' => if N.ltb x y then -1 else if N.ltb y x then 1 else bytes_cmp a' b'
  end.

(* ---------- list combinators (top level, so that lemmas about them can be stated once) ---------- *)
Section Comb.
Context {A B : Type}.
Variable f : A -> B -> bool.
(* pointwise conjunction; different lengths give [false] *)
Fixpoint all2b (xs : list A) (ys : list B) {struct xs} : bool :=
  match xs, ys with
  | [], [] => true
  | a :: xs', b :: ys' => (f a b && all2b xs' ys')%bool
  | _, _ => false
  end.
End Comb.

(* Go's == on comparable values (pointers: identity of the target). *)
Fixpoint go_eqeq (x y : val) {struct x} : bool :=
  let all2 := all2b (fun a b => go_eqeq a b) in
  match x, y with
  | VBool a, VBool b => Bool.eqb a b
  | VInt a, VInt b => Z.eqb a b
  | VF n1 m1, VF n2 m2 => feq n1 m1 n2 m2
  | VC a b c d, VC a' b' c' d' => (feq a b a' b' && feq c d c' d')%bool
  | VStr a, VStr b => bytes_eqb a b
  | VNilP, VNilP => true
  | VPtr l _, VPtr l' _ => N.eqb l l'
  | VArr xs, VArr ys => all2 xs ys
  | VSt xs, VSt ys => all2 xs ys
  | _, _ => false
  end.

(* m[k]: first entry whose key is == k *)
Fixpoint map_get (k : val) (m : list (val * val)) : option val :=
  match m with
  | [] => None
  | (k', v) :: m' => if go_eqeq k' k then Some v else map_get k m'
  end.

(* ---------- typing ---------- *)
Definition int_ok (w : N) (s : bool) (z : Z) : bool :=
  if s then (- 2 ^ (Z.of_N w - 1) <=? z) && (z <? 2 ^ (Z.of_N w - 1))
  else (0 <=? z) && (z <? 2 ^ Z.of_N w).
(* finite or infinite, not NaN *)
Definition f32_ok (m : N) : bool := (m <=? 2139095040)%N.          (* 0x7F800000 *)
Definition f64_ok (m : N) : bool := (m <=? 9218868437227405312)%N. (* 0x7FF0000000000000 *)
Definition byte_ok (b : N) : bool := (b <? 256)%N.

Fixpoint keys_distinct (ks : list val) : bool :=
  match ks with
  | [] => true
  | k :: ks' => (negb (existsb (go_eqeq k) ks') && keys_distinct ks')%bool
  end.

Definition basic_ok (k : bkind) (v : val) : bool :=
  match k, v with
  | KBool, VBool _ => true
  | KInt w s, VInt z => int_ok w s z
  | KF32, VF _ m => f32_ok m
  | KF64, VF _ m => f64_ok m
  | KC64, VC _ a _ b => (f32_ok a && f32_ok b)%bool
  | KC128, VC _ a _ b => (f64_ok a && f64_ok b)%bool
  | KStr, VStr s => forallb byte_ok s
  | _, _ => false
  end.

(* well-typedness of a value (NaN-free, map keys pairwise distinct under ==) *)
(* struct fields against their types *)
Section FieldsOk.
Variable f : ty -> val -> bool.
Fixpoint fields_ok (ts : list (bool * ty)) (l : list val) {struct l} : bool :=
  match ts, l with
  | [], [] => true
  | fd :: ts', x :: l' => (f (snd fd) x && fields_ok ts' l')%bool
  | _, _ => false
  end.
End FieldsOk.

Fixpoint has_type (e : tenv) (t : ty) (v : val) {struct v} : bool :=
  match resolve e t with
  | None => false
  | Some r =>
      let e' := r_env r in
      match r_node r, v with
      | TB k, _ => basic_ok k v
      | TP t', VNilP => match resolve e' t' with Some _ => true | None => false end
      | TP t', VPtr _ v' => has_type e' t' v'
      | TSl _, VNilS => true
      | TSl t', VSl _ es sp => (forallb (has_type e' t') es && forallb (has_type e' t') sp)%bool
      | TAr n t', VArr es => (Nat.eqb (List.length es) n && forallb (has_type e' t') es)%bool
      | TM _ _, VNilM => true
      | TM tk tv, VMap _ kvs =>
          (can_equal tk && keys_distinct (map fst kvs)
           && forallb (fun kv => has_type e' tk (fst kv) && has_type e' tv (snd kv)) kvs)%bool
      | TSt fs, VSt vs => fields_ok (has_type e') fs vs
      | _, _ => false
      end
  end.

(* ---------- parsing ---------- *)
Definition get_bytes (l : list sexp) : option (list N) :=
  map_opt (fun e => option_map Z.to_N (get_num e)) l.

Fixpoint parse_val (e : sexp) : option val :=
  let fix go (l : list sexp) : option (list val) :=
    match l with
    | [] => Some []
    | a :: l' => match parse_val a, go l' with
                 | Some v, Some r => Some (v :: r) | _, _ => None end
    end in
  match e with
  | Sym s =>
      if String.eqb s "nilp" then Some VNilP
      else if String.eqb s "nils" then Some VNilS
      else if String.eqb s "nilm" then Some VNilM
      else None
  | Num _ => None
  | L (Sym h :: args) =>
      if String.eqb h "b" then
        match args with [Num z] => Some (VBool (Z.eqb z 1)) | _ => None end
      else if String.eqb h "i" then
        match args with [Num z] => Some (VInt z) | _ => None end
      else if String.eqb h "f" then
        match args with [Num n; Num m] => Some (VF (Z.eqb n 1) (Z.to_N m)) | _ => None end
      else if String.eqb h "c" then
        match args with
        | [Num a; Num b; Num c; Num d] =>
            Some (VC (Z.eqb a 1) (Z.to_N b) (Z.eqb c 1) (Z.to_N d))
        | _ => None
        end
      else if String.eqb h "s" then option_map VStr (get_bytes args)
      else if String.eqb h "p" then
        match args with
        | [Num l; a] => option_map (VPtr (Z.to_N l)) (parse_val a)
        | _ => None
        end
      else if String.eqb h "sl" then
        match args with
        | [Num l; L es; L sp] =>
            match go es, go sp with
            | Some es', Some sp' => Some (VSl (Z.to_N l) es' sp')
            | _, _ => None
            end
        | _ => None
        end
      else if String.eqb h "m" then
        match args with
        | [Num l; L kvs] =>
            option_map (VMap (Z.to_N l))
              ((fix gom (m : list sexp) : option (list (val * val)) :=
                  match m with
                  | [] => Some []
                  | L [k; v] :: m' =>
                      match parse_val k, parse_val v, gom m' with
                      | Some k', Some v', Some r => Some ((k', v') :: r)
                      | _, _, _ => None
                      end
                  | _ => None
                  end) kvs)
        | _ => None
        end
      else if String.eqb h "a" then option_map VArr (go args)
      else if String.eqb h "st" then option_map VSt (go args)
      else None
  | L _ => None
  end.
