(* Go/HashTotal.v — the model of derived Hash is defined on every well-typed value: it returns a number
   or the generator's refusal of the type (a map whose key type cannot be sorted), never a panic and
   never "stuck".  Together with HashProofs this makes the equations of C04 equations between numbers
   for supported types; and the clauses of C04 one by one: addresses and spare capacity, map order. *)
From Verif Require Import Go.Ty Go.Val Go.Equal Go.EqualProofs Go.Compare Go.CompareSpec
  Go.ListOrder Go.KeyOrder Go.SortLemmas Go.CompareProofs Go.MapLemmas Go.Canon Go.Hash Go.HashProofs
  Go.Invariance.
From Coq Require Import Lia Permutation.

Definition defined (r : res N) : Prop :=
  match r with Ok _ | Unsup => True | Pan | Stuck => False end.

Lemma leaf_hash_defined k x : basic_ok k x = true -> exists n, leaf_hash k x = Some n.
Proof.
  destruct k, x; cbn; intros H; try discriminate; eexists; reflexivity.
Qed.

Lemma elems_h_defined (f : val -> res N) xs : Forall (fun a => defined (f a)) xs ->
  forall h, defined (elems_h f h xs).
Proof.
  induction 1 as [|a xs Ha _ IH]; intros h; cbn; [exact I|].
  destruct (f a); cbn in *; try contradiction; [apply IH| exact I].
Qed.

Lemma fields_h_defined (f : ty -> val -> res N) (ht : ty -> val -> bool) skip xs :
  Forall (fun a => forall ft, ht ft a = true -> defined (f ft a)) xs ->
  forall fs h, fields_ok ht fs xs = true -> defined (fields_h f skip h fs xs).
Proof.
  induction 1 as [|a xs Ha _ IH]; intros [|fd fs] h Hf; cbn in *; try discriminate; [exact I|].
  apply andb_prop in Hf as [Hf1 Hf2].
  destruct (skip && fst fd)%bool; [apply IH; exact Hf2|].
  specialize (Ha _ Hf1). destruct (f (snd fd) a); cbn in *; try contradiction; [apply IH; exact Hf2| exact I].
Qed.

Lemma struct_hash_defined (f : ty -> val -> res N) (ht : ty -> val -> bool) skip xs fs :
  Forall (fun a => forall ft, ht ft a = true -> defined (f ft a)) xs ->
  fields_ok ht fs xs = true -> defined (struct_hash f skip fs xs).
Proof.
  intros H Hf. unfold struct_hash.
  destruct fs, xs; try exact I; apply (fields_h_defined f ht); assumption.
Qed.

Lemma entries_h_defined es : Forall (fun e : val * (res N * res N) => defined (fst (snd e)) /\ defined (snd (snd e))) es ->
  forall h, defined (entries_h h es).
Proof.
  induction 1 as [|[k [hk hv]] es [Hk Hv] _ IH]; intros h; cbn in *; [exact I|].
  destruct hk; cbn in *; try contradiction; [|exact I].
  destruct hv; cbn in *; try contradiction; [apply IH| exact I].
Qed.

Theorem hash_defined : forall x e t, has_type e t x = true -> defined (hashm e t x).
Proof.
  induction x using val_ind'; intros e t Hx0; pose proof Hx0 as Hx;
  rewrite has_type_unfold in Hx; rewrite hashm_unfold;
  destruct (resolve e t) as [r|] eqn:R; try discriminate; cbn zeta in *;
  destruct (r_node r) eqn:N; try discriminate.
  1-5: (destruct (leaf_hash_defined _ _ Hx) as [nn Hn]; rewrite Hn; exact I).
  all: try (cbn in Hx; destruct k; discriminate).
  - (* VNilP *) destruct (resolve (r_env r) t0); [exact I| discriminate].
  - (* VPtr *)
    assert (exists rr, resolve (r_env r) t0 = Some rr) as [rr RR].
    { rewrite has_type_unfold in Hx. destruct (resolve (r_env r) t0); [eexists; reflexivity|discriminate]. }
    rewrite RR. specialize (IHx (r_env r) t0 Hx).
    assert (G : defined (rmap (fun c => wrap (31 * 17 + c)) (hashm (r_env r) t0 x))).
    { destruct (hashm (r_env r) t0 x); cbn in *; try contradiction; exact I. }
    destruct (r_node rr) eqn:NN; try exact G.
    destruct (is_named rr) eqn:NM; [|exact G].
    rewrite hashm_unfold, RR in IHx. cbn zeta in IHx. rewrite NN, NM in IHx. cbn [andb] in IHx.
    rewrite has_type_unfold, RR in Hx. cbn zeta in Hx. rewrite NN in Hx.
    destruct x; try discriminate. exact IHx.
  - (* VNilS *) exact I.
  - (* VSl *)
    apply andb_prop in Hx as [Hx _]. apply elems_h_defined.
    apply forallb_Forall in Hx. rewrite Forall_forall in *. intros a Ha. apply H; [exact Ha| apply Hx; exact Ha].
  - (* VNilM *) exact I.
  - (* VMap *)
    destruct (key_sup t0_1); cbn [negb]; [|exact I].
    apply andb_prop in Hx as [_ Hx]. apply forallb_Forall in Hx.
    apply entries_h_defined. apply Forall_forall. intros en Hen. apply sort_by_In in Hen.
    apply in_map_iff in Hen as [kv [Ekv Hkv]]. subst en. cbn [fst snd].
    rewrite Forall_forall in H, Hx. destruct (H kv Hkv) as [IHk IHv]. specialize (Hx kv Hkv). cbn in Hx.
    apply andb_prop in Hx as [Hk Hv]. split; [apply IHk; exact Hk| apply IHv; exact Hv].
  - (* VArr *)
    apply andb_prop in Hx as [_ Hx]. apply elems_h_defined.
    apply forallb_Forall in Hx. rewrite Forall_forall in *. intros a Ha. apply H; [exact Ha| apply Hx; exact Ha].
  - (* VSt *)
    apply (struct_hash_defined _ (has_type (r_env r))); [|exact Hx].
    rewrite Forall_forall in *. intros a Ha ft Hft. apply H; assumption.
Qed.

(* the only refusal is a map key type that cannot be sorted: without maps whose entries are hashed the
   result is a number *)
Corollary hash_total e t x : has_type e t x = true ->
  (exists n, hashm e t x = Ok n) \/ hashm e t x = Unsup.
Proof.
  intros H. pose proof (hash_defined x e t H) as D.
  destruct (hashm e t x); cbn in D; try contradiction; [left; eexists; reflexivity| right; reflexivity].
Qed.

(* addresses and spare capacity: two values that differ only there hash alike *)
Corollary hash_erase e t x y : has_type e t x = true -> has_type e t y = true ->
  erase x = erase y -> hashm e t x = hashm e t y.
Proof.
  intros Hx Hy E. apply hash_respects_equal; try assumption. apply spec_eq_same_shape; assumption.
Qed.

(* a value hashes like its own address-free image (in particular like any clone laid out elsewhere) *)
Corollary hash_of_erased e t x : has_type e t x = true -> hashm e t (erase x) = hashm e t x.
Proof.
  intros Hx. destruct (erase_typed_enc x e t Hx) as [Tx _].
  apply hash_erase; try assumption.
  clear. induction x using val_ind'; cbn; try reflexivity.
  - rewrite IHx. reflexivity.
  - f_equal. rewrite map_map. apply map_ext_in. intros a Ha. rewrite Forall_forall in H. apply H. exact Ha.
  - f_equal. rewrite map_map. apply map_ext_in. intros a Ha. rewrite Forall_forall in H.
    destruct (H a Ha) as [Hk Hv]. cbn. rewrite Hk, Hv. reflexivity.
  - f_equal. rewrite map_map. apply map_ext_in. intros a Ha. rewrite Forall_forall in H. apply H. exact Ha.
  - f_equal. rewrite map_map. apply map_ext_in. intros a Ha. rewrite Forall_forall in H. apply H. exact Ha.
Qed.

(* maps populated in a different order (the entries listed in any permutation) *)
Corollary hash_map_perm e t l l' xm xm' :
  has_type e t (VMap l xm) = true -> has_type e t (VMap l' xm') = true ->
  Permutation xm xm' -> hashm e t (VMap l xm) = hashm e t (VMap l' xm').
Proof.
  intros Hx Hy P. apply hash_respects_equal; try assumption. apply spec_eq_map_perm; assumption.
Qed.

(* +0 and -0, for every float kind and inside complex numbers *)
Corollary hash_zero_sign k (n1 n2 : bool) :
  (k = KF32 \/ k = KF64) -> hashm [] (TB k) (VF n1 0) = hashm [] (TB k) (VF n2 0).
Proof. intros [->| ->]; destruct n1, n2; vm_compute; reflexivity. Qed.

Example hash_total_example :
  exists n, hash_model (TM (TB KStr) (TP (TB KF64)))
    (VMap 1 [(VStr [98%N], VNilP); (VStr [97%N], VPtr 2 (VF true 0))]) = Ok n.
Proof. vm_compute. eexists. reflexivity. Qed.
