(* Go/HashPrivKeys.v — hardening round 5 of C04: map keys that are structs of an IMPORTED package with
   unexported fields.  plugin/hash leaves those fields out (fields_h with skip_priv), so keys that agree
   in their exported fields have the same hash; the hash of the map is then a function of the VALUE only
   because the keys are visited in the order of derived Compare, which does look at the unexported
   fields (sort_by fst with cmp_val in the model).  The general statements (hash_respects_equal,
   hash_map_perm) cover these types; this file records what is particular to them. *)
From Verif Require Import Go.Ty Go.Val Go.Equal Go.Compare Go.Hash Go.HashProofs Go.HashTotal.
From Coq Require Import List NArith ZArith Bool.
Import ListNotations.
Open Scope N_scope.

(* every field unexported and skipped: the accumulator comes back unchanged *)
Lemma fields_h_skip_all (f : ty -> val -> res N) : forall fs xs h,
  forallb fst fs = true -> length fs = length xs -> fields_h f true h fs xs = Ok h.
Proof.
  induction fs as [|fd fs IH]; intros [|a xs] h Hp Hl; cbn in *; try reflexivity; try discriminate.
  apply andb_true_iff in Hp. destruct Hp as [Hf Hp]. rewrite Hf. cbn.
  apply IH; [exact Hp | congruence].
Qed.

(* an imported struct whose fields are all unexported hashes to 17, whatever it holds *)
Corollary struct_hash_all_private (f : ty -> val -> res N) fs xs :
  forallb fst fs = true -> length fs = length xs -> struct_hash f true fs xs = Ok 17.
Proof.
  intros Hp Hl. destruct fs as [|fd fs], xs as [|a xs]; try reflexivity; try discriminate.
  unfold struct_hash. apply fields_h_skip_all; assumption.
Qed.

(* ext2.E4 = struct{ f0 int; f1 string } of the harness, map[ext2.E4]string *)
Definition E4 : ty := TN 33 true (TSt [(true, TB (KInt 64 true)); (true, TB KStr)]).
Definition ME4 : ty := TM E4 (TB KStr).
Definition k0 : val := VSt [VInt 0; VStr []].
Definition k1 : val := VSt [VInt 0; VStr [97]].
Definition k2 : val := VSt [VInt (-1); VStr [97; 98]].
Definition va : val := VStr [97].
Definition vb : val := VStr [98].
Definition vc : val := VStr [99].

(* the three keys are different keys with one hash ... *)
Example priv_keys_tie :
  hashm [] E4 k0 = Ok 17 /\ hashm [] E4 k1 = Ok 17 /\ hashm [] E4 k2 = Ok 17
  /\ go_eqeq k0 k1 = false /\ go_eqeq k1 k2 = false /\ go_eqeq k0 k2 = false.
Proof. vm_compute. repeat split; reflexivity. Qed.

(* ... every insertion order of the same entries gives one hash (instances of hash_map_perm) ... *)
Example priv_keys_orders :
  hash_model ME4 (VMap 1 [(k0, va); (k1, vb); (k2, vc)]) = hash_model ME4 (VMap 2 [(k2, vc); (k1, vb); (k0, va)])
  /\ hash_model ME4 (VMap 1 [(k0, va); (k1, vb); (k2, vc)]) = hash_model ME4 (VMap 3 [(k1, vb); (k2, vc); (k0, va)])
  /\ exists n, hash_model ME4 (VMap 1 [(k0, va); (k1, vb); (k2, vc)]) = Ok n.
Proof. vm_compute. repeat split. eexists. reflexivity. Qed.

(* ... and which key holds which value is part of the hash although the keys hash alike: an order of
   the keys that could not tell k0 from k1 (a Compare that skipped the unexported fields as Hash does)
   would leave the runtime's iteration order in the result. *)
Example priv_keys_order_matters :
  hash_model ME4 (VMap 1 [(k0, va); (k1, vb)]) <> hash_model ME4 (VMap 1 [(k0, vb); (k1, va)])
  /\ has_type [] ME4 (VMap 1 [(k0, va); (k1, vb)]) = true
  /\ Compare.cmpm [] E4 k0 k1 = Ok (-1)%Z /\ Compare.cmpm [] E4 k1 k0 = Ok 1%Z.
Proof. vm_compute. repeat split; try reflexivity. intro H. discriminate H. Qed.
