(* Go/Compare.v — model of the code emitted by plugin/compare (with plugin/sort and
   plugin/keys for maps).  C03.

   genStatement and field lead to the same comparison for every component (field only adds
   strings.Compare for strings and otherwise calls the helper generated for the component
   type, whose body is genStatement), so the model has a single mode.  Unnamed structs are
   reported as unsupported wherever they are reached. *)
From Verif Require Export Go.Val.
Open Scope Z_scope.

Definition cmp_bool (a b : bool) : Z := if Bool.eqb a b then 0 else if b then -1 else 1.
Definition cmp_int (a b : Z) : Z := if Z.eqb a b then 0 else if Z.ltb a b then -1 else 1.
(* if this != that { if this < that { -1 } else { 1 } }; 0 *)
Definition cmp_float (n1 : bool) (m1 : N) (n2 : bool) (m2 : N) : Z :=
  if feq n1 m1 n2 m2 then 0 else if flt n1 m1 n2 m2 then -1 else 1.
Definition cmp_complex a b c d a' b' c' d' : Z :=
  if feq a b a' b' then cmp_float c d c' d' else if flt a b a' b' then -1 else 1.

Definition leaf_cmp (k : bkind) (x y : val) : option Z :=
  match k, x, y with
  | KBool, VBool a, VBool b => Some (cmp_bool a b)
  | KInt _ _, VInt a, VInt b => Some (cmp_int a b)
  | (KF32 | KF64), VF n1 m1, VF n2 m2 => Some (cmp_float n1 m1 n2 m2)
  | (KC64 | KC128), VC a b c d, VC a' b' c' d' => Some (cmp_complex a b c d a' b' c' d')
  | KStr, VStr a, VStr b => Some (bytes_cmp a b)
  | _, _, _ => None
  end.

(* the order derived Compare induces on values of comparable (pointer-free) types; used for
   the sorted key lists of a map.  [cmp_val_is_cmpm] (CompareProofs) shows that it is what the
   generated deriveCompare of the key type computes. *)
Section LexComb.
Variable f : val -> val -> Z.
Fixpoint lex2 (xs ys : list val) {struct xs} : Z :=
  match xs, ys with
  | a :: xs', b :: ys' => let c := f a b in if Z.eqb c 0 then lex2 xs' ys' else c
  | _, _ => 0
  end.
End LexComb.

Fixpoint cmp_val (x y : val) {struct x} : Z :=
  match x, y with
  | VBool a, VBool b => cmp_bool a b
  | VInt a, VInt b => cmp_int a b
  | VF n1 m1, VF n2 m2 => cmp_float n1 m1 n2 m2
  | VC a b c d, VC a' b' c' d' => cmp_complex a b c d a' b' c' d'
  | VStr a, VStr b => bytes_cmp a b
  | VArr xs, VArr ys => lex2 (fun a b => cmp_val a b) xs ys
  | VSt xs, VSt ys => lex2 (fun a b => cmp_val a b) xs ys
  | _, _ => 0
  end.

(* sort.Slice with `less(i, j) = deriveCompare(list[i], list[j]) < 0` (or natural <): the
   result is the sorted permutation; insertion sort is the executable stand-in (for a total
   order the sorted permutation is unique up to ==, and map keys are pairwise not ==). *)
Section Sort.
Context {A : Type}.
Variable key : A -> val.
Fixpoint insert_by (a : A) (l : list A) : list A :=
  match l with
  | [] => [a]
  | b :: l' => if Z.ltb (cmp_val (key b) (key a)) 0 then b :: insert_by a l'
               else if Z.eqb (cmp_val (key b) (key a)) 0 then b :: insert_by a l'
               else a :: l
  end.
Definition sort_by (l : list A) : list A := fold_right insert_by [] l.
End Sort.

(* does derived Compare accept the type (no unnamed struct reachable by value)? decided on
   key types, which are pointer-free *)
Fixpoint key_sup (t : ty) : bool :=
  match t with
  | TB _ => true
  | TN _ _ (TSt fs) => (fix go (l : list (bool * ty)) : bool :=
                         match l with [] => true | f :: l' => key_sup (snd f) && go l' end)%bool fs
  | TN _ _ u => key_sup u
  | TAr _ e => key_sup e
  | _ => false
  end.

Section CmpComb.
Variable f : val -> val -> res Z.
(* for i := range this { if c := cmp(this[i], that[i]); c != 0 { return c } }; return 0 *)
Fixpoint elems_c (xs ys : list val) {struct xs} : res Z :=
  match xs, ys with
  | [], [] => Ok 0
  | a :: xs', b :: ys' =>
      rdo c <- f a b;
      if Z.eqb c 0 then elems_c xs' ys' else Ok c
  | _, _ => Stuck
  end.
End CmpComb.
Section CmpComb2.
Variable f : ty -> val -> val -> res Z.
Fixpoint fields_c (fs : list (bool * ty)) (xs ys : list val) {struct xs} : res Z :=
  match fs, xs, ys with
  | [], [], [] => Ok 0
  | fd :: fs', a :: xs', b :: ys' =>
      rdo c <- f (snd fd) a b;
      if Z.eqb c 0 then fields_c fs' xs' ys' else Ok c
  | _, _, _ => Stuck
  end.
End CmpComb2.

(* the loop over the two sorted key lists: entries of this carry the comparison of their
   value with any value of that as a closure (built where the value is a sub-term) *)
Fixpoint entries_c (xe : list (val * (val -> res Z))) (ye : list (val * val)) : res Z :=
  match xe, ye with
  | [], [] => Ok 0
  | (kx, cx) :: xe', (ky, vy) :: ye' =>
      if go_eqeq kx ky then
        rdo c <- cx vy;
        if Z.eqb c 0 then entries_c xe' ye' else Ok c
      else
        let c := cmp_val kx ky in
        if Z.eqb c 0 then entries_c xe' ye' else Ok c
  | _, _ => Stuck
  end.

Definition nil_cmp (xnil ynil : bool) : option Z :=
  match xnil, ynil with
  | true, true => Some 0
  | true, false => Some (-1)
  | false, true => Some 1
  | false, false => None
  end.

Fixpoint cmpm (e : tenv) (t : ty) (x y : val) {struct x} : res Z :=
  match resolve e t with
  | None => Stuck
  | Some r =>
      let e' := r_env r in
      match r_node r with
      | TB k => of_option (leaf_cmp k x y)
      | TP rt =>
          match x, y with
          | VNilP, VNilP => match resolve e' rt with Some _ => Ok 0 | None => Stuck end
          | VNilP, VPtr _ _ => Ok (-1)
          | VPtr _ _, VNilP => Ok 1
          | VPtr _ x', VPtr _ y' =>
              match resolve e' rt with
              | None => Stuck
              | Some rr =>
                  match r_node rr, is_named rr, x', y' with
                  | TSt fs, true, VSt xs, VSt ys =>
                      fields_c (fun ft a b => cmpm (r_env rr) ft a b) fs xs ys
                  | TSt _, true, _, _ => Stuck
                  | _, _, _, _ => cmpm e' rt x' y'    (* helper for the referent type *)
                  end
              end
          | _, _ => Stuck
          end
      | TSt fs =>
          if is_named r then
            match x, y with
            | VSt xs, VSt ys => fields_c (fun ft a b => cmpm e' ft a b) fs xs ys
            | _, _ => Stuck
            end
          else Unsup
      | TSl et =>
          match x, y with
          | VNilS, VNilS => Ok 0
          | VNilS, VSl _ _ _ => Ok (-1)
          | VSl _ _ _, VNilS => Ok 1
          | VSl _ xs _, VSl _ ys _ =>
              if negb (Nat.eqb (List.length xs) (List.length ys))
              then Ok (if Nat.ltb (List.length xs) (List.length ys) then -1 else 1)
              else elems_c (fun a b => cmpm e' et a b) xs ys
          | _, _ => Stuck
          end
      | TAr _ et =>
          match x, y with
          | VArr xs, VArr ys =>
              if negb (Nat.eqb (List.length xs) (List.length ys))
              then Ok (if Nat.ltb (List.length xs) (List.length ys) then -1 else 1)
              else elems_c (fun a b => cmpm e' et a b) xs ys
          | _, _ => Stuck
          end
      | TM kt vt =>
          match x, y with
          | VNilM, VNilM => Ok 0
          | VNilM, VMap _ _ => Ok (-1)
          | VMap _ _, VNilM => Ok 1
          | VMap _ xm, VMap _ ym =>
              if negb (Nat.eqb (List.length xm) (List.length ym))
              then Ok (if Nat.ltb (List.length xm) (List.length ym) then -1 else 1)
              else if negb (key_sup kt) then Unsup
              else
                let xe := map (fun kv => (fst kv, fun vy => cmpm e' vt (snd kv) vy)) xm in
                entries_c (sort_by fst xe) (sort_by fst ym)
          | _, _ => Stuck
          end
      | _ => Stuck
      end
  end.

Definition compare_model (t : ty) (x y : val) : res Z := cmpm [] t x y.
Definition compare_curried_model (t : ty) (x : val) : val -> res Z := fun y => cmpm [] t x y.
