(* Go/CompareProofs.v — the generated Compare computes the lexicographic order of the
   canonical encodings, for every type, all well-typed values (C03). *)
From Verif Require Import Go.Ty Go.Val Go.Equal Go.EqualProofs Go.Compare Go.CompareSpec
  Go.ListOrder Go.KeyOrder Go.SortLemmas.
From Coq Require Import Lia Permutation.
Open Scope Z_scope.
Local Arguments Z.compare : simpl never.
Local Arguments Z.add : simpl never.
Local Arguments Z.of_nat : simpl never.
Local Arguments Z.eqb : simpl never.
Local Arguments Z.ltb : simpl never.

Lemma cmpm_unfold e t x y :
  cmpm e t x y =
  match resolve e t with
  | None => Stuck
  | Some r =>
      let e' := r_env r in
      match r_node r with
      | TB k => of_option (leaf_cmp k x y)
      | TP rt =>
          match x, y with
          | VNilP, VNilP => match resolve e' rt with Some _ => Ok 0 | None => Stuck end
          | VNilP, VPtr _ _ => Ok (-1)
          | VPtr _ _, VNilP => Ok 1
          | VPtr _ x', VPtr _ y' =>
              match resolve e' rt with
              | None => Stuck
              | Some rr =>
                  match r_node rr, is_named rr, x', y' with
                  | TSt fs, true, VSt xs, VSt ys =>
                      fields_c (fun ft a b => cmpm (r_env rr) ft a b) fs xs ys
                  | TSt _, true, _, _ => Stuck
                  | _, _, _, _ => cmpm e' rt x' y'
                  end
              end
          | _, _ => Stuck
          end
      | TSt fs =>
          if is_named r then
            match x, y with
            | VSt xs, VSt ys => fields_c (fun ft a b => cmpm e' ft a b) fs xs ys
            | _, _ => Stuck
            end
          else Unsup
      | TSl et =>
          match x, y with
          | VNilS, VNilS => Ok 0
          | VNilS, VSl _ _ _ => Ok (-1)
          | VSl _ _ _, VNilS => Ok 1
          | VSl _ xs _, VSl _ ys _ =>
              if negb (Nat.eqb (List.length xs) (List.length ys))
              then Ok (if Nat.ltb (List.length xs) (List.length ys) then -1 else 1)
              else elems_c (fun a b => cmpm e' et a b) xs ys
          | _, _ => Stuck
          end
      | TAr _ et =>
          match x, y with
          | VArr xs, VArr ys =>
              if negb (Nat.eqb (List.length xs) (List.length ys))
              then Ok (if Nat.ltb (List.length xs) (List.length ys) then -1 else 1)
              else elems_c (fun a b => cmpm e' et a b) xs ys
          | _, _ => Stuck
          end
      | TM kt vt =>
          match x, y with
          | VNilM, VNilM => Ok 0
          | VNilM, VMap _ _ => Ok (-1)
          | VMap _ _, VNilM => Ok 1
          | VMap _ xm, VMap _ ym =>
              if negb (Nat.eqb (List.length xm) (List.length ym))
              then Ok (if Nat.ltb (List.length xm) (List.length ym) then -1 else 1)
              else if negb (key_sup kt) then Unsup
              else
                let xe := map (fun kv => (fst kv, fun vy => cmpm e' vt (snd kv) vy)) xm in
                entries_c (sort_by fst xe) (sort_by fst ym)
          | _, _ => Stuck
          end
      | _ => Stuck
      end
  end.
Proof. destruct x; reflexivity. Qed.

(* what the induction establishes for a pair of values of one type *)
Definition cmp_ok (m : res Z) (oa ob : option (list Z)) : Prop :=
  exists a b, oa = Some a /\ ob = Some b /\ AL a b /\ (m = Unsup \/ m = Ok (lexcmp a b)).

Lemma leaf_cmp_val k x y : basic_ok k x = true -> basic_ok k y = true ->
  leaf_cmp k x y = Some (cmp_val x y).
Proof.
  rewrite cmp_val_unfold.
  destruct k, x; cbn; intros Hx; try discriminate; destruct y; cbn; intros Hy; try discriminate; reflexivity.
Qed.

(* step of the element / field / entry loops *)
Lemma loop_step (g : res Z) (rest : res Z) a1 b1 a2 b2 :
  AL a1 b1 -> (g = Unsup \/ g = Ok (lexcmp a1 b1)) -> (rest = Unsup \/ rest = Ok (lexcmp a2 b2)) ->
  let m := rdo c <- g; if Z.eqb c 0 then rest else Ok c in
  m = Unsup \/ m = Ok (lexcmp (a1 ++ a2) (b1 ++ b2)).
Proof.
  intros A [->| ->] R; cbn; [left; reflexivity|].
  rewrite (A a2 b2). destruct (Z.eqb (lexcmp a1 b1) 0); [exact R| right; reflexivity].
Qed.

Lemma elems_cmp_ok (f : val -> option (list Z)) (g : val -> val -> res Z) (P : val -> Prop) xs :
  Forall (fun x => forall y, P y -> cmp_ok (g x y) (f x) (f y)) xs ->
  forall ys, Forall P ys -> length xs = length ys ->
  cmp_ok (elems_c g xs ys) (oconcat (map f xs)) (oconcat (map f ys)).
Proof.
  induction 1 as [|x xs Hx Hxs IH]; intros [|y ys] Hys Hl; cbn in Hl; try discriminate.
  - exists [], []. cbn. split; [reflexivity|]. split; [reflexivity|]. split; [apply AL_nil| right; reflexivity].
  - inversion Hys; subst. destruct (Hx y H1) as (a1 & b1 & Ea & Eb & A1 & R1).
    destruct (IH ys H2 ltac:(lia)) as (a2 & b2 & Ea2 & Eb2 & A2 & R2).
    exists (a1 ++ a2)%list, (b1 ++ b2)%list. cbn [map oconcat elems_c]. rewrite Ea, Eb, Ea2, Eb2.
    split; [reflexivity|]. split; [reflexivity|]. split; [apply AL_app; assumption|].
    apply loop_step; assumption.
Qed.

Lemma fields_cmp_ok (f : ty -> val -> option (list Z)) (g : ty -> val -> val -> res Z)
      (ht : ty -> val -> bool) xs :
  Forall (fun x => forall ft y, ht ft x = true -> ht ft y = true -> cmp_ok (g ft x y) (f ft x) (f ft y)) xs ->
  forall fs ys, fields_ok ht fs xs = true -> fields_ok ht fs ys = true ->
  cmp_ok (fields_c g fs xs ys) (fields_enc f fs xs) (fields_enc f fs ys).
Proof.
  induction 1 as [|x xs Hx Hxs IH]; intros [|fd fs] [|y ys] Tx Ty; cbn in Tx, Ty; try discriminate.
  - exists [], []. cbn. split; [reflexivity|]. split; [reflexivity|]. split; [apply AL_nil| right; reflexivity].
  - apply andb_prop in Tx as [Tx1 Tx]. apply andb_prop in Ty as [Ty1 Ty].
    destruct (Hx (snd fd) y Tx1 Ty1) as (a1 & b1 & Ea & Eb & A1 & R1).
    destruct (IH fs ys Tx Ty) as (a2 & b2 & Ea2 & Eb2 & A2 & R2).
    exists (a1 ++ a2)%list, (b1 ++ b2)%list. cbn [fields_enc fields_c]. rewrite Ea, Eb, Ea2, Eb2.
    split; [reflexivity|]. split; [reflexivity|]. split; [apply AL_app; assumption|].
    apply loop_step; assumption.
Qed.

(* the loop over two sorted entry lists *)
Lemma entries_cmp_ok (fk fv : val -> option (list Z)) (g : val -> val -> res Z) (PK PV : val -> Prop) X :
  Forall (fun kv : val * val =>
            (forall k', PK k' -> exists a b, fk (fst kv) = Some a /\ fk k' = Some b /\ key_ok (fst kv) k' a b)
            /\ (forall v', PV v' -> cmp_ok (g (snd kv) v') (fv (snd kv)) (fv v'))) X ->
  forall Y, Forall (fun kv : val * val => PK (fst kv) /\ PV (snd kv)) Y -> length X = length Y ->
  cmp_ok (entries_c (map (fun kv => (fst kv, fun vy => g (snd kv) vy)) X) Y)
         (oconcat (map entry_enc (map (fun kv => (fst kv, (fk (fst kv), fv (snd kv)))) X)))
         (oconcat (map entry_enc (map (fun kv => (fst kv, (fk (fst kv), fv (snd kv)))) Y))).
Proof.
  induction 1 as [|[k v] X [Hk Hv] HX IH]; intros [|[k' v'] Y] HY Hl; cbn in Hl; try discriminate.
  - exists [], []. cbn. split; [reflexivity|]. split; [reflexivity|]. split; [apply AL_nil| right; reflexivity].
  - inversion HY as [|? ? [Pk Pv] HY']; subst. cbn [fst snd] in *.
    destruct (Hk k' Pk) as (ak & bk & Eak & Ebk & K).
    destruct (Hv v' Pv) as (av & bv & Eav & Ebv & Av & Rv).
    destruct (IH Y HY' ltac:(lia)) as (a2 & b2 & Ea2 & Eb2 & A2 & R2).
    exists ((ak ++ av) ++ a2)%list, ((bk ++ bv) ++ b2)%list.
    cbn [map oconcat entry_enc entries_c fst snd]. rewrite Eak, Ebk, Eav, Ebv. cbn [entry_enc snd].
    rewrite Ea2, Eb2.
    split; [reflexivity|]. split; [reflexivity|].
    assert (AE : AL (ak ++ av) (bk ++ bv)) by (apply AL_app; [apply K| exact Av]).
    split; [apply AL_app; assumption|].
    destruct (go_eqeq k k') eqn:EQ.
    + apply (ko_eq _ _ _ _ K) in EQ. subst bk.
      assert (L : lexcmp (ak ++ av) (ak ++ bv) = lexcmp av bv).
      { rewrite (ko_al _ _ _ _ K av bv), lexcmp_refl. reflexivity. }
      apply loop_step; [exact AE| | exact R2].
      rewrite L. exact Rv.
    + assert (NE : lexcmp ak bk <> 0).
      { intros Z0. apply lexcmp_eq in Z0. apply (ko_eq _ _ _ _ K) in Z0. congruence. }
      rewrite (ko_cmp _ _ _ _ K).
      assert (L : lexcmp (ak ++ av) (bk ++ bv) = lexcmp ak bk).
      { rewrite (ko_al _ _ _ _ K av bv). destruct (Z.eqb_spec (lexcmp ak bk) 0); [contradiction|reflexivity]. }
      destruct (Z.eqb_spec (lexcmp ak bk) 0) as [|_]; [contradiction|]. right.
      rewrite (AE a2 b2), L. destruct (Z.eqb_spec (lexcmp ak bk) 0); [contradiction|reflexivity].
Qed.

Lemma lexcmp_len (lx ly : nat) a b : lx <> ly ->
  lexcmp (1 :: Z.of_nat lx :: a) (1 :: Z.of_nat ly :: b) = if Nat.ltb lx ly then -1 else 1.
Proof.
  intros NE. cbn [lexcmp]. rewrite Z.compare_refl.
  destruct (Nat.ltb_spec lx ly); destruct (Z.compare_spec (Z.of_nat lx) (Z.of_nat ly)); try lia; reflexivity.
Qed.

Lemma AL_len (lx ly : nat) a b : (lx = ly -> AL a b) -> AL (1 :: Z.of_nat lx :: a) (1 :: Z.of_nat ly :: b).
Proof. intros H. apply AL_cons. intros _. apply AL_cons. intros E. apply H. lia. Qed.

Lemma lexcmp_tag a b : lexcmp (1 :: a) (1 :: b) = lexcmp a b.
Proof. cbn [lexcmp]. rewrite Z.compare_refl. reflexivity. Qed.
Lemma lexcmp_len_eq (l : nat) a b : lexcmp (1 :: Z.of_nat l :: a) (1 :: Z.of_nat l :: b) = lexcmp a b.
Proof. cbn [lexcmp]. rewrite !Z.compare_refl. reflexivity. Qed.

Lemma cmp_ok_nil_nil : cmp_ok (Ok 0) (Some [0]) (Some [0]).
Proof.
  exists [0], [0]. split; [reflexivity|]. split; [reflexivity|]. split; [apply AL_refl| right; reflexivity].
Qed.

(* ---------- every well-typed value has an encoding ---------- *)
Lemma oconcat_some (l : list (option (list Z))) :
  Forall (fun o => exists a, o = Some a) l -> exists r, oconcat l = Some r.
Proof.
  induction 1 as [|o l [a ->] Hl [r IH]]; cbn; [eexists; reflexivity|].
  rewrite IH. eexists; reflexivity.
Qed.

Lemma fields_enc_some (f : ty -> val -> option (list Z)) (ht : ty -> val -> bool) xs :
  Forall (fun x => forall ft, ht ft x = true -> exists a, f ft x = Some a) xs ->
  forall fs, fields_ok ht fs xs = true -> exists r, fields_enc f fs xs = Some r.
Proof.
  induction 1 as [|x xs Hx Hxs IH]; intros [|fd fs] T; cbn in T; try discriminate; cbn.
  - eexists; reflexivity.
  - apply andb_prop in T as [T1 T]. destruct (Hx _ T1) as [a ->]. destruct (IH fs T) as [r ->].
    eexists; reflexivity.
Qed.

Theorem enc_total : forall x e t, has_type e t x = true -> exists a, enc e t x = Some a.
Proof.
  induction x using val_ind'; intros e t Hx0; pose proof Hx0 as Hx;
  rewrite has_type_unfold in Hx;
  destruct (resolve e t) as [r|] eqn:R; try discriminate; cbn zeta in Hx;
  destruct (r_node r) eqn:N; try discriminate;
  rewrite enc_unfold, R; cbn zeta; rewrite N.
  1-5: (destruct (leaf_key_ok _ _ _ Hx Hx) as (ea & eb & Ea & Eb & K); exists ea; exact Ea).
  all: try (cbn in Hx; destruct k; discriminate).
  - eexists; reflexivity.
  - destruct (IHx _ _ Hx) as [a ->]. eexists; reflexivity.
  - eexists; reflexivity.
  - apply andb_prop in Hx as [Hx _].
    destruct (oconcat_some (map (fun a => enc (r_env r) t0 a) es)) as [c ->]; [|eexists; reflexivity].
    apply forallb_Forall in Hx. rewrite Forall_forall in *. intros o Ho.
    apply in_map_iff in Ho as [a [<- Ha]]. apply H; [exact Ha| apply Hx; exact Ha].
  - eexists; reflexivity.
  - apply andb_prop in Hx as [_ Hx].
    match goal with |- exists a, option_map _ (oconcat ?l) = Some a =>
      destruct (oconcat_some l) as [c ->]; [|eexists; reflexivity] end.
    apply forallb_Forall in Hx. rewrite Forall_forall in *. intros o Ho.
    apply in_map_iff in Ho as [en [<- Hen]]. apply sort_by_In in Hen.
    apply in_map_iff in Hen as [kv [<- Hkv]]. specialize (Hx kv Hkv). cbn in Hx.
    apply andb_prop in Hx as [Hk Hv]. destruct (H kv Hkv) as [IHk IHv].
    destruct (IHk _ _ Hk) as [a Ea]. destruct (IHv _ _ Hv) as [b Eb].
    unfold entry_enc. cbn [snd]. rewrite Ea, Eb. eexists; reflexivity.
  - apply andb_prop in Hx as [_ Hx].
    apply oconcat_some.
    apply forallb_Forall in Hx. rewrite Forall_forall in *. intros o Ho.
    apply in_map_iff in Ho as [a [<- Ha]]. apply H; [exact Ha| apply Hx; exact Ha].
  - apply (fields_enc_some _ (has_type (r_env r))); [|exact Hx].
    rewrite Forall_forall in *. intros a Ha ft Ht. apply H; assumption.
Qed.

Lemma cmp_ok_nil_non (b' : list Z) : cmp_ok (Ok (-1)) (Some [0]) (Some (1 :: b')).
Proof.
  exists [0], (1 :: b'). split; [reflexivity|]. split; [reflexivity|].
  split; [apply AL_cons; intros E; discriminate| right; reflexivity].
Qed.
Lemma cmp_ok_non_nil (a' : list Z) : cmp_ok (Ok 1) (Some (1 :: a')) (Some [0]).
Proof.
  exists (1 :: a'), [0]. split; [reflexivity|]. split; [reflexivity|].
  split; [apply AL_cons; intros E; discriminate| right; reflexivity].
Qed.

Lemma cmp_ok_tag m oa ob : cmp_ok m oa ob -> cmp_ok m (option_map (cons 1) oa) (option_map (cons 1) ob).
Proof.
  intros (a & b & -> & -> & A & Rm). exists (1 :: a), (1 :: b). cbn [option_map].
  split; [reflexivity|]. split; [reflexivity|]. split; [apply AL_cons; intros _; exact A|].
  rewrite lexcmp_tag. exact Rm.
Qed.

Lemma cmp_ok_len m (l : nat) oa ob : cmp_ok m oa ob ->
  cmp_ok m (option_map (fun r => 1 :: Z.of_nat l :: r) oa) (option_map (fun r => 1 :: Z.of_nat l :: r) ob).
Proof.
  intros (a & b & -> & -> & A & Rm). exists (1 :: Z.of_nat l :: a), (1 :: Z.of_nat l :: b). cbn [option_map].
  split; [reflexivity|]. split; [reflexivity|]. split; [apply AL_len; intros _; exact A|].
  rewrite lexcmp_len_eq. exact Rm.
Qed.

Lemma cmp_ok_len_ne (lx ly : nat) oa ob a b : lx <> ly -> oa = Some a -> ob = Some b ->
  cmp_ok (Ok (if Nat.ltb lx ly then -1 else 1))
         (option_map (fun r => 1 :: Z.of_nat lx :: r) oa) (option_map (fun r => 1 :: Z.of_nat ly :: r) ob).
Proof.
  intros NE -> ->. exists (1 :: Z.of_nat lx :: a), (1 :: Z.of_nat ly :: b). cbn [option_map].
  split; [reflexivity|]. split; [reflexivity|]. split; [apply AL_len; intros E; contradiction|].
  right. rewrite (lexcmp_len lx ly a b NE). reflexivity.
Qed.

Lemma cmp_ok_unsup m oa ob : cmp_ok m oa ob -> cmp_ok Unsup oa ob.
Proof. intros (a & b & Ea & Eb & A & _). exists a, b. repeat (split; [assumption|]). left; reflexivity. Qed.

Theorem cmpm_enc : forall x e t y,
  has_type e t x = true -> has_type e t y = true ->
  cmp_ok (cmpm e t x y) (enc e t x) (enc e t y).
Proof.
  induction x using val_ind'; intros e t y Hx0 Hy0; pose proof Hx0 as Hx; pose proof Hy0 as Hy;
  rewrite has_type_unfold in Hx, Hy;
  destruct (resolve e t) as [r|] eqn:R; try discriminate; cbn zeta in Hx, Hy;
  destruct (r_node r) eqn:N; try discriminate;
  rewrite cmpm_unfold, !enc_unfold, R; cbn zeta; rewrite N.
  (* leaves *)
  1-5: (destruct (leaf_key_ok _ _ _ Hx Hy) as (ea & eb & Ea & Eb & K);
        rewrite (leaf_cmp_val _ _ _ Hx Hy); exists ea, eb;
        split; [exact Ea|]; split; [exact Eb|]; split; [apply K|]; right; unfold of_option; rewrite (ko_cmp _ _ _ _ K); reflexivity).
  all: try (cbn in Hx; destruct k; discriminate).
  - (* VNilP *)
    destruct (resolve (r_env r) t0) as [rr|] eqn:RR; [|discriminate].
    destruct y; try discriminate.
    + apply cmp_ok_nil_nil.
    + destruct (enc_total _ _ _ Hy) as [b' ->]. apply cmp_ok_nil_non.
  - (* VPtr *)
    destruct y; try discriminate.
    + destruct (enc_total _ _ _ Hx) as [a' ->]. apply cmp_ok_non_nil.
    + assert (exists rr, resolve (r_env r) t0 = Some rr) as [rr RR].
      { rewrite has_type_unfold in Hx. destruct (resolve (r_env r) t0); [eexists; reflexivity|discriminate]. }
      rewrite RR. apply cmp_ok_tag.
      specialize (IHx (r_env r) t0 y Hx Hy).
      destruct (r_node rr) eqn:NN; try exact IHx.
      destruct (is_named rr) eqn:NM; [|exact IHx].
      rewrite cmpm_unfold, RR in IHx. cbn zeta in IHx. rewrite NN, NM in IHx.
      rewrite has_type_unfold, RR in Hx, Hy. cbn zeta in Hx, Hy. rewrite NN in Hx, Hy.
      destruct x; try discriminate. destruct y; try discriminate. exact IHx.
  - (* VNilS *)
    destruct y; try discriminate.
    + apply cmp_ok_nil_nil.
    + destruct (enc_total _ _ _ Hy0) as [b' Eb]. rewrite enc_unfold, R in Eb. cbn zeta in Eb. rewrite N in Eb.
      destruct (oconcat _) as [c|]; [|discriminate]. cbn [option_map]. apply cmp_ok_nil_non.
  - (* VSl *)
    destruct y; try discriminate.
    + destruct (enc_total _ _ _ Hx0) as [a' Ea]. rewrite enc_unfold, R in Ea. cbn zeta in Ea. rewrite N in Ea.
      destruct (oconcat _) as [c|]; [|discriminate]. cbn [option_map]. apply cmp_ok_non_nil.
    + apply andb_prop in Hx as [Hx _]. apply andb_prop in Hy as [Hy _].
      destruct (Nat.eqb_spec (length es) (length es0)) as [El|Nl]; cbn [negb].
      * rewrite <- El. apply cmp_ok_len.
        apply (elems_cmp_ok _ _ (fun b => has_type (r_env r) t0 b = true)); [| apply forallb_Forall; exact Hy| exact El].
        apply forallb_Forall in Hx. rewrite Forall_forall in *. intros a Ha b Hb.
        apply H; [exact Ha| apply Hx; exact Ha| exact Hb].
      * destruct (enc_total _ _ _ Hx0) as [a' Ea]. rewrite enc_unfold, R in Ea. cbn zeta in Ea. rewrite N in Ea.
        destruct (enc_total _ _ _ Hy0) as [b' Eb]. rewrite enc_unfold, R in Eb. cbn zeta in Eb. rewrite N in Eb.
        destruct (oconcat (map _ es)) as [ca|] eqn:Ca; [|discriminate].
        destruct (oconcat (map _ es0)) as [cb|] eqn:Cb; [|discriminate].
        eapply cmp_ok_len_ne; [exact Nl| reflexivity| reflexivity].
  - (* VNilM *)
    destruct y; try discriminate.
    + apply cmp_ok_nil_nil.
    + destruct (enc_total _ _ _ Hy0) as [b' Eb]. rewrite enc_unfold, R in Eb. cbn zeta in Eb. rewrite N in Eb.
      destruct (oconcat _) as [c|]; [|discriminate]. cbn [option_map]. apply cmp_ok_nil_non.
  - (* VMap *)
    destruct y; try discriminate.
    + destruct (enc_total _ _ _ Hx0) as [a' Ea]. rewrite enc_unfold, R in Ea. cbn zeta in Ea. rewrite N in Ea.
      destruct (oconcat _) as [c|]; [|discriminate]. cbn [option_map]. apply cmp_ok_non_nil.
    + rename kvs0 into ym. rename kvs into xm.
      apply andb_prop in Hx as [Hxa Hx]. apply andb_prop in Hxa as [Ck _].
      apply andb_prop in Hy as [_ Hy].
      destruct (Nat.eqb_spec (length xm) (length ym)) as [El|Nl]; cbn [negb].
      * (* same length: the loop over sorted entries *)
        set (hc := fun kv : val * val => (fst kv, fun vy => cmpm (r_env r) t0_2 (snd kv) vy)).
        set (he := fun kv : val * val => (fst kv, (enc (r_env r) t0_1 (fst kv), enc (r_env r) t0_2 (snd kv)))).
        rewrite (sort_by_map fst fst hc (fun _ => eq_refl) xm).
        rewrite (sort_by_map fst fst he (fun _ => eq_refl) xm), (sort_by_map fst fst he (fun _ => eq_refl) ym).
        assert (C : cmp_ok (entries_c (map hc (sort_by fst xm)) (sort_by fst ym))
                     (option_map (fun r0 => 1 :: Z.of_nat (length xm) :: r0) (oconcat (map entry_enc (map he (sort_by fst xm)))))
                     (option_map (fun r0 => 1 :: Z.of_nat (length ym) :: r0) (oconcat (map entry_enc (map he (sort_by fst ym)))))).
        { rewrite <- El. apply cmp_ok_len.
          apply (entries_cmp_ok (enc (r_env r) t0_1) (enc (r_env r) t0_2) (cmpm (r_env r) t0_2)
                   (fun k' => has_type (r_env r) t0_1 k' = true) (fun v' => has_type (r_env r) t0_2 v' = true)).
          - apply forallb_Forall in Hx. rewrite Forall_forall in *. intros kv Hkv.
            apply sort_by_In in Hkv. specialize (Hx kv Hkv). cbn in Hx. apply andb_prop in Hx as [Hk Hv].
            split.
            + intros k' Hk'. apply (key_pair t0_1 Ck); assumption.
            + intros v' Hv'. destruct (H kv Hkv) as [_ IHv]. apply IHv; assumption.
          - apply forallb_Forall in Hy. rewrite Forall_forall in *. intros kv Hkv.
            apply sort_by_In in Hkv. specialize (Hy kv Hkv). cbn in Hy. apply andb_prop in Hy as [Hk Hv].
            split; assumption.
          - rewrite !sort_by_length. exact El. }
        destruct (key_sup t0_1); cbn [negb]; [exact C| eapply cmp_ok_unsup; exact C].
      * destruct (enc_total _ _ _ Hx0) as [a' Ea]. rewrite enc_unfold, R in Ea. cbn zeta in Ea. rewrite N in Ea.
        destruct (enc_total _ _ _ Hy0) as [b' Eb]. rewrite enc_unfold, R in Eb. cbn zeta in Eb. rewrite N in Eb.
        match type of Ea with option_map _ ?o = _ => destruct o as [ca|] eqn:Ca; [|discriminate] end.
        match type of Eb with option_map _ ?o = _ => destruct o as [cb|] eqn:Cb; [|discriminate] end.
        eapply cmp_ok_len_ne; [exact Nl| reflexivity| reflexivity].
  - (* VArr *)
    destruct y; try discriminate.
    apply andb_prop in Hx as [Lx Hx]. apply andb_prop in Hy as [Ly Hy].
    apply Nat.eqb_eq in Lx. apply Nat.eqb_eq in Ly.
    assert (El : length es = length es0) by lia.
    rewrite (proj2 (Nat.eqb_eq _ _) El). cbn [negb].
    apply (elems_cmp_ok _ _ (fun b => has_type (r_env r) t0 b = true)); [| apply forallb_Forall; exact Hy| exact El].
    apply forallb_Forall in Hx. rewrite Forall_forall in *. intros a Ha b Hb.
    apply H; [exact Ha| apply Hx; exact Ha| exact Hb].
  - (* VSt *)
    destruct y; try discriminate.
    assert (C : cmp_ok (fields_c (fun ft a b => cmpm (r_env r) ft a b) fs0 fs fs1)
                       (fields_enc (fun ft a => enc (r_env r) ft a) fs0 fs)
                       (fields_enc (fun ft a => enc (r_env r) ft a) fs0 fs1)).
    { apply (fields_cmp_ok _ _ (has_type (r_env r))); [| exact Hx| exact Hy].
      rewrite Forall_forall in *. intros a Ha ft b Hta Htb. apply H; assumption. }
    destruct (is_named r); [exact C| eapply cmp_ok_unsup; exact C].
Qed.
