(* Go/CompareThms.v — the statements of C03 about the model of plugin/compare. *)
From Verif Require Import Go.Ty Go.Val Go.Equal Go.EqualProofs Go.Compare Go.CompareSpec
  Go.ListOrder Go.KeyOrder Go.CompareProofs Go.Canon.
From Coq Require Import Lia.
Open Scope Z_scope.

(* shared step: a successful comparison is the lexicographic comparison of the encodings *)
Lemma cmpm_lex e t x y c : has_type e t x = true -> has_type e t y = true -> cmpm e t x y = Ok c ->
  exists a b, enc e t x = Some a /\ enc e t y = Some b /\ c = lexcmp a b.
Proof.
  intros Hx Hy Hc. destruct (cmpm_enc x e t y Hx Hy) as (a & b & Ea & Eb & _ & [U|R]); [congruence|].
  rewrite Hc in R. inversion R. exists a, b. auto.
Qed.

Theorem compare_is_order_of_encoding e t x y :
  has_type e t x = true -> has_type e t y = true ->
  cmpm e t x y = Unsup \/ Some (cmpm e t x y) = option_map Ok (spec_cmp e t x y).
Proof.
  intros Hx Hy. destruct (cmpm_enc x e t y Hx Hy) as (a & b & Ea & Eb & _ & [U|R]); [left; exact U|].
  right. unfold spec_cmp. rewrite Ea, Eb, R. reflexivity.
Qed.

Theorem compare_range e t x y c :
  has_type e t x = true -> has_type e t y = true -> cmpm e t x y = Ok c -> c = -1 \/ c = 0 \/ c = 1.
Proof. intros Hx Hy Hc. destruct (cmpm_lex e t x y c Hx Hy Hc) as (a & b & _ & _ & ->). apply lexcmp_range. Qed.

Theorem compare_antisym e t x y c c' :
  has_type e t x = true -> has_type e t y = true ->
  cmpm e t x y = Ok c -> cmpm e t y x = Ok c' -> c' = - c.
Proof.
  intros Hx Hy H1 H2.
  destruct (cmpm_lex e t x y c Hx Hy H1) as (a & b & Ea & Eb & ->).
  destruct (cmpm_lex e t y x c' Hy Hx H2) as (b' & a' & Eb' & Ea' & ->).
  assert (a' = a) by congruence. assert (b' = b) by congruence. subst a' b'. apply lexcmp_antisym.
Qed.

Theorem compare_trans e t x y z c1 c2 c3 :
  has_type e t x = true -> has_type e t y = true -> has_type e t z = true ->
  cmpm e t x y = Ok c1 -> cmpm e t y z = Ok c2 -> cmpm e t x z = Ok c3 ->
  c1 <= 0 -> c2 <= 0 -> c3 <= 0.
Proof.
  intros Hx Hy Hz H1 H2 H3.
  destruct (cmpm_lex e t x y c1 Hx Hy H1) as (a & b & Ea & Eb & ->).
  destruct (cmpm_lex e t y z c2 Hy Hz H2) as (b' & c & Eb' & Ec & ->).
  destruct (cmpm_lex e t x z c3 Hx Hz H3) as (a' & c' & Ea' & Ec' & ->).
  assert (a' = a) by congruence. assert (b' = b) by congruence. assert (c' = c) by congruence. subst a' b' c'.
  apply lexcmp_le_trans.
Qed.

(* strictness is transitive too: x < y <= z gives x < z *)
Theorem compare_trans_strict e t x y z c1 c2 c3 :
  has_type e t x = true -> has_type e t y = true -> has_type e t z = true ->
  cmpm e t x y = Ok c1 -> cmpm e t y z = Ok c2 -> cmpm e t x z = Ok c3 ->
  c1 < 0 -> c2 <= 0 -> c3 < 0.
Proof.
  intros Hx Hy Hz H1 H2 H3 L1 L2.
  destruct (cmpm_lex e t x y c1 Hx Hy H1) as (a & b & Ea & Eb & ->).
  destruct (cmpm_lex e t y z c2 Hy Hz H2) as (b' & c & Eb' & Ec & ->).
  destruct (cmpm_lex e t x z c3 Hx Hz H3) as (a' & c' & Ea' & Ec' & ->).
  assert (a' = a) by congruence. assert (b' = b) by congruence. assert (c' = c) by congruence. subst a' b' c'.
  destruct (lexcmp_range a b) as [E1|[E1|E1]]; try lia.
  destruct (lexcmp_range b c) as [E2|[E2|E2]]; try lia.
  - rewrite (lexcmp_lt_trans a b c E1 E2). lia.
  - apply lexcmp_eq in E2. subst. lia.
Qed.

Theorem compare_curried t x y : compare_curried_model t x y = compare_model t x y.
Proof. reflexivity. Qed.

(* the natural order at the leaves and at nil-ness, read off the encoding *)
Example order_bool : compare_model (TB KBool) (VBool false) (VBool true) = Ok (-1).
Proof. reflexivity. Qed.
Example order_int : compare_model (TB (KInt 8 true)) (VInt (-128)) (VInt 127) = Ok (-1).
Proof. reflexivity. Qed.
Example order_string : compare_model (TB KStr) (VStr [97%N]) (VStr [97%N; 0%N]) = Ok (-1).
Proof. reflexivity. Qed.
Example order_complex : compare_model (TB KC128) (VC false 1 false 9) (VC false 2 false 0) = Ok (-1)
  /\ compare_model (TB KC128) (VC false 1 false 1) (VC false 1 false 2) = Ok (-1).
Proof. split; reflexivity. Qed.
Example order_nil_first : compare_model (TP (TB KBool)) VNilP (VPtr 1 (VBool false)) = Ok (-1)
  /\ compare_model (TSl (TB KBool)) VNilS (VSl 1 [] []) = Ok (-1)
  /\ compare_model (TM (TB KBool) (TB KBool)) VNilM (VMap 1 []) = Ok (-1).
Proof. repeat split; reflexivity. Qed.
Example order_negzero : compare_model (TB KF64) (VF true 0) (VF false 0) = Ok 0.
Proof. reflexivity. Qed.
(* non-vacuity of the theorems above: maps with struct keys compared through sorted keys *)
Definition ex_mt : ty := TM (TN 1 false (TSt [(false, TB (KInt 64 true)); (false, TB KStr)])) (TSl (TB KF64)).
Definition ex_m1 : val := VMap 1 [(VSt [VInt 2; VStr [98%N]], VNilS); (VSt [VInt 1; VStr []], VSl 2 [VF false 0] [])].
Definition ex_m2 : val := VMap 3 [(VSt [VInt 1; VStr []], VSl 4 [VF true 0] [VF false 7]); (VSt [VInt 2; VStr [98%N]], VNilS)].
Example compare_map_ex :
  has_type [] ex_mt ex_m1 = true /\ has_type [] ex_mt ex_m2 = true
  /\ compare_model ex_mt ex_m1 ex_m2 = Ok 0 /\ spec_eq [] ex_mt ex_m1 ex_m2 = Some true.
Proof. repeat split; vm_compute; reflexivity. Qed.
