(* Go/Clean.v — a syntactic class of types on which the generator never refuses Equal:
   no pointer to an unnamed struct, and every unnamed struct below the root is comparable
   (plugin/equal's documented limitation: "unnamed structs, which are not comparable with the
   == operator").  On this class the Unsup alternative of [eqm_spec] disappears. *)
From Verif Require Import Go.Ty Go.Val Go.Equal Go.EqualProofs.
From Coq Require Import Lia.

Fixpoint clean (named root : bool) (t : ty) : bool :=
  match t with
  | TB _ | TRef _ => true
  | TN _ _ u => clean true root u
  | TP rt => (negb (is_struct rt) && clean false false rt)%bool
  | TSl et => clean false false et
  | TAr _ et => clean false false et
  | TM k v => (clean false false k && clean false false v)%bool
  | TSt fs => ((named || root || can_equal t)
               && (fix go (l : list (bool * ty)) : bool :=
                     match l with [] => true | f :: l' => clean false false (snd f) && go l' end) fs)%bool
  end.

Definition clean_fields (fs : list (bool * ty)) : bool :=
  (fix go (l : list (bool * ty)) : bool :=
     match l with [] => true | f :: l' => clean false false (snd f) && go l' end)%bool fs.

(* the underlying type of every enclosing declaration is clean (as a named type) *)
Definition env_ok (e : tenv) : Prop := forall id ext u, tlookup id e = Some (ext, u) -> clean true false u = true.

Definition pos_ok (md : mode) (t : ty) : bool :=
  match md with Top => clean false true t | Fld => clean false false t end.

Lemma clean_named_root u : forall r, clean true r u = true -> clean true false u = true.
Proof. induction u; intros r H; cbn in *; auto. apply (IHu r H). Qed.

(* resolving keeps positions clean: the node of a clean position is clean as a (named or
   unnamed) node, and the environment stays ok *)
Lemma resolve_clean e md t r : env_ok e -> pos_ok md t = true -> resolve e t = Some r ->
  env_ok (r_env r) /\
  clean (is_named r) (match md with Top => true | Fld => false end) (r_node r) = true.
Proof.
  intros E P R. destruct t; cbn in R;
  try (inversion R; subst; cbn [r_env r_node is_named r_named]; split; [exact E| destruct md; exact P]).
  - (* TN *)
    destruct (is_namedish t) eqn:Nn; [discriminate|]. inversion R; subst. cbn [r_env r_node is_named r_named].
    assert (C : clean true (match md with Top => true | Fld => false end) t = true) by (destruct md; exact P).
    split; [|exact C].
    intros id' ext' u' L. cbn in L. destruct (Nat.eqb id id') eqn:Q.
    + inversion L; subst. apply (clean_named_root _ _ C).
    + apply (E _ _ _ L).
  - (* TRef *)
    destruct (tlookup id e) as [[x u]|] eqn:L; [|discriminate].
    destruct (is_namedish u) eqn:Nn; [discriminate|]. cbn [orb] in R.
    destruct (can_equal u); [discriminate|]. inversion R; subst.
    cbn [r_env r_node is_named r_named]. split; [exact E|].
    pose proof (E _ _ _ L) as C. destruct md; [|exact C].
    destruct u; cbn in *; auto; discriminate.
Qed.

Lemma clean_fields_in fs f : clean_fields fs = true -> In f fs -> clean false false (snd f) = true.
Proof.
  unfold clean_fields. induction fs as [|a fs IH]; intros H Hin; [destruct Hin|].
  apply andb_prop in H as [H1 H2]. destruct Hin as [<-|Hin]; auto.
Qed.

Lemma fields_r_not_unsup (g : ty -> val -> val -> res bool) fs : forall xs ys,
  (forall ft a b, In ft (map snd fs) -> In a xs -> g ft a b <> Unsup) ->
  fields_r g fs xs ys <> Unsup.
Proof.
  induction fs as [|fd fs IH]; intros [|a xs] [|b ys] H; cbn; try discriminate.
  destruct (g (snd fd) a b) eqn:G; cbn; try discriminate.
  - destruct a0; [|discriminate]. apply IH. intros ft a' b' Hft Ha. apply H; [right; exact Hft| right; exact Ha].
  - exfalso. apply (H (snd fd) a b); [left; reflexivity| left; reflexivity| exact G].
Qed.

Lemma elems_r_not_unsup (g : val -> val -> res bool) xs : forall ys,
  (forall a b, In a xs -> g a b <> Unsup) -> elems_r g xs ys <> Unsup.
Proof.
  induction xs as [|a xs IH]; intros [|b ys] H; cbn; try discriminate.
  destruct (g a b) eqn:G; cbn; try discriminate.
  - destruct a0; [|discriminate]. apply IH. intros a' b' Ha. apply H. right; exact Ha.
  - exfalso. apply (H a b); [left; reflexivity| exact G].
Qed.

Lemma entries_r_not_unsup (g : val -> val -> res bool) xm ym :
  (forall kv b, In kv xm -> g (snd kv) b <> Unsup) -> entries_r g xm ym <> Unsup.
Proof.
  induction xm as [|kv xm IH]; intros H; cbn; try discriminate.
  destruct (map_get (fst kv) ym) as [v'|]; [|discriminate].
  destruct (g (snd kv) v') eqn:G; cbn; try discriminate.
  - destruct a; [|discriminate]. apply IH. intros kv' b Hkv. apply H. right; exact Hkv.
  - exfalso. apply (H kv v'); [left; reflexivity| exact G].
Qed.

Lemma clean_root_weaken t : forall nm, clean nm false t = true -> clean nm true t = true.
Proof.
  induction t; intros nm H; cbn in *; auto.
  apply andb_prop in H as [H1 H2]. rewrite H2. rewrite Bool.orb_true_r. destruct nm; reflexivity.
Qed.

Lemma clean_st_fields n r fs : clean n r (TSt fs) = true -> clean_fields fs = true.
Proof. cbn. intros H. apply andb_prop in H as [_ H]. exact H. Qed.

(* what the chosen strategy recurses on is again a clean position *)
Definition strat_good (s : strat) : Prop :=
  match s with
  | SEqEq | SBytes => True
  | SPtrNoStruct e' rt => env_ok e' /\ pos_ok Top rt = true
  | SPtrInline e' rt => env_ok e' /\ pos_ok Fld rt = true
  | SPtrStruct e' fs =>
      (* the field loop is the body of the helper for the (named struct) referent *)
      exists e0 rt, env_ok e0 /\ pos_ok Top rt = true /\ strategy e0 Top rt = SFields e' fs
  | SFields e' fs => env_ok e' /\ clean_fields fs = true
  | SSlice e' et | SArray e' et | SMap e' et => env_ok e' /\ pos_ok Fld et = true
  | SUnsup => False
  | SStuck => True
  end.

Lemma strat_ptr_good e' rt : env_ok e' -> is_struct rt = false -> clean false false rt = true ->
  strat_good (strat_ptr e' rt).
Proof.
  intros E NS C. unfold strat_ptr. destruct (resolve e' rt) as [rr|] eqn:RR; [|exact I].
  destruct (resolve_clean e' Fld rt rr E C RR) as [E2 C2].
  destruct (r_node rr) eqn:NN; try (cbn; split; [exact E| apply clean_root_weaken; exact C]).
  destruct (is_named rr) eqn:NM.
  - cbn. exists e', rt. split; [exact E|]. split; [apply clean_root_weaken; exact C|].
    unfold strategy. rewrite RR. cbn zeta. rewrite NN, NM. reflexivity.
  - (* an unnamed referent is the referent itself, which is not a struct *)
    destruct (resolve_unnamed e' rt rr RR NM) as [Ert _]. rewrite NN in Ert. subst rt. discriminate.
Qed.

Lemma strategy_good e md t : env_ok e -> pos_ok md t = true -> strat_good (strategy e md t).
Proof.
  intros E P. unfold strategy. destruct (resolve e t) as [r|] eqn:R; [|exact I].
  destruct (resolve_clean e md t r E P R) as [E' C]. cbn zeta.
  destruct md.
  - destruct (r_node r) eqn:N; try exact I.
    + cbn in C. apply andb_prop in C as [C1 C2]. apply strat_ptr_good; [exact E'| apply Bool.negb_true_iff; exact C1| exact C2].
    + cbn. split; [exact E'| exact C].
    + cbn. split; [exact E'| exact C].
    + cbn in C. apply andb_prop in C as [_ C2]. cbn. split; [exact E'| exact C2].
    + destruct (is_named r); [cbn; split; [exact E'| apply (clean_st_fields _ _ _ C)]|].
      destruct (can_equal t); [exact I|]. cbn. split; [exact E'| apply (clean_st_fields _ _ _ C)].
  - destruct (can_equal t) eqn:CE; [exact I|].
    destruct (r_node r) eqn:N; try exact I.
    + cbn in C. apply andb_prop in C as [C1 C2].
      destruct (resolve (r_env r) t0) as [rr|] eqn:RR; [|exact I].
      destruct (is_named rr); [apply strat_ptr_good; [exact E'| apply Bool.negb_true_iff; exact C1| exact C2]|].
      cbn. split; [exact E'| exact C2].
    + destruct (is_byte t0); [exact I|]. cbn. split; [exact E'| exact C].
    + cbn. split; [exact E'| exact C].
    + cbn in C. apply andb_prop in C as [_ C2]. cbn. split; [exact E'| exact C2].
    + cbn. split; [exact E'| apply (clean_st_fields _ _ _ C)].
Qed.

(* on clean positions the generator never refuses: no Unsup, for any values *)
Theorem clean_not_unsup : forall x e md t y,
  env_ok e -> pos_ok md t = true -> eqm e md t x y <> Unsup.
Proof.
  induction x using val_ind'; intros e md t y E P; rewrite eqm_unfold;
  pose proof (strategy_good e md t E P) as G;
  destruct (strategy e md t) as [|e' rt|e' sfs|e' rt| |e' et|e' et|e' vt|e' sfs| |]; cbn in G;
  try discriminate; try contradiction; try (destruct y; discriminate).
  all: try (unfold bytes_equal, bytes_equal_old; cbn; destruct y; cbn; discriminate).
  - (* VPtr, referent compared by its own helper *)
    destruct G as [E' P']. destruct y; try discriminate. apply IHx; assumption.
  - (* VPtr to a named struct *)
    destruct G as (e0 & rt & E0 & P0 & S0).
    destruct x; try (destruct y; discriminate). destruct y; try discriminate. destruct y; try discriminate.
    match goal with |- fields_r _ _ _ ?ys <> _ => specialize (IHx e0 Top rt (VSt ys) E0 P0) end.
    rewrite eqm_unfold, S0 in IHx. exact IHx.
  - (* VPtr inlined *)
    destruct G as [E' P']. destruct y; try discriminate. apply IHx; assumption.
  - (* VSl *)
    destruct G as [E' P']. destruct y; try discriminate.
    destruct (negb (Nat.eqb (length es) (length es0))); [discriminate|].
    apply elems_r_not_unsup. intros a b Ha. rewrite Forall_forall in H. apply (H a Ha); assumption.
  - (* VMap *)
    destruct G as [E' P']. destruct y; try discriminate.
    destruct (negb (Nat.eqb (length kvs) (length kvs0))); [discriminate|].
    apply entries_r_not_unsup. intros kv b Hkv. rewrite Forall_forall in H.
    destruct (H kv Hkv) as [_ Hv]. apply Hv; assumption.
  - (* VArr *)
    destruct G as [E' P']. destruct y; try discriminate.
    apply elems_r_not_unsup. intros a b Ha. rewrite Forall_forall in H. apply (H a Ha); assumption.
  - (* VSt *)
    destruct G as [E' P']. destruct y; try discriminate.
    apply fields_r_not_unsup. intros ft a b Hft Ha.
    apply in_map_iff in Hft as [fd [<- Hfd]]. rewrite Forall_forall in H.
    apply (H a Ha); [exact E'| apply (clean_fields_in _ _ P' Hfd)].
Qed.

(* hence: on clean types derived Equal IS structural equality, with no alternative *)
Corollary equal_is_structural_clean t x y :
  clean false true t = true -> has_type [] t x = true -> has_type [] t y = true ->
  equal_model t x y = lift (spec_eq [] t x y).
Proof.
  intros C Hx Hy. destruct (eqm_spec x [] Top t y Hx Hy) as [_ [U|L]]; [|exact L].
  exfalso. apply (clean_not_unsup x [] Top t y); [intros id ext u L; discriminate| exact C| exact U].
Qed.

(* the class is not empty and not trivial: recursive and mutually recursive named structs, pointers,
   slices, maps, arrays, comparable unnamed structs anywhere, any unnamed struct at the root *)
Example clean_examples :
  clean false true (TN 1 false (TSt [(false, TB (KInt 64 true)); (false, TP (TRef 1)); (true, TSl (TRef 1));
                                     (false, TM (TB KStr) (TSt [(false, TB KF64)]))])) = true
  /\ clean false true (TSt [(false, TSl (TB KStr))]) = true
  /\ clean false true (TSl (TSt [(false, TSl (TB KStr))])) = false
  /\ clean false true (TP (TSt [(false, TB KBool)])) = false.
Proof. repeat split; reflexivity. Qed.
