(* Go/Clean.v — a syntactic class of types on which the generator never refuses Equal:
   no pointer to an unnamed struct, and every unnamed struct below the root is comparable
   (plugin/equal's documented limitation: "unnamed structs, which are not comparable with the
   == operator").  On this class the Unsup alternative of [eqm_spec] disappears. *)
From Verif Require Import Go.Ty Go.Val Go.Equal Go.EqualProofs.
From Coq Require Import Lia.

Fixpoint clean (named root : bool) (t : ty) : bool :=
  match t with
  | TB _ | TRef _ => true
  | TN _ _ u => clean true root u
  | TP rt => (negb (is_struct rt) && clean false false rt)%bool
  | TSl et => clean false false et
  | TAr _ et => clean false false et
  | TM k v => (clean false false k && clean false false v)%bool
  | TSt fs => ((named || root || can_equal t)
               && (fix go (l : list (bool * ty)) : bool :=
                     match l with [] => true | f :: l' => clean false false (snd f) && go l' end) fs)%bool
  end.

Definition clean_fields (fs : list (bool * ty)) : bool :=
  (fix go (l : list (bool * ty)) : bool :=
     match l with [] => true | f :: l' => clean false false (snd f) && go l' end)%bool fs.

(* the underlying type of every enclosing declaration is clean (as a named type) *)
Definition env_ok (e : tenv) : Prop := forall id ext u, tlookup id e = Some (ext, u) -> clean true false u = true.

Definition pos_ok (md : mode) (t : ty) : bool :=
  match md with Top => clean false true t | Fld => clean false false t end.

Lemma clean_named_root u : forall r, clean true r u = true -> clean true false u = true.
Proof. induction u; intros r H; cbn in *; auto. apply (IHu r H). Qed.

(* resolving keeps positions clean: the node of a clean position is clean as a (named or
   unnamed) node, and the environment stays ok *)
Lemma resolve_clean e md t r : env_ok e -> pos_ok md t = true -> resolve e t = Some r ->
  env_ok (r_env r) /\
  clean (is_named r) (match md with Top => true | Fld => false end) (r_node r) = true.
Proof.
  intros E P R. destruct t; cbn in R;
  try (inversion R; subst; cbn [r_env r_node is_named r_named]; split; [exact E| destruct md; exact P]).
  - (* TN *)
    destruct (is_namedish t) eqn:Nn; [discriminate|]. inversion R; subst. cbn [r_env r_node is_named r_named].
    assert (C : clean true (match md with Top => true | Fld => false end) t = true) by (destruct md; exact P).
    split; [|exact C].
    intros id' ext' u' L. cbn in L. destruct (Nat.eqb id id') eqn:Q.
    + inversion L; subst. apply (clean_named_root _ _ C).
    + apply (E _ _ _ L).
  - (* TRef *)
    destruct (tlookup id e) as [[x u]|] eqn:L; [|discriminate].
    destruct (is_namedish u) eqn:Nn; [discriminate|]. cbn [orb] in R.
    destruct (can_equal u); [discriminate|]. inversion R; subst.
    cbn [r_env r_node is_named r_named]. split; [exact E|].
    pose proof (E _ _ _ L) as C. destruct md; [|exact C].
    destruct u; cbn in *; auto; discriminate.
Qed.
