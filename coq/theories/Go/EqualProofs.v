(* Go/EqualProofs.v — proofs about the model of plugin/equal (C02). *)
From Verif Require Import Go.Ty Go.Val Go.Equal.
From Coq Require Import Lia.

(* ---------- one-step unfoldings (the functions recurse on the value) ---------- *)
Lemma has_type_unfold e t v :
  has_type e t v =
  match resolve e t with
  | None => false
  | Some r =>
      let e' := r_env r in
      match r_node r, v with
      | TB k, _ => basic_ok k v
      | TP t', VNilP => match resolve e' t' with Some _ => true | None => false end
      | TP t', VPtr _ v' => has_type e' t' v'
      | TSl _, VNilS => true
      | TSl t', VSl _ es sp => (forallb (has_type e' t') es && forallb (has_type e' t') sp)%bool
      | TAr n t', VArr es => (Nat.eqb (List.length es) n && forallb (has_type e' t') es)%bool
      | TM _ _, VNilM => true
      | TM tk tv, VMap _ kvs =>
          (can_equal tk && keys_distinct (map fst kvs)
           && forallb (fun kv => has_type e' tk (fst kv) && has_type e' tv (snd kv)) kvs)%bool
      | TSt fs, VSt vs => fields_ok (has_type e') fs vs
      | _, _ => false
      end
  end.
Proof. destruct v; reflexivity. Qed.

Lemma spec_eq_unfold e t x y :
  spec_eq e t x y =
  match resolve e t with
  | None => None
  | Some r =>
      let e' := r_env r in
      match r_node r, x, y with
      | TB k, _, _ => leaf_eq k x y
      | TP _, VNilP, VNilP => Some true
      | TP _, VNilP, VPtr _ _ | TP _, VPtr _ _, VNilP => Some false
      | TP rt, VPtr _ x', VPtr _ y' => spec_eq e' rt x' y'
      | TSl _, VNilS, VNilS => Some true
      | TSl _, VNilS, VSl _ _ _ | TSl _, VSl _ _ _, VNilS => Some false
      | TSl et, VSl _ xs _, VSl _ ys _ => all2o (fun a b => spec_eq e' et a b) xs ys
      | TAr _ et, VArr xs, VArr ys => all2o (fun a b => spec_eq e' et a b) xs ys
      | TM _ _, VNilM, VNilM => Some true
      | TM _ _, VNilM, VMap _ _ | TM _ _, VMap _ _, VNilM => Some false
      | TM _ vt, VMap _ xm, VMap _ ym =>
          if Nat.eqb (List.length xm) (List.length ym)
          then entries_o (fun a b => spec_eq e' vt a b) xm ym else Some false
      | TSt fs, VSt xs, VSt ys => fields_o (fun ft a b => spec_eq e' ft a b) fs xs ys
      | _, _, _ => None
      end
  end.
Proof. destruct x; reflexivity. Qed.

Lemma eqm_unfold e m t x y :
  eqm e m t x y =
  match strategy e m t with
  | SEqEq => Ok (go_eqeq x y)
  | SPtrNoStruct e' rt =>
      match x, y with
      | VNilP, VNilP => Ok true
      | VPtr _ x', VPtr _ y' => eqm e' Top rt x' y'
      | VNilP, VPtr _ _ | VPtr _ _, VNilP => Ok false
      | _, _ => Stuck
      end
  | SPtrStruct e' fs =>
      match x, y with
      | VNilP, VNilP => Ok true
      | VPtr _ (VSt xs), VPtr _ (VSt ys) => fields_r (fun ft a b => eqm e' Fld ft a b) fs xs ys
      | VNilP, VPtr _ _ | VPtr _ _, VNilP => Ok false
      | _, _ => Stuck
      end
  | SPtrInline e' rt =>
      match x, y with
      | VNilP, VNilP => Ok true
      | VPtr _ x', VPtr _ y' => eqm e' Fld rt x' y'
      | VNilP, VPtr _ _ | VPtr _ _, VNilP => Ok false
      | _, _ => Stuck
      end
  | SBytes => bytes_equal x y
  | SSlice e' et =>
      match x, y with
      | VNilS, VNilS => Ok true
      | VNilS, VSl _ _ _ | VSl _ _ _, VNilS => Ok false
      | VSl _ xs _, VSl _ ys _ =>
          if negb (Nat.eqb (List.length xs) (List.length ys)) then Ok false
          else elems_r (fun a b => eqm e' Fld et a b) xs ys
      | _, _ => Stuck
      end
  | SArray e' et =>
      match x, y with
      | VArr xs, VArr ys => elems_r (fun a b => eqm e' Fld et a b) xs ys
      | _, _ => Stuck
      end
  | SMap e' vt =>
      match x, y with
      | VNilM, VNilM => Ok true
      | VNilM, VMap _ _ | VMap _ _, VNilM => Ok false
      | VMap _ xm, VMap _ ym =>
          if negb (Nat.eqb (List.length xm) (List.length ym)) then Ok false
          else entries_r (fun a b => eqm e' Fld vt a b) xm ym
      | _, _ => Stuck
      end
  | SFields e' fs =>
      match x, y with
      | VSt xs, VSt ys => fields_r (fun ft a b => eqm e' Fld ft a b) fs xs ys
      | _, _ => Stuck
      end
  | SUnsup => Unsup
  | SStuck => Stuck
  end.
Proof. destruct x; reflexivity. Qed.

Lemma go_eqeq_unfold x y :
  go_eqeq x y =
  match x, y with
  | VBool a, VBool b => Bool.eqb a b
  | VInt a, VInt b => Z.eqb a b
  | VF n1 m1, VF n2 m2 => feq n1 m1 n2 m2
  | VC a b c d, VC a' b' c' d' => (feq a b a' b' && feq c d c' d')%bool
  | VStr a, VStr b => bytes_eqb a b
  | VNilP, VNilP => true
  | VPtr l _, VPtr l' _ => N.eqb l l'
  | VArr xs, VArr ys => all2b (fun a b => go_eqeq a b) xs ys
  | VSt xs, VSt ys => all2b (fun a b => go_eqeq a b) xs ys
  | _, _ => false
  end.
Proof. destruct x; reflexivity. Qed.

(* resolve on nodes that are not named *)
Lemma resolve_plain e t : is_namedish t = false ->
  resolve e t = Some {| r_named := None; r_env := e; r_node := t |}.
Proof. destruct t; cbn; intros H; try discriminate; reflexivity. Qed.

Lemma resolve_node_plain e t r : resolve e t = Some r -> is_namedish (r_node r) = false.
Proof.
  destruct t; cbn; intros H; try (inversion H; subst; reflexivity).
  - destruct (is_namedish t) eqn:E; [discriminate|]. inversion H; subst; exact E.
  - destruct (tlookup id e) as [[x u]|]; [|discriminate].
    destruct (is_namedish u) eqn:E; [discriminate|]. cbn in H.
    destruct (can_equal u); [discriminate|]. inversion H; subst; exact E.
Qed.

Lemma can_equal_resolve e t r : resolve e t = Some r -> can_equal t = can_equal (r_node r).
Proof.
  destruct t; cbn; intros H; try (inversion H; subst; reflexivity).
  - destruct (is_namedish t); [discriminate|]. inversion H; subst; reflexivity.
  - destruct (tlookup id e) as [[x u]|]; [|discriminate].
    destruct (is_namedish u); [discriminate|]. cbn in H.
    destruct (can_equal u) eqn:C; [discriminate|]. inversion H; subst. cbn. symmetry; exact C.
Qed.

Lemma resolve_unnamed e t r : resolve e t = Some r -> is_named r = false -> t = r_node r /\ r_env r = e.
Proof.
  destruct t; cbn; intros H Hn; try (inversion H; subst; split; reflexivity).
  - destruct (is_namedish t); [discriminate|]. inversion H; subst. discriminate.
  - destruct (tlookup id e) as [[x u]|]; [|discriminate].
    destruct (is_namedish u || can_equal u)%bool; [discriminate|]. inversion H; subst. discriminate.
Qed.

(* ---------- Go's == is structural equality on comparable types ---------- *)
Lemma go_eqeq_spec : forall t, can_equal t = true -> forall e x y,
  has_type e t x = true -> has_type e t y = true ->
  spec_eq e t x y = Some (go_eqeq x y).
Proof.
  induction t using ty_ind'; intros Hc e x y Hx Hy; cbn in Hc; try discriminate.
  - (* basic *)
    rewrite spec_eq_unfold, go_eqeq_unfold. rewrite has_type_unfold in Hx, Hy. cbn in *.
    destruct k, x; cbn in Hx; try discriminate; destruct y; cbn in Hy; try discriminate; reflexivity.
  - (* named *)
    rewrite spec_eq_unfold. rewrite has_type_unfold in Hx, Hy. cbn [resolve] in *.
    destruct (is_namedish t) eqn:En; [discriminate|]. cbn [r_env r_node] in *.
    specialize (IHt Hc ((id, (ext, t)) :: e) x y).
    rewrite (has_type_unfold _ t x), (has_type_unfold _ t y), (spec_eq_unfold _ t x y) in IHt.
    rewrite (resolve_plain _ t En) in IHt. cbn [r_env r_node] in IHt.
    apply IHt; assumption.
  - (* array *)
    rewrite spec_eq_unfold, go_eqeq_unfold. rewrite has_type_unfold in Hx, Hy. cbn in *.
    destruct x; try discriminate. destruct y; try discriminate.
    apply andb_prop in Hx as [Lx Hx]. apply andb_prop in Hy as [Ly Hy].
    apply Nat.eqb_eq in Lx. apply Nat.eqb_eq in Ly. rewrite <- Ly in Lx. clear Ly.
    revert es0 Lx Hy. induction es as [|a es IH]; intros [|b es0] Lx Hy; cbn in *; try discriminate; try reflexivity.
    apply andb_prop in Hx as [Ha Hx]. apply andb_prop in Hy as [Hb Hy].
    rewrite (IHt Hc e a b Ha Hb). rewrite (IH Hx es0) by (try lia; assumption). reflexivity.
  - (* struct *)
    rewrite spec_eq_unfold, go_eqeq_unfold. rewrite has_type_unfold in Hx, Hy. cbn in *.
    destruct x; try discriminate. destruct y; try discriminate.
    rename fs0 into xs. rename fs1 into ys.
    revert xs ys Hx Hy Hc. induction H as [|fd fs Hfd Hfs IH]; intros xs ys Hx Hy Hc.
    + destruct xs; [|discriminate]. destruct ys; [|discriminate]. reflexivity.
    + destruct xs as [|a xs]; [discriminate|]. destruct ys as [|b ys]; [discriminate|].
      cbn in *. apply andb_prop in Hx as [Ha Hx]. apply andb_prop in Hy as [Hb Hy].
      apply andb_prop in Hc as [Hc1 Hc2].
      rewrite (Hfd Hc1 e a b Ha Hb). rewrite (IH xs ys Hx Hy Hc2). reflexivity.
Qed.

(* ---------- the model computes the specification ---------- *)
Definition agrees (m : res bool) (s : option bool) : Prop :=
  (exists b, s = Some b) /\ (m = Unsup \/ m = lift s).

Lemma agrees_ok b : agrees (Ok b) (Some b).
Proof. split; [eexists; reflexivity| right; reflexivity]. Qed.

Lemma map_get_In k m v : map_get k m = Some v -> exists k', In (k', v) m.
Proof.
  induction m as [|[k' v'] m IH]; cbn; [discriminate|].
  destruct (go_eqeq k' k); intros H.
  - inversion H; subst. eexists; left; reflexivity.
  - destruct (IH H) as [k'' Hin]. eexists; right; exact Hin.
Qed.

Lemma elems_agree (fm : val -> val -> res bool) (fs : val -> val -> option bool) (P : val -> Prop) xs :
  Forall (fun a => forall b, P b -> agrees (fm a b) (fs a b)) xs ->
  forall ys, Forall P ys -> length xs = length ys ->
  agrees (elems_r fm xs ys) (all2o fs xs ys).
Proof.
  induction 1 as [|a xs Ha Hxs IH]; intros [|b ys] Hys Hl; cbn in *; try discriminate.
  - apply agrees_ok.
  - inversion Hys; subst.
    destruct (Ha b H1) as [[c Hc] Hm]. destruct (IH ys H2 ltac:(lia)) as [[d Hd] Hr].
    rewrite Hc, Hd in *. cbn. split; [eexists; reflexivity|].
    destruct Hm as [Hm|Hm]; rewrite Hm; cbn; [left; reflexivity|].
    destruct c; cbn; [|right; reflexivity].
    destruct Hr as [Hr|Hr]; rewrite Hr; [left|right]; reflexivity.
Qed.

Lemma all2o_total_len (fs : val -> val -> option bool) xs : forall ys,
  length xs <> length ys -> all2o fs xs ys = Some false \/ all2o fs xs ys = None.
Proof.
  induction xs as [|a xs IH]; intros [|b ys] Hl; cbn in *; try lia; try (left; reflexivity).
  destruct (IH ys ltac:(lia)) as [H|H]; rewrite H; destruct (fs a b) as [[]|]; cbn; auto.
Qed.

Lemma all2o_len_false (fs : val -> val -> option bool) (P : val -> Prop) xs :
  Forall (fun a => forall b, P b -> exists c, fs a b = Some c) xs ->
  forall ys, Forall P ys -> length xs <> length ys -> all2o fs xs ys = Some false.
Proof.
  induction 1 as [|a xs Ha Hxs IH]; intros [|b ys] Hys Hl; cbn in *; try lia; try reflexivity.
  inversion Hys; subst. destruct (Ha b H1) as [c Hc]. rewrite Hc.
  rewrite (IH ys H2 ltac:(lia)). cbn. rewrite Bool.andb_false_r. reflexivity.
Qed.

Lemma fields_agree (fm : ty -> val -> val -> res bool) (fs : ty -> val -> val -> option bool)
      (ht : ty -> val -> bool) xs :
  Forall (fun a => forall ft b, ht ft a = true -> ht ft b = true -> agrees (fm ft a b) (fs ft a b)) xs ->
  forall ts ys, fields_ok ht ts xs = true -> fields_ok ht ts ys = true ->
  agrees (fields_r fm ts xs ys) (fields_o fs ts xs ys).
Proof.
  induction 1 as [|a xs Ha Hxs IH]; intros [|fd ts] [|b ys] Hx Hy; cbn in *; try discriminate.
  - apply agrees_ok.
  - apply andb_prop in Hx as [Hxa Hx]. apply andb_prop in Hy as [Hyb Hy].
    destruct (Ha (snd fd) b Hxa Hyb) as [[c Hc] Hm]. destruct (IH ts ys Hx Hy) as [[d Hd] Hr].
    rewrite Hc, Hd in *. cbn. split; [eexists; reflexivity|].
    destruct Hm as [Hm|Hm]; rewrite Hm; cbn; [left; reflexivity|].
    destruct c; cbn; [|right; reflexivity].
    destruct Hr as [Hr|Hr]; rewrite Hr; [left|right]; reflexivity.
Qed.

Lemma entries_agree (fm : val -> val -> res bool) (fs : val -> val -> option bool) (P : val -> Prop) xm :
  Forall (fun kv => forall b, P b -> agrees (fm (snd kv) b) (fs (snd kv) b)) xm ->
  forall ym, Forall (fun kv => P (snd kv)) ym ->
  agrees (entries_r fm xm ym) (entries_o fs xm ym).
Proof.
  induction 1 as [|kv xm Ha Hxm IH]; intros ym Hym; cbn.
  - apply agrees_ok.
  - destruct (IH ym Hym) as [[d Hd] Hr]. rewrite Hd in *.
    destruct (map_get (fst kv) ym) as [v'|] eqn:G; cbn.
    + destruct (map_get_In _ _ _ G) as [k' Hin].
      assert (Pv : P v') by (rewrite Forall_forall in Hym; apply (Hym _ Hin)).
      destruct (Ha v' Pv) as [[c Hc] Hm]. rewrite Hc in *. cbn.
      split; [eexists; reflexivity|].
      destruct Hm as [Hm|Hm]; rewrite Hm; cbn; [left; reflexivity|].
      destruct c; cbn; [|right; reflexivity].
      destruct Hr as [Hr|Hr]; rewrite Hr; [left|right]; reflexivity.
    + split; [eexists; reflexivity| right; reflexivity].
Qed.

Lemma forallb_Forall {A} (f : A -> bool) l : forallb f l = true -> Forall (fun a => f a = true) l.
Proof.
  induction l as [|a l IH]; cbn; intros H; [constructor|].
  apply andb_prop in H as [H1 H2]. constructor; auto.
Qed.

(* bytes: the spec on []byte elements is equality of the byte lists *)
Definition zl_eqb (a b : list Z) : bool := if list_eq_dec Z.eq_dec a b then true else false.
Lemma zl_eqb_true a b : zl_eqb a b = true <-> a = b.
Proof. unfold zl_eqb. destruct (list_eq_dec Z.eq_dec a b); split; congruence. Qed.
Lemma zl_eqb_cons x y a b : zl_eqb (x :: a) (y :: b) = (Z.eqb x y && zl_eqb a b)%bool.
Proof.
  apply Bool.eq_true_iff_eq.
  rewrite Bool.andb_true_iff, !zl_eqb_true, Z.eqb_eq.
  split; [intros H; inversion H; auto | intros [-> ->]; reflexivity].
Qed.
Lemma zl_eqb_nil_cons y b : zl_eqb [] (y :: b) = false.
Proof. unfold zl_eqb. destruct (list_eq_dec Z.eq_dec [] (y :: b)); [discriminate|reflexivity]. Qed.
Lemma zl_eqb_cons_nil y b : zl_eqb (y :: b) [] = false.
Proof. unfold zl_eqb. destruct (list_eq_dec Z.eq_dec (y :: b) []); [discriminate|reflexivity]. Qed.
Lemma zl_eqb_nil : zl_eqb [] [] = true.
Proof. reflexivity. Qed.

Lemma bytes_all2o e xs : forall ys,
  forallb (has_type e (TB (KInt 8 false))) xs = true ->
  forallb (has_type e (TB (KInt 8 false))) ys = true ->
  all2o (fun a b => spec_eq e (TB (KInt 8 false)) a b) xs ys
  = Some (zl_eqb (bytes_of xs) (bytes_of ys)).
Proof.
  induction xs as [|a xs IH]; intros [|b ys] Hx Hy.
  - reflexivity.
  - cbn [bytes_of map all2o]. rewrite zl_eqb_nil_cons. reflexivity.
  - cbn [bytes_of map all2o]. rewrite zl_eqb_cons_nil. reflexivity.
  - cbn [forallb] in Hx, Hy.
    apply andb_prop in Hx as [Ha Hx]. apply andb_prop in Hy as [Hb Hy].
    cbn [bytes_of map all2o]. fold (bytes_of xs). fold (bytes_of ys).
    rewrite zl_eqb_cons. rewrite (IH ys Hx Hy).
    rewrite has_type_unfold in Ha, Hb. cbn in Ha, Hb.
    destruct a; cbn in Ha; try discriminate. destruct b; cbn in Hb; try discriminate.
    rewrite spec_eq_unfold. cbn. reflexivity.
Qed.

Lemma leaf_go_eqeq k x y : basic_ok k x = true -> basic_ok k y = true ->
  leaf_eq k x y = Some (go_eqeq x y).
Proof.
  rewrite go_eqeq_unfold.
  destruct k, x; cbn; intros Hx; try discriminate; destruct y; cbn; intros Hy; try discriminate; reflexivity.
Qed.

Ltac inv_some := match goal with H : Some _ = Some _ |- _ => inversion H; subst; clear H end.

(* ---------- which strategies can arise at each kind of node ---------- *)
Lemma strategy_basic e md t r k : resolve e t = Some r -> r_node r = TB k -> strategy e md t = SEqEq.
Proof.
  intros R N. unfold strategy. rewrite R. cbn zeta. rewrite N.
  pose proof (can_equal_resolve _ _ _ R) as CE. rewrite N in CE. cbn in CE.
  destruct md; [reflexivity| rewrite CE; reflexivity].
Qed.

Lemma strategy_ptr e md t r rt rr : resolve e t = Some r -> r_node r = TP rt ->
  resolve (r_env r) rt = Some rr ->
  let s := strategy e md t in
  (match r_node rr with TSt _ => False | _ => True end /\ s = SPtrNoStruct (r_env r) rt)
  \/ (exists fs, r_node rr = TSt fs /\ is_named rr = true /\ s = SPtrStruct (r_env rr) fs)
  \/ (md = Fld /\ s = SPtrInline (r_env r) rt)
  \/ s = SUnsup.
Proof.
  intros R N RR. unfold strategy. rewrite R. cbn zeta. rewrite N.
  pose proof (can_equal_resolve _ _ _ R) as CE. rewrite N in CE. cbn in CE.
  assert (SP : (match r_node rr with TSt _ => False | _ => True end /\ strat_ptr (r_env r) rt = SPtrNoStruct (r_env r) rt)
               \/ (exists fs, r_node rr = TSt fs /\ is_named rr = true /\ strat_ptr (r_env r) rt = SPtrStruct (r_env rr) fs)
               \/ strat_ptr (r_env r) rt = SUnsup).
  { unfold strat_ptr. rewrite RR. destruct (r_node rr) eqn:NN; try (left; split; [exact I|reflexivity]).
    destruct (is_named rr); [right; left; eexists; repeat split; reflexivity| right; right; reflexivity]. }
  destruct md.
  - destruct SP as [SP|[SP|SP]]; [left; exact SP| right; left; exact SP| right; right; right; exact SP].
  - rewrite CE, RR. destruct (is_named rr).
    + destruct SP as [SP|[SP|SP]]; [left; exact SP| right; left; exact SP| right; right; right; exact SP].
    + right; right; left; split; reflexivity.
Qed.

Lemma strategy_slice e md t r et : resolve e t = Some r -> r_node r = TSl et ->
  strategy e md t = SSlice (r_env r) et \/ (strategy e md t = SBytes /\ et = TB (KInt 8 false)).
Proof.
  intros R N. unfold strategy. rewrite R. cbn zeta. rewrite N.
  pose proof (can_equal_resolve _ _ _ R) as CE. rewrite N in CE. cbn in CE.
  destruct md; [left; reflexivity|]. rewrite CE.
  destruct (is_byte et) eqn:B; [right|left; reflexivity]. split; [reflexivity|].
  destruct et; try discriminate. destruct k; try discriminate. cbn in B.
  apply andb_prop in B as [B1 B2]. apply N.eqb_eq in B1. destruct signed; [discriminate|]. subst. reflexivity.
Qed.

Lemma strategy_array e md t r n et : resolve e t = Some r -> r_node r = TAr n et ->
  strategy e md t = SArray (r_env r) et \/ (strategy e md t = SEqEq /\ can_equal t = true).
Proof.
  intros R N. unfold strategy. rewrite R. cbn zeta. rewrite N.
  destruct md; [left; reflexivity|].
  destruct (can_equal t); [right; split; reflexivity| left; reflexivity].
Qed.

Lemma strategy_map e md t r kt vt : resolve e t = Some r -> r_node r = TM kt vt ->
  strategy e md t = SMap (r_env r) vt.
Proof.
  intros R N. unfold strategy. rewrite R. cbn zeta. rewrite N.
  pose proof (can_equal_resolve _ _ _ R) as CE. rewrite N in CE. cbn in CE.
  destruct md; [reflexivity| rewrite CE; reflexivity].
Qed.

Lemma strategy_struct e md t r fs : resolve e t = Some r -> r_node r = TSt fs ->
  strategy e md t = SFields (r_env r) fs \/ (strategy e md t = SEqEq /\ can_equal t = true)
  \/ strategy e md t = SUnsup.
Proof.
  intros R N. unfold strategy. rewrite R. cbn zeta. rewrite N.
  destruct md.
  - destruct (is_named r); [left; reflexivity|].
    destruct (can_equal t); [right; left; split; reflexivity| left; reflexivity].
  - destruct (can_equal t); [right; left; split; reflexivity|]. left; reflexivity.
Qed.

Lemma agrees_unsup s b : s = Some b -> agrees Unsup s.
Proof. intros ->. split; [eexists; reflexivity| left; reflexivity]. Qed.

Theorem eqm_spec : forall x e md t y,
  has_type e t x = true -> has_type e t y = true -> agrees (eqm e md t x y) (spec_eq e t x y).
Proof.
  induction x using val_ind'; intros e md t y Hx0 Hy0; pose proof Hx0 as Hx; pose proof Hy0 as Hy;
  rewrite has_type_unfold in Hx, Hy;
  destruct (resolve e t) as [r|] eqn:R; try discriminate; cbn zeta in Hx, Hy;
  destruct (r_node r) eqn:N; try discriminate.
  (* leaves: node is basic *)
  1-5: (rewrite eqm_unfold, spec_eq_unfold, (strategy_basic _ _ _ _ _ R N), R; cbn zeta; rewrite N;
        rewrite (leaf_go_eqeq _ _ _ Hx Hy); apply agrees_ok).
  all: try (cbn in Hx; destruct k; discriminate).
  - (* VNilP *)
    destruct (resolve (r_env r) t0) as [rr|] eqn:RR; [|discriminate].
    rewrite eqm_unfold, spec_eq_unfold, R. cbn zeta. rewrite N.
    destruct (strategy_ptr e md t r t0 rr R N RR) as [[_ S]|[[fs [_ [_ S]]]|[[_ S]|S]]]; rewrite S;
    destruct y; try discriminate; try apply agrees_ok; eapply agrees_unsup; reflexivity.
  - (* VPtr *)
    assert (exists rr, resolve (r_env r) t0 = Some rr) as [rr RR].
    { rewrite has_type_unfold in Hx. destruct (resolve (r_env r) t0); [eexists; reflexivity|discriminate]. }
    rewrite eqm_unfold, spec_eq_unfold, R. cbn zeta. rewrite N.
    destruct (strategy_ptr e md t r t0 rr R N RR) as [[_ S]|[[fs [NN [NM S]]]|[[_ S]|S]]]; rewrite S.
    + destruct y; try discriminate; [apply agrees_ok| apply IHx; assumption].
    + destruct y; try discriminate.
      * destruct x; apply agrees_ok.
      * specialize (IHx (r_env r) Top t0 y Hx Hy).
        rewrite eqm_unfold in IHx. unfold strategy in IHx. rewrite RR in IHx. cbn zeta in IHx.
        rewrite NN, NM in IHx.
        rewrite has_type_unfold, RR in Hx, Hy. cbn zeta in Hx, Hy. rewrite NN in Hx, Hy.
        destruct x; try discriminate. destruct y; try discriminate. exact IHx.
    + destruct y; try discriminate; [apply agrees_ok| apply IHx; assumption].
    + destruct y; try discriminate; [eapply agrees_unsup; reflexivity|].
      destruct (IHx (r_env r) Top t0 y Hx Hy) as [[b Hb] _]. eapply agrees_unsup; exact Hb.
  - (* VNilS *)
    rewrite eqm_unfold, spec_eq_unfold, R. cbn zeta. rewrite N.
    destruct (strategy_slice e md t r t0 R N) as [S|[S _]]; rewrite S;
    destruct y; try discriminate; apply agrees_ok.
  - (* VSl *)
    apply andb_prop in Hx as [Hx _].
    rewrite eqm_unfold, spec_eq_unfold, R. cbn zeta. rewrite N.
    destruct (strategy_slice e md t r t0 R N) as [S|[S Eb]]; rewrite S.
    + destruct y; try discriminate; [apply agrees_ok|].
      apply andb_prop in Hy as [Hy _].
      assert (HF : Forall (fun a => forall b, has_type (r_env r) t0 b = true ->
                     agrees (eqm (r_env r) Fld t0 a b) (spec_eq (r_env r) t0 a b)) es).
      { apply forallb_Forall in Hx. rewrite Forall_forall in *. intros a Ha b Hb.
        apply H; [exact Ha| apply Hx; exact Ha| exact Hb]. }
      destruct (Nat.eqb_spec (length es) (length es0)) as [El|Nl]; cbn [negb].
      * apply (elems_agree _ _ (fun b => has_type (r_env r) t0 b = true)); [exact HF| apply forallb_Forall; exact Hy| exact El].
      * rewrite (all2o_len_false _ (fun b => has_type (r_env r) t0 b = true) es); [apply agrees_ok| | apply forallb_Forall; exact Hy| exact Nl].
        rewrite Forall_forall in *. intros a Ha b Hb. destruct (HF a Ha b Hb) as [T _]. exact T.
    + subst t0. destruct y; try discriminate; [apply agrees_ok|].
      apply andb_prop in Hy as [Hy _].
      rewrite (bytes_all2o _ es es0 Hx Hy). apply agrees_ok.
  - (* VNilM *)
    rewrite eqm_unfold, spec_eq_unfold, R. cbn zeta. rewrite N.
    rewrite (strategy_map e md t r t0_1 t0_2 R N).
    destruct y; try discriminate; apply agrees_ok.
  - (* VMap *)
    rewrite eqm_unfold, spec_eq_unfold, R. cbn zeta. rewrite N.
    rewrite (strategy_map e md t r t0_1 t0_2 R N).
    destruct y; try discriminate; [apply agrees_ok|].
    apply andb_prop in Hx as [_ Hx]. apply andb_prop in Hy as [_ Hy].
    destruct (Nat.eqb_spec (length kvs) (length kvs0)) as [El|Nl]; cbn [negb]; [|apply agrees_ok].
    apply (entries_agree _ _ (fun b => has_type (r_env r) t0_2 b = true)).
    + apply forallb_Forall in Hx. rewrite Forall_forall in *. intros kv Hkv b Hb.
      destruct (H kv Hkv) as [_ Hs]. apply Hs; [|exact Hb].
      specialize (Hx kv Hkv). cbn in Hx. apply andb_prop in Hx as [_ Hx]. exact Hx.
    + apply forallb_Forall in Hy. rewrite Forall_forall in *. intros kv Hkv.
      specialize (Hy kv Hkv). cbn in Hy. apply andb_prop in Hy as [_ Hy]. exact Hy.
  - (* VArr *)
    destruct (strategy_array e md t r n t0 R N) as [S|[S Hc]].
    + rewrite eqm_unfold, spec_eq_unfold, R. cbn zeta. rewrite N, S.
      destruct y; try discriminate.
      apply andb_prop in Hx as [Lx Hx]. apply andb_prop in Hy as [Ly Hy].
      apply Nat.eqb_eq in Lx. apply Nat.eqb_eq in Ly.
      apply (elems_agree _ _ (fun b => has_type (r_env r) t0 b = true)); [| apply forallb_Forall; exact Hy| lia].
      apply forallb_Forall in Hx. rewrite Forall_forall in *. intros a Ha b Hb.
      apply H; [exact Ha| apply Hx; exact Ha| exact Hb].
    + rewrite eqm_unfold, S, (go_eqeq_spec t Hc e _ _ Hx0 Hy0). apply agrees_ok.
  - (* VSt *)
    assert (FA : forall ys, fields_ok (has_type (r_env r)) fs0 ys = true ->
              agrees (fields_r (fun ft a b => eqm (r_env r) Fld ft a b) fs0 fs ys)
                     (fields_o (fun ft a b => spec_eq (r_env r) ft a b) fs0 fs ys)).
    { intros ys Hys. apply (fields_agree _ _ (has_type (r_env r))); [| exact Hx| exact Hys].
      rewrite Forall_forall in *. intros a Ha ft b Hta Htb. apply H; assumption. }
    destruct (strategy_struct e md t r fs0 R N) as [S|[[S Hc]|S]].
    + rewrite eqm_unfold, spec_eq_unfold, R. cbn zeta. rewrite N, S.
      destruct y; try discriminate. apply FA; exact Hy.
    + rewrite eqm_unfold, S, (go_eqeq_spec t Hc e _ _ Hx0 Hy0). apply agrees_ok.
    + rewrite eqm_unfold, spec_eq_unfold, R. cbn zeta. rewrite N, S.
      destruct y; try discriminate. destruct (FA fs1 Hy) as [[b Hb] _]. eapply agrees_unsup; exact Hb.
Qed.

(* ---------- corollaries stated on the top-level function ---------- *)
Corollary equal_is_structural t x y :
  has_type [] t x = true -> has_type [] t y = true ->
  (exists b, spec_eq [] t x y = Some b) /\
  (equal_model t x y = Unsup \/ equal_model t x y = lift (spec_eq [] t x y)).
Proof. intros Hx Hy. exact (eqm_spec x [] Top t y Hx Hy). Qed.

Corollary equal_never_panics t x y :
  has_type [] t x = true -> has_type [] t y = true ->
  equal_model t x y <> Pan /\ equal_model t x y <> Stuck.
Proof.
  intros Hx Hy. destruct (equal_is_structural t x y Hx Hy) as [[b Hb] [H|H]]; rewrite H; [split; discriminate|].
  rewrite Hb. split; discriminate.
Qed.

(* a component is compared the same way at top level (helper function) and as a field *)
Corollary equal_top_eq_field e t x y :
  has_type e t x = true -> has_type e t y = true ->
  eqm e Top t x y = Unsup \/ eqm e Fld t x y = Unsup \/ eqm e Top t x y = eqm e Fld t x y.
Proof.
  intros Hx Hy.
  destruct (eqm_spec x e Top t y Hx Hy) as [_ [H|H]]; [left; exact H|].
  destruct (eqm_spec x e Fld t y Hx Hy) as [_ [H'|H']]; [right; left; exact H'|].
  right; right. rewrite H, H'. reflexivity.
Qed.

Corollary curried_eq_binary t x y : equal_curried_model t x y = equal_model t x y.
Proof. reflexivity. Qed.

(* non-vacuity: a recursive struct with a pointer, a slice of itself and a map *)
Definition ex_rec : ty :=
  TN 1 false (TSt [(false, TB (KInt 64 true)); (false, TP (TRef 1)); (true, TSl (TRef 1));
                   (false, TM (TB KStr) (TB KF64))]).
Definition ex_val (l : N) : val :=
  VSt [VInt 3; VPtr l (VSt [VInt 4; VNilP; VNilS; VNilM]); VSl (l + 1) [] [];
       VMap (l + 2) [(VStr [97%N], VF true 0)]].
Example equal_is_structural_ex :
  has_type [] ex_rec (ex_val 10) = true /\ has_type [] ex_rec (ex_val 20) = true
  /\ equal_model ex_rec (ex_val 10) (ex_val 20) = Ok true.
Proof. repeat split; vm_compute; reflexivity. Qed.

(* Before the fix (703d315) a []byte field was compared with bytes.Equal alone:
   struct{ B []byte }{nil} and {[]byte{}} were Equal although their nil-ness differs. *)
Definition bytes_struct : ty := TSt [(false, TSl (TB (KInt 8 false)))].
Lemma equal_bytes_old_refuted :
  bytes_equal_old VNilS (VSl 1 [] []) = Ok true
  /\ spec_eq [] bytes_struct (VSt [VNilS]) (VSt [VSl 1 [] []]) = Some false
  /\ equal_model bytes_struct (VSt [VNilS]) (VSt [VSl 1 [] []]) = Ok false.
Proof. repeat split; vm_compute; reflexivity. Qed.
