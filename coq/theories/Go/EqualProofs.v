(* Go/EqualProofs.v — proofs about the model of plugin/equal (C02). *)
From Verif Require Import Go.Ty Go.Val Go.Equal.

(* Before the fix (703d315) a []byte field was compared with bytes.Equal alone:
   struct{ B []byte }{nil} and {[]byte{}} were Equal although their nil-ness differs. *)
Definition bytes_struct : ty := TSt [(false, TSl (TB (KInt 8 false)))].
Lemma equal_bytes_old_refuted :
  bytes_equal_old VNilS (VSl 1 [] []) = Ok true
  /\ spec_eq [] bytes_struct (VSt [VNilS]) (VSt [VSl 1 [] []]) = Some false
  /\ equal_model bytes_struct (VSt [VNilS]) (VSt [VSl 1 [] []]) = Ok false.
Proof. repeat split; vm_compute; reflexivity. Qed.
