(* Go/SortLemmas.v — facts about [sort_by] (insertion sort by [cmp_val] on a key), the
   executable stand-in for sort.Slice in the models: it returns a sorted permutation, it
   commutes with maps that keep the key, and on keys that form a total order a sorted
   arrangement of pairwise different keys is unique. *)
From Verif Require Import Go.Ty Go.Val Go.Compare Go.ListOrder.
From Coq Require Import Lia Permutation Sorted.
Open Scope Z_scope.

Section SortBy.
Context {A : Type}.
Variable key : A -> val.

Lemma insert_by_perm a l : Permutation (insert_by key a l) (a :: l).
Proof.
  induction l as [|b l IH]; cbn; [reflexivity|].
  destruct (Z.ltb (cmp_val (key b) (key a)) 0); [|destruct (Z.eqb (cmp_val (key b) (key a)) 0)].
  - rewrite IH. apply perm_swap.
  - rewrite IH. apply perm_swap.
  - reflexivity.
Qed.

Lemma sort_by_perm l : Permutation (sort_by key l) l.
Proof.
  induction l as [|a l IH]; cbn; [reflexivity|].
  rewrite insert_by_perm. constructor. exact IH.
Qed.

Lemma sort_by_In l a : In a (sort_by key l) <-> In a l.
Proof. split; apply Permutation_in; [apply sort_by_perm| symmetry; apply sort_by_perm]. Qed.

Lemma sort_by_length l : length (sort_by key l) = length l.
Proof. apply Permutation_length, sort_by_perm. Qed.

(* sortedness, for keys in a carrier on which cmp_val is antisymmetric and transitive *)
Variable K : val -> Prop.
Hypothesis HA : forall x y, K x -> K y -> cmp_val y x = - cmp_val x y.
Hypothesis HT : forall x y z, K x -> K y -> K z -> cmp_val x y <= 0 -> cmp_val y z <= 0 -> cmp_val x z <= 0.

Definition le_key (a b : A) : Prop := cmp_val (key a) (key b) <= 0.

Lemma insert_by_sorted a l : K (key a) -> Forall (fun b => K (key b)) l ->
  StronglySorted le_key l -> StronglySorted le_key (insert_by key a l).
Proof.
  intros Ka Kl S. revert Kl. induction S as [|b l Sl IH Hb]; intros Kl; cbn.
  - constructor; constructor.
  - inversion Kl as [|? ? Kb Kl']; subst.
    assert (Hins : forall c, In c (insert_by key a l) -> c = a \/ In c l).
    { intros c Hc. apply (Permutation_in _ (insert_by_perm a l)) in Hc. destruct Hc; auto. }
    destruct (Z.ltb_spec (cmp_val (key b) (key a)) 0) as [L|G]; [|destruct (Z.eqb_spec (cmp_val (key b) (key a)) 0) as [E|NE]].
    + constructor; [apply IH; exact Kl'|]. rewrite Forall_forall in *. intros c Hc.
      destruct (Hins c Hc) as [->|Hc']; [unfold le_key; lia| apply Hb; exact Hc'].
    + constructor; [apply IH; exact Kl'|]. rewrite Forall_forall in *. intros c Hc.
      destruct (Hins c Hc) as [->|Hc']; [unfold le_key; lia| apply Hb; exact Hc'].
    + assert (Lab : le_key a b) by (unfold le_key; rewrite (HA (key b) (key a)) by assumption; lia).
      constructor; [constructor; assumption|]. constructor; [exact Lab|].
      rewrite Forall_forall in *. intros c Hc. unfold le_key in *.
      apply (HT (key a) (key b) (key c)); [exact Ka| exact Kb| apply Kl'; exact Hc| exact Lab| apply Hb; exact Hc].
Qed.

Lemma sort_by_sorted l : Forall (fun b => K (key b)) l -> StronglySorted le_key (sort_by key l).
Proof.
  induction l as [|a l IH]; intros Kl; cbn; [constructor|].
  inversion Kl; subst. apply insert_by_sorted; [assumption| |apply IH; assumption].
  rewrite Forall_forall in *. intros b Hb. apply H2. apply sort_by_In. exact Hb.
Qed.

(* uniqueness: two sorted arrangements of the same elements coincide when elements with
   interchangeable keys (cmp = 0 both ways) are equal *)
Lemma sorted_perm_unique l1 : forall l2,
  StronglySorted le_key l1 -> StronglySorted le_key l2 -> Permutation l1 l2 ->
  (forall a b, In a l1 -> In b l1 -> le_key a b -> le_key b a -> a = b) ->
  l1 = l2.
Proof.
  induction l1 as [|a l1 IH]; intros l2 S1 S2 P U.
  - apply Permutation_nil in P. subst. reflexivity.
  - destruct l2 as [|b l2]; [apply Permutation_sym, Permutation_nil in P; discriminate|].
    inversion S1 as [|? ? S1' F1]; subst. inversion S2 as [|? ? S2' F2]; subst.
    assert (Hab : a = b).
    { assert (In b (a :: l1)) as Hb by (apply (Permutation_in _ (Permutation_sym P)); left; reflexivity).
      assert (In a (b :: l2)) as Ha by (apply (Permutation_in _ P); left; reflexivity).
      destruct Hb as [->|Hb]; [reflexivity|]. destruct Ha as [->|Ha]; [reflexivity|].
      rewrite Forall_forall in F1, F2.
      apply U; [left; reflexivity| right; exact Hb| apply F1; exact Hb| apply F2; exact Ha]. }
    subst b. f_equal. apply IH; try assumption.
    + apply Permutation_cons_inv in P. exact P.
    + intros x y Hx Hy. apply U; right; assumption.
Qed.
End SortBy.

(* the same uniqueness for an arbitrary relation *)
Lemma sorted_perm_unique_gen {A} (R : A -> A -> Prop) (l1 : list A) : forall l2,
  StronglySorted R l1 -> StronglySorted R l2 -> Permutation l1 l2 ->
  (forall a b, In a l1 -> In b l1 -> R a b -> R b a -> a = b) ->
  l1 = l2.
Proof.
  induction l1 as [|a l1 IH]; intros l2 S1 S2 P U.
  - apply Permutation_nil in P. subst. reflexivity.
  - destruct l2 as [|b l2]; [apply Permutation_sym, Permutation_nil in P; discriminate|].
    inversion S1 as [|? ? S1' F1]; subst. inversion S2 as [|? ? S2' F2]; subst.
    assert (Hab : a = b).
    { assert (In b (a :: l1)) as Hb by (apply (Permutation_in _ (Permutation_sym P)); left; reflexivity).
      assert (In a (b :: l2)) as Ha by (apply (Permutation_in _ P); left; reflexivity).
      destruct Hb as [->|Hb]; [reflexivity|]. destruct Ha as [->|Ha]; [reflexivity|].
      rewrite Forall_forall in F1, F2.
      apply U; [left; reflexivity| right; exact Hb| apply F1; exact Hb| apply F2; exact Ha]. }
    subst b. f_equal. apply IH; try assumption.
    + apply Permutation_cons_inv in P. exact P.
    + intros x y Hx Hy. apply U; right; assumption.
Qed.

Lemma StronglySorted_map {A B} (R : A -> A -> Prop) (R' : B -> B -> Prop) (f : A -> B) l :
  (forall a b, In a l -> In b l -> R a b -> R' (f a) (f b)) ->
  StronglySorted R l -> StronglySorted R' (map f l).
Proof.
  intros H S. induction S as [|a l S IH F]; cbn; [constructor|].
  constructor.
  - apply IH. intros x y Hx Hy. apply H; right; assumption.
  - rewrite Forall_forall in *. intros y Hy. apply in_map_iff in Hy as [x [<- Hx]].
    apply H; [left; reflexivity| right; exact Hx| apply F; exact Hx].
Qed.

(* sorting commutes with a map that keeps the key *)
Lemma insert_by_map {A B} (key : A -> val) (key' : B -> val) (h : A -> B) :
  (forall a, key' (h a) = key a) ->
  forall a l, insert_by key' (h a) (map h l) = map h (insert_by key a l).
Proof.
  intros Hk a l. induction l as [|b l IH]; cbn; [reflexivity|].
  rewrite !Hk. destruct (Z.ltb (cmp_val (key b) (key a)) 0); [cbn; rewrite IH; reflexivity|].
  destruct (Z.eqb (cmp_val (key b) (key a)) 0); cbn; [rewrite IH; reflexivity| reflexivity].
Qed.

Lemma sort_by_map {A B} (key : A -> val) (key' : B -> val) (h : A -> B) :
  (forall a, key' (h a) = key a) ->
  forall l, sort_by key' (map h l) = map h (sort_by key l).
Proof.
  intros Hk l. unfold sort_by. induction l as [|a l IH]; cbn [map fold_right]; [reflexivity|].
  rewrite IH. apply insert_by_map. exact Hk.
Qed.
