(* MethodsEx.v — witnesses about user Equal methods inside ==-comparable composites.
   The pinned generator compared an array or struct that Go's == accepts with ==, also when an
   element/field type declares its own Equal method; the property (C02) says that at such a component
   the answer is the method's.  Repaired by "fix: equal calls a component's own Equal method also inside
   arrays and structs that == could compare". *)
From Coq Require Import String List ZArith.
From Verif Require Import Base Sexp Go.Ty Go.Val Go.Equal Go.Compare Go.Methods.
Import ListNotations.
Open Scope string_scope.
Open Scope Z_scope.

(* [2][2]ME with ME = struct{F0 int; F1 string} (id 100: Equal/Compare look at F0 only) *)
Definition me_s : sexp := L [Sym "named"; Num 100; Num 0; L [Sym "struct"; L [Num 0; L [Sym "int"; Num 64; Num 1]]; L [Num 0; Sym "string"]]].
Definition arr2 (t : sexp) : sexp := L [Sym "array"; Num 2; t].
Definition me_v (n : Z) (c : Z) : sexp := L [Sym "st"; L [Sym "i"; Num n]; L [Sym "s"; Num c]].
Definition av (a b : sexp) : sexp := L [Sym "a"; a; b].

Definition ex_ty : option ty := parse_ty (arr2 (arr2 me_s)).
Definition ex_x : option val := parse_val (av (av (me_v 1 97) (me_v 2 98)) (av (me_v 3 99) (me_v 4 100))).
Definition ex_y : option val := parse_val (av (av (me_v 1 120) (me_v 2 121)) (av (me_v 3 122) (me_v 4 119))).

(* same F0 everywhere, different F1: the methods say equal / 0 *)
Lemma equal_method_in_composite_refuted :
  exists t x y, ex_ty = Some t /\ ex_x = Some x /\ ex_y = Some y /\
    has_type [] t x = true /\ has_type [] t y = true /\
    eqm_m_old [] Top t x y = Ok false /\      (* pinned: == on the inner arrays, all fields *)
    cmpm_m true [] t x y = Ok 0 /\             (* Compare honours the method: 0 although Equal said false *)
    eqm_m [] Top t x y = Ok true.             (* repaired: the method answers at the component *)
Proof.
  destruct ex_ty as [t|] eqn:Ht; [|vm_compute in Ht; discriminate].
  destruct ex_x as [x|] eqn:Hx; [|vm_compute in Hx; discriminate].
  destruct ex_y as [y|] eqn:Hy; [|vm_compute in Hy; discriminate].
  exists t, x, y.
  vm_compute in Ht; vm_compute in Hx; vm_compute in Hy.
  injection Ht as <-; injection Hx as <-; injection Hy as <-.
  repeat split; vm_compute; reflexivity.
Qed.

(* on method-free types nothing changed: the repaired comparability test is Go's *)
Lemma can_equal_m_method_free t : has_meth_val t = false -> can_equal_m t = can_equal t.
Proof. intro H; unfold can_equal_m; rewrite H; destruct (can_equal t); reflexivity. Qed.
