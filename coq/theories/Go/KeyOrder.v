(* Go/KeyOrder.v — on comparable (pointer-free) types the untyped order [cmp_val] used for the
   sorted key lists, Go's == and the canonical encoding agree:
     cmp_val x y = lexcmp (enc x) (enc y),   x == y <-> enc x = enc y,
   and encodings of two values of one type are aligned. *)
From Verif Require Import Go.Ty Go.Val Go.Equal Go.EqualProofs Go.Compare Go.CompareSpec Go.ListOrder.
From Coq Require Import Lia.
Open Scope Z_scope.
Local Arguments Z.compare : simpl never.
Local Arguments Z.add : simpl never.
Local Arguments Z.of_N : simpl never.
Local Arguments Z.eqb : simpl never.
Local Arguments Z.ltb : simpl never.
Local Arguments N.ltb : simpl never.

Lemma enc_unfold e t x :
  enc e t x =
  match resolve e t with
  | None => None
  | Some r =>
      let e' := r_env r in
      match r_node r, x with
      | TB k, _ => leaf_enc k x
      | TP _, VNilP => Some [0]
      | TP rt, VPtr _ x' => option_map (cons 1) (enc e' rt x')
      | TSl _, VNilS => Some [0]
      | TSl et, VSl _ xs _ =>
          option_map (fun r => 1 :: Z.of_nat (List.length xs) :: r) (oconcat (map (fun a => enc e' et a) xs))
      | TAr _ et, VArr xs => oconcat (map (fun a => enc e' et a) xs)
      | TM _ _, VNilM => Some [0]
      | TM kt vt, VMap _ xm =>
          let es := map (fun kv => (fst kv, (enc e' kt (fst kv), enc e' vt (snd kv)))) xm in
          option_map (fun r => 1 :: Z.of_nat (List.length xm) :: r)
                     (oconcat (map entry_enc (sort_by fst es)))
      | TSt fs, VSt xs => fields_enc (fun ft a => enc e' ft a) fs xs
      | _, _ => None
      end
  end.
Proof. destruct x; reflexivity. Qed.

Lemma cmp_val_unfold x y :
  cmp_val x y =
  match x, y with
  | VBool a, VBool b => cmp_bool a b
  | VInt a, VInt b => cmp_int a b
  | VF n1 m1, VF n2 m2 => cmp_float n1 m1 n2 m2
  | VC a b c d, VC a' b' c' d' => cmp_complex a b c d a' b' c' d'
  | VStr a, VStr b => bytes_cmp a b
  | VArr xs, VArr ys => lex2 (fun a b => cmp_val a b) xs ys
  | VSt xs, VSt ys => lex2 (fun a b => cmp_val a b) xs ys
  | _, _ => 0
  end.
Proof. destruct x; reflexivity. Qed.

(* ---------- leaves ---------- *)
Lemma fkey_eq n1 m1 n2 m2 : feq n1 m1 n2 m2 = true <-> fkey n1 m1 = fkey n2 m2.
Proof.
  unfold feq, fkey.
  destruct (N.eqb_spec m1 0) as [E1|E1], (N.eqb_spec m2 0) as [E2|E2]; cbn [andb];
  destruct (N.eqb_spec m1 m2) as [E|E]; destruct n1, n2; cbn; split; intros H;
  try reflexivity; try discriminate; try lia.
Qed.

Lemma cmp_float_lex n1 m1 n2 m2 : cmp_float n1 m1 n2 m2 = lexcmp [fkey n1 m1] [fkey n2 m2].
Proof.
  unfold cmp_float, flt. cbn.
  destruct (feq n1 m1 n2 m2) eqn:E.
  - apply fkey_eq in E. rewrite E, Z.compare_refl. reflexivity.
  - destruct (Z.compare_spec (fkey n1 m1) (fkey n2 m2)) as [H|H|H].
    + apply fkey_eq in H. congruence.
    + apply Z.ltb_lt in H. rewrite H. reflexivity.
    + destruct (Z.ltb_spec (fkey n1 m1) (fkey n2 m2)); [lia|reflexivity].
Qed.

Lemma bytes_cmp_lex a b : bytes_cmp a b = lexcmp (str_enc a) (str_enc b).
Proof.
  unfold str_enc. revert b; induction a as [|x a IH]; intros [|y b]; cbn; try reflexivity.
  - destruct (Z.compare_spec 0 (Z.of_N y + 1)); try lia; reflexivity.
  - destruct (Z.compare_spec (Z.of_N x + 1) 0); try lia; reflexivity.
  - destruct (N.ltb_spec x y); [destruct (Z.compare_spec (Z.of_N x + 1) (Z.of_N y + 1)); try lia; reflexivity|].
    destruct (N.ltb_spec y x); [destruct (Z.compare_spec (Z.of_N x + 1) (Z.of_N y + 1)); try lia; reflexivity|].
    assert (x = y) by lia. subst. rewrite Z.compare_refl. apply IH.
Qed.

Lemma str_enc_inj a b : str_enc a = str_enc b -> a = b.
Proof.
  unfold str_enc. revert b; induction a as [|x a IH]; intros [|y b]; cbn; intros H; try reflexivity;
  inversion H; try lia.
  f_equal; [lia| apply IH; assumption].
Qed.

Lemma bytes_eqb_eq a b : bytes_eqb a b = true <-> a = b.
Proof.
  revert b; induction a as [|x a IH]; intros [|y b]; cbn; split; intros H; try discriminate; try reflexivity.
  - apply andb_prop in H as [H1 H2]. apply N.eqb_eq in H1. apply IH in H2. subst. reflexivity.
  - inversion H; subst. rewrite N.eqb_refl. apply IH. reflexivity.
Qed.

(* what is needed of a pair of values of one comparable type *)
Record key_ok (x y : val) (a b : list Z) : Prop := {
  ko_al : AL a b;
  ko_cmp : cmp_val x y = lexcmp a b;
  ko_eq : go_eqeq x y = true <-> a = b
}.

Lemma leaf_key_ok k x y : basic_ok k x = true -> basic_ok k y = true ->
  exists a b, leaf_enc k x = Some a /\ leaf_enc k y = Some b /\ key_ok x y a b.
Proof.
  destruct k, x; cbn; intros Hx; try discriminate; destruct y; cbn; intros Hy; try discriminate;
  do 2 eexists; (split; [reflexivity|]); (split; [reflexivity|]); constructor;
  rewrite ?cmp_val_unfold, ?go_eqeq_unfold.
  - apply AL_single.
  - destruct b, b0; reflexivity.
  - destruct b, b0; cbn; split; intros H; try reflexivity; try discriminate.
  - apply AL_single.
  - unfold cmp_int. cbn. destruct (Z.compare_spec z z0); destruct (Z.eqb_spec z z0); destruct (Z.ltb_spec z z0); try lia; reflexivity.
  - rewrite Z.eqb_eq. split; [intros ->; reflexivity| intros H; inversion H; reflexivity].
  - apply AL_single.
  - apply cmp_float_lex.
  - rewrite fkey_eq. split; [intros ->; reflexivity| intros H; inversion H; reflexivity].
  - apply AL_single.
  - apply cmp_float_lex.
  - rewrite fkey_eq. split; [intros ->; reflexivity| intros H; inversion H; reflexivity].
  - apply (AL_app [_] [_] [_] [_]); apply AL_single.
  - unfold cmp_complex. rewrite cmp_float_lex. cbn.
    destruct (feq rneg rmag rneg0 rmag0) eqn:E.
    + apply fkey_eq in E. rewrite E, Z.compare_refl. reflexivity.
    + unfold flt. destruct (Z.compare_spec (fkey rneg rmag) (fkey rneg0 rmag0)) as [H|H|H].
      * apply fkey_eq in H. congruence.
      * apply Z.ltb_lt in H. rewrite H. reflexivity.
      * destruct (Z.ltb_spec (fkey rneg rmag) (fkey rneg0 rmag0)); [lia|reflexivity].
  - rewrite Bool.andb_true_iff, !fkey_eq. split; [intros [-> ->]; reflexivity| intros H; inversion H; split; reflexivity].
  - apply (AL_app [_] [_] [_] [_]); apply AL_single.
  - unfold cmp_complex. rewrite cmp_float_lex. cbn.
    destruct (feq rneg rmag rneg0 rmag0) eqn:E.
    + apply fkey_eq in E. rewrite E, Z.compare_refl. reflexivity.
    + unfold flt. destruct (Z.compare_spec (fkey rneg rmag) (fkey rneg0 rmag0)) as [H|H|H].
      * apply fkey_eq in H. congruence.
      * apply Z.ltb_lt in H. rewrite H. reflexivity.
      * destruct (Z.ltb_spec (fkey rneg rmag) (fkey rneg0 rmag0)); [lia|reflexivity].
  - rewrite Bool.andb_true_iff, !fkey_eq. split; [intros [-> ->]; reflexivity| intros H; inversion H; split; reflexivity].
  - apply AL_str.
  - apply bytes_cmp_lex.
  - rewrite bytes_eqb_eq. split; [intros ->; reflexivity| intros H; f_equal; apply str_enc_inj; exact H].
Qed.

(* ---------- lists of components ---------- *)
Lemma key_ok_nil : key_ok (VArr []) (VArr []) [] [].
Proof. constructor; [apply AL_nil| reflexivity| split; reflexivity]. Qed.

(* combining a head pair with a tail, for the three components of key_ok *)
Lemma cons_lex (c : Z) a1 b1 a2 b2 (l : Z) :
  AL a1 b1 -> c = lexcmp a1 b1 -> l = lexcmp a2 b2 ->
  (if Z.eqb c 0 then l else c) = lexcmp (a1 ++ a2) (b1 ++ b2).
Proof. intros A -> ->. rewrite (A a2 b2). reflexivity. Qed.

Lemma cons_eq (p q : bool) a1 b1 a2 b2 :
  AL a1 b1 -> (p = true <-> a1 = b1) -> (q = true <-> a2 = b2) ->
  ((p && q)%bool = true <-> (a1 ++ a2 = b1 ++ b2)%list).
Proof.
  intros A H1 H2. rewrite Bool.andb_true_iff. split.
  - intros [P Q]. apply H1 in P. apply H2 in Q. subst. reflexivity.
  - intros E. destruct (AL_app_inj _ _ _ _ A E) as [E1 E2]. split; [apply H1|apply H2]; assumption.
Qed.

Lemma elems_key_ok (f : val -> option (list Z)) (P : val -> Prop) xs :
  Forall (fun x => forall y, P y -> exists a b, f x = Some a /\ f y = Some b /\ key_ok x y a b) xs ->
  forall ys, Forall P ys -> length xs = length ys ->
  exists a b, oconcat (map f xs) = Some a /\ oconcat (map f ys) = Some b /\
    AL a b /\ lex2 (fun p q => cmp_val p q) xs ys = lexcmp a b /\
    (all2b (fun p q => go_eqeq p q) xs ys = true <-> a = b).
Proof.
  induction 1 as [|x xs Hx Hxs IH]; intros [|y ys] Hys Hl; cbn in Hl; try discriminate.
  - exists [], []. cbn. split; [reflexivity|]. split; [reflexivity|]. split; [apply AL_nil|].
    split; [reflexivity| split; reflexivity].
  - inversion Hys; subst. destruct (Hx y H1) as (a1 & b1 & Ea & Eb & K).
    destruct (IH ys H2 ltac:(lia)) as (a2 & b2 & Ea2 & Eb2 & A2 & C2 & Q2).
    exists (a1 ++ a2)%list, (b1 ++ b2)%list. cbn. rewrite Ea, Eb, Ea2, Eb2.
    split; [reflexivity|]. split; [reflexivity|].
    split; [apply AL_app; [apply K| exact A2]|].
    split; [apply cons_lex; [apply K| apply K| exact C2]|].
    apply (cons_eq _ _ _ _ _ _ (ko_al _ _ _ _ K) (ko_eq _ _ _ _ K) Q2).
Qed.

Lemma fields_key_ok (f : ty -> val -> option (list Z)) (ht : ty -> val -> bool) fs :
  Forall (fun fd : bool * ty => forall x y, ht (snd fd) x = true -> ht (snd fd) y = true ->
            exists a b, f (snd fd) x = Some a /\ f (snd fd) y = Some b /\ key_ok x y a b) fs ->
  forall xs ys, fields_ok ht fs xs = true -> fields_ok ht fs ys = true ->
  exists a b, fields_enc f fs xs = Some a /\ fields_enc f fs ys = Some b /\
    AL a b /\ lex2 (fun p q => cmp_val p q) xs ys = lexcmp a b /\
    (all2b (fun p q => go_eqeq p q) xs ys = true <-> a = b).
Proof.
  induction 1 as [|fd fs Hfd Hfs IH]; intros [|x xs] [|y ys] Tx Ty; cbn in Tx, Ty; try discriminate.
  - exists [], []. cbn. split; [reflexivity|]. split; [reflexivity|]. split; [apply AL_nil|].
    split; [reflexivity| split; reflexivity].
  - apply andb_prop in Tx as [Tx1 Tx]. apply andb_prop in Ty as [Ty1 Ty].
    destruct (Hfd x y Tx1 Ty1) as (a1 & b1 & Ea & Eb & K).
    destruct (IH xs ys Tx Ty) as (a2 & b2 & Ea2 & Eb2 & A2 & C2 & Q2).
    exists (a1 ++ a2)%list, (b1 ++ b2)%list. cbn. rewrite Ea, Eb, Ea2, Eb2.
    split; [reflexivity|]. split; [reflexivity|].
    split; [apply AL_app; [apply K| exact A2]|].
    split; [apply cons_lex; [apply K| apply K| exact C2]|].
    apply (cons_eq _ _ _ _ _ _ (ko_al _ _ _ _ K) (ko_eq _ _ _ _ K) Q2).
Qed.

Lemma can_equal_fields fs :
  (fix go (l : list (bool * ty)) : bool :=
     match l with [] => true | f :: l' => can_equal (snd f) && go l' end) fs = true ->
  Forall (fun fd => can_equal (snd fd) = true) fs.
Proof.
  induction fs as [|fd fs IH]; intros H; [constructor|].
  apply andb_prop in H as [H1 H2]. constructor; [exact H1| apply IH; exact H2].
Qed.

(* ---------- the statement for every comparable type ---------- *)
Theorem key_pair : forall t, can_equal t = true -> forall e x y,
  has_type e t x = true -> has_type e t y = true ->
  exists a b, enc e t x = Some a /\ enc e t y = Some b /\ key_ok x y a b.
Proof.
  induction t using ty_ind'; intros Hc e x y Hx Hy; cbn in Hc; try discriminate.
  - rewrite !enc_unfold. rewrite has_type_unfold in Hx, Hy. cbn in *. apply leaf_key_ok; assumption.
  - rewrite !enc_unfold. rewrite has_type_unfold in Hx, Hy. cbn [resolve] in *.
    destruct (is_namedish t) eqn:En; [discriminate|]. cbn [r_env r_node] in *.
    specialize (IHt Hc ((id, (ext, t)) :: e) x y).
    rewrite (has_type_unfold _ t x), (has_type_unfold _ t y), (enc_unfold _ t x), (enc_unfold _ t y) in IHt.
    rewrite (resolve_plain _ t En) in IHt. cbn [r_env r_node] in IHt.
    apply IHt; assumption.
  - rewrite !enc_unfold. rewrite has_type_unfold in Hx, Hy. cbn in *.
    destruct x; try discriminate. destruct y; try discriminate.
    apply andb_prop in Hx as [Lx Hx]. apply andb_prop in Hy as [Ly Hy].
    apply Nat.eqb_eq in Lx. apply Nat.eqb_eq in Ly.
    destruct (elems_key_ok (fun a => enc e t a) (fun b => has_type e t b = true) es) with (ys := es0)
      as (a & b & Ea & Eb & A & C & Q).
    + apply forallb_Forall in Hx. rewrite Forall_forall in *. intros x Hin y Hty.
      apply IHt; [exact Hc| apply Hx; exact Hin| exact Hty].
    + apply forallb_Forall; exact Hy.
    + lia.
    + exists a, b. split; [exact Ea|]. split; [exact Eb|].
      constructor; rewrite ?cmp_val_unfold, ?go_eqeq_unfold; assumption.
  - rewrite !enc_unfold. rewrite has_type_unfold in Hx, Hy. cbn in *.
    destruct x; try discriminate. destruct y; try discriminate.
    destruct (fields_key_ok (fun ft a => enc e ft a) (has_type e) fs) with (xs := fs0) (ys := fs1)
      as (a & b & Ea & Eb & A & C & Q); try assumption.
    + apply can_equal_fields in Hc. rewrite Forall_forall in *. intros fd Hin x y Tx Ty.
      apply H; [exact Hin| apply Hc; exact Hin| exact Tx| exact Ty].
    + exists a, b. split; [exact Ea|]. split; [exact Eb|].
      constructor; rewrite ?cmp_val_unfold, ?go_eqeq_unfold; assumption.
Qed.

(* consequences for typed key values *)
Corollary cmp_val_zero_iff_eqeq t e x y : can_equal t = true ->
  has_type e t x = true -> has_type e t y = true ->
  (cmp_val x y = 0 <-> go_eqeq x y = true).
Proof.
  intros Hc Hx Hy. destruct (key_pair t Hc e x y Hx Hy) as (a & b & _ & _ & K).
  rewrite (ko_cmp _ _ _ _ K), (ko_eq _ _ _ _ K). apply lexcmp_eq.
Qed.

Corollary cmp_val_antisym t e x y : can_equal t = true ->
  has_type e t x = true -> has_type e t y = true -> cmp_val y x = - cmp_val x y.
Proof.
  intros Hc Hx Hy. destruct (key_pair t Hc e x y Hx Hy) as (a & b & Ea & Eb & K).
  destruct (key_pair t Hc e y x Hy Hx) as (b' & a' & Eb' & Ea' & K').
  rewrite Ea in Ea'. rewrite Eb in Eb'. inversion Ea'; inversion Eb'; subst.
  rewrite (ko_cmp _ _ _ _ K), (ko_cmp _ _ _ _ K'). apply lexcmp_antisym.
Qed.

Corollary cmp_val_le_trans t e x y z : can_equal t = true ->
  has_type e t x = true -> has_type e t y = true -> has_type e t z = true ->
  cmp_val x y <= 0 -> cmp_val y z <= 0 -> cmp_val x z <= 0.
Proof.
  intros Hc Hx Hy Hz.
  destruct (key_pair t Hc e x y Hx Hy) as (a & b & Ea & Eb & K1).
  destruct (key_pair t Hc e y z Hy Hz) as (b' & c & Eb' & Ec & K2).
  destruct (key_pair t Hc e x z Hx Hz) as (a' & c' & Ea' & Ec' & K3).
  rewrite Ea in Ea'. rewrite Eb in Eb'. rewrite Ec in Ec'. inversion Ea'; inversion Eb'; inversion Ec'; subst.
  rewrite (ko_cmp _ _ _ _ K1), (ko_cmp _ _ _ _ K2), (ko_cmp _ _ _ _ K3). apply lexcmp_le_trans.
Qed.

Corollary go_eqeq_refl_typed t e x : can_equal t = true -> has_type e t x = true -> go_eqeq x x = true.
Proof.
  intros Hc Hx. destruct (key_pair t Hc e x x Hx Hx) as (a & b & Ea & Eb & K).
  rewrite Ea in Eb. inversion Eb; subst. apply (ko_eq _ _ _ _ K). reflexivity.
Qed.
