(* Eval06.v — evaluation of C06 observations (stub: replaced when C06 is built). *)
From Verif Require Import Base Sexp.
Open Scope string_scope.

Definition eval06 (e : sexp) : verdict := bad_line.
