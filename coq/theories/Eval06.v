(* Eval06.v — evaluation of C06 observations.

     (gs TY VAL TEXT RT)    TEXT = the text returned by the real deriveGoString(VAL), parsed by the
                            harness (GoStr/Match.v) or `unparsed`;  RT = the value of that text
                            compiled and evaluated in a second program (stage 2), serialised by the
                            driver runtime, or `nocompile` / `missing`.
     (gsk TY VAL TEXT RT)   the same for a type with a map whose KEY type owns pointers: judged with the
                            typing and the multiset equality of GoStr/PtrKeys.v (keys by content).
     (sup-gs TY CLASS)      goderive's answer for a type whose fields are all exported.

   model_ok = TEXT is exactly the model's expression (S) and RT is what the model's evaluator
              computes, up to addresses (B) - where the evaluator rejects the text (outside the
              guard: infinite floats, unexported fields) the Go compiler must reject it too;
   spec_ok  = RT is structurally equal (C02's spec_eq) to VAL: the round trip. *)
From Coq Require Import String.
From Verif Require Import Base Sexp Go.Ty Go.Val Go.Equal GoStr.Model GoStr.Geval GoStr.Match GoStr.PtrKeys.
Open Scope string_scope.

(* ---------- printers (for the replay file) ---------- *)
Definition kind_sexp (k : bkind) : sexp :=
  match k with
  | KBool => Sym "bool" | KF32 => Sym "f32" | KF64 => Sym "f64" | KC64 => Sym "c64" | KC128 => Sym "c128"
  | KStr => Sym "string"
  | KInt w s => L [Sym "int"; Num (Z.of_N w); of_bool s]
  end.

Fixpoint ty_sexp (t : ty) : sexp :=
  match t with
  | TB k => kind_sexp k
  | TN id x u => L [Sym "named"; of_nat id; of_bool x; ty_sexp u]
  | TRef id => L [Sym "ref"; of_nat id]
  | TP t' => L [Sym "ptr"; ty_sexp t']
  | TSl t' => L [Sym "slice"; ty_sexp t']
  | TAr n t' => L [Sym "array"; of_nat n; ty_sexp t']
  | TM k v => L [Sym "map"; ty_sexp k; ty_sexp v]
  | TSt fs => L (Sym "struct" :: map (fun f => L [of_bool (fst f); ty_sexp (snd f)]) fs)
  end.

Fixpoint val_sexp (v : val) : sexp :=
  match v with
  | VBool b => L [Sym "b"; of_bool b]
  | VInt z => L [Sym "i"; Num z]
  | VF n m => L [Sym "f"; of_bool n; Num (Z.of_N m)]
  | VC a b c d => L [Sym "c"; of_bool a; Num (Z.of_N b); of_bool c; Num (Z.of_N d)]
  | VStr s => L (Sym "s" :: map (fun b => Num (Z.of_N b)) s)
  | VNilP => Sym "nilp"
  | VPtr l x => L [Sym "p"; Num (Z.of_N l); val_sexp x]
  | VNilS => Sym "nils"
  | VSl l es sp => L [Sym "sl"; Num (Z.of_N l); L (map val_sexp es); L (map val_sexp sp)]
  | VNilM => Sym "nilm"
  | VMap l kvs => L [Sym "m"; Num (Z.of_N l); L (map (fun kv => L [val_sexp (fst kv); val_sexp (snd kv)]) kvs)]
  | VArr es => L (Sym "a" :: map val_sexp es)
  | VSt fs => L (Sym "st" :: map val_sexp fs)
  end.

Definition fnum (n : bool) (m : N) : sexp :=
  L [Sym "num"; of_bool n; Num 0; Num 0; Num (Z.of_N m); Num (Z.of_N m)].

Definition scalar_sexp (v : val) : sexp :=
  match v with
  | VBool b => L [Sym "bool"; of_bool b]
  | VInt z => L [Sym "num"; of_bool (z <? 0)%Z; Num 1; Num (Z.abs z); Sym "_"; Sym "_"]
  | VF n m => fnum n m
  | VC a b c d => L [Sym "cplx"; fnum a b; fnum c d]
  | VStr s => L (Sym "str" :: map (fun b => Num (Z.of_N b)) s)
  | _ => Sym "?"
  end.

Definition lit_sexp (l : glit) : sexp :=
  match l with
  | LScalar _ v => scalar_sexp v
  | LSeq _ a _ es => L (Sym "seq" :: ty_sexp a :: map scalar_sexp es)
  | LMap a _ _ kvs => L (Sym "mapl" :: ty_sexp a :: map (fun kv => L [scalar_sexp (fst kv); scalar_sexp (snd kv)]) kvs)
  end.

Definition head_sexp (h : ghead) : sexp :=
  match h with
  | HNone => Sym "none"
  | HAddr a => L [Sym "addr"; ty_sexp a]
  | HNew a => L [Sym "new"; ty_sexp a]
  | HMakeSl a n => L [Sym "mksl"; ty_sexp a; of_nat n]
  | HMakeMap a => L [Sym "mkmap"; ty_sexp a]
  | HArr a => L [Sym "arr"; ty_sexp a]
  end.

Definition ret_sexp (r : gret) : sexp :=
  match r with
  | RNil => Sym "nil" | RThis => Sym "this" | RDeref => Sym "deref"
  | RAddr0 a => L [Sym "addr0"; ty_sexp a]
  | RLit l => L [Sym "lit"; lit_sexp l]
  end.

Fixpoint gexpr_sexp (g : gexpr) : sexp :=
  match g with
  | GLit l => lit_sexp l
  | GPtrLit k v => L [Sym "ptrlit"; kind_sexp k; scalar_sexp v]
  | GClo rt hd body ret =>
      L [Sym "clo"; ty_sexp rt; head_sexp hd;
         L (map (fun s =>
                   match fst s with
                   | TgField i => L [Sym "setf"; of_nat i; gexpr_sexp (snd s)]
                   | TgDeref => L [Sym "setd"; gexpr_sexp (snd s)]
                   | TgIdx i => L [Sym "seti"; of_nat i; gexpr_sexp (snd s)]
                   | TgKeyLit _ v => L [Sym "setkl"; scalar_sexp v; gexpr_sexp (snd s)]
                   | TgDeclKey j => L [Sym "key"; of_nat j; gexpr_sexp (snd s)]
                   | TgKeyVar j => L [Sym "setkv"; of_nat j; gexpr_sexp (snd s)]
                   end) body);
         ret_sexp ret]
  end.

(* coverage tag: the arm of genStatement at the root and the shape of the value *)
Definition root_tag (t : ty) (v : val) : string :=
  match resolve [] t with
  | None => "stuck"
  | Some r =>
      (if is_named r then "named-" else "") ++
      match r_node r, v with
      | TB KStr, _ => "string" | TB KBool, _ => "bool" | TB (KInt _ true), _ => "int" | TB (KInt _ false), _ => "uint"
      | TB (KF32 | KF64), _ => "float" | TB _, _ => "complex"
      | TP _, VNilP => "ptr/nil"
      | TP rt, _ => match resolve (r_env r) rt with
                    | Some rr => match r_node rr with
                                 | TSt [] => "ptr/empty-struct" | TSt _ => "ptr/struct"
                                 | TB _ => "ptr/basic" | TP _ => "ptr/ptr" | _ => "ptr/container"
                                 end
                    | None => "stuck"
                    end
      | TSt _, _ => "struct"
      | TSl _, VNilS => "slice/nil"
      | TSl et, VSl _ es _ =>
          (match lit_basic et with Some _ => "slice/lit" | None => "slice/elems" end)
          ++ match es with [] => "/empty" | _ => "" end
      | TAr _ et, _ => match lit_basic et with Some _ => "array/lit" | None => "array/elems" end
      | TM _ _, VNilM => "map/nil"
      | TM kt vt, VMap _ kvs =>
          (match lit_basic kt, lit_basic vt with
           | Some _, Some _ => "map/lit" | Some _, None => "map/litkey" | None, _ => "map/keyvar" end)
          ++ match kvs with [] => "/empty" | _ => "" end
      | _, _ => "stuck"
      end
  end.

Definition sp_true (o : option bool) : bool := match o with Some true => true | _ => false end.

(* one `gs` / `gsk` observation, given the typing and the structural equality it is judged with *)
Definition eval_gs (typing : ty -> val -> bool) (eq : ty -> val -> val -> option bool) (pre : string)
                   (tys vs text rts : sexp) : verdict :=
  match parse_ty tys, parse_val vs with
  | Some t, Some v =>
      let typed := typing t v in
      let guard := (typed && exp_only t && finite [] t v)%bool in
      let rt := parse_val rts in
      let m := gostring_model t v in
      let mv := match m with Ok g => gostring_eval t g | _ => None end in
      let s_ok := match m with Ok g => gmatch g text | _ => false end in
      let b_ok := match mv, rt with
                  | Some a, Some b => sp_true (eq t a b)
                  (* the evaluator rejects the text: so must the Go compiler *)
                  | None, None => sym_is "nocompile" rts
                  | _, _ => false
                  end in
      {| v_known := typed;
         v_model_ok := (s_ok && b_ok)%bool;
         v_spec_ok := match rt with Some b => sp_true (eq t v b) | None => false end;
         v_guard := guard;
         v_model := L [Sym (if s_ok then "text-ok" else "text-differs");
                       match m with Ok g => gexpr_sexp g | Unsup => Sym "unsupported" | _ => Sym "stuck" end;
                       match mv with Some a => val_sexp a | None => Sym "no-value" end];
         v_tag := pre ++ root_tag t v |}
  | _, _ => bad_line
  end.

(* does some map in the value hold two keys that are equal by content (they differ in addresses only)? *)
Fixpoint twin_keys (e : tenv) (t : ty) (v : val) {struct v} : bool :=
  match resolve e t with
  | None => false
  | Some r =>
      let e' := r_env r in
      match r_node r, v with
      | TP t', VPtr _ v' => twin_keys e' t' v'
      | TSl t', VSl _ es _ => existsb (twin_keys e' t') es
      | TAr _ t', VArr es => existsb (twin_keys e' t') es
      | TM tk tv, VMap _ kvs =>
          (existsb (fun kv => twin_keys e' tv (snd kv)) kvs ||
           (fix dup (l : list (val * val)) : bool :=
              match l with
              | [] => false
              | kv :: l' => (existsb (fun kv' => sp_true (spec_eqk e' tk (fst kv) (fst kv'))) l' || dup l')%bool
              end) kvs)%bool
      | TSt fs, VSt vs =>
          (fix go (fs : list (bool * ty)) (vs : list val) {struct vs} : bool :=
             match fs, vs with
             | fd :: fs', x :: vs' => (twin_keys e' (snd fd) x || go fs' vs')%bool
             | _, _ => false
             end) fs vs
      | _, _ => false
      end
  end.

Definition eval06 (e : sexp) : verdict :=
  match e with
  | L [Sym k; tys; vs; text; rts] =>
      if String.eqb k "gs" then
        eval_gs (has_type []) (spec_eq []) "" tys vs text rts
      else if String.eqb k "gsk" then
        (* a map whose key type owns pointers (GoStr/PtrKeys.v) *)
        let pre := match parse_ty tys, parse_val vs with
                   | Some t, Some v => if twin_keys [] t v then "ptrkey-twins/" else "ptrkey/"
                   | _, _ => "ptrkey/"
                   end in
        eval_gs (has_typek []) (spec_eqk []) pre tys vs text rts
      else bad_line
  | L [Sym k; tys; Sym cls] =>
      if String.eqb k "sup-gs" then
        match parse_ty tys with
        | Some t =>
            let g := exp_only t in
            let real_ok := String.eqb cls "ok" in
            (* a crash or hang of the generator is C09's subject *)
            let crash := (String.eqb cls "panic" || String.eqb cls "timeout")%bool in
            let ok := (crash || negb g || real_ok)%bool in
            {| v_known := true; v_model_ok := ok; v_spec_ok := ok; v_guard := g;
               v_model := Sym (if g then "ok" else "not-judged");
               v_tag := "support/" ++ (if crash then "generator-crash-see-C09"
                                       else if g then "exported-only" else "has-unexported-fields") |}
        | None => bad_line
        end
      else bad_line
  | _ => bad_line
  end.
