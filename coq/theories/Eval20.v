(* Eval20.v — evaluation of C20 observations.
   (run    (fs F...) REAL)        one call of the generated deriveDo on the real runtime:
                                  REAL = (ret (v...) err leaked alldone) | deadlock
                                  compared with the set of outcomes the model allows (explorer
                                  over [expected n]) and with the specification.
   (runc (CLASS...) (fs F...) REAL)  the same for a call in an input class named by symbols
                                  (language version of the user's module, result-type shape of the
                                  deriveDo instance, value policy); REAL may also be `panic`: the
                                  derived function panicked although no user function did. The
                                  result values are natural-number codes of typed values (0 = the
                                  zero value / nil interface), so the prediction is the same.
                                  An error is a tag (re): which Go value carries it is an input
                                  class as well (symbols errs-...: errors of a dynamic type that is
                                  not comparable, a comparable box around one, a typed nil pointer);
                                  functions that return the SAME error value have the same tag.
   (search PROG (fs F...))        exhaustive search of the TRANSLATED program for a schedule that
                                  violates the property (used when translated <> expected).
   F    = (f (OP...) rv re)   OP = (s c) | (r c)   re = 0 (nil) | tag+1
   PROG = (prog cap ncells (bodies (INSTR...)...) (main INSTR...)) *)
From Verif Require Import Base Sexp Do.Sem Do.Explore.
Open Scope string_scope.

Definition instr_of (e : sexp) : option instr :=
  match e with
  | L [Sym k] =>
      if String.eqb k "send" then Some ISend else
      if String.eqb k "recv" then Some IRecv else
      if String.eqb k "seterr" then Some ISetErr else
      if String.eqb k "ret" then Some (IRet []) else None
  | L (Sym k :: args) =>
      match map_opt get_nat args with
      | None => None
      | Some ns =>
          if String.eqb k "ret" then Some (IRet ns) else
          match ns with
          | [a] =>
              if String.eqb k "go" then Some (IGo a) else
              if String.eqb k "ifnil" then Some (IIfErrcNil a) else
              if String.eqb k "ifset" then Some (IIfErrSet a) else
              if String.eqb k "next" then Some (INext a) else None
          | [a; b] =>
              if String.eqb k "call" then Some (ICall a b) else
              if String.eqb k "loop" then Some (ILoop a b) else None
          | _ => None
          end
      end
  | _ => None
  end.

Definition code_of_sexp (e : sexp) : option (list instr) :=
  match e with L l => map_opt instr_of l | _ => None end.

Definition prog_of_sexp (e : sexp) : option prog :=
  match e with
  | L [Sym p; cap; nc; L (Sym b :: bs); L (Sym m :: ms)] =>
      if String.eqb p "prog" && String.eqb b "bodies" && String.eqb m "main" then
        match get_nat cap, get_nat nc, map_opt code_of_sexp bs, map_opt instr_of ms with
        | Some c, Some n, Some bl, Some ml => Some {| ccap := c; ncells := n; bodies := bl; main := ml |}
        | _, _, _, _ => None
        end
      else None
  | _ => None
  end.

Definition uop_of (e : sexp) : option uop :=
  match e with
  | L [Sym k; c] =>
      match get_nat c with
      | Some c => if String.eqb k "s" then Some (USend c) else if String.eqb k "r" then Some (URecv c) else None
      | None => None
      end
  | _ => None
  end.

Definition errv_of_nat (n : nat) : errv := match n with 0 => None | S t => Some t end.
Definition nat_of_errv (e : errv) : nat := match e with None => 0 | Some t => S t end.

Definition ufun_of (e : sexp) : option ufun :=
  match e with
  | L [Sym k; L ops; v; r] =>
      if String.eqb k "f" then
        match map_opt uop_of ops, get_nat v, get_nat r with
        | Some o, Some v, Some r => Some {| script := o; rv := v; re := errv_of_nat r |}
        | _, _, _ => None
        end
      else None
  | _ => None
  end.

Definition fs_of (e : sexp) : option (list ufun) :=
  match e with
  | L (Sym k :: l) => if String.eqb k "fs" then map_opt ufun_of l else None
  | _ => None
  end.

Definition action_sexp (a : action) : sexp :=
  match a with
  | Tau i => L [Sym "tau"; of_nat i]
  | Sync a b => L [Sym "sync"; of_nat a; of_nat b]
  end.

Definition bad_name (b : bad) : string :=
  match b with
  | BadRace => "unordered-read-write-of-result"
  | BadEarlyReturn => "returned-before-all-goroutines-finished"
  | BadPosition => "values-not-in-position"
  | BadNilError => "nil-error-although-a-function-failed"
  | BadForeignError => "error-not-returned-by-any-function"
  | BadDeadlock => "deadlock"
  | BadLeak => "goroutine-left-blocked"
  end.

Definition out_sexp (o : list val * errv) : sexp :=
  L [L (map of_nat (fst o)); of_nat (nat_of_errv (snd o))].

Definition nat_str (n : nat) : string :=
  match n with 0 => "0" | 1 => "1" | 2 => "2" | 3 => "3" | 4 => "4" | _ => "5+" end.

Definition nfail (fs : list ufun) : nat :=
  length (filter (fun f => match re f with Some _ => true | None => false end) fs).
Definition has_rdv (fs : list ufun) : bool :=
  existsb (fun f => match script f with [] => false | _ => true end) fs.

(* depth 2^24 steps at most; every explored configuration here has < 10^5 states *)
Definition depth : nat := 24.

Definition has_zero (fs : list ufun) : bool := existsb (fun f => Nat.eqb (rv f) 0) fs.

Fixpoint class_str (l : list sexp) : string :=
  match l with
  | [] => ""
  | Sym s :: t => s ++ "/" ++ class_str t
  | _ :: t => class_str t
  end.

Definition eval_run (cls : list sexp) (fs : list ufun) (real : sexp) : verdict :=
  let n := length fs in
  let r := explore (expected n) fs depth in
  let model_clean := finished r && match found r with None => true | Some _ => false end in
  let tag := match cls with
             | [] => "run/n=" ++ nat_str n ++ "/fail=" ++ nat_str (nfail fs) ++
                     (if has_rdv fs then "/rendezvous" else "/independent")
             | _ => "runc/" ++ class_str cls ++ (if Nat.eqb (nfail fs) 0 then "all-succeed" else "some-fail") ++
                    (if has_zero fs then "/nil-result" else "")
             end in
  let model := L (Sym "outcomes" :: map out_sexp (outs r)) in
  match real with
  | L [Sym k; L vs; e; leaked; alldone] =>
      match map_opt get_nat vs, get_nat e, get_nat leaked, get_nat alldone with
      | Some vs, Some e, Some leaked, Some alldone =>
          let quiet := Nat.eqb leaked 0 && Nat.eqb alldone 1 in
          let o := (vs, errv_of_nat e) in
          {| v_known := String.eqb k "ret";
             v_model_ok := existsb (out_eqb o) (outs r) && quiet;
             v_spec_ok := nats_eqb vs (map rv fs) && err_ok fs (errv_of_nat e) && quiet;
             v_guard := model_clean; v_model := model; v_tag := tag |}
      | _, _, _, _ => bad_line
      end
  | Sym k =>
      (* the real call did not return within the driver's time limit *)
      (* or the derived function panicked (user functions of the battery never panic) *)
      {| v_known := String.eqb k "deadlock" || String.eqb k "panic"; v_model_ok := false; v_spec_ok := false;
         v_guard := model_clean; v_model := model; v_tag := tag ++ "/real-" ++ k |}
  | _ => bad_line
  end.

Definition eval_search (P : prog) (fs : list ufun) : verdict :=
  let r := explore P fs depth in
  let tag := "search/n=" ++ nat_str (length fs) ++ "/fail=" ++ nat_str (nfail fs) ++
             (if has_rdv fs then "/rendezvous" else "/independent") in
  match found r with
  | Some (b, sched) =>
      {| v_known := true; v_model_ok := true; v_spec_ok := false; v_guard := true;
         v_model := L [Sym (bad_name b); L (map action_sexp sched)]; v_tag := tag |}
  | None =>
      {| v_known := finished r; v_model_ok := true; v_spec_ok := true; v_guard := true;
         v_model := L [Sym "no-violating-schedule"; of_nat (nvis r)]; v_tag := tag |}
  end.

Definition eval20 (e : sexp) : verdict :=
  match e with
  | L [Sym k; a; b] =>
      if String.eqb k "run" then
        match fs_of a with Some fs => eval_run [] fs b | None => bad_line end
      else if String.eqb k "search" then
        match prog_of_sexp a, fs_of b with
        | Some P, Some fs => eval_search P fs
        | _, _ => bad_line
        end
      else bad_line
  | L [Sym k; L cls; a; b] =>
      if String.eqb k "runc" then
        match fs_of a with Some fs => eval_run cls fs b | None => bad_line end
      else bad_line
  | _ => bad_line
  end.
