(* Eval20.v — evaluation of C20 observations (stub: replaced when C20 is built). *)
From Verif Require Import Base Sexp.
Open Scope string_scope.

Definition eval20 (e : sexp) : verdict := bad_line.
