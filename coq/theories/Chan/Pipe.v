(* Chan/Pipe.v — derivePipeline(f, g)(a) = deriveJoin(deriveFmap(g, f(a))): the COMPOSED system.
   The goroutine of deriveFmap (template 2) reads the channel b = f(a) (channel 0, fed by an
   environment producer) and sends the channels g(x) on join's input (channel 1); the rest is
   the system of JoinCC.v with all thread and channel indices shifted by one.  g is modelled by
   the item function f of the semantics: it maps the j-th item of b to the id 3+j of the j-th
   inner channel, whose producer exists from the start (it can only be observed once g's
   result has been forwarded).

   thr = [producer of b; fmap goroutine; join main; consumer] ++ inner producers ++ forwarders
   chs = [b; in; out] ++ inner channels      (inner channel j has id 3+j)

   (port of JoinCC.v) definitions of the canonical form
   of reachable states, the invariant and the measure.  N inner channels (any N, any
   capacities, any item lists), an outer producer sending the N channels on `in` (any
   capacity) and closing it, one producer per inner channel, the goroutine started by
   deriveJoin, the forwarders it spawns, and a consumer of `out` (any capacity).

   thr = [outer producer; main; consumer] ++ inner producers ++ spawned forwarders
   chs = [in; out] ++ inner channels      (inner channel j has id 2+j) *)
From Coq Require Import List Arith Bool Lia.
Import ListNotations.
From Verif Require Import Chan.Sem Chan.Expected Chan.Lemmas.

Definition PP : list prog := fn_progs exp_join_cc ++ [fmap_main].

Definition fwd_thr (j fpc:nat) (fr:item) (fok:value) : thread :=
  TProg 1 fpc [VC (Some (3+j)); VC (Some 2); VI fr; fok].

Definition fmid (fpc:nat) (fr:item) (fok:value) : list item :=
  match fpc with
  | 1 => if getb [fok] 0 then [fr] else []
  | 2 => [fr]
  | _ => []
  end.

(* the state of forwarder j (or its absence) against inner channel j *)
Definition FwdI (j:nat) (r:list item) (ch:chan) (dl its:list item) (ft:option thread) : Prop :=
  match ft with
  | None => dl = [] /\ its = buf ch ++ r
  | Some t => exists fpc fr fok, t = fwd_thr j fpc fr fok /\ fpc <= 5
       /\ its = dl ++ fmid fpc fr fok ++ buf ch ++ r
       /\ (fpc = 1 -> getb [fok] 0 = false -> closed ch = true /\ buf ch = [] /\ r = [])
       /\ (4 <= fpc -> closed ch = true /\ buf ch = [] /\ r = [])
  end.

Definition act (t:thread) : nat :=
  match t with TProg _ pc _ => if pc <=? 4 then 1 else 0 | _ => 0 end.

(* measure *)
Definition b2n (b:bool) : nat := if b then 0 else 1.
Definition mainw (pc:nat) (ok:bool) : nat :=
  match pc with
  | 0 => 4 | 1 => if ok then 12 else 3 | 2 => 11 | 3 => 10 | 4 => 9 | 5 => 5 | 6 => 2 | 7 => 1 | _ => 0
  end.
Definition fwdw (pc:nat) (ok:bool) : nat :=
  match pc with
  | 0 => 3 | 1 => if ok then 7 else 2 | 2 => 6 | 3 => 4 | 4 => 1 | _ => 0
  end.
Definition fmapw (pc:nat) (ok:bool) : nat :=
  match pc with
  | 0 => 3 | 1 => if ok then 16 else 2 | 2 => 15 | 3 => 14 | 4 => 4 | 5 => 1 | _ => 0
  end.
Definition tw (t:thread) : nat :=
  match t with
  | TProd c r d => length r * (match c with 0 => 15 | _ => 6 end) + b2n d
  | TCons _ _ d => b2n d
  | TProg 0 pc e => mainw pc (getb e 3)
  | TProg 1 pc e => fwdw pc (getb e 3)
  | TProg _ pc e => fmapw pc (getb e 3)
  end.
Definition cw (ch:chan) : nat := length (buf ch) * 5.
Definition mu (s:state) : nat :=
  sumw tw (thr s) +
  match chs s with
  | c0 :: c1 :: c2 :: rest => length (buf c0) * 14 + length (buf c1) * 9 + length (buf c2) + sumw cw rest
  | _ => 0
  end.

Section PIPE.
Variable f : item -> item.
Variable inputs : list (nat * list item).
Variable xs : list item.
Variables cb cin cout : nat.

Definition N : nat := length inputs.

Record params := {
  brem : list item; bpd : bool; bbuf : list item; bcl : bool;
  fpc : nat; fa : item; fok : bool; fb : item;
  ibuf : list item; ic : bool;
  mpc : nat; mc : value; mok : value; mres : value;
  ob : list item; oc : bool; log : list item; cd : bool;
  w : nat;
  prods : list thread; chans : list chan; fwds : list thread; dls : list (list item) }.

Definition mk (p:params) : state :=
  {| thr := TProd 0 (brem p) (bpd p)
            :: TProg 2 (fpc p) [VC (Some 0); VC (Some 1); VI (fa p); VB (fok p); VI (fb p)]
            :: TProg 0 (mpc p) [VC (Some 1); VC (Some 2); mc p; mok p; mres p]
            :: TCons 2 (log p) (cd p)
            :: (prods p ++ fwds p);
     chs := {| cap := cb; buf := bbuf p; closed := bcl p |}
            :: {| cap := cin; buf := ibuf p; closed := ic p |}
            :: {| cap := cout; buf := ob p; closed := oc p |}
            :: chans p;
     wg := w p; panicked := false |}.

Definition PoolI (prods:list thread) (chans:list chan) (fwds:list thread) (dls:list (list item))
                 (j:nat) : Prop :=
  exists cp its r d ch dl,
    nth_error inputs j = Some (cp, its) /\
    nth_error prods j = Some (TProd (3+j) r d) /\
    nth_error chans j = Some ch /\ cap ch = cp /\
    nth_error dls j = Some dl /\
    d = closed ch /\ (d = true -> r = []) /\ length (buf ch) <= cp /\
    FwdI j r ch dl its (nth_error fwds j).

Definition MainI (p:params) (b:nat) : Prop :=
  let K := length (fwds p) in
  match mpc p with
  | 0 | 5 => K = b
  | 1 => if getb [mok p] 0
         then S K = b /\ mc p = VC (Some (3+K))
         else K = b /\ ic p = true /\ ibuf p = []
  | 2 | 3 => S K = b /\ mc p = VC (Some (3+K))
  | 4 => S K = b /\ mres p = VC (Some (3+K))
  | _ => K = b /\ ic p = true /\ ibuf p = []
  end.

(* what the fmap goroutine holds *)
Definition fmidF (fpc:nat) (fa:item) (fok:bool) (fb:item) : list item :=
  match fpc with
  | 1 => if fok then [f fa] else []
  | 2 => [f fa]
  | 3 => [fb]
  | _ => []
  end.

(* the ids still to arrive on join's input, in order *)
Definition pending (ibuf:list item) (fpc:nat) (fa:item) (fok:bool) (fb:item) (bbuf brem:list item) : list item :=
  ibuf ++ fmidF fpc fa fok fb ++ map f bbuf ++ map f brem.

Definition FmapI (brem:list item) (bpd:bool) (bbuf:list item) (bcl:bool) (fpc:nat) (fok:bool) (ic:bool) : Prop :=
  fpc <= 6
  /\ bpd = bcl
  /\ (bpd = true -> brem = [])
  /\ (fpc = 1 -> fok = false -> bcl = true /\ bbuf = [] /\ brem = [])
  /\ (5 <= fpc -> bcl = true /\ bbuf = [] /\ brem = [])
  /\ (ic = true <-> fpc = 6)
  /\ length bbuf <= cb.

Definition Cond (p:params) : Prop :=
  length (prods p) = N /\ length (chans p) = N /\ length (dls p) = N /\ length (fwds p) <= N
  /\ (forall j, j < N -> PoolI (prods p) (chans p) (fwds p) (dls p) j)
  /\ Merge (dls p) (log p ++ ob p)
  /\ (exists b, b <= N /\ pending (ibuf p) (fpc p) (fa p) (fok p) (fb p) (bbuf p) (brem p) = seq (3+b) (N-b) /\ MainI p b)
  /\ FmapI (brem p) (bpd p) (bbuf p) (bcl p) (fpc p) (fok p) (ic p)
  /\ mpc p <= 8
  /\ (oc p = true <-> mpc p = 8)
  /\ (cd p = true -> oc p = true /\ ob p = [])
  /\ w p = sumw act (fwds p) + (if (mpc p =? 3) || (mpc p =? 4) then 1 else 0)
  /\ (7 <= mpc p -> sumw act (fwds p) = 0)
  /\ length (ibuf p) <= cin /\ length (ob p) <= cout.

Definition Inv (s:state) : Prop := exists p, s = mk p /\ Cond p.

Definition init_prods : list thread :=
  map (fun '(i, ci) => TProd i (snd ci) false) (combine (seq 3 N) inputs).
Definition init_chans : list chan :=
  map (fun ci:nat * list item => {| cap := fst ci; buf := []; closed := false |}) inputs.

Definition init : state :=
  mk {| brem := xs; bpd := false; bbuf := []; bcl := false;
        fpc := 0; fa := 0; fok := false; fb := 0; ibuf := []; ic := false;
        mpc := 0; mc := VI 0; mok := VI 0; mres := VI 0;
        ob := []; oc := false; log := []; cd := false; w := 0;
        prods := init_prods; chans := init_chans; fwds := [];
        dls := map (fun _ => []) inputs |}.

Lemma nth_error_combine_seq {A} (l:list A) a j x :
  nth_error l j = Some x -> nth_error (combine (seq a (length l)) l) j = Some (a + j, x).
Proof.
  revert a j; induction l as [|h t IH]; intros a [|j] H; cbn in *; try discriminate.
  - inversion H; subst. f_equal. f_equal. lia.
  - rewrite (IH (S a) j H). f_equal. f_equal. lia.
Qed.

Hypothesis Hxs : map f xs = seq 3 N.

Lemma inv_init : Inv init.
Proof.
  eexists; split; [reflexivity|]. unfold Cond; cbn.
  assert (L1 : length init_prods = N).
  { unfold init_prods. rewrite map_length, combine_length, seq_length. fold N. lia. }
  assert (L2 : length init_chans = N) by (unfold init_chans; rewrite map_length; reflexivity).
  split; [|split; [|split; [|split; [|split; [|split; [|split; [|split]]]]]]]; auto; try lia.
  - rewrite map_length. reflexivity.
  - intros j Hj. destruct (nth_error_ex inputs j Hj) as [[cp its] E].
    exists cp, its, its, false, {| cap := cp; buf := []; closed := false |}, [].
    repeat split; auto.
    + unfold init_prods. unfold N.
      erewrite map_nth_error; [|apply nth_error_combine_seq; exact E]. reflexivity.
    + unfold init_chans. erewrite map_nth_error; [|exact E]. reflexivity.
    + erewrite map_nth_error; [|exact E]. reflexivity.
    + discriminate.
    + cbn. lia.
    + destruct j; cbn; auto.
  - apply Merge_nil. apply Forall_forall. intros l Hl. apply in_map_iff in Hl.
    destruct Hl as (x & Hx & _). auto.
  - exists 0. split; [lia|]. split; [unfold pending; cbn; rewrite Nat.sub_0_r; exact Hxs|reflexivity].
  - unfold FmapI. repeat split; auto; intros; try lia; try discriminate; try (cbn; lia).
Qed.

End PIPE.
