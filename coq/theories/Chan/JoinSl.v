(* Chan/JoinSl.v — deriveJoin(in []<-chan T) <-chan T: canonical form of reachable states,
   invariant and measure.  N input channels (any N, capacities, item lists), one producer per
   channel, the goroutine started by deriveJoin (ranging over the slice), the forwarders it
   spawns, and a consumer of `out` (any capacity).

   thr = [main; consumer] ++ producers ++ spawned forwarders
   chs = [out] ++ input channels      (input channel j has id 1+j) *)
From Coq Require Import List Arith Bool Lia.
Import ListNotations.
From Verif Require Import Chan.Sem Chan.Expected Chan.Lemmas.

Definition PS : list prog := fn_progs exp_join_sl.

Definition fwd_thr (j fpc:nat) (fr:item) (fok:value) : thread :=
  TProg 1 fpc [VC (Some (1+j)); VC (Some 0); VI fr; fok].

Definition fmid (fpc:nat) (fr:item) (fok:value) : list item :=
  match fpc with
  | 1 => if getb [fok] 0 then [fr] else []
  | 2 => [fr]
  | _ => []
  end.

Definition FwdI (j:nat) (r:list item) (ch:chan) (dl its:list item) (ft:option thread) : Prop :=
  match ft with
  | None => dl = [] /\ its = buf ch ++ r
  | Some t => exists fpc fr fok, t = fwd_thr j fpc fr fok /\ fpc <= 5
       /\ its = dl ++ fmid fpc fr fok ++ buf ch ++ r
       /\ (fpc = 1 -> getb [fok] 0 = false -> closed ch = true /\ buf ch = [] /\ r = [])
       /\ (4 <= fpc -> closed ch = true /\ buf ch = [] /\ r = [])
  end.

Definition act (t:thread) : nat :=
  match t with TProg _ pc _ => if pc <=? 4 then 1 else 0 | _ => 0 end.

Definition b2n (b:bool) : nat := if b then 0 else 1.
Definition mainw (pc:nat) : nat :=
  match pc with
  | 0 => 3 | 1 => 10 | 2 => 9 | 3 => 8 | 4 => 4 | 5 => 2 | 6 => 1 | _ => 0
  end.
Definition fwdw (pc:nat) (ok:bool) : nat :=
  match pc with
  | 0 => 3 | 1 => if ok then 7 else 2 | 2 => 6 | 3 => 4 | 4 => 1 | _ => 0
  end.
Definition tw (t:thread) : nat :=
  match t with
  | TProd c r d => length r * 6 + b2n d
  | TCons _ _ d => b2n d
  | TProg 0 pc e => mainw pc + length (gets e 0) * 8
  | TProg _ pc e => fwdw pc (getb e 3)
  end.
Definition cw (ch:chan) : nat := length (buf ch) * 5.
Definition mu (s:state) : nat :=
  sumw tw (thr s) +
  match chs s with
  | c0 :: rest => length (buf c0) + sumw cw rest
  | _ => 0
  end.

Section JSL.
Variable f : item -> item.
Variable inputs : list (nat * list item).
Variable cout : nat.

Definition N : nat := length inputs.

Record params := {
  srem : list cid;
  mpc : nat; mc : value; mres : value;
  ob : list item; oc : bool; log : list item; cd : bool;
  w : nat;
  prods : list thread; chans : list chan; fwds : list thread; dls : list (list item) }.

Definition mk (p:params) : state :=
  {| thr := TProg 0 (mpc p) [VS (srem p); VC (Some 0); mc p; mres p]
            :: TCons 0 (log p) (cd p)
            :: (prods p ++ fwds p);
     chs := {| cap := cout; buf := ob p; closed := oc p |} :: chans p;
     wg := w p; panicked := false |}.

Definition PoolI (prods:list thread) (chans:list chan) (fwds:list thread) (dls:list (list item))
                 (j:nat) : Prop :=
  exists cp its r d ch dl,
    nth_error inputs j = Some (cp, its) /\
    nth_error prods j = Some (TProd (1+j) r d) /\
    nth_error chans j = Some ch /\ cap ch = cp /\
    nth_error dls j = Some dl /\
    d = closed ch /\ (d = true -> r = []) /\ length (buf ch) <= cp /\
    FwdI j r ch dl its (nth_error fwds j).

Definition MainI (p:params) (b:nat) : Prop :=
  let K := length (fwds p) in
  match mpc p with
  | 0 | 4 => K = b
  | 1 | 2 => S K = b /\ mc p = VC (Some (1+K))
  | 3 => S K = b /\ mres p = VC (Some (1+K))
  | _ => K = b /\ srem p = []
  end.

Definition Cond (p:params) : Prop :=
  length (prods p) = N /\ length (chans p) = N /\ length (dls p) = N /\ length (fwds p) <= N
  /\ (forall j, j < N -> PoolI (prods p) (chans p) (fwds p) (dls p) j)
  /\ Merge (dls p) (log p ++ ob p)
  /\ (exists b, b <= N /\ srem p = seq (1+b) (N-b) /\ MainI p b)
  /\ mpc p <= 7
  /\ (oc p = true <-> mpc p = 7)
  /\ (cd p = true -> oc p = true /\ ob p = [])
  /\ w p = sumw act (fwds p) + (if (mpc p =? 2) || (mpc p =? 3) then 1 else 0)
  /\ (6 <= mpc p -> sumw act (fwds p) = 0)
  /\ length (ob p) <= cout.

Definition Inv (s:state) : Prop := exists p, s = mk p /\ Cond p.

Definition init_prods : list thread :=
  map (fun '(i, ci) => TProd i (snd ci) false) (combine (seq 1 N) inputs).
Definition init_chans : list chan :=
  map (fun ci:nat * list item => {| cap := fst ci; buf := []; closed := false |}) inputs.

Definition init : state :=
  mk {| srem := seq 1 N; mpc := 0; mc := VI 0; mres := VI 0;
        ob := []; oc := false; log := []; cd := false; w := 0;
        prods := init_prods; chans := init_chans; fwds := [];
        dls := map (fun _ => []) inputs |}.

Lemma nth_error_combine_seq {A} (l:list A) a j x :
  nth_error l j = Some x -> nth_error (combine (seq a (length l)) l) j = Some (a + j, x).
Proof.
  revert a j; induction l as [|h t IH]; intros a [|j] H; cbn in *; try discriminate.
  - inversion H; subst. f_equal. f_equal. lia.
  - rewrite (IH (S a) j H). f_equal. f_equal. lia.
Qed.

Lemma inv_init : Inv init.
Proof.
  eexists; split; [reflexivity|]. unfold Cond; cbn.
  assert (L1 : length init_prods = N).
  { unfold init_prods. rewrite map_length, combine_length, seq_length. fold N. lia. }
  assert (L2 : length init_chans = N) by (unfold init_chans; rewrite map_length; reflexivity).
  repeat split; auto; try lia; try discriminate; try congruence.
  - rewrite map_length. reflexivity.
  - intros j Hj. destruct (nth_error_ex inputs j Hj) as [[cp its] E].
    exists cp, its, its, false, {| cap := cp; buf := []; closed := false |}, [].
    repeat split; auto.
    + unfold init_prods. unfold N.
      erewrite map_nth_error; [|apply nth_error_combine_seq; exact E]. reflexivity.
    + unfold init_chans. erewrite map_nth_error; [|exact E]. reflexivity.
    + erewrite map_nth_error; [|exact E]. reflexivity.
    + discriminate.
    + cbn. lia.
    + destruct j; cbn; auto.
  - apply Merge_nil. apply Forall_forall. intros l Hl. apply in_map_iff in Hl.
    destruct Hl as (x & Hx & _). auto.
  - exists 0. cbn. rewrite Nat.sub_0_r. repeat split; auto; lia.
Qed.

End JSL.
