(* Chan/JoinSlLive.v — deriveJoin(in []<-chan T): deadlock freedom (a reachable state that
   is not fully halted has an enabled action), what the invariant says about observations,
   and the final theorems. *)
From Coq Require Import List Arith Bool Lia.
Import ListNotations.
From Verif Require Import Chan.Sem Chan.Expected Chan.Lemmas Chan.JoinSl Chan.JoinSlProofs Chan.Explore.

Local Arguments Nat.ltb : simpl never.
Local Arguments JoinSl.N : simpl never.

Lemma sumw_pos {A} (w:A -> nat) l : 0 < sumw w l -> exists n a, nth_error l n = Some a /\ 0 < w a.
Proof.
  unfold sumw. induction l as [|h t IH]; simpl; [lia|]. intros H.
  destruct (Nat.eq_dec (w h) 0) as [E|E].
  - destruct IH as (n & a & E1 & E2); [rewrite E in H; exact H|]. exists (S n), a. auto.
  - exists 0, h. simpl. split; [reflexivity|lia].
Qed.

Lemma list_ext {A} (l1 l2:list A) :
  length l1 = length l2 -> (forall j, j < length l1 -> nth_error l1 j = nth_error l2 j) -> l1 = l2.
Proof.
  revert l2; induction l1 as [|h t IH]; intros [|h2 t2] L H; cbn in *; try discriminate; auto.
  pose proof (H 0 ltac:(lia)) as H0. cbn in H0. inversion H0; subst. f_equal.
  apply IH; [lia|]. intros j Hj. apply (H (S j)). lia.
Qed.

Ltac open_cond C :=
  unfold JoinSl.Cond in C;
  cbn [srem mpc mc mres ob oc log cd w prods chans fwds dls] in C;
  destruct C as (HLp & HLc & HLd & HK & HP & HM & (b & Hb & Hseq & HMain) & Hpc & Hoc & Hcd & Hw & H7 & Hlo).

Ltac open_p p :=
  destruct p as [srem0 mpc0 mc0 mres0 ob0 oc0 log0 cd0 w0 prods0 chans0 fwds0 dls0];
  cbn [srem mpc mc mres ob oc log cd w prods chans fwds dls] in *.

Ltac pcs8 pc0 := destruct pc0 as [|[|[|[|[|[|[|[|pc0]]]]]]]]; try lia.

Section JSLL.
Variable f : item -> item.
Variable inputs : list (nat * list item).
Variable cout : nat.

Notation Inv := (Inv inputs cout).
Notation Cond := (Cond inputs cout).
Notation mk := (mk cout).
Notation N := (N inputs).

Lemma not_true_false b : (b = true -> False) -> b = false.
Proof. destruct b; [intros H; destruct (H eq_refl)|reflexivity]. Qed.

(* an active forwarder (or the producer / consumer it waits for) can move *)
Lemma fwd_progress p m fpc fr fok :
  Cond p -> nth_error (fwds p) m = Some (fwd_thr m fpc fr fok) -> fpc <= 4 ->
  exists act s', step f PS (mk p) act = Some s'.
Proof.
  intros C Ef L4. open_p p. open_cond C.
  assert (Hm : m < N) by (apply nth_error_lt in Ef; lia).
  destruct (HP m Hm) as (cp & its & r & d & ch & dl & E1 & E2 & E3 & E4 & E5 & E6 & E7 & E8 & HF).
  rewrite Ef in HF. cbn in HF. destruct HF as (fpc' & fr' & fok' & Ht & Hf5 & Hits & Hf1 & Hf4).
  unfold fwd_thr in Ht. inversion Ht; subst fpc' fr' fok'. clear Ht.
  destruct ch as [chcap chbuf chcl]. cbn in E4, E6, E7, E8, Hits, Hf1, Hf4. subst chcap d.
  assert (Hact : 1 <= sumw act fwds0).
  { pose proof (sumw_ge act fwds0 m _ Ef) as G. cbn in G.
    destruct (fpc <=? 4) eqn:E; [lia|]. apply Nat.leb_gt in E. lia. }
  pcs6 fpc.
  - (* 0: receive from the inner channel *)
    destruct chbuf as [|i rest].
    + destruct chcl.
      * exists (Tau (2 + N + m)). unfold step; cbn [panicked JoinSl.mk]; cbn.
        rewrite <- HLp, nth_error_app_r, Ef. cbn. unfold recv_buf; cbn. rewrite E3. cbn. eauto.
      * destruct r as [|i r].
        -- exists (Tau (2 + m)). unfold step; cbn [panicked JoinSl.mk]; cbn.
           rewrite nth_error_app1 by lia. rewrite E2. cbn. rewrite E3. cbn. eauto.
        -- destruct (0 <? cp) eqn:E.
           ++ exists (Tau (2 + m)). unfold step; cbn [panicked JoinSl.mk]; cbn.
              rewrite nth_error_app1 by lia. rewrite E2. cbn. rewrite E3. cbn. rewrite E. eauto.
           ++ apply Nat.ltb_ge in E. assert (cp = 0) by lia. subst cp.
              exists (Sync (2 + m) (2 + N + m)). unfold step; cbn [panicked JoinSl.mk]; cbn.
              destruct (m =? N + m) eqn:Emm; [apply Nat.eqb_eq in Emm; lia|].
              rewrite nth_error_app1 by lia. rewrite E2.
              rewrite <- HLp, nth_error_app_r, Ef. cbn.
              rewrite Nat.eqb_refl. rewrite E3. cbn. eauto.
    + exists (Tau (2 + N + m)). unfold step; cbn [panicked JoinSl.mk]; cbn.
      rewrite <- HLp, nth_error_app_r, Ef. cbn. unfold recv_buf; cbn. rewrite E3. cbn. eauto.
  - exists (Tau (2 + N + m)). unfold step; cbn [panicked JoinSl.mk]; cbn.
    rewrite <- HLp, nth_error_app_r, Ef. cbn. eauto.
  - (* 2: send on out *)
    assert (Hm7 : ~ 6 <= mpc0) by (intros L; specialize (H7 L); lia).
    assert (oc0 = false) by (apply not_true_false; intros E; apply Hoc in E; lia). subst oc0.
    assert (cd0 = false) by (apply not_true_false; intros E; destruct (Hcd E); discriminate). subst cd0.
    destruct (length ob0 <? cout) eqn:E.
    + exists (Tau (2 + N + m)). unfold step; cbn [panicked JoinSl.mk]; cbn.
      rewrite <- HLp, nth_error_app_r, Ef. cbn. rewrite E. eauto.
    + apply Nat.ltb_ge in E. destruct ob0 as [|o rest].
      * cbn in E, Hlo. assert (Hc : cout = 0) by lia.
        exists (Sync (2 + N + m) 1). unfold step; cbn [panicked JoinSl.mk]; cbn.
        rewrite <- HLp, nth_error_app_r, Ef. cbn. rewrite Hc. cbn. eauto.
      * exists (Tau 1). unfold step; cbn [panicked JoinSl.mk]; cbn. eauto.
  - exists (Tau (2 + N + m)). unfold step; cbn [panicked JoinSl.mk]; cbn.
    rewrite <- HLp, nth_error_app_r, Ef. cbn. eauto.
  - (* 4: wait.Done() *)
    exists (Tau (2 + N + m)). unfold step; cbn [panicked JoinSl.mk]; cbn.
    rewrite <- HLp, nth_error_app_r, Ef. cbn.
    destruct w0 as [|k]; [lia|]. eauto.
Qed.

(* in the final phase (main past the range loop, WaitGroup zero) everything has been forwarded *)
Lemma final_facts p :
  Cond p -> 5 <= mpc p -> sumw act (fwds p) = 0 ->
  length (fwds p) = N /\ srem p = [] /\
  (forall j, j < N -> exists cp its, nth_error inputs j = Some (cp, its) /\
       nth_error (prods p) j = Some (TProd (1 + j) [] true) /\
       nth_error (chans p) j = Some {| cap := cp; buf := []; closed := true |} /\
       nth_error (dls p) j = Some its /\
       exists fr fok, nth_error (fwds p) j = Some (fwd_thr j 5 fr fok)).
Proof.
  intros C L6 Hz. open_p p. open_cond C.
  assert (HMf : length fwds0 = b /\ srem0 = []).
  { unfold MainI in HMain; cbn in HMain. pcs8 mpc0; exact HMain. }
  destruct HMf as (HKb & Hsr). rewrite Hsr in Hseq.
  assert (b = N). { destruct (N - b) eqn:E; [lia|]. cbn in Hseq. discriminate. }
  subst b. repeat split; auto.
  intros j Hj.
  destruct (HP j Hj) as (cp & its & r & d & ch & dl & E1 & E2 & E3 & E4 & E5 & E6 & E7 & E8 & HF).
  destruct (nth_error fwds0 j) as [t|] eqn:Ef; [|apply nth_error_None in Ef; lia].
  cbn in HF. destruct HF as (fpc & fr & fok & Ht & Hf5 & Hits & Hf1 & Hf4). subst t.
  pose proof (sumw_zero act fwds0 j _ Hz Ef) as Ha. cbn in Ha.
  destruct (fpc <=? 4) eqn:E; [discriminate|]. apply Nat.leb_gt in E.
  assert (fpc = 5) by lia. subst fpc.
  destruct Hf4 as (Hc1 & Hc2 & Hc3); [lia|].
  destruct ch as [chcap chbuf chcl]. cbn in E4, E6, Hc1, Hc2, Hits.
  subst chcap chbuf chcl r d.
  assert (Hd : its = dl) by (rewrite Hits; cbn; rewrite app_nil_r; reflexivity). subst dl.
  exists cp, its. repeat split; auto. exists fr, fok. reflexivity.
Qed.

Lemma final_halted p :
  Cond p -> mpc p = 7 -> cd p = true -> all_halted PS (mk p) = true.
Proof.
  intros C E8 Ecd. pose proof C as C'.
  assert (Hz : sumw act (fwds p) = 0).
  { open_p p. open_cond C'. apply H7. lia. }
  destruct (final_facts p C ltac:(lia) Hz) as (HKN & Hsr & HF).
  open_p p. subst. unfold all_halted. cbn. rewrite forallb_app. apply andb_true_iff. split.
  - apply forallb_forall. intros t Ht. apply In_nth_error in Ht. destruct Ht as [j Ej].
    open_cond C'. assert (Hj : j < N) by (apply nth_error_lt in Ej; lia).
    destruct (HF j Hj) as (cp & its & _ & E2 & _). rewrite E2 in Ej. inversion Ej. reflexivity.
  - apply forallb_forall. intros t Ht. apply In_nth_error in Ht. destruct Ht as [j Ej].
    assert (Hj : j < N) by (apply nth_error_lt in Ej; lia).
    destruct (HF j Hj) as (cp & its & _ & _ & _ & _ & fr & fok & Ef). rewrite Ef in Ej. inversion Ej. reflexivity.
Qed.

(* ---------- deadlock freedom ---------- *)
Lemma inv_progress s : Inv s -> all_halted PS s = false -> exists act s', step f PS s act = Some s'.
Proof.
  intros [p [-> C]] Hh. pose proof C as C0.
  destruct (Nat.eq_dec (mpc p) 7) as [E8|E8].
  { destruct (cd p) eqn:Ecd; [rewrite (final_halted p C E8 Ecd) in Hh; discriminate|].
    open_p p. open_cond C. subst mpc0.
    assert (oc0 = true) by (apply Hoc; reflexivity). subst oc0. subst cd0.
    exists (Tau 1). unfold step; cbn [panicked JoinSl.mk]; cbn. destruct ob0; eauto. }
  destruct (Nat.eq_dec (mpc p) 5) as [E6|E6].
  { destruct (w p) eqn:Ew.
    - open_p p. subst. exists (Tau 0). unfold step; cbn [panicked JoinSl.mk]; cbn. eauto.
    - assert (Hpos : 0 < sumw act (fwds p)).
      { open_p p. open_cond C. subst mpc0. cbn in Hw. lia. }
      destruct (sumw_pos act _ Hpos) as (m & t & Ef & Ha).
      assert (exists fpc fr fok, t = fwd_thr m fpc fr fok /\ fpc <= 4) as (fpc & fr & fok & -> & L4).
      { open_p p. open_cond C. assert (Hm : m < N) by (apply nth_error_lt in Ef; lia).
        destruct (HP m Hm) as (cp & its & r & d & ch & dl & _ & _ & _ & _ & _ & _ & _ & _ & HF).
        rewrite Ef in HF. cbn in HF. destruct HF as (fpc & fr & fok & Ht & _). subst t.
        exists fpc, fr, fok. split; [reflexivity|]. cbn in Ha.
        destruct (fpc <=? 4) eqn:E; [apply Nat.leb_le in E; exact E|lia]. }
      exact (fwd_progress p m fpc fr fok C0 Ef L4). }
  open_p p. open_cond C.
  pcs8 mpc0; try (exfalso; auto; fail).
  - exists (Tau 0). unfold step; cbn [panicked JoinSl.mk]; cbn. eauto.
  - exists (Tau 0). unfold step; cbn [panicked JoinSl.mk]; cbn. eauto.
  - exists (Tau 0). unfold step; cbn [panicked JoinSl.mk]; cbn. eauto.
  - exists (Tau 0). unfold step; cbn [panicked JoinSl.mk]; cbn. eauto.
  - exists (Tau 0). unfold step; cbn [panicked JoinSl.mk]; cbn. eauto.
  - (* 6: close(out) *)
    assert (oc0 = false) by (apply not_true_false; intros E; apply Hoc in E; lia). subst oc0.
    exists (Tau 0). unfold step; cbn [panicked JoinSl.mk]; cbn. eauto.
Qed.

Lemma final_merge p :
  Cond p -> 5 <= mpc p -> sumw act (fwds p) = 0 -> dls p = map snd inputs.
Proof.
  intros C L6 Hz. destruct (final_facts p C L6 Hz) as (_ & _ & HF).
  open_p p. open_cond C. apply list_ext.
  - rewrite map_length. exact HLd.
  - intros j Hj. rewrite HLd in Hj. destruct (HF j Hj) as (cp & its & E1 & _ & _ & E5 & _).
    rewrite E5. symmetry. erewrite map_nth_error; [|exact E1]. reflexivity.
Qed.

Lemma inv_obs s : Inv s ->
  panicked s = false
  /\ (exists dls, length dls = N /\ Merge dls (cons_log s 1 ++ ch_buf s 0) /\
        forall j cp its dl, nth_error inputs j = Some (cp, its) -> nth_error dls j = Some dl ->
                            exists rest, its = dl ++ rest)
  /\ (ch_closed s 0 = true ->
        wg s = 0 /\ length (thr s) = 2 + N + N
        /\ (forall j, j < N -> prod_done s (2 + j) = true /\ ch_closed s (1 + j) = true /\ ch_buf s (1 + j) = []
                              /\ option_map (halted PS) (nth_error (thr s) (2 + N + j)) = Some true)
        /\ Merge (map snd inputs) (cons_log s 1 ++ ch_buf s 0))
  /\ (all_halted PS s = true -> Merge (map snd inputs) (cons_log s 1) /\ ch_closed s 0 = true).
Proof.
  intros [p [-> C]]. pose proof C as C0.
  split; [reflexivity|]. split; [|split].
  - open_p p. open_cond C. exists dls0. cbn. repeat split; auto.
    intros j cp its dl E1 E5. assert (Hj : j < N) by (apply nth_error_lt in E1; exact E1).
    destruct (HP j Hj) as (cp' & its' & r & d & ch & dl' & E1' & E2 & E3 & E4 & E5' & E6 & E7 & E8 & HF).
    rewrite E1 in E1'. inversion E1'; subst cp' its'. rewrite E5 in E5'. inversion E5'; subst dl'.
    destruct (nth_error fwds0 j); cbn in HF.
    + destruct HF as (fpc & fr & fok & _ & _ & Hits & _). eauto.
    + destruct HF as [-> Hits]. cbn. eauto.
  - intros Hc.
    assert (E8 : mpc p = 7).
    { open_p p. open_cond C. cbn in Hc. apply Hoc. exact Hc. }
    assert (Hz : sumw act (fwds p) = 0).
    { open_p p. open_cond C. apply H7. lia. }
    destruct (final_facts p C0 ltac:(lia) Hz) as (HKN & Hsr & HF).
    pose proof (final_merge p C0 ltac:(lia) Hz) as Hd.
    open_p p. open_cond C. subst. cbn.
    repeat split; auto.
    + lia.
    + rewrite app_length. lia.
    + destruct (HF j H) as (cp & its & _ & E2 & _). unfold prod_done. cbn.
      rewrite nth_error_app1 by lia. rewrite E2. reflexivity.
    + destruct (HF j H) as (cp & its & _ & _ & E3 & _). unfold ch_closed. cbn. rewrite E3. reflexivity.
    + destruct (HF j H) as (cp & its & _ & _ & E3 & _). unfold ch_buf. cbn. rewrite E3. reflexivity.
    + destruct (HF j H) as (cp & its & _ & _ & _ & _ & fr & fok & Ef).
      rewrite <- HLp at 1. rewrite nth_error_app_r. rewrite Ef. reflexivity.
  - intros Hh. unfold all_halted in Hh.
    open_p p. cbn in Hh. apply andb_true_iff in Hh. destruct Hh as [Hm Hh].
    apply andb_true_iff in Hh. destruct Hh as [Hcd' _].
    open_cond C.
    assert (E8 : mpc0 = 7) by (pcs8 mpc0; cbn in Hm; try discriminate; reflexivity).
    subst mpc0 cd0.
    assert (Hz : sumw act fwds0 = 0) by (apply H7; lia).
    pose proof (final_merge _ C0 ltac:(cbn; lia) Hz) as Hd. cbn in Hd. subst dls0.
    destruct Hcd as [Hc1 Hc2]; [reflexivity|]. subst. cbn. rewrite app_nil_r in HM. auto.
Qed.

End JSLL.

(* ---------- the theorems ---------- *)
Definition joinsl_init := JoinSl.init.

Theorem joinsl_safety f inputs cout s :
  reach f PS (joinsl_init inputs cout) s ->
  panicked s = false
  /\ (exists dls, length dls = length inputs /\ Merge dls (cons_log s 1 ++ ch_buf s 0) /\
        forall j cp its dl, nth_error inputs j = Some (cp, its) -> nth_error dls j = Some dl ->
                            exists rest, its = dl ++ rest)
  /\ (ch_closed s 0 = true ->
        wg s = 0 /\ length (thr s) = 2 + length inputs + length inputs
        /\ (forall j, j < length inputs ->
               prod_done s (2 + j) = true /\ ch_closed s (1 + j) = true /\ ch_buf s (1 + j) = []
               /\ option_map (halted PS) (nth_error (thr s) (2 + length inputs + j)) = Some true)
        /\ Merge (map snd inputs) (cons_log s 1 ++ ch_buf s 0)).
Proof.
  intros R. apply (inv_reach f inputs cout) in R.
  destruct (inv_obs inputs cout s R) as (H1 & H2 & H3 & _). auto.
Qed.

Theorem joinsl_stuck_is_done f inputs cout s :
  reach f PS (joinsl_init inputs cout) s -> stuck f PS s ->
  all_halted PS s = true /\ Merge (map snd inputs) (cons_log s 1) /\ ch_closed s 0 = true.
Proof.
  intros R St. apply (inv_reach f inputs cout) in R.
  destruct (all_halted PS s) eqn:E.
  - destruct (inv_obs inputs cout s R) as (_ & _ & _ & H4). destruct (H4 E). auto.
  - destruct (inv_progress f inputs cout s R E) as (act & s' & Hs). rewrite St in Hs. discriminate.
Qed.

Theorem joinsl_measure_decreases f inputs cout s act s' :
  reach f PS (joinsl_init inputs cout) s -> step f PS s act = Some s' -> JoinSl.mu s' < JoinSl.mu s.
Proof.
  intros R H. apply (inv_reach f inputs cout) in R.
  exact (proj2 (inv_step f inputs cout _ _ _ R H)).
Qed.

Theorem joinsl_terminates f inputs cout l s :
  run f PS (joinsl_init inputs cout) l = Some s ->
  length l <= JoinSl.mu (joinsl_init inputs cout).
Proof.
  intros H.
  pose proof (run_bounded f PS (Inv inputs cout) JoinSl.mu (inv_step f inputs cout) l _ _
                (inv_init inputs cout) H) as B.
  unfold joinsl_init. lia.
Qed.

Example joinsl_init_is_explorer_init :
  joinsl_init [(0, [11; 12]); (1, [21])] 0 =
  init_state KJoinSl exp_join_sl {| c_inputs := [(0, [11; 12]); (1, [21])]; c_outer := 0 |}.
Proof. reflexivity. Qed.

Example joinsl_example_runs :
  found (search_one KJoinSl exp_join_sl
           {| c_inputs := [(0, [11; 12]); (1, [21])]; c_outer := 0 |} 2000) = None.
Proof. vm_compute. reflexivity. Qed.
