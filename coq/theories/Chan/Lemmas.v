(* Chan/Lemmas.v — list lemmas (upd / nth_error / sums / interleavings) and inversion lemmas of
   the step function used by the proofs about pools of forwarding goroutines. *)
From Coq Require Import List Arith Bool Lia.
Import ListNotations.
From Verif Require Import Chan.Sem.

(* ---------- upd / nth_error ---------- *)
Lemma upd_length {A} (l:list A) n a : length (upd l n a) = length l.
Proof. revert n; induction l as [|h t IH]; intros [|n]; cbn; auto. Qed.

Lemma nth_error_upd_eq {A} (l:list A) n a : n < length l -> nth_error (upd l n a) n = Some a.
Proof. revert n; induction l as [|h t IH]; intros [|n] H; cbn in *; try lia; auto; try (apply IH; lia). Qed.

Lemma nth_error_upd_neq {A} (l:list A) n m a : n <> m -> nth_error (upd l n a) m = nth_error l m.
Proof.
  revert n m; induction l as [|h t IH]; intros [|n] [|m] H; cbn; auto; try lia; try (apply IH; lia).
Qed.

Lemma upd_app_l {A} (l1 l2:list A) n a : n < length l1 -> upd (l1 ++ l2) n a = upd l1 n a ++ l2.
Proof.
  revert n; induction l1 as [|h t IH]; intros [|n] H; cbn in *; try lia; auto; try (f_equal; apply IH; lia).
Qed.

Lemma upd_app_r {A} (l1 l2:list A) n a : upd (l1 ++ l2) (length l1 + n) a = l1 ++ upd l2 n a.
Proof. induction l1 as [|h t IH]; cbn; auto. f_equal; apply IH. Qed.

Lemma nth_error_app_l {A} (l1 l2:list A) n : n < length l1 -> nth_error (l1 ++ l2) n = nth_error l1 n.
Proof. intros; apply nth_error_app1; auto. Qed.

Lemma nth_error_app_r {A} (l1 l2:list A) n : nth_error (l1 ++ l2) (length l1 + n) = nth_error l2 n.
Proof. rewrite nth_error_app2 by lia. f_equal; lia. Qed.

Lemma nth_error_app_cases {A} (l1 l2:list A) n t :
  nth_error (l1 ++ l2) n = Some t ->
  (n < length l1 /\ nth_error l1 n = Some t) \/
  (exists m, n = length l1 + m /\ nth_error l2 m = Some t).
Proof.
  intros H. destruct (Nat.lt_ge_cases n (length l1)) as [L|L].
  - left. rewrite nth_error_app1 in H by auto. auto.
  - right. exists (n - length l1). rewrite nth_error_app2 in H by auto. split; [lia|auto].
Qed.

Lemma nth_error_lt {A} (l:list A) n a : nth_error l n = Some a -> n < length l.
Proof. intros H. apply nth_error_Some. congruence. Qed.

Lemma nth_error_ex {A} (l:list A) n : n < length l -> exists a, nth_error l n = Some a.
Proof. intros H. destruct (nth_error l n) eqn:E; [eauto|]. apply nth_error_None in E. lia. Qed.

Lemma nth_error_snoc {A} (l:list A) a : nth_error (l ++ [a]) (length l) = Some a.
Proof. rewrite nth_error_app2 by lia. rewrite Nat.sub_diag. reflexivity. Qed.

(* ---------- weighted sums over lists ---------- *)
Definition sumw {A} (w:A -> nat) (l:list A) : nat := list_sum (map w l).

Lemma sumw_app {A} (w:A -> nat) l1 l2 : sumw w (l1 ++ l2) = sumw w l1 + sumw w l2.
Proof. unfold sumw. rewrite map_app, list_sum_app. reflexivity. Qed.

Lemma sumw_upd {A} (w:A -> nat) l n a a' :
  nth_error l n = Some a -> sumw w (upd l n a') + w a = sumw w l + w a'.
Proof.
  unfold sumw. revert n; induction l as [|h t IH]; intros [|n] H; cbn in *; try discriminate.
  - inversion H; subst. clear. set (X := fold_right _ _ _). lia.
  - specialize (IH _ H). revert IH. unfold list_sum.
    set (X := fold_right _ _ (map w t)). set (Y := fold_right _ _ (map w (upd t n a'))). clearbody X Y.
    clear. lia.
Qed.

Lemma sumw_ge {A} (w:A -> nat) l n a : nth_error l n = Some a -> w a <= sumw w l.
Proof.
  unfold sumw. revert n; induction l as [|h t IH]; intros [|n] H; cbn in *; try discriminate.
  - inversion H; subst. clear. set (X := fold_right _ _ _). lia.
  - specialize (IH _ H). revert IH. unfold list_sum. set (X := fold_right _ _ _). clearbody X. clear. lia.
Qed.

Lemma sumw_zero {A} (w:A -> nat) l n a : sumw w l = 0 -> nth_error l n = Some a -> w a = 0.
Proof. intros Z H. pose proof (sumw_ge w l n a H). lia. Qed.

(* ---------- interleavings, built by appending: Merge ls l  <->  l is an interleaving of ls ---------- *)
Inductive Merge : list (list item) -> list item -> Prop :=
| Merge_nil ls : Forall (fun l => l = []) ls -> Merge ls []
| Merge_snoc ls l j d x :
    Merge ls l -> nth_error ls j = Some d -> Merge (upd ls j (d ++ [x])) (l ++ [x]).

Lemma Merge_length ls l : Merge ls l -> length l = sumw (@length item) ls.
Proof.
  induction 1 as [ls H|ls l j d x M IH E].
  - unfold sumw. induction H as [|a t Ha Ht IHt]; cbn; auto. subst a. cbn. auto.
  - rewrite app_length. cbn.
    pose proof (sumw_upd (@length item) ls j d (d ++ [x]) E) as S. rewrite app_length in S. cbn in S. lia.
Qed.

(* each input list is a subsequence of the interleaving *)
Inductive Subseq : list item -> list item -> Prop :=
| Subseq_nil l : Subseq [] l
| Subseq_skip a x l : Subseq a l -> Subseq a (x :: l)
| Subseq_take a x l : Subseq a l -> Subseq (x :: a) (x :: l).

Lemma Subseq_app_r a l x : Subseq a l -> Subseq a (l ++ [x]).
Proof.
  induction 1 as [l|a y l S IH|a y l S IH]; cbn;
    [apply Subseq_nil|apply Subseq_skip; auto|apply Subseq_take; auto].
Qed.
Lemma Subseq_snoc a l x : Subseq a l -> Subseq (a ++ [x]) (l ++ [x]).
Proof.
  induction 1 as [l|a y l S IH|a y l S IH]; cbn.
  - induction l as [|h t IHt]; cbn; [apply Subseq_take; apply Subseq_nil|]. apply Subseq_skip. exact IHt.
  - apply Subseq_skip; auto.
  - apply Subseq_take; auto.
Qed.

Lemma Merge_subseq ls l : Merge ls l -> forall j d, nth_error ls j = Some d -> Subseq d l.
Proof.
  induction 1 as [ls H|ls l j0 d0 x M IH E]; intros j d Hj.
  - rewrite Forall_forall in H. rewrite (H d (nth_error_In _ _ Hj)). constructor.
  - destruct (Nat.eq_dec j0 j) as [->|N].
    + rewrite nth_error_upd_eq in Hj by (eapply nth_error_lt; eauto). inversion Hj; subst.
      apply Subseq_snoc. eauto.
    + rewrite nth_error_upd_neq in Hj by auto. apply Subseq_app_r. eauto.
Qed.

(* ---------- inversion of synchronisation steps ---------- *)
Section Inv.
Variable f : item -> item.
Variable P : list prog.

Lemma sync_inv s sn rn s' :
  step f P s (Sync sn rn) = Some s' ->
  sn <> rn /\
  exists ts tr c i ch,
    nth_error (thr s) sn = Some ts /\ nth_error (thr s) rn = Some tr /\
    wants P ts = WSend c i /\ wants P tr = WRecv c /\
    nth_error (chs s) c = Some ch /\ closed ch = false /\ cap ch = 0 /\
    s' = set_thr (set_thr s sn (after_send ts)) rn (after_recv P tr i true).
Proof.
  unfold step. destruct (panicked s); [discriminate|].
  destruct (sn =? rn) eqn:E; [discriminate|]. apply Nat.eqb_neq in E.
  destruct (nth_error (thr s) sn) as [ts|]; [|discriminate].
  destruct (nth_error (thr s) rn) as [tr|]; [|discriminate].
  destruct (wants P ts) eqn:Ws; try discriminate.
  destruct (wants P tr) eqn:Wr; try discriminate.
  destruct (c =? c0) eqn:Ec; [|discriminate]. apply Nat.eqb_eq in Ec; subst c0.
  destruct (nth_error (chs s) c) as [ch|] eqn:Ech; [|discriminate].
  destruct (closed ch) eqn:Ecl; cbn; [discriminate|].
  destruct (cap ch =? 0) eqn:Ecap; cbn; [|discriminate]. apply Nat.eqb_eq in Ecap.
  intros H; inversion H; subst. split; [auto|].
  exists ts, tr, c, i, ch. repeat split; auto.
Qed.

Lemma tausel_inv s n k s' :
  step f P s (TauSel n k) = Some s' ->
  exists t cs, nth_error (thr s) n = Some t /\ wants P t = WSel cs.
Proof.
  unfold step. destruct (panicked s); [discriminate|].
  destruct (nth_error (thr s) n) as [t|]; [|discriminate].
  destruct (wants P t) eqn:W; try discriminate. eauto.
Qed.

Lemma syncsel_inv s sn rn k s' :
  step f P s (SyncSel sn rn k) = Some s' ->
  exists t cs, nth_error (thr s) rn = Some t /\ wants P t = WSel cs.
Proof.
  unfold step. destruct (panicked s); [discriminate|].
  destruct (sn =? rn); [discriminate|].
  destruct (nth_error (thr s) sn) as [ts|]; [|discriminate].
  destruct (nth_error (thr s) rn) as [tr|]; [|discriminate].
  destruct (wants P ts) eqn:Ws; try discriminate.
  destruct (wants P tr) eqn:Wr; try discriminate. eauto.
Qed.
End Inv.
