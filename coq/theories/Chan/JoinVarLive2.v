(* Chan/JoinVarLive2.v — variadic deriveJoin(c0, ..., c(n-1)), any n >= 1: deadlock freedom and
   absence of leaks for ALL n, item lists, capacities (inputs and out, 0 = rendezvous) and
   interleavings.

   progress   : a canonical state (JoinVar.Cond) that is not "main halted and consumer done" has
                an enabled action (case analysis on the location of the main goroutine; at the
                select: the non-nil slot given by LocI has a buffered item, or is closed and
                drained, or its producer can close / send into the buffer / rendezvous with the
                select);
   final      : a canonical state with main at LHalt has every slot nil, hence every input
                closed and drained, every producer finished and dls = the inputs;
   theorems   : joinvar_stuck_is_done (= C19_joinvar_deadlock_free_no_leak),
                joinvar_closed_only_when_drained, joinvar_progress. *)
From Coq Require Import List Arith Bool Lia.
Import ListNotations.
From Verif Require Import Chan.Sem Chan.Expected Chan.Lemmas Chan.JoinVar Chan.JoinVarProofs
  Chan.JoinVarLive Chan.Explore Chan.EnabledComplete.

Local Arguments Nat.ltb : simpl never.
Local Arguments JoinVar.N : simpl never.
Local Arguments joinvar_main : simpl never.
Local Arguments menv_of : simpl never.
Local Arguments pc_of : simpl never.

Lemma list_ext_nth {A} (l1 l2:list A) :
  length l1 = length l2 -> (forall j, j < length l1 -> nth_error l1 j = nth_error l2 j) -> l1 = l2.
Proof.
  revert l2; induction l1 as [|h t IH]; intros [|h2 t2] L H; cbn in *; try discriminate; auto.
  pose proof (H 0 ltac:(lia)) as H0. cbn in H0. inversion H0; subst. f_equal.
  apply IH; [lia|]. intros j Hj. apply (H (S j)). lia.
Qed.

Lemma not_true_is_false' b : (b = true -> False) -> b = false.
Proof. destruct b; [intros H; destruct (H eq_refl)|reflexivity]. Qed.

Section JVL2.
Variable f : item -> item.
Variable inputs : list (nat * list item).
Variable cout : nat.
Hypothesis HN : 0 < N inputs.

Notation N := (N inputs).
Notation PV := (PV inputs).
Notation mk := (mk inputs cout).
Notation Cond := (Cond inputs cout).
Notation PoolV := (PoolV inputs).
Notation Inv := (JoinVarLive.Inv inputs cout).

Ltac open_cond C :=
  unfold JoinVar.Cond in C;
  destruct C as (HLp & HLc & HLd & HLs & HLv & Hpc & Hwf & Henv & HP & HL & HM & Hoc & Hcd & Hlo).

(* ---------- elementary enabledness facts ---------- *)

(* main takes a local step *)
Lemma en_main_local p : Cond p ->
  wants PV (TProg 0 (mpc p) (menv p)) = WLocal ->
  exists act s', step f PV (mk p) act = Some s'.
Proof.
  intros C W. open_cond C. exists (Tau N).
  unfold step; cbn [panicked JoinVar.mk thr chs wg].
  rewrite (at_main _ _ _ _ HLp), W. eauto.
Qed.

(* the consumer receives from out's buffer, or sees out closed *)
Lemma en_cons p : Cond p -> cd p = false -> (ob p <> [] \/ oc p = true) ->
  exists act s', step f PV (mk p) act = Some s'.
Proof.
  intros C Ecd Hob. open_cond C. exists (Tau (S N)).
  unfold step; cbn [panicked JoinVar.mk thr chs wg].
  rewrite (at_cons _ _ _ _ HLp). rewrite Ecd. cbn [wants]. unfold recv_buf.
  cbn [chs JoinVar.mk]. rewrite (at_out _ _ _ HLc). cbn [buf closed].
  destruct (ob p) as [|x r].
  - destruct Hob as [Hob|Hob]; [destruct (Hob eq_refl)|]. rewrite Hob. eauto.
  - eauto.
Qed.

(* ---------- progress ---------- *)
Lemma progress p : Cond p -> ~ (ploc p = LHalt /\ cd p = true) ->
  exists act s', step f PV (mk p) act = Some s'.
Proof.
  intros C Hnf. pose proof C as C0. pose proof (main_wants inputs cout HN p C) as W.
  open_cond C.
  assert (Hocf : ploc p <> LHalt -> oc p = false).
  { intros Hne. apply not_true_is_false'. intros E. apply Hoc in E. auto. }
  assert (Hcdf : ploc p <> LHalt -> cd p = false).
  { intros Hne. apply not_true_is_false'. intros E. destruct (Hcd E) as [E' _].
    rewrite (Hocf Hne) in E'. discriminate. }
  unfold JoinVar.LocI in HL.
  destruct (ploc p) as [k| |i off| | |] eqn:El.
  - (* nil test *) exact (en_main_local p C0 W).
  - (* the select: some slot j is non-nil *)
    destruct HL as (j & Hj & Ej).
    destruct (HP j Hj) as (cp & its & r & d & ch & dl & slot & E1 & E2 & E3 & E4 & E5 & E6 & E7 & E8 & E9 & E10 & E11).
    rewrite Ej in E6. injection E6 as <-.
    assert (Hsel : forall x ok,
               recv_buf (mk p) N j (after_sel PV (TProg 0 (mpc p) (menv p)) j) = Some x ->
               ok = true -> exists act s', step f PV (mk p) act = Some s').
    { intros x _ Hr _. exists (TauSel N j), x.
      unfold step; cbn [panicked JoinVar.mk thr chs wg].
      rewrite (at_main _ _ _ _ HLp), W.
      erewrite map_nth_error; [|apply nth_error_seq; exact Hj]. cbn [Nat.add].
      rewrite Ej. cbn [slot_cid]. exact Hr. }
    destruct ch as [chcap chbuf chcl]. cbn [buf closed cap] in *. subst chcap.
    destruct chbuf as [|x rest].
    + destruct chcl.
      * (* closed and drained: the select fires on the closed input *)
        eapply Hsel; [|reflexivity].
        unfold recv_buf. cbn [chs JoinVar.mk]. rewrite (at_in1 _ _ _ HLc) by exact Hj.
        rewrite E3. cbn [buf closed]. reflexivity.
      * (* open and empty: the producer of input j moves (close / buffered send / rendezvous) *)
        subst d. destruct r as [|x r].
        -- exists (Tau j). unfold step; cbn [panicked JoinVar.mk thr chs wg].
           rewrite (at_in _ _ _ _ HLp) by exact Hj. rewrite E2. cbn [wants].
           rewrite (at_in1 _ _ _ HLc) by exact Hj. rewrite E3. cbn [closed]. eauto.
        -- destruct (0 <? cp) eqn:Ecp.
           ++ exists (Tau j). unfold step; cbn [panicked JoinVar.mk thr chs wg].
              rewrite (at_in _ _ _ _ HLp) by exact Hj. rewrite E2. cbn [wants].
              rewrite (at_in1 _ _ _ HLc) by exact Hj. rewrite E3. cbn [closed buf cap length].
              rewrite Ecp. eauto.
           ++ apply Nat.ltb_ge in Ecp. assert (cp = 0) by lia. subst cp.
              exists (SyncSel j N j). unfold step; cbn [panicked JoinVar.mk thr chs wg].
              assert (En : (j =? N) = false) by (apply Nat.eqb_neq; lia). rewrite En.
              rewrite (at_in _ _ _ _ HLp) by exact Hj. rewrite (at_main _ _ _ _ HLp).
              rewrite E2, W. cbn [wants].
              erewrite map_nth_error; [|apply nth_error_seq; exact Hj]. cbn [Nat.add].
              rewrite Ej. cbn [slot_cid]. rewrite Nat.eqb_refl.
              rewrite (at_in1 _ _ _ HLc) by exact Hj. rewrite E3. cbn [closed cap orb negb Nat.eqb]. eauto.
    + (* a buffered item: the select fires on it *)
      eapply Hsel; [|reflexivity].
      unfold recv_buf. cbn [chs JoinVar.mk]. rewrite (at_in1 _ _ _ HLc) by exact Hj.
      rewrite E3. cbn [buf closed]. reflexivity.
  - (* inside case block i *)
    destruct HL as (Hi & Ho & _).
    destruct off as [|[|[|[|off]]]]; try exact (en_main_local p C0 W).
    (* out <- v_i *)
    assert (Ef : oc p = false) by (apply Hocf; discriminate).
    assert (Ecd : cd p = false) by (apply Hcdf; discriminate).
    destruct (length (ob p) <? cout) eqn:E.
    + exists (Tau N). unfold step; cbn [panicked JoinVar.mk thr chs wg].
      rewrite (at_main _ _ _ _ HLp), W. rewrite (at_out _ _ _ HLc). cbn [closed buf cap].
      rewrite Ef, E. eauto.
    + apply Nat.ltb_ge in E. destruct (ob p) as [|o rest] eqn:Eob.
      * (* rendezvous with the consumer *)
        cbn [length] in E. assert (Hc : cout = 0) by lia.
        exists (Sync N (S N)). unfold step; cbn [panicked JoinVar.mk thr chs wg].
        assert (En : (N =? S N) = false) by (apply Nat.eqb_neq; lia). rewrite En.
        rewrite (at_main _ _ _ _ HLp), (at_cons _ _ _ _ HLp), W. rewrite Ecd. cbn [wants].
        rewrite Nat.eqb_refl. rewrite (at_out _ _ _ HLc). cbn [closed cap]. rewrite Ef, Hc.
        cbn [orb negb Nat.eqb]. eauto.
      * (* the buffer is full: the consumer receives *)
        apply (en_cons p C0 Ecd). left. rewrite Eob. discriminate.
  - exact (en_main_local p C0 W).
  - (* close(out) *)
    assert (Ef : oc p = false) by (apply Hocf; discriminate).
    exists (Tau N). unfold step; cbn [panicked JoinVar.mk thr chs wg].
    rewrite (at_main _ _ _ _ HLp), W. rewrite (at_out _ _ _ HLc). cbn [closed buf cap].
    rewrite Ef. eauto.
  - (* main halted: the consumer drains out and sees it closed *)
    destruct (cd p) eqn:Ecd; [exfalso; apply Hnf; auto|].
    apply (en_cons p C0 Ecd). right. apply Hoc. reflexivity.
Qed.

(* ---------- the final phase ---------- *)
(* main at LHalt (equivalently: out closed): every input is nil, hence closed and drained, its
   producer finished, and everything it carried has been handed to out *)
Lemma final_facts p : Cond p -> ploc p = LHalt ->
  oc p = true
  /\ (forall j, j < N -> exists cp its,
        nth_error inputs j = Some (cp, its) /\
        nth_error (prods p) j = Some (TProd j [] true) /\
        nth_error (chans p) j = Some {| cap := cp; buf := []; closed := true |} /\
        nth_error (dls p) j = Some its /\
        nth_error (cs p) j = Some (VC None))
  /\ dls p = map snd inputs.
Proof.
  intros C El. open_cond C.
  assert (HF : forall j, j < N -> exists cp its,
        nth_error inputs j = Some (cp, its) /\
        nth_error (prods p) j = Some (TProd j [] true) /\
        nth_error (chans p) j = Some {| cap := cp; buf := []; closed := true |} /\
        nth_error (dls p) j = Some its /\
        nth_error (cs p) j = Some (VC None)).
  { intros j Hj. unfold JoinVar.LocI in HL. rewrite El in HL. specialize (HL j Hj).
    destruct (HP j Hj) as (cp & its & r & d & ch & dl & slot & E1 & E2 & E3 & E4 & E5 & E6 & E7 & E8 & E9 & E10 & E11).
    rewrite HL in E6. injection E6 as <-.
    destruct E10 as [E10|(_ & X1 & X2 & X3)]; [discriminate E10|].
    destruct ch as [chcap chbuf chcl]. cbn [buf closed cap] in *. subst chcap chbuf chcl r d.
    rewrite El in E11. cbn [hold app] in E11. rewrite app_nil_r in E11. subst dl.
    exists cp, its. auto. }
  split; [apply Hoc; exact El|]. split; [exact HF|].
  apply list_ext_nth.
  - rewrite map_length. exact HLd.
  - intros j Hj. rewrite HLd in Hj. destruct (HF j Hj) as (cp & its & E1 & _ & _ & E5 & _).
    rewrite E5. symmetry. erewrite map_nth_error; [|exact E1]. reflexivity.
Qed.

Lemma main_halted p : Cond p -> ploc p = LHalt -> halted PV (TProg 0 (mpc p) (menv p)) = true.
Proof.
  intros C El. open_cond C. unfold halted, instr_at, code, JoinVar.PV. cbn [nth].
  rewrite Hpc, El. rewrite (instr_at_loc N LHalt I). reflexivity.
Qed.

Lemma final_halted p : Cond p -> ploc p = LHalt -> cd p = true -> all_halted PV (mk p) = true.
Proof.
  intros C El Ecd. destruct (final_facts p C El) as (_ & HF & _).
  pose proof (main_halted p C El) as Hm. open_cond C.
  unfold all_halted. cbn [thr JoinVar.mk]. rewrite forallb_app. apply andb_true_iff. split.
  - apply forallb_forall. intros t Ht. apply In_nth_error in Ht. destruct Ht as [j Ej].
    assert (Hj : j < N) by (apply nth_error_lt in Ej; lia).
    destruct (HF j Hj) as (cp & its & _ & E2 & _). rewrite E2 in Ej. injection Ej as <-. reflexivity.
  - cbn [forallb]. rewrite Hm. cbn [halted]. rewrite Ecd. reflexivity.
Qed.

(* all threads halted: main is at LHalt and the consumer is done *)
Lemma halted_final p : Cond p -> all_halted PV (mk p) = true -> ploc p = LHalt /\ cd p = true.
Proof.
  intros C Hh. pose proof (main_wants inputs cout HN p C) as W. pose proof C as C0. open_cond C.
  unfold all_halted in Hh. cbn [thr JoinVar.mk] in Hh. rewrite forallb_app in Hh.
  apply andb_true_iff in Hh. destruct Hh as [_ Hh]. cbn [forallb] in Hh.
  apply andb_true_iff in Hh. destruct Hh as [Hm Hh]. apply andb_true_iff in Hh. destruct Hh as [Hc _].
  cbn [halted] in Hc. split; [|exact Hc].
  unfold halted, instr_at, code, JoinVar.PV in Hm. cbn [nth] in Hm.
  rewrite Hpc, (instr_at_loc N (ploc p) Hwf) in Hm.
  destruct (ploc p) as [k| |i off| | |]; cbn [main_instr] in Hm; try discriminate; [|reflexivity].
  destruct off as [|[|[|[|off]]]]; discriminate.
Qed.

(* ---------- observations ---------- *)
Lemma inv_progress s : Inv s -> all_halted PV s = false -> exists act s', step f PV s act = Some s'.
Proof.
  intros (p & -> & C) Hh. apply (progress p C). intros [El Ecd].
  rewrite (final_halted p C El Ecd) in Hh. discriminate.
Qed.

Lemma inv_closed s : Inv s -> ch_closed s N = true ->
  option_map (halted PV) (nth_error (thr s) N) = Some true
  /\ (forall j, j < N -> prod_done s j = true /\ prod_rem s j = []
                         /\ ch_closed s j = true /\ ch_buf s j = [])
  /\ Merge (map snd inputs) (cons_log s (S N) ++ ch_buf s N).
Proof.
  intros (p & -> & C) Hc. pose proof C as C0. open_cond C.
  unfold ch_closed in Hc. cbn [chs JoinVar.mk] in Hc. rewrite (at_out _ _ _ HLc) in Hc. cbn [closed] in Hc.
  assert (El : ploc p = LHalt) by (apply Hoc; exact Hc).
  destruct (final_facts p C0 El) as (_ & HF & Hd).
  split; [|split].
  - cbn [thr JoinVar.mk]. rewrite (at_main _ _ _ _ HLp). cbn [option_map].
    rewrite (main_halted p C0 El). reflexivity.
  - intros j Hj. destruct (HF j Hj) as (cp & its & _ & E2 & E3 & _).
    unfold prod_done, prod_rem, ch_closed, ch_buf. cbn [thr chs JoinVar.mk].
    rewrite (at_in _ _ _ _ HLp) by exact Hj. rewrite (at_in1 _ _ _ HLc) by exact Hj.
    rewrite E2, E3. auto.
  - unfold cons_log, ch_buf. cbn [thr chs JoinVar.mk].
    rewrite (at_cons _ _ _ _ HLp), (at_out _ _ _ HLc). cbn [buf]. rewrite <- Hd. exact HM.
Qed.

Lemma inv_halted s : Inv s -> all_halted PV s = true ->
  Merge (map snd inputs) (cons_log s (S N)) /\ ch_closed s N = true
  /\ (forall j, j < N -> prod_done s j = true /\ prod_rem s j = []
                         /\ ch_closed s j = true /\ ch_buf s j = [])
  /\ ch_buf s N = [].
Proof.
  intros I Hh. pose proof I as (p & -> & C). destruct (halted_final p C Hh) as [El Ecd].
  pose proof C as C0. open_cond C. destruct (Hcd Ecd) as [Eoc Eob].
  assert (Hc : ch_closed (mk p) N = true).
  { unfold ch_closed. cbn [chs JoinVar.mk]. rewrite (at_out _ _ _ HLc). exact Eoc. }
  assert (Hb : ch_buf (mk p) N = []).
  { unfold ch_buf. cbn [chs JoinVar.mk]. rewrite (at_out _ _ _ HLc). exact Eob. }
  destruct (inv_closed _ I Hc) as (_ & H2 & H3). rewrite Hb, app_nil_r in H3. auto.
Qed.

End JVL2.

(* ---------- the theorems ---------- *)

(* progress: a reachable state in which some thread has not halted has an enabled action *)
Theorem joinvar_progress f inputs cout s :
  0 < length inputs ->
  reach f (JoinVar.PV inputs) (joinvar_init inputs cout) s ->
  all_halted (JoinVar.PV inputs) s = false ->
  exists act s', step f (JoinVar.PV inputs) s act = Some s'.
Proof.
  intros HN R. apply (inv_reach f inputs cout HN) in R. exact (inv_progress f inputs cout HN s R).
Qed.

(* deadlock freedom and absence of leaks, for every number n >= 1 of inputs, all item lists, all
   capacities (0 = rendezvous), all interleavings: a reachable state without enabled action has
   every thread halted (all n producers, the goroutine of deriveJoin, the consumer), the
   consumer has received an interleaving of ALL the inputs, and out is closed *)
Theorem joinvar_stuck_is_done f inputs cout s :
  0 < length inputs ->
  reach f (JoinVar.PV inputs) (joinvar_init inputs cout) s -> stuck f (JoinVar.PV inputs) s ->
  all_halted (JoinVar.PV inputs) s = true
  /\ Merge (map snd inputs) (cons_log s (S (length inputs)))
  /\ ch_closed s (length inputs) = true.
Proof.
  intros HN R St. apply (inv_reach f inputs cout HN) in R.
  destruct (all_halted (JoinVar.PV inputs) s) eqn:E.
  - destruct (inv_halted inputs cout HN s R E) as (H1 & H2 & _). auto.
  - destruct (inv_progress f inputs cout HN s R E) as (act & s' & Hs). rewrite St in Hs. discriminate.
Qed.

(* the terminal state in full: additionally every input channel is closed and drained, every
   producer has sent everything, and nothing is left in out's buffer *)
Theorem joinvar_stuck_is_done_full f inputs cout s :
  0 < length inputs ->
  reach f (JoinVar.PV inputs) (joinvar_init inputs cout) s -> stuck f (JoinVar.PV inputs) s ->
  all_halted (JoinVar.PV inputs) s = true
  /\ Merge (map snd inputs) (cons_log s (S (length inputs)))
  /\ ch_closed s (length inputs) = true /\ ch_buf s (length inputs) = []
  /\ cons_done s (S (length inputs)) = true
  /\ (forall j, j < length inputs ->
        prod_done s j = true /\ prod_rem s j = [] /\ ch_closed s j = true /\ ch_buf s j = []).
Proof.
  intros HN R St. destruct (joinvar_stuck_is_done f inputs cout s HN R St) as (Hh & HM & Hc).
  apply (inv_reach f inputs cout HN) in R.
  destruct (inv_halted inputs cout HN s R Hh) as (_ & _ & H3 & H4).
  repeat split; auto; try (apply H3; assumption).
  destruct R as (p & -> & C). destruct (halted_final inputs cout HN p C Hh) as [_ Ecd].
  destruct C as (HLp & _). unfold cons_done. cbn [thr JoinVar.mk].
  rewrite (at_cons _ _ _ _ HLp). exact Ecd.
Qed.

(* out is closed only after the goroutine of deriveJoin has finished its loop: every input is
   closed and drained, every producer is done, and ALL items are delivered or in out's buffer
   (with joinvar_safety: no panic, so out is closed exactly once) *)
Theorem joinvar_closed_only_when_drained f inputs cout s :
  0 < length inputs ->
  reach f (JoinVar.PV inputs) (joinvar_init inputs cout) s ->
  ch_closed s (length inputs) = true ->
  option_map (halted (JoinVar.PV inputs)) (nth_error (thr s) (length inputs)) = Some true
  /\ (forall j, j < length inputs ->
        prod_done s j = true /\ prod_rem s j = [] /\ ch_closed s j = true /\ ch_buf s j = [])
  /\ Merge (map snd inputs) (cons_log s (S (length inputs)) ++ ch_buf s (length inputs)).
Proof.
  intros HN R. apply (inv_reach f inputs cout HN) in R. exact (inv_closed inputs cout s R).
Qed.

(* ---------- non-vacuity ---------- *)
(* a deterministic scheduler: always take the first (pick = id) or the last (pick = rev) enabled action *)
Fixpoint sched_run (pick:list action -> list action) (f:item -> item) (P:list prog) (fuel:nat) (s:state) : state :=
  match fuel with
  | 0 => s
  | S k => match pick (enabled f P s) with
           | [] => s
           | a :: _ => match step f P s a with Some s' => sched_run pick f P k s' | None => s end
           end
  end.

Lemma sched_run_reach pick f P s0 : forall fuel s, reach f P s0 s -> reach f P s0 (sched_run pick f P fuel s).
Proof.
  induction fuel as [|k IH]; intros s R; cbn [sched_run]; [exact R|].
  destruct (pick (enabled f P s)) as [|a l]; [exact R|].
  destruct (step f P s a) as [s'|] eqn:E; [|exact R]. apply IH. eapply reachS; eauto.
Qed.

(* n = 2, input 0 buffered (capacity 1, two items), input 1 unbuffered (rendezvous, one item), out
   unbuffered: the theorem's initial state is the explorer's; two different schedules reach a state
   that satisfies the hypotheses of joinvar_stuck_is_done (reachable, stuck), and it is the good
   final state, with two different interleavings delivered *)
Definition ex_inputs : list (nat * list item) := [(1, [11; 12]); (0, [21])].

Example joinvar_live_init_is_explorer_init :
  joinvar_init ex_inputs 0 =
  init_state KJoinVar (exp_join_var 2) {| c_inputs := ex_inputs; c_outer := 0 |}.
Proof. reflexivity. Qed.

Example joinvar_example_final :
  0 < length ex_inputs /\
  exists s, reach fx (JoinVar.PV ex_inputs) (joinvar_init ex_inputs 0) s
            /\ stuck fx (JoinVar.PV ex_inputs) s
            /\ all_halted (JoinVar.PV ex_inputs) s = true
            /\ cons_log s 3 = [11; 12; 21] /\ ch_closed s 2 = true
            /\ prod_done s 0 = true /\ prod_done s 1 = true
            /\ ch_closed s 0 = true /\ ch_closed s 1 = true.
Proof.
  split; [cbn; lia|].
  exists (sched_run (fun l => l) fx (JoinVar.PV ex_inputs) 200 (joinvar_init ex_inputs 0)).
  split; [apply sched_run_reach; apply reach0|].
  split; [apply enabled_nil_stuck; vm_compute; reflexivity|].
  vm_compute. repeat split; reflexivity.
Qed.

Example joinvar_example_final_other_order :
  exists s, reach fx (JoinVar.PV ex_inputs) (joinvar_init ex_inputs 0) s
            /\ stuck fx (JoinVar.PV ex_inputs) s
            /\ all_halted (JoinVar.PV ex_inputs) s = true
            /\ cons_log s 3 = [21; 11; 12] /\ ch_closed s 2 = true.
Proof.
  exists (sched_run (@rev action) fx (JoinVar.PV ex_inputs) 200 (joinvar_init ex_inputs 0)).
  split; [apply sched_run_reach; apply reach0|].
  split; [apply enabled_nil_stuck; vm_compute; reflexivity|].
  vm_compute. repeat split; reflexivity.
Qed.

(* every maximal schedule of that configuration ends in the good terminal state (exhaustive) *)
Example joinvar_example_runs :
  found (search_one KJoinVar (exp_join_var 2) {| c_inputs := ex_inputs; c_outer := 0 |} 2000) = None.
Proof. vm_compute. reflexivity. Qed.
