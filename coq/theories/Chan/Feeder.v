(* Chan/Feeder.v — a second kind of environment for the join forms: ONE goroutine (the "feeder")
   performs every operation of the environment on the input channels in a fixed order, instead
   of one independent producer per input (Explore.init_state).  With a feeder the progress on
   one input depends on another input being served: e.g. it hands c0, c1, c2 to
   deriveJoin(<-chan <-chan T), closes the outer channel and then feeds c2 before c0 and c1.
   A combinator that listens on fewer inner channels than it has been given (a bounded pool of
   forwarders, a two-phase "collect, then forward" loop) deadlocks under a feeder although it
   delivers everything under independent producers.

   The feeder is an ordinary IR thread (a straight-line program of Send / Close), so the same
   [step] runs it.  This file gives
     * the construction (the exact mirror of the feeder of the real-runtime driver,
       harness/internal/c19/drvsrc.go: start/feed), used by Eval19 for trace inclusion of the
       observed feeder histories;
     * a bounded exhaustive statement (all interleavings, all feeding orders of the listed small
       configurations) for the three join forms about the expected IR.
   The all-sizes theorems of JoinCC/JoinSl/JoinVar are about independent producers; the feeder
   environment is covered only by the bounded statement below and by the real-runtime battery. *)
From Coq Require Import List Arith Bool NArith FSets.FSetPositive.
Import ListNotations.
From Verif Require Import Chan.Sem Chan.Expected Chan.Explore.

(* one operation of the feeder *)
Inductive fop :=
| FHand (j:nat)              (* outer <- c_j *)
| FSend (j:nat) (v:item)     (* c_j <- v *)
| FClose (j:nat)             (* close(c_j) *)
| FCloseOuter.               (* close(outer) *)

Section Ops.
Variable has_outer : bool.            (* chan-of-chan form: the feeder also hands the channels over *)
Variable n : nat.                     (* number of inputs *)
Variable lists : list (list item).    (* their items *)

(* hand over the channels [handed .. upto-1]; close the outer channel once all n are handed *)
Definition hand_upto (upto:nat) (st:nat * bool) : list fop * (nat * bool) :=
  let '(handed, oc) := st in
  let handed' := Nat.max handed (Nat.min upto n) in
  let hs := if has_outer then map FHand (seq handed (handed' - handed)) else [] in
  if (handed' =? n) && negb oc
  then (hs ++ (if has_outer then [FCloseOuter] else []), (handed', true))
  else (hs, (handed', oc)).

(* [order]: j occurs once per item of input j and once more for its close *)
Fixpoint feed_ops (order:list nat) (st:nat * bool) (next:list nat) : list fop :=
  match order with
  | [] => fst (hand_upto n st)
  | j :: rest =>
      let '(hs, st') := hand_upto (S j) st in
      let k := nth j next 0 in
      let op := match nth_error (nth j lists []) k with
                | Some v => FSend j v
                | None => FClose j
                end in
      hs ++ op :: feed_ops rest st' (upd next j (S k))
  end.

(* eager: every channel is handed over (and the outer channel closed) before the first send;
   lazy: channel j is handed over only just before the first operation on it *)
Definition feeder_ops (lazy:bool) (order:list nat) : list fop :=
  let '(hs, st) := if lazy then ([], (0, false)) else hand_upto n (0, false) in
  hs ++ feed_ops order st (repeat 0 n).
End Ops.

(* the order is a schedule of the inputs: j < n occurs exactly (items of j) + 1 times *)
Definition valid_order (lists:list (list item)) (order:list nat) : bool :=
  (length order =? length (concat lists) + length lists) &&
  forallb (fun '(j, l) => count_occ Nat.eq_dec order j =? S (length l))
          (combine (seq 0 (length lists)) lists).

(* the feeder as a program: vars 0 = outer channel, 1..n = the inputs, n+1+k = the value of op k *)
Definition fop_instr (n k:nat) (o:fop) : instr :=
  match o with
  | FHand _ => Send 0 (S n + k)
  | FSend j _ => Send (S j) (S n + k)
  | FClose j => Close (S j)
  | FCloseOuter => Close 0
  end.
Definition feeder_prog (n:nat) (ops:list fop) : prog :=
  map (fun '(k, o) => fop_instr n k o) (combine (seq 0 (length ops)) ops) ++ [Halt].
Definition fop_val (ids:list cid) (o:fop) : item :=
  match o with FHand j => nth j ids 0 | FSend _ v => v | _ => 0 end.
Definition feeder_env (has_outer:bool) (ids:list cid) (ops:list fop) : list value :=
  VC (if has_outer then Some 0 else None) :: map (fun i => VC (Some i)) ids ++ map (fun o => VI (fop_val ids o)) ops.

Definition kind_has_outer (k:kind) : bool := match k with KJoinCC => true | _ => false end.
Definition input_ids (k:kind) (d:fn) (n:nat) : list cid :=
  match k with
  | KFmap | KDup | KJoinVar => seq 0 n
  | _ => seq (nparamch k n + length (fn_outs d)) n
  end.

Definition feeder_ops_of (k:kind) (cfg:config) (lazy:bool) (order:list nat) : list fop :=
  let lists := map snd (c_inputs cfg) in
  feeder_ops (kind_has_outer k) (length lists) lists lazy order.

(* programs and initial state: Explore.init_state with every environment producer retired (the
   thread indexes stay what they are) and the feeder appended as one more thread *)
Definition feeder_progs (k:kind) (d:fn) (cfg:config) (lazy:bool) (order:list nat) : list prog :=
  fn_progs d ++ [feeder_prog (length (c_inputs cfg)) (feeder_ops_of k cfg lazy order)].

Definition retire (t:thread) : thread :=
  match t with TProd c _ _ => TProd c [] true | _ => t end.

Definition init_feeder (k:kind) (d:fn) (cfg:config) (lazy:bool) (order:list nat) : state :=
  let s0 := init_state k d cfg in
  let n := length (c_inputs cfg) in
  let ops := feeder_ops_of k cfg lazy order in
  {| thr := map retire (thr s0) ++
            [TProg (length (fn_progs d)) 0 (feeder_env (kind_has_outer k) (input_ids k d n) ops)];
     chs := chs s0; wg := wg s0; panicked := panicked s0 |}.

(* exhaustive exploration of one feeder configuration *)
Definition search_feeder (k:kind) (d:fn) (cfg:config) (lazy:bool) (order:list nat) (fuel:nat) : sstate :=
  dfs fx (feeder_progs k d cfg lazy order) (good_of k d cfg) fuel (init_feeder k d cfg lazy order) []
      PositiveSet.empty {| black := PositiveSet.empty; found := None; count := 0%N |}.

(* ---------- all feeding orders of a configuration ---------- *)
(* all the sequences in which j occurs rem_j times (rem = remaining occurrences per input) *)
Fixpoint orders (fuel:nat) (rem:list nat) : list (list nat) :=
  match fuel with
  | O => [[]]
  | S fuel' =>
      if forallb (Nat.eqb 0) rem then [[]] else
      flat_map (fun j =>
        match nth j rem 0 with
        | O => []
        | S r => map (cons j) (orders fuel' (upd rem j r))
        end) (seq 0 (length rem))
  end.
Definition all_orders (lists:list (list item)) : list (list nat) :=
  let rem := map (fun l => S (length l)) lists in
  orders (fold_right Nat.add 0 rem) rem.

Definition feeder_some (k:kind) (d:fn) (orders_of:config -> list (list nat)) (cfgs:list config) (fuel:nat)
  : option (config * bool * list nat * nat * list action) :=
  fold_left (fun acc cfg =>
    fold_left (fun acc lazy =>
      fold_left (fun acc order =>
        match acc with
        | Some _ => acc
        | None => match found (search_feeder k d cfg lazy order fuel) with
                  | Some (why, sched) => Some (cfg, lazy, order, why, sched)
                  | None => None
                  end
        end) (orders_of cfg) acc)
      (if kind_has_outer k then [false; true] else [false]) acc)
    cfgs None.
Definition feeder_all (k:kind) (d:fn) : list config -> nat -> option (config * bool * list nat * nat * list action) :=
  feeder_some k d (fun cfg => all_orders (map snd (c_inputs cfg))).

Definition none_found {A} (o:option A) : bool := match o with None => true | Some _ => false end.

(* every feeding order is a valid order, e.g.: *)
Example all_orders_valid :
  forallb (valid_order [[11]; [21]; [31]]) (all_orders [[11]; [21]; [31]]) = true /\
  length (all_orders [[11]; [21]; [31]]) = 90.
Proof. vm_compute. split; reflexivity. Qed.

(* the witness of the class: three unbuffered inputs, handed over c0 c1 c2, fed c2 first *)
Example feeder_ops_example :
  feeder_ops true 3 [[11;12]; [21;22]; [31;32]] false [2;2;2;1;1;1;0;0;0] =
  [FHand 0; FHand 1; FHand 2; FCloseOuter;
   FSend 2 31; FSend 2 32; FClose 2; FSend 1 21; FSend 1 22; FClose 1; FSend 0 11; FSend 0 12; FClose 0].
Proof. reflexivity. Qed.
Example feeder_ops_lazy_example :
  feeder_ops true 3 [[11]; [21]; [31]] true [1;0;1;2;0;2] =
  [FHand 0; FHand 1; FSend 1 21; FSend 0 11; FClose 1; FHand 2; FCloseOuter; FSend 2 31; FClose 0; FClose 2].
Proof. reflexivity. Qed.

(* ---------- bounded statements (vm_compute in the kernel) ---------- *)
(* every interleaving of every listed configuration; two inputs: EVERY feeding order; three inputs with
   one item each: every order for the variadic form, for the WaitGroup forms the five orders below (three
   that finish one input after the other, two that interleave them)
   (the cost is the exploration: about 2 s per configuration of three inputs) *)
Definition orders3 : list (list nat) :=
  [ [2;2;1;1;0;0]; [0;0;1;1;2;2]; [1;1;2;2;0;0]; [2;1;0;2;1;0]; [0;1;2;2;1;0] ].
Example orders3_valid : forallb (valid_order [[11]; [21]; [31]]) orders3 = true.
Proof. reflexivity. Qed.

(* chan-of-chan form, eager and lazy hand-over *)
Lemma joincc_feeder_bounded :
  none_found (feeder_all KJoinCC exp_join_cc (configs_n 2 [0;1;2] [0] [0] ++ configs_n 2 [1] [1] [1]) 2000) = true /\
  none_found (feeder_some KJoinCC exp_join_cc (fun _ => orders3) (configs_n 3 [1] [0] [0]) 2000) = true.
Proof. vm_cast_no_check (conj (eq_refl true) (eq_refl true)). Qed.
Lemma joinsl_feeder_bounded :
  none_found (feeder_all KJoinSl exp_join_sl (configs_n 2 [0;1;2] [0] [0] ++ configs_n 2 [1] [1] [0]) 2000) = true /\
  none_found (feeder_some KJoinSl exp_join_sl (fun _ => orders3) (configs_n 3 [1] [0] [0]) 2000) = true.
Proof. vm_cast_no_check (conj (eq_refl true) (eq_refl true)). Qed.
Lemma joinvar_feeder_bounded :
  none_found (feeder_all KJoinVar (exp_join_var 2) (configs_n 2 [0;1;2] [0;1] [0]) 2000) = true /\
  none_found (feeder_all KJoinVar (exp_join_var 3) (configs_n 3 [1] [0] [0]) 2000) = true.
Proof. vm_cast_no_check (conj (eq_refl true) (eq_refl true)). Qed.

(* the search does find the deadlock of a join that serves at most ONE inner channel at a time (the main
   goroutine forwards each inner channel itself: no panic, nothing lost under independent producers, but
   stuck under a feeder that feeds the channel handed over last first)
   vars: 0 in, 1 out, 2 c, 3 ok, 4 r, 5 ok' *)
Definition serial_join : fn :=
  {| fn_params := [PChanChan]; fn_outs := [CapZero]; fn_nloc := 4; fn_ret := [1];
     fn_progs := [[ RecvC 0 2 3; Br 3 2 7; Recv 2 4 5; Br 5 4 6; Send 1 4; Jmp 2; Jmp 0; Close 1; Halt ]] |}.
Example serial_join_fine_with_independent_producers :
  match search_all KJoinCC serial_join (configs_n 2 [0;1;2] [0;1] [0;1]) 2000 0%N 0%N with
  | SNone _ _ => true | SFound _ _ _ => false end = true.
Proof. vm_compute. reflexivity. Qed.
Example serial_join_deadlocks_under_a_feeder :
  match feeder_some KJoinCC serial_join (fun _ => [[1;1;0;0]]) (configs_n 2 [1] [0] [0]) 2000 with
  | Some (_, _, _, 2, _) => true | _ => false end = true.
Proof. vm_compute. reflexivity. Qed.
