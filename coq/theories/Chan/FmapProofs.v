(* Chan/FmapProofs.v — deriveFmap(f, in <-chan A) <-chan B: for ALL item lists, ALL capacities
   of both channels and ALL interleavings (incl. rendezvous on unbuffered channels):
   invariant (exactly once, in order, no panic, close only after drained), a strictly
   decreasing measure (termination), deadlock freedom and "stuck => everything halted and
   everything delivered" (no leak). *)
From Coq Require Import List Arith Bool Lia.
Import ListNotations.
From Verif Require Import Chan.Sem Chan.Expected.

Local Arguments Nat.ltb : simpl never.

Section FM.
Variable f : item -> item.
Variable xs : list item.
Variables cin cout : nat.

Definition PF : list prog := fn_progs exp_fmap.

Record params := {
  rem : list item; pd : bool; ib : list item; ic : bool;
  pc : nat; a : item; ok : bool; b : item;
  ob : list item; oc : bool; log : list item; cd : bool }.

Definition mk (p:params) : state :=
  {| thr := [ TProd 0 (rem p) (pd p);
              TProg 0 (pc p) [VC (Some 0); VC (Some 1); VI (a p); VB (ok p); VI (b p)];
              TCons 1 (log p) (cd p) ];
     chs := [ {| cap := cin; buf := ib p; closed := ic p |};
              {| cap := cout; buf := ob p; closed := oc p |} ];
     wg := 0;
     panicked := false |}.

Definition mid (p:params) : list item :=
  match pc p with
  | 1 => if ok p then [f (a p)] else []
  | 2 => [f (a p)]
  | 3 => [b p]
  | _ => []
  end.

Definition Cond (p:params) : Prop :=
  map f xs = log p ++ ob p ++ mid p ++ map f (ib p) ++ map f (rem p)
  /\ pc p <= 6
  /\ (pd p = ic p)
  /\ (pd p = true -> rem p = [])
  /\ (pc p = 1 -> ok p = false -> ic p = true /\ ib p = [] /\ rem p = [])
  /\ (5 <= pc p -> ic p = true /\ ib p = [] /\ rem p = [])
  /\ (oc p = true <-> pc p = 6)
  /\ (cd p = true -> oc p = true /\ ob p = [])
  /\ length (ib p) <= cin /\ length (ob p) <= cout.

Definition Inv (s:state) : Prop := exists p, s = mk p /\ Cond p.

Definition init : state :=
  mk {| rem := xs; pd := false; ib := []; ic := false; pc := 0; a := 0; ok := false; b := 0;
        ob := []; oc := false; log := []; cd := false |}.

Lemma inv_init : Inv init.
Proof.
  eexists; split; [reflexivity|]. unfold Cond, mid; cbn.
  repeat split; try lia; try congruence; intros; try lia; try discriminate.
Qed.

(* the measure: every item still has to travel producer -> in -> forwarder -> out -> consumer *)
Definition pcw (pc:nat) (ok:bool) : nat :=
  match pc with
  | 0 => 3 | 1 => if ok then 8 else 2 | 2 => 7 | 3 => 6 | 4 => 4 | 5 => 1 | _ => 0
  end.
Definition b2n (b:bool) : nat := if b then 0 else 1.

Definition mu (s:state) : nat :=
  match thr s, chs s with
  | [TProd _ r d; TProg _ pc e; TCons _ _ d'], [ci; co] =>
      length r * 7 + b2n d + length (buf ci) * 6 + pcw pc (getb e 3) + length (buf co) + b2n d'
  | _, _ => 0
  end.

Ltac inv_some :=
  match goal with
  | H : Some _ = Some _ |- _ => inversion H; subst; clear H
  | H : None = Some _ |- _ => discriminate H
  end.

Ltac ord H := rewrite H; rewrite ?map_app; cbn [map app]; rewrite <- ?app_assoc; cbn [app]; reflexivity.

Ltac side :=
  intros; subst; rewrite ?app_length in *; cbn [length] in *;
  repeat match goal with
  | E : (_ <? _) = true |- _ => apply Nat.ltb_lt in E
  | E : (_ =? _) = true |- _ => apply Nat.eqb_eq in E
  end;
  try discriminate; try lia;
  repeat match goal with
  | H : ?x = ?x -> _ |- _ => specialize (H eq_refl)
  | H : ?a <= ?b -> _ |- _ => let L := fresh in assert (L : a <= b) by lia; specialize (H L); clear L
  | H : _ /\ _ |- _ => destruct H
  | H : _ <-> _ |- _ => destruct H
  end;
  subst; try discriminate; try lia; try congruence; auto;
  try solve [intuition (subst; try discriminate; try lia; try congruence)].

Ltac finish_inv Hord :=
  eexists (Build_params _ _ _ _ _ _ _ _ _ _ _ _); split; [unfold mk; cbn; reflexivity|];
  unfold Cond, mid in *; cbn in *;
  repeat match goal with |- _ /\ _ => split | |- _ <-> _ => split end;
  try solve [ord Hord]; side.

Ltac finish_mu :=
  unfold mu, mk, pcw, b2n; cbn; rewrite ?app_length; cbn; try lia.

Ltac finish Hord := split; [finish_inv Hord | finish_mu].

Lemma inv_step s act s' :
  Inv s -> step f PF s act = Some s' -> Inv s' /\ mu s' < mu s.
Proof.
  intros [p [-> C]] H.
  destruct C as (Hord & Hpc & Hpd & Hrem & Hok & H5 & Hoc & Hcd & Hli & Hlo).
  destruct p as [rem0 pd0 ib0 ic0 pc0 a0 ok0 b0 ob0 oc0 log0 cd0]; cbn in *.
  unfold step in H; cbn [panicked mk] in H.
  destruct act as [n | sn rn | n k | sn rn k].
  - (* Tau *)
    destruct n as [|[|[|n]]]; cbn in H.
    + (* producer *)
      destruct pd0; [destruct rem0; cbn in H; discriminate|].
      destruct rem0 as [|i r]; cbn in H.
      * destruct ic0; [discriminate Hpd|]. inv_some. finish Hord.
      * destruct ic0; [discriminate Hpd|].
        destruct (length ib0 <? cin) eqn:E; cbn in H; [|discriminate]. inv_some. finish Hord.
    + (* forwarder *)
      destruct pc0 as [|[|[|[|[|[|[|pc0]]]]]]]; try lia; cbn in H.
      * destruct ib0 as [|i r].
        -- destruct ic0; [|discriminate]. inv_some. finish Hord.
        -- inv_some. finish Hord.
      * inv_some. destruct ok0; cbn; finish Hord.
      * inv_some. finish Hord.
      * destruct oc0; [side|].
        destruct (length ob0 <? cout) eqn:E; cbn in H; [|discriminate]. inv_some. finish Hord.
      * inv_some. finish Hord.
      * destruct oc0; [side|]. inv_some. finish Hord.
      * discriminate.
    + (* consumer *)
      destruct cd0; [discriminate|]. cbn in H.
      destruct ob0 as [|i r].
      * destruct oc0; [|discriminate]. inv_some. finish Hord.
      * inv_some. finish Hord.
    + destruct n; discriminate.
  - (* Sync *)
    destruct sn as [|[|[|sn]]]; destruct rn as [|[|[|rn]]]; cbn in H; try discriminate.
    all: try (destruct sn; discriminate); try (destruct rn; discriminate).
    + (* producer -> forwarder *)
      destruct pd0; [destruct rem0; cbn in H; discriminate|].
      destruct rem0 as [|i r]; cbn in H; [destruct pc0 as [|[|[|[|[|[|[|pc0]]]]]]]; try lia; cbn in H; discriminate|].
      destruct pc0 as [|[|[|[|[|[|[|pc0]]]]]]]; try lia; cbn in H; try discriminate.
      destruct ic0; cbn in H; [discriminate|].
      destruct (cin =? 0) eqn:E; cbn in H; [|discriminate]. inv_some.
      apply Nat.eqb_eq in E. destruct ib0; [|cbn in Hli; lia].
      finish Hord.
    + (* producer -> consumer: different channels *)
      destruct pd0; [destruct rem0; cbn in H; discriminate|].
      destruct rem0 as [|i r]; cbn in H; destruct cd0; cbn in H; discriminate.
    + (* forwarder -> producer: producer never receives *)
      destruct pc0 as [|[|[|[|[|[|[|pc0]]]]]]]; try lia; cbn in H; try discriminate;
      destruct pd0; destruct rem0; cbn in H; discriminate.
    + (* forwarder -> consumer *)
      destruct pc0 as [|[|[|[|[|[|[|pc0]]]]]]]; try lia; cbn in H; try discriminate.
      destruct cd0; cbn in H; [discriminate|].
      destruct oc0; cbn in H; [discriminate|].
      destruct (cout =? 0) eqn:E; cbn in H; [|discriminate]. inv_some.
      apply Nat.eqb_eq in E. destruct ob0; [|cbn in Hlo; lia].
      finish Hord.
    + destruct cd0; cbn in H; discriminate.
    + destruct cd0; cbn in H; discriminate.
    + destruct (sn =? rn); [discriminate|]. destruct sn; cbn in H; discriminate.
  - (* TauSel: nobody selects *)
    destruct n as [|[|[|n]]]; cbn in H.
    + destruct pd0; destruct rem0; cbn in H; discriminate.
    + destruct pc0 as [|[|[|[|[|[|[|pc0]]]]]]]; try lia; cbn in H; discriminate.
    + destruct cd0; cbn in H; discriminate.
    + destruct n; discriminate.
  - (* SyncSel: nobody selects *)
    destruct (sn =? rn); [discriminate|].
    destruct sn as [|[|[|sn]]]; destruct rn as [|[|[|rn]]]; cbn in H; try discriminate.
    all: try (destruct sn; discriminate); try (destruct rn; discriminate).
    all: try (destruct pd0; destruct rem0; cbn in H; try discriminate).
    all: try (destruct pc0 as [|[|[|[|[|[|[|pc0]]]]]]]; try lia; cbn in H; try discriminate).
    all: try (destruct cd0; cbn in H; discriminate).
    all: try (destruct pd0; destruct rem0; cbn in H; discriminate).
Qed.

Lemma inv_reach s : reach f PF init s -> Inv s.
Proof.
  apply (reach_inv f PF Inv); [exact inv_init|]. intros s0 a0 s1 Hi Hs.
  exact (proj1 (inv_step _ _ _ Hi Hs)).
Qed.

(* ---------- deadlock freedom ---------- *)
Lemma inv_progress s : Inv s -> all_halted PF s = false -> exists act s', step f PF s act = Some s'.
Proof.
  intros [p [-> C]] Hh.
  destruct C as (Hord & Hpc & Hpd & Hrem & Hok & H5 & Hoc & Hcd & Hli & Hlo).
  destruct p as [rem0 pd0 ib0 ic0 pc0 a0 ok0 b0 ob0 oc0 log0 cd0]; cbn in *.
  unfold step; cbn [panicked mk].
  destruct pc0 as [|[|[|[|[|[|[|pc0]]]]]]]; try lia.
  - (* pc 0: receive from in *)
    destruct ib0 as [|i r].
    + destruct ic0.
      * exists (Tau 1); cbn; eauto.
      * subst pd0. destruct rem0 as [|i r].
        -- exists (Tau 0); cbn; eauto.
        -- destruct (0 <? cin) eqn:E.
           ++ exists (Tau 0); cbn. rewrite E. eauto.
           ++ apply Nat.ltb_ge in E. assert (Hc : cin = 0) by lia.
              exists (Sync 0 1); cbn. rewrite Hc; cbn. eauto.
    + exists (Tau 1); cbn; eauto.
  - exists (Tau 1); cbn; eauto.
  - exists (Tau 1); cbn; eauto.
  - (* pc 3: send on out *)
    assert (oc0 = false) by (destruct oc0; [destruct Hoc as [Hoc _]; specialize (Hoc eq_refl); discriminate|reflexivity]).
    subst oc0.
    assert (cd0 = false) by (destruct cd0; [destruct (Hcd eq_refl); discriminate|reflexivity]).
    subst cd0.
    destruct (length ob0 <? cout) eqn:E.
    + exists (Tau 1); cbn. rewrite E. eauto.
    + apply Nat.ltb_ge in E. destruct ob0 as [|o r].
      * cbn in E. assert (Hc : cout = 0) by lia.
        exists (Sync 1 2); cbn. rewrite Hc; cbn. eauto.
      * exists (Tau 2); cbn. eauto.
  - exists (Tau 1); cbn; eauto.
  - (* pc 5: close out *)
    assert (oc0 = false) by (destruct oc0; [destruct Hoc as [Hoc _]; specialize (Hoc eq_refl); discriminate|reflexivity]).
    subst oc0. exists (Tau 1); cbn; eauto.
  - (* pc 6: halted *)
    destruct H5 as (Hic & Hib & Hr); [lia|]. subst. cbn in Hh.
    assert (oc0 = true) by (apply Hoc; reflexivity). subst oc0.
    destruct cd0; [cbn in Hh; discriminate Hh|].
    exists (Tau 2); cbn. destruct ob0; eauto.
Qed.

(* ---------- what the invariant says in terms of observations ---------- *)
Lemma inv_obs s : Inv s ->
  panicked s = false
  /\ (exists rest, map f xs = cons_log s 2 ++ rest)
  /\ (ch_closed s 1 = true ->
        prod_done s 0 = true /\ ch_closed s 0 = true /\ ch_buf s 0 = [] /\ prod_rem s 0 = []
        /\ map f xs = cons_log s 2 ++ ch_buf s 1)
  /\ (all_halted PF s = true -> cons_log s 2 = map f xs /\ ch_closed s 1 = true).
Proof.
  intros [p [-> C]].
  destruct C as (Hord & Hpc & Hpd & Hrem & Hok & H5 & Hoc & Hcd & Hli & Hlo).
  destruct p as [rem0 pd0 ib0 ic0 pc0 a0 ok0 b0 ob0 oc0 log0 cd0]; cbn in *.
  split; [reflexivity|]. split; [eauto|]. split.
  - intros ->. destruct Hoc as [Hoc _]. specialize (Hoc eq_refl). subst pc0.
    destruct H5 as (Hic & Hib & Hr); [lia|]. subst. unfold mid in Hord; cbn in Hord.
    rewrite app_nil_r in Hord. repeat split; auto.
  - unfold all_halted; cbn. intros Hh.
    destruct pd0; [|discriminate]. cbn in Hh.
    destruct pc0 as [|[|[|[|[|[|[|pc0]]]]]]]; try lia; cbn in Hh; try discriminate.
    destruct cd0; [|discriminate].
    destruct H5 as (Hic & Hib & Hr); [lia|]. subst.
    destruct (Hcd eq_refl) as [-> ->]. unfold mid in Hord; cbn in Hord.
    rewrite app_nil_r in Hord. split; [symmetry; exact Hord|reflexivity].
Qed.

End FM.

(* ---------- the theorems, stated on the initial state used by the explorer ---------- *)
Definition fmap_init (xs:list item) (cin cout:nat) : state :=
  {| thr := [ TProd 0 xs false;
              TProg 0 0 [VC (Some 0); VC (Some 1); VI 0; VB false; VI 0];
              TCons 1 [] false ];
     chs := [ {| cap := cin; buf := []; closed := false |};
              {| cap := cout; buf := []; closed := false |} ];
     wg := 0; panicked := false |}.

(* safety in every reachable state: no panic (no send on a closed channel, no double close);
   what the consumer received is a prefix of map f xs (each item at most once, in order, f
   applied); out is closed only when the producer has closed, in is drained, and every item
   is delivered or in out's buffer *)
Theorem fmap_safety f xs cin cout s :
  reach f PF (fmap_init xs cin cout) s ->
  panicked s = false
  /\ (exists rest, map f xs = cons_log s 2 ++ rest)
  /\ (ch_closed s 1 = true ->
        prod_done s 0 = true /\ ch_closed s 0 = true /\ ch_buf s 0 = [] /\ prod_rem s 0 = []
        /\ map f xs = cons_log s 2 ++ ch_buf s 1).
Proof.
  intros R. apply (inv_reach f xs cin cout) in R.
  destruct (inv_obs f xs cin cout s R) as (H1 & H2 & H3 & _). auto.
Qed.

(* deadlock freedom and absence of leaks: a reachable state in which no action is possible
   has every thread halted (producer closed, goroutine at its end, consumer saw the close)
   and the consumer has received exactly map f xs *)
Theorem fmap_stuck_is_done f xs cin cout s :
  reach f PF (fmap_init xs cin cout) s -> stuck f PF s ->
  all_halted PF s = true /\ cons_log s 2 = map f xs /\ ch_closed s 1 = true.
Proof.
  intros R St. apply (inv_reach f xs cin cout) in R.
  destruct (all_halted PF s) eqn:E.
  - destruct (inv_obs f xs cin cout s R) as (_ & _ & _ & H4). destruct (H4 E). auto.
  - destruct (inv_progress f xs cin cout s R E) as (act & s' & Hs). rewrite St in Hs. discriminate.
Qed.

(* termination: every step decreases the measure, so every execution from the initial state
   has at most mu(init) = 7*|xs| + 5 steps *)
Theorem fmap_measure_decreases f xs cin cout s act s' :
  reach f PF (fmap_init xs cin cout) s -> step f PF s act = Some s' -> mu s' < mu s.
Proof.
  intros R H. apply (inv_reach f xs cin cout) in R.
  exact (proj2 (inv_step f xs cin cout _ _ _ R H)).
Qed.

Theorem fmap_terminates f xs cin cout l s :
  run f PF (fmap_init xs cin cout) l = Some s -> length l <= length xs * 7 + 5.
Proof.
  intros H.
  pose proof (run_bounded f PF (Inv f xs cin cout) mu (inv_step f xs cin cout) l _ _
                (inv_init f xs cin cout) H) as B.
  unfold init, mk, mu in B; cbn in B. lia.
Qed.

(* non-vacuity: a complete execution with a rendezvous channel and a buffered one *)
Example fmap_example :
  let sched := [Sync 0 1; Tau 1; Tau 1; Tau 1; Tau 1; Tau 0; Tau 1; Tau 1; Tau 1; Tau 2; Tau 2] in
  match run S PF (fmap_init [5] 0 1) sched with
  | Some s => all_halted PF s = true /\ cons_log s 2 = [6] /\ enabled S PF s = []
  | None => False
  end.
Proof. vm_compute. auto. Qed.
