(* Chan/JoinVar.v — deriveJoin(c0 chan T, ..., c(n-1) chan T) <-chan T (select loop that nils out
   closed inputs), for ANY n: program-lookup lemmas for the n-parametric program
   [joinvar_main n], environment lemmas, canonical form of reachable states, invariant, measure.

   thr = producers (one per input) ++ [main; consumer]      (main = thread n, consumer = n+1)
   chs = input channels ++ [out]                              (out = channel n) *)
From Coq Require Import List Arith Bool Lia.
Import ListNotations.
From Verif Require Import Chan.Sem Chan.Expected Chan.Lemmas.

(* ---------- locations of the main goroutine ---------- *)
Inductive loc := LTest (k:nat) | LSel | LCase (i off:nat) | LEnd | LClose | LHalt.

Definition pc_of (n:nat) (l:loc) : nat :=
  match l with
  | LTest k => k
  | LSel => n
  | LCase i off => var_case_pc n i + off
  | LEnd => var_end n
  | LClose => S (var_end n)
  | LHalt => S (S (var_end n))
  end.

Definition sel_cases (n:nat) : list (var*var*var*nat) :=
  map (fun i => (i, n + 1 + 2 * i, n + 2 + 2 * i, var_case_pc n i)) (seq 0 n).

Definition main_instr (n:nat) (l:loc) : instr :=
  match l with
  | LTest k => BrNil k (if S k =? n then S (var_end n) else S k) n
  | LSel => Select (sel_cases n)
  | LCase i 0 => Br (n + 2 + 2 * i) (var_case_pc n i + 3) (var_case_pc n i + 1)
  | LCase i 1 => SetNil i
  | LCase i 2 => Jmp (var_case_pc n i + 4)
  | LCase i 3 => Send n (n + 1 + 2 * i)
  | LCase i _ => Jmp (var_end n)
  | LEnd => Jmp 0
  | LClose => Close n
  | LHalt => Halt
  end.

Definition wf_loc (n:nat) (l:loc) : Prop :=
  match l with
  | LTest k => k < n
  | LCase i off => i < n /\ off < 5
  | _ => True
  end.

Lemma nth_error_seq a m k : k < m -> nth_error (seq a m) k = Some (a + k).
Proof.
  revert a k; induction m as [|m IH]; intros a [|k] H; cbn; try lia.
  - f_equal; lia.
  - rewrite IH by lia. f_equal; lia.
Qed.

Lemma flat_map_block_length {A} (g:nat -> list A) b :
  (forall x, length (g x) = b) -> forall m a, length (flat_map g (seq a m)) = b * m.
Proof.
  intros Hg. induction m as [|m IH]; intros a; cbn; [lia|].
  rewrite app_length, Hg, IH. lia.
Qed.

Lemma flat_map_block {A} (g:nat -> list A) b :
  (forall x, length (g x) = b) ->
  forall m a i off, i < m -> off < b ->
  nth_error (flat_map g (seq a m)) (b * i + off) = nth_error (g (a + i)) off.
Proof.
  intros Hg. induction m as [|m IH]; intros a i off Hi Ho; [lia|]. cbn.
  destruct i as [|i].
  - rewrite Nat.mul_0_r, Nat.add_0_r. cbn. rewrite nth_error_app1 by (rewrite Hg; lia). reflexivity.
  - replace (b * S i + off) with (length (g a) + (b * i + off)) by (rewrite Hg; lia).
    rewrite nth_error_app_r. rewrite IH by lia. f_equal. f_equal. lia.
Qed.

Lemma var_case_length n i : length (var_case n i) = 5.
Proof. reflexivity. Qed.

Lemma var_tests_length n : length (var_nil_tests n) = n.
Proof. unfold var_nil_tests. rewrite map_length, seq_length. reflexivity. Qed.

Lemma nth_error_app_at {A} (l1 l2:list A) k x : k = length l1 + x -> nth_error (l1 ++ l2) k = nth_error l2 x.
Proof. intros ->. apply nth_error_app_r. Qed.

Lemma instr_at_loc n l : wf_loc n l -> nth_error (joinvar_main n) (pc_of n l) = Some (main_instr n l).
Proof.
  unfold joinvar_main.
  pose proof (var_tests_length n) as LT.
  pose proof (flat_map_block_length _ 5 (var_case_length n) n 0) as LF.
  destruct l as [k| |i off| | |]; cbn [pc_of wf_loc]; intros W.
  - rewrite nth_error_app1 by lia.
    unfold var_nil_tests. erewrite map_nth_error; [|apply nth_error_seq; exact W]. reflexivity.
  - rewrite (nth_error_app_at _ _ _ 0) by lia. reflexivity.
  - destruct W as [Wi Wo].
    rewrite (nth_error_app_at _ _ _ (1 + (5 * i + off))) by (unfold var_case_pc; lia).
    cbn [app nth_error Nat.add].
    rewrite nth_error_app1 by lia.
    rewrite (flat_map_block _ 5 (var_case_length n)) by lia. cbn [Nat.add].
    destruct off as [|[|[|[|[|off]]]]]; try lia; reflexivity.
  - rewrite (nth_error_app_at _ _ _ (1 + (5 * n + 0))) by (unfold var_end; lia).
    cbn [app nth_error Nat.add].
    rewrite (nth_error_app_at _ _ _ 0) by lia. reflexivity.
  - rewrite (nth_error_app_at _ _ _ (1 + (5 * n + 1))) by (unfold var_end; lia).
    cbn [app nth_error Nat.add].
    rewrite (nth_error_app_at _ _ _ 1) by lia. reflexivity.
  - rewrite (nth_error_app_at _ _ _ (1 + (5 * n + 2))) by (unfold var_end; lia).
    cbn [app nth_error Nat.add].
    rewrite (nth_error_app_at _ _ _ 2) by lia. reflexivity.
Qed.

Lemma sel_cases_nth n k : k < n ->
  nth_error (sel_cases n) k = Some (k, n + 1 + 2 * k, n + 2 + 2 * k, var_case_pc n k).
Proof.
  intros H. unfold sel_cases. erewrite map_nth_error; [|apply nth_error_seq; exact H]. reflexivity.
Qed.
Lemma sel_cases_length n : length (sel_cases n) = n.
Proof. unfold sel_cases. rewrite map_length, seq_length. reflexivity. Qed.

(* ---------- the environment of main: cs ++ [out] ++ vo ---------- *)
Definition menv_of (n:nat) (cs vo:list value) : list value := cs ++ VC (Some n) :: vo.

Section Env.
Variable n : nat.
Variables cs vo : list value.
Hypothesis Hcs : length cs = n.

Lemma env_c i : i < n -> nth_error (menv_of n cs vo) i = nth_error cs i.
Proof. intros. unfold menv_of. apply nth_error_app1. lia. Qed.
Lemma env_out : nth_error (menv_of n cs vo) n = Some (VC (Some n)).
Proof. unfold menv_of. rewrite <- Hcs at 2. replace (length cs) with (length cs + 0) by lia.
       rewrite nth_error_app_r. reflexivity. Qed.
Lemma env_vo x : nth_error (menv_of n cs vo) (n + 1 + x) = nth_error vo x.
Proof. unfold menv_of. replace (n + 1 + x) with (length cs + S x) by lia.
       rewrite nth_error_app_r. reflexivity. Qed.
Lemma env_upd_c i v : i < n -> upd (menv_of n cs vo) i v = menv_of n (upd cs i v) vo.
Proof. intros. unfold menv_of. apply upd_app_l. lia. Qed.
Lemma env_upd_vo x v : upd (menv_of n cs vo) (n + 1 + x) v = menv_of n cs (upd vo x v).
Proof. unfold menv_of. replace (n + 1 + x) with (length cs + S x) by lia.
       rewrite upd_app_r. reflexivity. Qed.
End Env.

(* ---------- measure ---------- *)
Definition b2n (b:bool) : nat := if b then 0 else 1.
Definition slotw (n:nat) (v:value) : nat := match v with VC None => 0 | _ => n + 7 end.
Definition locw (n:nat) (l:loc) (ok:bool) : nat :=
  match l with
  | LTest k => n - k + 4
  | LSel => 3
  | LCase _ 0 => if ok then n + 9 else 2
  | LCase _ 1 => 1
  | LCase _ 2 => n + 7
  | LCase _ 3 => n + 8
  | LCase _ _ => n + 6
  | LEnd => n + 5
  | LClose => 1
  | LHalt => 0
  end.
Definition prodw (n:nat) (t:thread) : nat :=
  match t with TProd _ r d => length r * (n + 8) + b2n d | _ => 0 end.
Definition chw (n:nat) (c:chan) : nat := length (buf c) * (n + 7).

Section JV.
Variable f : item -> item.
Variable inputs : list (nat * list item).
Variable cout : nat.

Definition N : nat := length inputs.
Definition PV : list prog := [joinvar_main N].

Record params := {
  prods : list thread; chans : list chan;
  mpc : nat; menv : list value;
  ob : list item; oc : bool; log : list item; cd : bool;
  ploc : loc; cs : list value; vo : list value; cv : item; cok : bool;
  dls : list (list item) }.

Definition mk (p:params) : state :=
  {| thr := prods p ++ [TProg 0 (mpc p) (menv p); TCons N (log p) (cd p)];
     chs := chans p ++ [{| cap := cout; buf := ob p; closed := oc p |}];
     wg := 0; panicked := false |}.

(* what main holds of input i *)
Definition hold (l:loc) (v:item) (ok:bool) (i:nat) : list item :=
  match l with
  | LCase i' 0 => if (i' =? i) && ok then [v] else []
  | LCase i' 3 => if i' =? i then [v] else []
  | _ => []
  end.

Definition PoolV (p:params) (i:nat) : Prop :=
  exists cp its r d ch dl slot,
    nth_error inputs i = Some (cp, its) /\
    nth_error (prods p) i = Some (TProd i r d) /\
    nth_error (chans p) i = Some ch /\ cap ch = cp /\
    nth_error (dls p) i = Some dl /\
    nth_error (cs p) i = Some slot /\
    d = closed ch /\ (d = true -> r = []) /\ length (buf ch) <= cp /\
    (slot = VC (Some i) \/ (slot = VC None /\ closed ch = true /\ buf ch = [] /\ r = [])) /\
    its = dl ++ hold (ploc p) (cv p) (cok p) i ++ buf ch ++ r.

Definition all_nil (cs:list value) : Prop := forall j, j < N -> nth_error cs j = Some (VC None).

Definition LocI (p:params) : Prop :=
  match ploc p with
  | LTest k => k < N /\ (forall j, j < k -> nth_error (cs p) j = Some (VC None))
  | LSel => exists j, j < N /\ nth_error (cs p) j = Some (VC (Some j))
  | LCase i off =>
      i < N /\ off < 5
      /\ nth_error (vo p) (2 * i) = Some (VI (cv p)) /\ nth_error (vo p) (2 * i + 1) = Some (VB (cok p))
      /\ (off = 3 -> cok p = true)
      /\ (off = 1 -> cok p = false)
      /\ (off <= 1 -> nth_error (cs p) i = Some (VC (Some i)))
      /\ (off <= 1 -> cok p = false ->
            exists ch r d, nth_error (chans p) i = Some ch /\ nth_error (prods p) i = Some (TProd i r d)
                           /\ closed ch = true /\ buf ch = [] /\ r = [])
  | LEnd => True
  | LClose | LHalt => all_nil (cs p)
  end.

Definition Cond (p:params) : Prop :=
  length (prods p) = N /\ length (chans p) = N /\ length (dls p) = N
  /\ length (cs p) = N /\ length (vo p) = 2 * N
  /\ mpc p = pc_of N (ploc p) /\ wf_loc N (ploc p)
  /\ menv p = menv_of N (cs p) (vo p)
  /\ (forall i, i < N -> PoolV p i)
  /\ LocI p
  /\ Merge (dls p) (log p ++ ob p)
  /\ (oc p = true <-> ploc p = LHalt)
  /\ (cd p = true -> oc p = true /\ ob p = [])
  /\ length (ob p) <= cout.

Definition Inv (s:state) : Prop := exists p, s = mk p /\ Cond p.

Definition mu (p:params) : nat :=
  sumw (prodw N) (prods p) + sumw (chw N) (chans p) + sumw (slotw N) (cs p)
  + locw N (ploc p) (cok p) + length (ob p) + b2n (cd p).

Definition init_prods : list thread :=
  map (fun '(i, ci) => TProd i (snd ci) false) (combine (seq 0 N) inputs).
Definition init_chans : list chan :=
  map (fun ci:nat * list item => {| cap := fst ci; buf := []; closed := false |}) inputs.
Definition init_cs : list value := map (fun i => VC (Some i)) (seq 0 N).

Definition init_params : params :=
  {| prods := init_prods; chans := init_chans; mpc := 0;
     menv := menv_of N init_cs (repeat (VI 0) (2 * N));
     ob := []; oc := false; log := []; cd := false;
     ploc := LTest 0; cs := init_cs; vo := repeat (VI 0) (2 * N); cv := 0; cok := false;
     dls := map (fun _ => []) inputs |}.
Definition init : state := mk init_params.

End JV.
