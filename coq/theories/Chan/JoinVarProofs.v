(* Chan/JoinVarProofs.v — variadic deriveJoin(c0, ..., c(n-1)), any n >= 1: every action from a
   canonical state leads to a canonical state and decreases the measure. *)
From Coq Require Import List Arith Bool Lia.
Import ListNotations.
From Verif Require Import Chan.Sem Chan.Expected Chan.Lemmas Chan.JoinVar.

Local Arguments Nat.ltb : simpl never.
Local Arguments JoinVar.N : simpl never.
Local Arguments joinvar_main : simpl never.
Local Arguments menv_of : simpl never.
Local Arguments pc_of : simpl never.

Ltac inv_some :=
  match goal with
  | H : Some _ = Some ?s |- _ => injection H as H; subst s
  | H : None = Some _ |- _ => discriminate H
  end.

Ltac show_goal := match goal with |- ?G => idtac "GOAL:" G end.

Section ListAccess.
Context {A : Type}.
Variables (l : list A) (a b : A) (n : nat).
Hypothesis HL : length l = n.

Lemma at_main : nth_error (l ++ [a; b]) n = Some a.
Proof. rewrite (nth_error_app_at _ _ _ 0) by lia. reflexivity. Qed.
Lemma at_cons : nth_error (l ++ [a; b]) (S n) = Some b.
Proof. rewrite (nth_error_app_at _ _ _ 1) by lia. reflexivity. Qed.
Lemma at_in i : i < n -> nth_error (l ++ [a; b]) i = nth_error l i.
Proof. intros. apply nth_error_app1. lia. Qed.
Lemma at_none k : S n < k -> nth_error (l ++ [a; b]) k = None.
Proof. intros. apply nth_error_None. rewrite app_length. cbn. lia. Qed.
Lemma upd_at_main x : upd (l ++ [a; b]) n x = l ++ [x; b].
Proof. replace n with (length l + 0) by lia. rewrite upd_app_r. reflexivity. Qed.
Lemma upd_at_cons x : upd (l ++ [a; b]) (S n) x = l ++ [a; x].
Proof. replace (S n) with (length l + 1) by lia. rewrite upd_app_r. reflexivity. Qed.
Lemma upd_at_in i x : i < n -> upd (l ++ [a; b]) i x = upd l i x ++ [a; b].
Proof. intros. apply upd_app_l. lia. Qed.

Lemma at_out : nth_error (l ++ [a]) n = Some a.
Proof. rewrite (nth_error_app_at _ _ _ 0) by lia. reflexivity. Qed.
Lemma at_in1 i : i < n -> nth_error (l ++ [a]) i = nth_error l i.
Proof. intros. apply nth_error_app1. lia. Qed.
Lemma upd_at_out x : upd (l ++ [a]) n x = l ++ [x].
Proof. replace n with (length l + 0) by lia. rewrite upd_app_r. reflexivity. Qed.
Lemma upd_at_in1 i x : i < n -> upd (l ++ [a]) i x = upd l i x ++ [a].
Proof. intros. apply upd_app_l. lia. Qed.
End ListAccess.

Section JVP.
Variable f : item -> item.
Variable inputs : list (nat * list item).
Variable cout : nat.

Notation N := (N inputs).
Notation PV := (PV inputs).
Notation mk := (mk inputs cout).
Notation Cond := (Cond inputs cout).
Notation PoolV := (PoolV inputs).
Notation LocI := (LocI inputs).
Notation mu := (mu inputs).

Definition Good (p:params) (s':state) : Prop :=
  exists p', s' = mk p' /\ Cond p' /\ mu p' < mu p.

Ltac open_cond C :=
  unfold JoinVar.Cond in C; cbn [prods chans mpc menv ob oc log cd ploc cs vo cv cok dls] in C;
  destruct C as (HLp & HLc & HLd & HLs & HLv & Hpc & Hwf & Henv & HP & HL & HM & Hoc & Hcd & Hlo).

Ltac open_p p :=
  destruct p as [prods0 chans0 mpc0 menv0 ob0 oc0 log0 cd0 loc0 cs0 vo0 cv0 cok0 dls0];
  cbn [prods chans mpc menv ob oc log cd ploc cs vo cv cok dls] in *.

(* PoolV only looks at index j of the lists and at what main holds of input j *)
Lemma poolv_frame p p' j :
  nth_error (prods p') j = nth_error (prods p) j ->
  nth_error (chans p') j = nth_error (chans p) j ->
  nth_error (dls p') j = nth_error (dls p) j ->
  nth_error (cs p') j = nth_error (cs p) j ->
  hold (ploc p') (cv p') (cok p') j = hold (ploc p) (cv p) (cok p) j ->
  PoolV p j -> PoolV p' j.
Proof.
  intros E1 E2 E3 E4 E5 (cp & its & r & d & ch & dl & slot & H).
  exists cp, its, r, d, ch, dl, slot. rewrite E1, E2, E3, E4, E5. exact H.
Qed.

Lemma hold_other i off v ok j : i <> j -> hold (LCase i off) v ok j = [].
Proof.
  intros H. apply Nat.eqb_neq in H. unfold hold.
  destruct off as [|[|[|[|off]]]]; try reflexivity; rewrite H; reflexivity.
Qed.

(* the split of Cond into its 14 conjuncts *)
Ltac split_cond :=
  unfold JoinVar.Cond; cbn [prods chans mpc menv ob oc log cd ploc cs vo cv cok dls];
  split; [|split; [|split; [|split; [|split; [|split; [|split; [|split; [|split; [|split; [|split; [|split; [|split]]]]]]]]]]]].

Ltac light :=
  try assumption; try reflexivity; try (intros; reflexivity); try lia; try discriminate; try congruence;
  try solve [intros; repeat split; auto; try discriminate; try lia].

(* ---------- producer k ---------- *)
Lemma step_prod p k s' :
  k < N -> Cond p -> step f PV (mk p) (Tau k) = Some s' -> Good p s'.
Proof.
  intros Hk C H. pose proof C as C0. open_p p. open_cond C.
  unfold step in H; cbn [panicked JoinVar.mk thr chs wg] in H.
  rewrite (at_in _ _ _ _ HLp) in H by exact Hk.
  destruct (HP k Hk) as (cp & its & r & d & ch & dl & slot & E1 & E2 & E3 & E4 & E5 & E6 & E7 & E8 & E9 & E10 & E11).
  cbn [prods chans dls cs ploc cv cok] in *.
  rewrite E2 in H. destruct ch as [chcap chbuf chcl]. cbn in E4, E7, E8, E9, E10, E11. subst chcap d.
  destruct chcl; [destruct r; cbn in H; discriminate|].
  destruct r as [|x r]; cbn in H; rewrite (at_in1 _ _ _ HLc) in H by exact Hk; rewrite E3 in H; cbn in H.
  - (* close *)
    inv_some. unfold set_ch, set_thr, JoinVar.mk; cbn [thr chs wg panicked prods chans mpc menv ob oc log cd].
    rewrite (upd_at_in _ _ _ _ HLp) by exact Hk. rewrite (upd_at_in1 _ _ _ HLc) by exact Hk.
    pose proof (sumw_upd (prodw N) prods0 k _ (TProd k [] true) E2) as Hw1. cbn in Hw1.
    pose proof (sumw_upd (chw N) chans0 k _ {| cap := cp; buf := chbuf; closed := true |} E3) as Hw2. cbn in Hw2.
    exists {| prods := upd prods0 k (TProd k [] true);
              chans := upd chans0 k {| cap := cp; buf := chbuf; closed := true |};
              mpc := mpc0; menv := menv0; ob := ob0; oc := oc0; log := log0; cd := cd0;
              ploc := loc0; cs := cs0; vo := vo0; cv := cv0; cok := cok0; dls := dls0 |}.
    split; [reflexivity|]. split.
    + split_cond; light; try (rewrite upd_length; assumption).
      * intros j Hj. destruct (Nat.eq_dec j k) as [->|Hne].
        -- exists cp, its, [], true, {| cap := cp; buf := chbuf; closed := true |}, dl, slot.
           cbn [prods chans dls cs ploc cv cok].
           rewrite !nth_error_upd_eq by lia. repeat split; auto.
           destruct E10 as [E10|(E10 & Hx & _)]; [left; exact E10|discriminate Hx].
        -- apply (poolv_frame _ _ j) with (6 := HP j Hj); cbn [prods chans dls cs ploc cv cok]; auto;
             apply nth_error_upd_neq; auto.
      * (* LocI: the clause about the closed channel of the current case *)
        unfold JoinVar.LocI in *; cbn [ploc cs vo cv cok chans prods] in *.
        destruct loc0 as [t| |i off| | |]; auto.
        destruct HL as (L1 & L2 & L3 & L4 & L5 & L6 & L7 & L8). repeat split; auto.
        intros Ho Hc. destruct (L8 Ho Hc) as (ch' & r' & d' & X1 & X2 & X3 & X4 & X5).
        destruct (Nat.eq_dec i k) as [->|Hne].
        -- rewrite E3 in X1. inversion X1; subst ch'. cbn in X3. discriminate.
        -- exists ch', r', d'. rewrite !nth_error_upd_neq by auto. auto.
    + unfold JoinVar.mu; cbn [prods chans cs ploc cok ob cd]. lia.
  - (* send through the buffer *)
    destruct (length chbuf <? cp) eqn:E; cbn in H; [|discriminate].
    inv_some. unfold set_ch, set_thr, JoinVar.mk; cbn [thr chs wg panicked prods chans mpc menv ob oc log cd].
    rewrite (upd_at_in _ _ _ _ HLp) by exact Hk. rewrite (upd_at_in1 _ _ _ HLc) by exact Hk.
    pose proof (sumw_upd (prodw N) prods0 k _ (TProd k r false) E2) as Hw1. cbn in Hw1.
    pose proof (sumw_upd (chw N) chans0 k _ {| cap := cp; buf := chbuf ++ [x]; closed := false |} E3) as Hw2.
    cbn in Hw2. rewrite app_length in Hw2. cbn in Hw2.
    apply Nat.ltb_lt in E.
    exists {| prods := upd prods0 k (TProd k r false);
              chans := upd chans0 k {| cap := cp; buf := chbuf ++ [x]; closed := false |};
              mpc := mpc0; menv := menv0; ob := ob0; oc := oc0; log := log0; cd := cd0;
              ploc := loc0; cs := cs0; vo := vo0; cv := cv0; cok := cok0; dls := dls0 |}.
    split; [reflexivity|]. split.
    + split_cond; light; try (rewrite upd_length; assumption).
      * intros j Hj. destruct (Nat.eq_dec j k) as [->|Hne].
        -- exists cp, its, r, false, {| cap := cp; buf := chbuf ++ [x]; closed := false |}, dl, slot.
           cbn [prods chans dls cs ploc cv cok].
           rewrite !nth_error_upd_eq by lia. repeat split; auto; try discriminate.
           ++ cbn. rewrite app_length. cbn. lia.
           ++ destruct E10 as [E10|(E10 & Hx & _)]; [left; exact E10|discriminate Hx].
           ++ cbn. rewrite E11. rewrite <- !app_assoc. reflexivity.
        -- apply (poolv_frame _ _ j) with (6 := HP j Hj); cbn [prods chans dls cs ploc cv cok]; auto;
             apply nth_error_upd_neq; auto.
      * unfold JoinVar.LocI in *; cbn [ploc cs vo cv cok chans prods] in *.
        destruct loc0 as [t| |i off| | |]; auto.
        destruct HL as (L1 & L2 & L3 & L4 & L5 & L6 & L7 & L8). repeat split; auto.
        intros Ho Hc. destruct (L8 Ho Hc) as (ch' & r' & d' & X1 & X2 & X3 & X4 & X5).
        destruct (Nat.eq_dec i k) as [->|Hne].
        -- rewrite E3 in X1. inversion X1; subst ch'. cbn in X3. discriminate.
        -- exists ch', r', d'. rewrite !nth_error_upd_neq by auto. auto.
    + unfold JoinVar.mu; cbn [prods chans cs ploc cok ob cd]. lia.
Qed.

Hypothesis HN : 0 < N.

(* the slot of input i in main's environment *)
Definition slot_cid (v:value) : option cid := match v with VC c => c | _ => None end.

Lemma getc_slot cs0 vo0 i : length cs0 = N -> i < N ->
  getc (menv_of N cs0 vo0) i = match nth_error cs0 i with Some v => slot_cid v | None => None end.
Proof.
  intros L H. unfold getc. rewrite (env_c N cs0 vo0 L i H).
  destruct (nth_error cs0 i) as [[ | | | ]|]; reflexivity.
Qed.

(* what main wants, by location *)
Definition main_want (l:loc) (cs0:list value) (v:item) : want :=
  match l with
  | LSel => WSel (map (fun '(c,_,_,_) => getc (menv_of N cs0 []) c) (sel_cases N))
  | LCase _ 3 => WSend N v
  | LClose => WClose N
  | LHalt => WNone
  | _ => WLocal
  end.

Lemma sel_slots cs0 vo0 : length cs0 = N ->
  map (fun '(c,_,_,_) => getc (menv_of N cs0 vo0) c) (sel_cases N)
  = map (fun i => match nth_error cs0 i with Some v => slot_cid v | None => None end) (seq 0 N).
Proof.
  intros L. unfold sel_cases. rewrite map_map. apply map_ext_in. intros i Hi.
  apply in_seq in Hi. apply getc_slot; [exact L|lia].
Qed.

Lemma main_wants p : Cond p ->
  wants PV (TProg 0 (mpc p) (menv p)) =
  match ploc p with
  | LSel => WSel (map (fun i => match nth_error (cs p) i with Some v => slot_cid v | None => None end) (seq 0 N))
  | LCase _ 3 => WSend N (cv p)
  | LClose => WClose N
  | LHalt => WNone
  | _ => WLocal
  end.
Proof.
  intros C. open_p p. open_cond C.
  unfold wants, instr_at, code, JoinVar.PV. cbn [nth].
  rewrite Hpc, (instr_at_loc N loc0 Hwf). subst menv0.
  destruct loc0 as [t| |i off| | |]; cbn [main_instr]; try reflexivity.
  - rewrite (sel_slots cs0 vo0 HLs). reflexivity.
  - destruct off as [|[|[|[|off]]]]; try reflexivity.
    unfold getc, geti. rewrite (env_out N cs0 vo0 HLs).
    unfold JoinVar.LocI in HL; cbn [ploc vo cv cok cs prods chans] in HL. destruct HL as (L1 & L2 & L3 & L4 & _).
    replace (N + 1 + 2 * i) with (N + 1 + (2 * i)) by lia. rewrite (env_vo N cs0 vo0 HLs), L3. reflexivity.
  - unfold getc. rewrite (env_out N cs0 vo0 HLs). reflexivity.
Qed.

(* all PoolV facts survive when no list changes and main holds the same *)
Lemma poolv_same p p' :
  prods p' = prods p -> chans p' = chans p -> dls p' = dls p -> cs p' = cs p ->
  (forall j, j < N -> hold (ploc p') (cv p') (cok p') j = hold (ploc p) (cv p) (cok p) j) ->
  (forall j, j < N -> PoolV p j) -> forall j, j < N -> PoolV p' j.
Proof.
  intros E1 E2 E3 E4 E5 HP j Hj. apply (poolv_frame p p' j); try congruence; auto.
Qed.

(* ---------- the consumer ---------- *)
Lemma step_cons p s' : Cond p -> step f PV (mk p) (Tau (S N)) = Some s' -> Good p s'.
Proof.
  intros C H. pose proof C as C0. open_p p. open_cond C.
  unfold step in H; cbn [panicked JoinVar.mk thr chs wg] in H.
  rewrite (at_cons _ _ _ _ HLp) in H. cbn in H.
  destruct cd0; [discriminate|]. cbn in H. unfold recv_buf in H.
  unfold JoinVar.mk in H; cbn [thr chs wg panicked prods chans mpc menv ob oc log cd] in H.
  rewrite (at_out _ _ _ HLc) in H. cbn in H.
  destruct ob0 as [|x r].
  - destruct oc0; [|discriminate]. inv_some.
    unfold set_thr, JoinVar.mk; cbn [thr chs wg panicked prods chans mpc menv ob oc log cd].
    rewrite (upd_at_cons _ _ _ _ HLp).
    exists {| prods := prods0; chans := chans0; mpc := mpc0; menv := menv0; ob := []; oc := true;
              log := log0; cd := true; ploc := loc0; cs := cs0; vo := vo0; cv := cv0; cok := cok0; dls := dls0 |}.
    split; [reflexivity|]. split.
    + split_cond; light.
    + unfold JoinVar.mu; cbn. lia.
  - inv_some.
    unfold set_thr, set_ch, JoinVar.mk; cbn [thr chs wg panicked prods chans mpc menv ob oc log cd].
    rewrite (upd_at_cons _ _ _ _ HLp), (upd_at_out _ _ _ HLc).
    exists {| prods := prods0; chans := chans0; mpc := mpc0; menv := menv0; ob := r; oc := oc0;
              log := log0 ++ [x]; cd := false; ploc := loc0; cs := cs0; vo := vo0; cv := cv0; cok := cok0; dls := dls0 |}.
    split; [reflexivity|]. split.
    + split_cond; light.
      * rewrite <- app_assoc. exact HM.
      * cbn in Hlo. lia.
    + unfold JoinVar.mu; cbn. lia.
Qed.

End JVP.
